(* C06, whole graphs: the static hash of a sub-pipeline (Graph.hash(): bottom-up Edge._hash_graph with the entry id
   replaced by a placeholder) can be read back as a FUNCTION of the entry id, and that function is what the
   sub-pipeline computes.  Hence two sub-pipelines with equal static hashes compute the same function of the id.
   Over the REGENERATED _hash_graph / _make_hash bodies. *)
From Connectome Require Import Values Attrs VM Edges EdgesGen HashSound GraphHashModel.
Local Open Scope list_scope.

(* ---------- reading the routing table back from the leaf SwitchEdge._hash_graph stores ---------- *)
Fixpoint lookup_rows (rows : list val) (k : val) : option nat :=
  match rows with
  | [] => None
  | VTuple [k'; VInt z] :: r => if pyeq k k' then Some (Z.to_nat z) else lookup_rows r k
  | _ :: r => lookup_rows r k
  end.
Definition lookup_leaf (tbl k : val) : option nat := match tbl with VTuple rows => lookup_rows rows k | _ => None end.

Lemma lookup_rows_items l k :
  lookup_rows (map (fun kv : val * nat => VTuple [fst kv; VInt (Z.of_nat (snd kv))]) l) k = lookup l k.
Proof.
  induction l as [|[k' i] l IH]; cbn; [reflexivity|]. destruct (pyeq k k'); [rewrite Nat2Z.id; reflexivity|exact IH].
Qed.

(* a Python dict has one entry per key: no two keys of the table are ==-equal to the same probe *)
Definition matches (t : list (val * nat)) (k : val) : list (val * nat) := filter (fun kv => pyeq k (fst kv)) t.
Definition uniq (t : list (val * nat)) : Prop := forall k, List.length (matches t k) <= 1.

Lemma lookup_matches t k : lookup t k = option_map snd (hd_error (matches t k)).
Proof.
  induction t as [|[k' i] t IH]; cbn; [reflexivity|]. destruct (pyeq k k'); cbn; [reflexivity|exact IH].
Qed.
Lemma matches_insert_len x l k : List.length (matches (insert_item x l) k) = List.length (matches (x :: l) k).
Proof.
  induction l as [|y l IH]; [reflexivity|]. cbn [insert_item]. destruct (key_leb x y); [reflexivity|].
  unfold matches in *. cbn [filter] in *. destruct (pyeq k (fst y)); destruct (pyeq k (fst x)); cbn [List.length] in *; lia.
Qed.
Lemma matches_insert_in x l k kv : In kv (matches (insert_item x l) k) <-> In kv (matches (x :: l) k).
Proof.
  unfold matches. rewrite !filter_In.
  assert (H : In kv (insert_item x l) <-> In kv (x :: l)).
  { induction l as [|y l IH]; [reflexivity|]. cbn [insert_item]. destruct (key_leb x y); [reflexivity|].
    cbn [In] in *. tauto. }
  tauto.
Qed.
Lemma short_lists_equal {A} (a b : list A) :
  List.length a <= 1 -> List.length a = List.length b -> (forall x, In x a <-> In x b) -> a = b.
Proof.
  destruct a as [|x [|? ?]], b as [|y [|? ?]]; cbn; intros H1 H2 H3; try lia; try reflexivity.
  f_equal. destruct (proj1 (H3 x) (or_introl eq_refl)) as [E|[]]. auto.
Qed.
Lemma matches_cons x t k : matches (x :: t) k = if pyeq k (fst x) then x :: matches t k else matches t k.
Proof. reflexivity. Qed.
Lemma matches_sorted t k : uniq t -> matches (sorted_items t) k = matches t k.
Proof.
  induction t as [|x t IH]; intros Hu; [reflexivity|].
  assert (Hu' : uniq t).
  { intros k0. specialize (Hu k0). rewrite matches_cons in Hu. destruct (pyeq k0 (fst x)); cbn [List.length] in Hu; lia. }
  change (sorted_items (x :: t)) with (insert_item x (sorted_items t)).
  assert (E : matches (x :: sorted_items t) k = matches (x :: t) k) by (rewrite !matches_cons, (IH Hu'); reflexivity).
  apply short_lists_equal.
  - rewrite matches_insert_len, E. apply Hu.
  - rewrite matches_insert_len, E. reflexivity.
  - intros kv. rewrite matches_insert_in, E. reflexivity.
Qed.
Lemma lookup_leaf_items t k : uniq t -> lookup_leaf (items_leaf t) k = lookup t k.
Proof.
  intros Hu. unfold lookup_leaf, items_leaf. rewrite lookup_rows_items, !lookup_matches, (matches_sorted t k Hu). reflexivity.
Qed.

Section Static.
Variable apply : string -> list val -> list (string * val) -> val.
Variable id : val.                  (* the entry id the sub-pipeline is called with *)

(* the function of the id a static hash stands for *)
Fixpoint sden (h : nhash) : option val :=
  let sl := fix sl (l : list nhash) : option (list val) :=
    match l with
    | [] => Some []
    | x :: t => match sden x, sl t with Some v, Some vs => Some (v :: vs) | _, _ => None end
    end in
  match h with
  | HPlaceholder => Some id
  | HLeaf v => Some v
  | HApply f args kw =>
      match sl args with
      | Some vs =>
          if String.eqb f "builtins.tuple" then Some (VTuple vs)
          else let npos := List.length vs - List.length kw in
               Some (apply f (if nonempty kw then firstn npos vs else vs) (if nonempty kw then zip kw (skipn npos vs) else []))
      | None => None
      end
  | HCustom name args =>
      if String.eqb name "connectome.SwitchEdge" then
        match sl args with
        | Some (tbl :: k :: branches) => match lookup_leaf tbl k with Some i => nth_error branches i | None => None end
        | _ => None
        end
      else None
  | HGraph _ => None
  end.
Fixpoint sden_list (l : list nhash) : option (list val) :=
  match l with
  | [] => Some []
  | x :: t => match sden x, sden_list t with Some v, Some vs => Some (v :: vs) | _, _ => None end
  end.
Lemma sl_eq args :
  (fix sl (l : list nhash) : option (list val) :=
     match l with
     | [] => Some []
     | x :: t => match sden x, sl t with Some v, Some vs => Some (v :: vs) | _, _ => None end
     end) args = sden_list args.
Proof. induction args as [|a args IH]; cbn [sden_list]; [reflexivity|]. destruct (sden a); [rewrite IH|]; reflexivity. Qed.
Lemma sden_apply f args kw : sden (HApply f args kw) =
  match sden_list args with
  | Some vs =>
      if String.eqb f "builtins.tuple" then Some (VTuple vs)
      else let npos := List.length vs - List.length kw in
           Some (apply f (if nonempty kw then firstn npos vs else vs) (if nonempty kw then zip kw (skipn npos vs) else []))
  | None => None end.
Proof. rewrite <- sl_eq. reflexivity. Qed.
Lemma sden_switch args : sden (HCustom "connectome.SwitchEdge" args) =
  match sden_list args with
  | Some (tbl :: k :: branches) => match lookup_leaf tbl k with Some i => nth_error branches i | None => None end
  | _ => None
  end.
Proof. rewrite <- sl_eq. reflexivity. Qed.
Lemma sden_list_nth : forall ph pv, sden_list ph = Some pv ->
  forall i, i < List.length ph -> sden (nth i ph hnone) = Some (nth i pv VNone).
Proof.
  induction ph as [|a ph IHph]; intros pv Hp i Hi; [cbn in Hi; lia|].
  cbn in Hp. destruct (sden a) eqn:Ea; [|discriminate]. destruct (sden_list ph) eqn:El; [|discriminate].
  injection Hp as <-. destruct i; cbn; [exact Ea|]. apply IHph; [reflexivity|cbn in Hi; lia].
Qed.
Lemma sden_list_length : forall ph pv, sden_list ph = Some pv -> List.length pv = List.length ph.
Proof.
  induction ph as [|a ph IH]; intros pv H; cbn in H; [injection H as <-; reflexivity|].
  destruct (sden a); [|discriminate]. destruct (sden_list ph) eqn:E; [|discriminate]. injection H as <-. cbn. f_equal. apply IH. reflexivity.
Qed.

Section Graph.
Variable raises : string -> list val -> list (string * val) -> bool.
Variable g : graph.
Variable i0 : nat.                  (* the input node *)

(* switch tables are dicts *)
Fixpoint tables_ok (e : edge) : Prop :=
  match e with ESwitch t _ => uniq t | EByValue i | EImpure i => tables_ok i | _ => True end.
Hypothesis ok : forall n e ps, nth n g Leaf = Inner e ps -> edge_ok e (List.length ps) = true /\ tables_ok e.

(* one edge: the regenerated _hash_graph applied to static hashes that read as the parents' values reads as the edge's value *)
Lemma static_edge e : forall ph pv h v,
  hash_graph_aux e (self_of e) ph = Some h -> sden_list ph = Some pv -> edge_val apply raises e pv = Some v ->
  edge_ok e (List.length ph) = true -> tables_ok e -> sden h = Some v.
Proof.
  induction e as [fn ar kw silent|c| |k|c| |inner IH|inner IH|t k|]; intros ph pv h v Hh Hpar Ev Hok Ht;
    pose proof (sden_list_nth ph pv Hpar) as Hnth; cbn [hash_graph_aux edge_val edge_ok tables_ok] in *.
  - (* FunctionEdge *)
    apply andb_prop in Hok as [Hok Hname]. apply andb_prop in Hok as [Hs Hk]. destruct silent; [|discriminate].
    unfold StaticGraph_hash_graph in Hh. injection Hh as <-. change (sden (HApply fn ph kw) = Some v).
    rewrite sden_apply, Hpar. apply negb_true_iff in Hname. rewrite Hname.
    destruct (raises fn _ _); [discriminate|]. injection Ev as <-. reflexivity.
  - injection Hh as <-. injection Ev as <-. reflexivity.
  - unfold StaticGraph_hash_graph in Hh. injection Hh as <-. injection Ev as <-.
    change (sden (nth 0 ph hnone) = Some (nth 0 pv VNone)).
    apply Nat.leb_le in Hok. apply Hnth. lia.
  - unfold StaticGraph_hash_graph in Hh. injection Hh as <-. injection Ev as <-.
    change (sden (HApply "builtins.tuple" ph []) = Some (VTuple pv)). rewrite sden_apply, Hpar. reflexivity.
  - unfold StaticGraph_hash_graph in Hh. injection Hh as <-. injection Ev as <-.
    change (sden (nth 0 ph hnone) = Some (nth 0 pv VNone)).
    apply Nat.leb_le in Hok. apply Hnth. lia.
  - (* HashBarrier: the static hash is the parent's *)
    unfold HashBarrier_hash_graph in Hh. injection Hh as <-. injection Ev as <-. apply Nat.leb_le in Hok. apply Hnth. lia.
  - (* hash_by_value: the static hash of the wrapped edge *)
    unfold ComputableHashEdge_hash_graph in Hh. cbn [self_of edge_hash_graph] in Hh. apply (IH ph pv h v Hh Hpar Ev Hok Ht).
  - discriminate.
  - (* SwitchEdge: the routing table and all branches *)
    unfold SwitchEdge_hash_graph in Hh. cbn [self_of id_to_index app] in Hh. injection Hh as <-.
    apply andb_prop in Hok as [H1 H2]. apply Nat.leb_le in H1.
    destruct (lookup t (nth 0 pv VNone)) as [i|] eqn:El; [|discriminate]. injection Ev as <-.
    rewrite sden_switch. cbn [sden_list sden]. rewrite Hpar.
    pose proof (sden_list_length ph pv Hpar) as Hlen.
    destruct pv as [|k0 bvs]; [cbn in Hlen; lia|]. cbn [nth] in *.
    rewrite (lookup_leaf_items t k0 Ht), El.
    pose proof (lookup_range _ _ _ _ H2 El) as Hr. cbn [List.length] in Hlen.
    replace (i + 1) with (S i) by lia. apply nth_error_nth'. lia.
  - destruct (val_in _ _); [|discriminate]. injection Ev as <-.
    unfold StaticGraph_hash_graph in Hh. injection Hh as <-.
    change (sden (nth 0 ph hnone) = Some (nth 0 pv VNone)).
    apply Nat.leb_le in Hok. apply Hnth. lia.
Qed.

(* the whole sub-pipeline *)
Theorem static_sound : forall F F' n hs hd v,
  hash_graph g [i0] F n = Some hs -> sem apply raises g [(i0, id)] F' n = Some (hd, v) -> sden hs = Some v.
Proof.
  induction F as [|F IH]; intros F' n hs hd v Hs Hsem; [discriminate|]. cbn [hash_graph] in Hs.
  destruct F' as [|F']; [discriminate|]. cbn [sem] in Hsem. cbn [existsb aget] in *. rewrite orb_false_r in Hs.
  destruct (Nat.eqb n i0) eqn:En0.
  { injection Hs as <-. injection Hsem as <- <-. reflexivity. }
  destruct (nth n g Leaf) as [|e ps] eqn:En; [discriminate|].
  destruct (forallb _ (map (hash_graph g [i0] F) ps)) eqn:Hall1; [|discriminate].
  destruct (forallb _ (map (sem apply raises g [(i0, id)] F') ps)) eqn:Hall2; [|discriminate].
  set (ph := map (fun r => match r with Some h => h | None => hnone end) (map (hash_graph g [i0] F) ps)) in *.
  set (pv := map (fun r => match r with Some (_, v) => v | None => VNone end) (map (sem apply raises g [(i0, id)] F') ps)) in *.
  destruct (edge_val apply raises e pv) as [v0|] eqn:Ev; [|discriminate]. injection Hsem as <- <-.
  assert (Hpar : sden_list ph = Some pv).
  { subst ph pv. clear En Ev Hs. induction ps as [|p ps IHp]; cbn in *; [reflexivity|].
    destruct (hash_graph g [i0] F p) as [hp|] eqn:Ehp; [|discriminate]. cbn in Hall1.
    destruct (sem apply raises g [(i0, id)] F' p) as [[hq vq]|] eqn:Esp; [|discriminate]. cbn in Hall2.
    rewrite (IH _ _ _ _ _ Ehp Esp), (IHp Hall1 Hall2). reflexivity. }
  destruct (ok n e ps En) as [Hok Ht].
  unfold edge_hash_graph_of in Hs. destruct (Nat.eqb (List.length ph) (edge_arity e)); [|discriminate].
  assert (Hlen : List.length ph = List.length ps) by (subst ph; rewrite !map_length; reflexivity).
  rewrite <- Hlen in Hok. exact (static_edge e ph pv hs v0 Hs Hpar Ev Hok Ht).
Qed.
End Graph.

(* C06 for whole sub-pipelines: equal static hashes => the same function of the entry id *)
Corollary static_hash_identifies r1 r2 g1 i1 g2 i2 F1 F2 F1' F2' n1 n2 hs h1 h2 v1 v2 :
  (forall n e ps, nth n g1 Leaf = Inner e ps -> edge_ok e (List.length ps) = true /\ tables_ok e) ->
  (forall n e ps, nth n g2 Leaf = Inner e ps -> edge_ok e (List.length ps) = true /\ tables_ok e) ->
  hash_graph g1 [i1] F1 n1 = Some hs -> hash_graph g2 [i2] F2 n2 = Some hs ->
  sem apply r1 g1 [(i1, id)] F1' n1 = Some (h1, v1) -> sem apply r2 g2 [(i2, id)] F2' n2 = Some (h2, v2) -> v1 = v2.
Proof.
  intros O1 O2 S1 S2 H1 H2.
  pose proof (static_sound r1 g1 i1 O1 _ _ _ _ _ _ S1 H1). pose proof (static_sound r2 g2 i2 O2 _ _ _ _ _ _ S2 H2). congruence.
Qed.
End Static.
