(* C05 core: the value of a node is a function of its node hash.  [sem] computes hash and value of every node
   together, by plain recursion over the graph (this is the readable "compose the user functions recursively"
   semantics); the hashes are built by the REGENERATED hash makers of Gen/EdgesGen.v, so dropping the function,
   an input, the order or the keyword names from any _make_hash in /repo breaks [hash_sound] here. *)
From Connectome Require Import Values Attrs VM Edges EdgesGen.
Local Open Scope list_scope.

(* characterisation of the regenerated hash makers (the only facts about Gen/EdgesGen.v used below) *)
Lemma func_hash_char fn ar kw ph : FunctionEdge_make_hash (self_of (EFunc fn ar kw [])) ph = HApply fn ph kw.
Proof. reflexivity. Qed.
Lemma ident_hash_char ph : IdentityEdge_make_hash (self_of EIdent) ph = nth 0 ph hnone.
Proof. reflexivity. Qed.
Lemma product_hash_char k ph : ProductEdge_make_hash (self_of (EProduct k)) ph = HApply "builtins.tuple" ph [].
Proof. reflexivity. Qed.
Lemma cache_hash_char c ph : CacheEdge_make_hash (self_of (ECache c)) ph = nth 0 ph hnone.
Proof. reflexivity. Qed.
Lemma checkids_hash_char ph : CheckIdsEdge_make_hash (self_of ECheckIds) ph = nth 0 ph hnone.
Proof. reflexivity. Qed.

Section Denote.
Variable apply : string -> list val -> list (string * val) -> val.

(* the inverse reading of a hash term *)
Fixpoint denote (h : nhash) : option val :=
  let dl := fix dl (l : list nhash) : option (list val) :=
    match l with
    | [] => Some []
    | x :: t => match denote x, dl t with Some v, Some vs => Some (v :: vs) | _, _ => None end
    end in
  match h with
  | HLeaf v => Some v
  | HApply f args kw =>
      match dl args with
      | Some vs =>
          if String.eqb f "builtins.tuple" then Some (VTuple vs)
          else let npos := List.length vs - List.length kw in
               Some (apply f (if nonempty kw then firstn npos vs else vs) (if nonempty kw then zip kw (skipn npos vs) else []))
      | None => None
      end
  | HGraph _ | HCustom _ _ | HPlaceholder => None
  end.
Fixpoint denote_list (l : list nhash) : option (list val) :=
  match l with
  | [] => Some []
  | x :: t => match denote x, denote_list t with Some v, Some vs => Some (v :: vs) | _, _ => None end
  end.
Lemma dl_eq args :
  (fix dl (l : list nhash) : option (list val) :=
     match l with
     | [] => Some []
     | x :: t => match denote x, dl t with Some v, Some vs => Some (v :: vs) | _, _ => None end
     end) args = denote_list args.
Proof. induction args as [|a args IH]; cbn [denote_list]; [reflexivity|]. destruct (denote a); [rewrite IH|]; reflexivity. Qed.
Lemma denote_apply f args kw : denote (HApply f args kw) =
  match denote_list args with
  | Some vs =>
      if String.eqb f "builtins.tuple" then Some (VTuple vs)
      else let npos := List.length vs - List.length kw in
           Some (apply f (if nonempty kw then firstn npos vs else vs) (if nonempty kw then zip kw (skipn npos vs) else []))
  | None => None end.
Proof. rewrite <- dl_eq. reflexivity. Qed.

Lemma denote_list_nth : forall ph pv, denote_list ph = Some pv ->
  forall i, i < List.length ph -> denote (nth i ph hnone) = Some (nth i pv VNone).
Proof.
  induction ph as [|a ph IHph]; intros pv Hp i Hi; [cbn in Hi; lia|].
  cbn in Hp. destruct (denote a) eqn:Ea; [|discriminate]. destruct (denote_list ph) eqn:El; [|discriminate].
  injection Hp as <-. destruct i; cbn; [exact Ea|]. apply IHph; [reflexivity|cbn in Hi; lia].
Qed.
Lemma denote_list_length : forall ph pv, denote_list ph = Some pv -> List.length pv = List.length ph.
Proof.
  induction ph as [|a ph IH]; intros pv H; cbn in H; [injection H as <-; reflexivity|].
  destruct (denote a); [|discriminate]. destruct (denote_list ph) eqn:E; [|discriminate]. injection H as <-. cbn. f_equal. apply IH. reflexivity.
Qed.

Section Sound.
Variable raises : string -> list val -> list (string * val) -> bool.
Variable g : graph.
Variable ins : list (nat * val).

(* value of an edge from the parents' values; None = the call raises (user function, unknown switch key, foreign id) *)
Fixpoint edge_val (e : edge) (pv : list val) : option val :=
  match e with
  | EFunc f _ kw _ =>
      let npos := List.length pv - List.length kw in
      let args := if nonempty kw then firstn npos pv else pv in
      let kwargs := if nonempty kw then zip kw (skipn npos pv) else [] in
      if raises f args kwargs then None else Some (apply f args kwargs)
  | EConst v => Some v
  | EIdent | ECache _ | EBarrier => Some (nth 0 pv VNone)
  | EProduct _ => Some (VTuple pv)
  | EByValue i | EImpure i => edge_val i pv
  | ESwitch t _ => match lookup t (nth 0 pv VNone) with Some i => Some (nth (i + 1) pv VNone) | None => None end
  | ECheckIds => if val_in (nth 0 pv VNone) (nth 1 pv VNone) then Some (nth 0 pv VNone) else None
  end.

(* node hash of an edge from the parents' hashes, through the regenerated hash makers *)
Definition edge_hash (e : edge) (ph : list nhash) (pv : list val) (self : val) : nhash :=
  match e with
  | EFunc _ _ _ _ => FunctionEdge_make_hash (self_of e) ph
  | EConst v => HLeaf v
  | EIdent => IdentityEdge_make_hash (self_of e) ph
  | EProduct _ => ProductEdge_make_hash (self_of e) ph
  | ECache _ => CacheEdge_make_hash (self_of e) ph
  | ECheckIds => CheckIdsEdge_make_hash (self_of e) ph
  | EBarrier | EByValue _ | EImpure _ => HLeaf self
  | ESwitch t _ => match lookup t (nth 0 pv VNone) with Some i => nth (i + 1) ph hnone | None => hnone end
  end.

(* hash and value of a node, computed together *)
Fixpoint sem (fuel n : nat) : option (nhash * val) :=
  match fuel with
  | 0 => None
  | S f =>
    match aget ins n with
    | Some v => Some (HLeaf v, v)
    | None =>
      match nth n g Leaf with
      | Leaf => None
      | Inner e ps =>
        let rs := map (sem f) ps in
        if forallb (fun r => match r with Some _ => true | None => false end) rs then
          let ph := map (fun r => match r with Some (h, _) => h | None => hnone end) rs in
          let pv := map (fun r => match r with Some (_, v) => v | None => VNone end) rs in
          match edge_val e pv with
          | Some v => Some (edge_hash e ph pv v, v)
          | None => None
          end
        else None
      end
    end
  end.

(* No Silent arguments, arities as the constructors assert them, switches route into range.  The function symbol
   "builtins.tuple" is reserved for ProductEdge. *)
Fixpoint edge_ok (e : edge) (arity : nat) : bool :=
  match e with
  | EFunc f a kw silent => (match silent with [] => true | _ => false end) && (List.length kw <=? arity)
                           && negb (String.eqb f "builtins.tuple")
  | ESwitch t n => (1 <=? arity) && forallb (fun kv => snd kv + 1 <? arity) t
  | EIdent | EBarrier | ECache _ => 1 <=? arity
  | ECheckIds => 2 <=? arity
  | EByValue i | EImpure i => edge_ok i arity
  | _ => true
  end.
Hypothesis ok : forall n e ps, nth n g Leaf = Inner e ps -> edge_ok e (List.length ps) = true.

Lemma lookup_range t k i n : forallb (fun kv : val * nat => snd kv + 1 <? n) t = true -> lookup t k = Some i -> i + 1 < n.
Proof.
  induction t as [|[k' j] t IH]; cbn; [discriminate|]. intros H. apply andb_prop in H as [H1 H2].
  destruct (pyeq k k'); [intros [= <-]; apply Nat.ltb_lt in H1; exact H1|apply IH; exact H2].
Qed.

Theorem hash_sound : forall fuel n h v, sem fuel n = Some (h, v) -> denote h = Some v.
Proof.
  induction fuel as [|f IH]; intros n h v H; [discriminate|]. cbn [sem] in H.
  destruct (aget ins n) as [vi|]; [injection H as <- <-; reflexivity|].
  destruct (nth n g Leaf) as [|e ps] eqn:En; [discriminate|].
  set (rs := map (sem f) ps) in *.
  destruct (forallb _ rs) eqn:Hall; [|discriminate].
  set (ph := map (fun r => match r with Some (h, _) => h | None => hnone end) rs) in *.
  set (pv := map (fun r => match r with Some (_, v) => v | None => VNone end) rs) in *.
  destruct (edge_val e pv) as [v0|] eqn:Ev; [|discriminate]. injection H as <- <-.
  (* every parent's hash denotes its value *)
  assert (Hpar : denote_list ph = Some pv).
  { subst ph pv rs. clear En Ev. induction ps as [|p ps IHp]; cbn in *; [reflexivity|].
    destruct (sem f p) as [[hp vp]|] eqn:Ep; [|discriminate]. cbn in Hall.
    rewrite (IH _ _ _ Ep), (IHp Hall). reflexivity. }
  pose proof (denote_list_nth ph pv Hpar) as Hnth.
  pose proof (ok n e ps En) as Hok.
  assert (Hps : List.length ps = List.length ph) by (subst ph rs; rewrite !map_length; reflexivity).
  destruct e as [fn ar kw silent|c| |k|c| |inner|inner|t k|]; cbn [edge_hash edge_val edge_ok] in *.
  - (* FunctionEdge._make_hash, regenerated *)
    apply andb_prop in Hok as [Hok Hname]. apply andb_prop in Hok as [Hs Hk]. destruct silent; [|discriminate].
    rewrite func_hash_char, denote_apply, Hpar.
    apply negb_true_iff in Hname. rewrite Hname.
    destruct (raises fn _ _); [discriminate|]. injection Ev as <-. reflexivity.
  - injection Ev as <-. reflexivity.
  - injection Ev as <-. rewrite ident_hash_char. apply Nat.leb_le in Hok. apply Hnth. lia.
  - injection Ev as <-. rewrite product_hash_char, denote_apply, Hpar. reflexivity.
  - injection Ev as <-. rewrite cache_hash_char. apply Nat.leb_le in Hok. apply Hnth. lia.
  - reflexivity.
  - reflexivity.
  - reflexivity.
  - apply andb_prop in Hok as [H1 H2]. destruct (lookup t (nth 0 pv VNone)) as [i|] eqn:El; [|discriminate].
    injection Ev as <-. apply Hnth. pose proof (lookup_range _ _ _ _ H2 El). lia.
  - destruct (val_in _ _); [|discriminate]. injection Ev as <-.
    rewrite checkids_hash_char. apply Nat.leb_le in Hok. apply Hnth. lia.
Qed.
End Sound.
End Denote.

(* equal hashes, even across graphs, inputs and sets of raising functions, give equal values *)
Corollary no_false_hit apply r1 r2 g1 i1 g2 i2 f1 f2 n1 n2 h v1 v2 :
  (forall n e ps, nth n g1 Leaf = Inner e ps -> edge_ok e (List.length ps) = true) ->
  (forall n e ps, nth n g2 Leaf = Inner e ps -> edge_ok e (List.length ps) = true) ->
  sem apply r1 g1 i1 f1 n1 = Some (h, v1) -> sem apply r2 g2 i2 f2 n2 = Some (h, v2) -> v1 = v2.
Proof.
  intros O1 O2 H1 H2. pose proof (hash_sound apply r1 g1 i1 O1 _ _ _ _ H1). pose proof (hash_sound apply r2 g2 i2 O2 _ _ _ _ H2). congruence.
Qed.
