(* MemoryCache over pylru.lrucache: one characterisation ("the table holds exactly the cap most recently touched
   keys, in recency order") gives both the bound and the recency clause of C08, for every operation list.
   Keys are any type with a decidable equality (the digest / structural equality of hash values). *)
From Coq Require Import List Arith Bool Lia.
Import ListNotations.

Section Lru.
Variable K V : Type.
Variable eqb : K -> K -> bool.
Hypothesis eqb_spec : forall a b, reflect (a = b) (eqb a b).
Definition key := K.
Lemma keqb_eq a b : eqb a b = true <-> a = b.
Proof. destruct (eqb_spec a b); split; congruence. Qed.
Lemma keqb_refl a : eqb a a = true.
Proof. apply keqb_eq. reflexivity. Qed.
Lemma keqb_sym a b : eqb a b = eqb b a.
Proof. destruct (eqb_spec a b), (eqb_spec b a); congruence. Qed.
Definition table := list (key * V).           (* most recently used first *)

Fixpoint lookup (t : table) (k : key) : option V :=
  match t with [] => None | (k', v) :: t' => if eqb k k' then Some v else lookup t' k end.
Fixpoint del (t : table) (k : key) : table :=
  match t with [] => [] | (k', v) :: t' => if eqb k k' then del t' k else (k', v) :: del t' k end.

(* MemoryCache.get: `if key in cache: return cache[key]` — a hit moves the entry to the front *)
Definition mc_get (t : table) (k : key) : table * option V :=
  match lookup t k with Some v => ((k, v) :: del t k, Some v) | None => (t, None) end.
(* MemoryCache.set: update-and-touch, or insert evicting the least recently used when full *)
Definition mc_set (cap : nat) (t : table) (k : key) (v : V) : table :=
  match lookup t k with
  | Some _ => (k, v) :: del t k
  | None => (k, v) :: (if Nat.ltb (length t) cap then t else removelast t)
  end.

Inductive op := Get (k : key) | Set_ (k : key) (v : V) | Clear.
Definition step (cap : nat) (t : table) (o : op) : table :=
  match o with Get k => fst (mc_get t k) | Set_ k v => mc_set cap t k v | Clear => [] end.

(* the recency list: distinct keys, most recently touched first, never truncated *)
Fixpoint rem (l : list key) (k : key) : list key :=
  match l with [] => [] | x :: l' => if eqb k x then rem l' k else x :: rem l' k end.
Definition touch (l : list key) (k : key) := k :: rem l k.
Fixpoint memb (l : list key) (k : key) : bool := match l with [] => false | x :: l' => eqb k x || memb l' k end.
Definition rstep (cap : nat) (rec : list key) (o : op) : list key :=
  match o with
  | Get k => if memb (firstn cap rec) k then touch rec k else rec     (* a miss touches nothing *)
  | Set_ k _ => touch rec k
  | Clear => []
  end.

Definition keys (t : table) := map fst t.

Lemma keys_del t k : keys (del t k) = rem (keys t) k.
Proof. induction t as [|[k' v] t IH]; cbn; [reflexivity|]. destruct (eqb k k'); cbn; [exact IH|f_equal; exact IH]. Qed.
Lemma lookup_memb t k : (exists v, lookup t k = Some v) <-> memb (keys t) k = true.
Proof.
  induction t as [|[k' v] t IH]; cbn.
  - split; [intros [v H]; discriminate|discriminate].
  - destruct (eqb k k'); cbn; [split; eauto|exact IH].
Qed.
Lemma lookup_none_memb t k : lookup t k = None <-> memb (keys t) k = false.
Proof.
  destruct (lookup t k) eqn:E; destruct (memb (keys t) k) eqn:M; split; try congruence; intros _.
  - exfalso. assert (exists v, lookup t k = Some v) by eauto. apply lookup_memb in H. congruence.
  - exfalso. apply lookup_memb in M as [v' H]. congruence.
Qed.

Lemma rem_notin l k : memb l k = false -> rem l k = l.
Proof. induction l as [|x l IH]; cbn; [reflexivity|]. destruct (eqb k x); cbn; [discriminate|intros H; f_equal; auto]. Qed.
Lemma memb_rem l k x : memb (rem l k) x = memb l x && negb (eqb x k).
Proof.
  induction l as [|y l IH]; [reflexivity|]. cbn [rem memb].
  destruct (eqb k y) eqn:E.
  - rewrite IH. apply keqb_eq in E. subst y. destruct (eqb x k) eqn:E2; cbn; [rewrite andb_false_r; reflexivity|rewrite andb_true_r; reflexivity].
  - cbn [memb]. rewrite IH. destruct (eqb x y) eqn:E2; cbn; [|reflexivity].
    apply keqb_eq in E2. subst y. rewrite keqb_sym, E. reflexivity.
Qed.
Lemma nodup_rem l k : NoDup l -> NoDup (rem l k).
Proof.
  induction 1 as [|x l Hx Hl IH]; cbn; [constructor|].
  destruct (eqb k x); [exact IH|]. constructor; [|exact IH].
  intros Hin. apply Hx. clear - Hin. induction l as [|y l IH]; cbn in *; [tauto|].
  destruct (eqb k y); cbn in *; tauto.
Qed.
Lemma memb_in l k : memb l k = true <-> In k l.
Proof.
  induction l as [|x l IH]; cbn; [split; [discriminate|tauto]|].
  rewrite orb_true_iff, IH, keqb_eq. split; intros [H|H]; auto.
Qed.
Lemma nodup_touch l k : NoDup l -> NoDup (touch l k).
Proof.
  intros H. constructor; [|apply nodup_rem; exact H].
  intros Hin. apply memb_in in Hin. rewrite memb_rem, keqb_refl, andb_false_r in Hin. discriminate.
Qed.

Lemma firstn_In' {A} n : forall (l : list A) x, In x (firstn n l) -> In x l.
Proof. induction n as [|n IH]; intros [|y l] x H; cbn in *; try tauto. destruct H; auto. Qed.
(* truncation commutes with removal when the key is inside the window ... *)
Lemma notin_memb l k : ~ In k l -> memb l k = false.
Proof. intros H. destruct (memb l k) eqn:M; [apply memb_in in M; tauto|reflexivity]. Qed.
Lemma firstn_rem_gen m : forall l k, NoDup l -> memb (firstn (S m) l) k = true ->
  firstn m (rem l k) = rem (firstn (S m) l) k.
Proof.
  induction m as [|m IH]; intros l k Hnd Hm.
  - destruct l as [|x l]; [discriminate|]. cbn [firstn memb] in Hm. rewrite orb_false_r in Hm.
    cbn [firstn rem]. rewrite Hm. reflexivity.
  - destruct l as [|x l]; [discriminate|]. inversion Hnd as [|? ? Hx Hl]; subst.
    change (firstn (S (S m)) (x :: l)) with (x :: firstn (S m) l) in *. cbn [memb] in Hm. cbn [rem].
    destruct (eqb k x) eqn:E.
    + apply keqb_eq in E. subst x. rewrite (rem_notin l k (notin_memb _ _ Hx)).
      rewrite rem_notin; [reflexivity|]. apply notin_memb. intros Hin. apply firstn_In' in Hin. tauto.
    + cbn [orb] in Hm. cbn [firstn]. f_equal. apply IH; assumption.
Qed.
Lemma firstn_rem_in n : forall l k, NoDup l -> memb (firstn n l) k = true -> firstn n (k :: rem l k) = k :: rem (firstn n l) k.
Proof.
  intros l k Hnd Hm. destruct n as [|n]; [discriminate|].
  cbn [firstn]. f_equal. apply firstn_rem_gen; assumption.
Qed.
(* ... and drops the last element of the window when it is outside *)
Lemma firstn_rem_notin n : forall l k, memb (firstn n l) k = false -> firstn n (rem l k) = firstn n l.
Proof.
  induction n as [|n IH]; intros l k Hm; [reflexivity|].
  destruct l as [|x l]; [reflexivity|]. cbn [firstn memb] in Hm. apply orb_false_iff in Hm as [E Hm].
  cbn [rem]. rewrite E. cbn [firstn]. f_equal. apply IH. exact Hm.
Qed.
Lemma memb_firstn_S n : forall l k, memb (firstn (S n) l) k = false -> memb (firstn n l) k = false.
Proof.
  induction n as [|n IH]; intros l k Hm; [reflexivity|].
  destruct l as [|x l]; [reflexivity|]. change (firstn (S (S n)) (x :: l)) with (x :: firstn (S n) l) in Hm.
  cbn [memb] in Hm. apply orb_false_iff in Hm as [E Hm]. cbn [firstn memb]. rewrite E. cbn. apply IH. exact Hm.
Qed.
Lemma firstn_rem_out n : forall l k, memb (firstn (S n) l) k = false ->
  firstn (S n) (k :: rem l k) = k :: (if Nat.ltb (length (firstn (S n) l)) (S n) then firstn (S n) l else removelast (firstn (S n) l)).
Proof.
  intros l k Hm. change (firstn (S n) (k :: rem l k)) with (k :: firstn n (rem l k)). f_equal.
  rewrite (firstn_rem_notin n l k (memb_firstn_S n l k Hm)).
  destruct (Nat.ltb_spec (length (firstn (S n) l)) (S n)) as [L|L].
  - rewrite firstn_length in L. assert (length l <= n) by lia.
    rewrite (firstn_all2 (n := n)) by lia. rewrite (firstn_all2 (n := S n)) by lia. reflexivity.
  - rewrite firstn_length in L. symmetry. apply removelast_firstn. lia.
Qed.

(* the characterisation: the table holds exactly the `cap` most recently touched keys, in recency order *)
Definition Inv (cap : nat) (t : table) (rec : list key) : Prop := NoDup rec /\ keys t = firstn cap rec.

Theorem step_inv cap t rec o : cap >= 1 -> Inv cap t rec -> Inv cap (step cap t o) (rstep cap rec o).
Proof.
  intros Hcap [Hnd Hk]. destruct o as [k|k v|]; cbn [step rstep].
  - unfold mc_get. rewrite <- Hk. destruct (lookup t k) as [v|] eqn:E.
    + assert (M : memb (keys t) k = true) by (apply lookup_memb; eauto). rewrite M. cbn [fst].
      split; [apply nodup_touch; exact Hnd|]. cbn [keys map fst]. fold (keys (del t k)). rewrite keys_del, Hk.
      unfold touch. symmetry. apply firstn_rem_in; [exact Hnd|rewrite <- Hk; exact M].
    + assert (M : memb (keys t) k = false) by (apply lookup_none_memb; exact E). rewrite M. cbn [fst]. split; assumption.
  - unfold mc_set. destruct (lookup t k) as [v0|] eqn:E.
    + assert (M : memb (keys t) k = true) by (apply lookup_memb; eauto).
      split; [apply nodup_touch; exact Hnd|]. cbn [keys map fst]. fold (keys (del t k)). rewrite keys_del, Hk.
      unfold touch. symmetry. apply firstn_rem_in; [exact Hnd|rewrite <- Hk; exact M].
    + assert (M : memb (keys t) k = false) by (apply lookup_none_memb; exact E).
      split; [apply nodup_touch; exact Hnd|]. destruct cap as [|c]; [lia|].
      unfold touch. rewrite firstn_rem_out by (rewrite <- Hk; exact M). rewrite <- Hk.
      cbn [keys map fst]. f_equal. unfold keys. rewrite map_length.
      destruct (Nat.ltb (length t) (S c)); [reflexivity|].
      clear. induction t as [|[a b] t IH]; [reflexivity|]. cbn [removelast map]. destruct t as [|p t]; [reflexivity|].
      cbn [map] in *. rewrite IH. reflexivity.
  - split; [constructor|]. destruct cap; reflexivity.
Qed.

Theorem run_inv cap ops : cap >= 1 -> forall t rec, Inv cap t rec ->
  Inv cap (fold_left (step cap) ops t) (fold_left (rstep cap) ops rec).
Proof. intros Hc. induction ops as [|o ops IH]; cbn; intros t rec H; [exact H|]. apply IH. apply step_inv; assumption. Qed.

(* C08: the bound, after any history including Clear *)
Corollary lru_bound cap ops : cap >= 1 -> length (fold_left (step cap) ops []) <= cap.
Proof.
  intros Hc. destruct (run_inv cap ops Hc [] []) as [_ Hk]; [split; [constructor|destruct cap; reflexivity]|].
  rewrite <- (map_length fst). fold (keys (fold_left (step cap) ops [])). rewrite Hk. apply firstn_le_length.
Qed.
(* C08: recency — whatever is among the `cap` most recently touched keys hits *)
Corollary lru_recency cap ops k : cap >= 1 ->
  In k (firstn cap (fold_left (rstep cap) ops [])) -> exists v, lookup (fold_left (step cap) ops []) k = Some v.
Proof.
  intros Hc Hin. destruct (run_inv cap ops Hc [] []) as [_ Hk]; [split; [constructor|destruct cap; reflexivity]|].
  apply lookup_memb. rewrite Hk. apply memb_in. exact Hin.
Qed.

(* C08, functional half: the table refines a plain map.  [sstep] is the specification (the value of the last Set_ of a
   key since the last Clear); whatever the table answers is the specification's answer, for every operation list, with
   evictions and recency moves in between.  With [lru_recency]: a key among the `cap` most recently touched ones hits
   and returns the latest value stored for it. *)
Definition smap := key -> option V.
Definition sstep (m : smap) (o : op) : smap :=
  match o with
  | Get _ => m
  | Set_ k v => fun x => if eqb x k then Some v else m x
  | Clear => fun _ => None
  end.
Definition Sound (t : table) (m : smap) : Prop := forall k v, lookup t k = Some v -> m k = Some v.

Lemma lookup_del_other t k x : eqb x k = false -> lookup (del t k) x = lookup t x.
Proof.
  intros Hx. induction t as [|[k' v'] t IH]; [reflexivity|]. cbn [del lookup].
  destruct (eqb k k') eqn:Ek.
  - apply keqb_eq in Ek. subst k'. rewrite Hx. exact IH.
  - cbn [lookup]. destruct (eqb x k'); [reflexivity|exact IH].
Qed.
Lemma lookup_removelast t x v : lookup (removelast t) x = Some v -> lookup t x = Some v.
Proof.
  induction t as [|[k' v'] t IH]; [discriminate|]. destruct t as [|p t]; [discriminate|].
  change (removelast ((k', v') :: p :: t)) with ((k', v') :: removelast (p :: t)).
  cbn [lookup]. destruct (eqb x k'); [trivial|]. exact IH.
Qed.

Lemma step_sound cap t m o : Sound t m -> Sound (step cap t o) (sstep m o).
Proof.
  intros H. destruct o as [k|k v|]; cbn [step sstep].
  - unfold mc_get. destruct (lookup t k) as [v|] eqn:E; cbn [fst]; [|exact H].
    intros x w. cbn [lookup]. destruct (eqb x k) eqn:Ex.
    + apply keqb_eq in Ex. subst x. intros W. injection W as <-. apply H. exact E.
    + rewrite lookup_del_other by exact Ex. apply H.
  - intros x w. unfold mc_set. destruct (lookup t k) as [v0|] eqn:E; cbn [lookup]; destruct (eqb x k) eqn:Ex; trivial.
    + rewrite lookup_del_other by exact Ex. apply H.
    + destruct (Nat.ltb (length t) cap); [apply H|]. intros W. apply H. apply lookup_removelast. exact W.
  - intros x w. discriminate.
Qed.
Theorem run_sound cap ops : forall t m, Sound t m -> Sound (fold_left (step cap) ops t) (fold_left sstep ops m).
Proof. induction ops as [|o ops IH]; cbn [fold_left]; intros t m H; [exact H|]. apply IH. apply step_sound. exact H. Qed.

Corollary lru_reads_last_write cap ops k v :
  lookup (fold_left (step cap) ops []) k = Some v -> fold_left sstep ops (fun _ => None) k = Some v.
Proof. apply (run_sound cap ops [] (fun _ => None)). intros x w. discriminate. Qed.
Corollary lru_recent_reads_latest cap ops k : cap >= 1 ->
  In k (firstn cap (fold_left (rstep cap) ops [])) ->
  exists v, lookup (fold_left (step cap) ops []) k = Some v /\ fold_left sstep ops (fun _ => None) k = Some v.
Proof.
  intros Hc Hin. destruct (lru_recency cap ops k Hc Hin) as [v Hv]. exists v. split; [exact Hv|].
  apply (lru_reads_last_write cap). exact Hv.
Qed.
(* a read moves an entry to the front and changes no answer: every key reads the same before and after *)
Lemma get_changes_no_answer cap t k x : lookup (step cap t (Get k)) x = lookup t x.
Proof.
  cbn [step]. unfold mc_get. destruct (lookup t k) as [v|] eqn:E; cbn [fst]; [|reflexivity].
  cbn [lookup]. destruct (eqb x k) eqn:Ex.
  - apply keqb_eq in Ex. subst x. symmetry. exact E.
  - apply lookup_del_other. exact Ex.
Qed.
End Lru.
