(* C10: the contexts of a chain, reversed "current first, then previous", compute exactly forward ; f ; inverses in
   reverse order, each inverse with the parameter of its own layer's forward pass. *)
From Connectome Require Import Values Loopback.
Local Open Scope list_scope.

Definition back (x : val) (ks : list lkind) (y : option val) : option val :=
  match y with Some v => backward x ks v | None => None end.

Lemma reverse_layer x k y : reverse (snd (connect_layer x k)) y =
  match y with
  | None => None
  | Some v => match k with
              | KInv i => Some (VApp (sym "I" i) [v; VApp (sym "P" i) [x] []] [])
              | KInvNoParam i => Some (VApp (sym "I" i) [v] [])
              | KInhAll | KInhList | KCache => Some v
              | KFwdOnly _ => None end
  end.
Proof. destruct k, y; reflexivity. Qed.

Lemma connect_chain_spec : forall ks x c,
  fst (connect_chain x c ks) = forward x ks /\ forall y, reverse (snd (connect_chain x c ks)) y = reverse c (back x ks y).
Proof.
  induction ks as [|k rest IH]; intros x c; cbn [connect_chain forward].
  - split; [reflexivity|]. intros [v|]; reflexivity.
  - destruct (connect_layer x k) as [x' ck] eqn:E. cbn [fst].
    destruct (IH x' (CChain c ck)) as [H1 H2]. split; [exact H1|].
    intros y. rewrite H2. cbn [reverse].
    assert (Ek : ck = snd (connect_layer x k)) by (rewrite E; reflexivity).
    assert (Ex : x' = fst (connect_layer x k)) by (rewrite E; reflexivity).
    rewrite Ek, reverse_layer. f_equal. unfold back. destruct y as [v|]; [|reflexivity].
    cbn [backward]. rewrite <- Ex. destruct (backward x' rest v); [|reflexivity]. destruct k; reflexivity.
Qed.

Theorem loopback_correct x0 ks : loopback x0 ks = loopback_spec x0 ks.
Proof.
  unfold loopback, loopback_spec, chain. destruct ks as [|k rest]; [reflexivity|].
  destruct (connect_layer x0 k) as [x c] eqn:E.
  destruct (connect_chain_spec rest x c) as [H1 H2].
  destruct (connect_chain x c rest) as [x' c'] eqn:E2. cbn [fst snd] in H1, H2.
  rewrite H2. subst x'. cbn [forward backward]. rewrite E. cbn [fst]. unfold back.
  assert (Ec : c = snd (connect_layer x0 k)) by (rewrite E; reflexivity).
  rewrite Ec, reverse_layer.
  destruct (backward x rest (VApp "f" [forward x rest] [])); [|reflexivity]. destruct k; reflexivity.
Qed.

(* a forward-only layer anywhere in the chain rejects the output: nothing is ever returned un-inverted *)
Theorem fwd_only_rejects x0 ks1 i ks2 : loopback x0 (ks1 ++ KFwdOnly i :: ks2) = None.
Proof.
  rewrite loopback_correct. unfold loopback_spec. generalize (VApp "f" [forward x0 (ks1 ++ KFwdOnly i :: ks2)] []). revert x0.
  induction ks1 as [|k rest IH]; intros x0 y; cbn [app backward].
  - destruct (backward _ ks2 y); reflexivity.
  - rewrite IH. reflexivity.
Qed.
