(* C10: the contexts of a chain, reversed "current first, then previous", compute exactly forward ; f ; backward parts in
   reverse order, each with the parameter of its own layer's forward pass - for layers with any number of backward
   fields, inverses with several backward arguments, and any inherit sets. *)
From Connectome Require Import Values Loopback.
Local Open Scope list_scope.

Lemma connect_chain_spec : forall ls x c,
  fst (connect_chain x c ls) = forward x ls /\ forall e, reverse (snd (connect_chain x c ls)) e = reverse c (backward x ls e).
Proof.
  induction ls as [|l rest IH]; intros x c; cbn [connect_chain forward backward]; [split; reflexivity|].
  destruct (IH (fwd_layer l x) (CChain c (ctx_layer l x))) as [H1 H2]. split; [exact H1|].
  intros e. rewrite H2. reflexivity.
Qed.

Theorem loopback_correct x0 ls outs final : loopback x0 ls outs final = loopback_spec x0 ls outs final.
Proof.
  unfold loopback, loopback_spec, chain. destruct ls as [|l rest]; [reflexivity|].
  destruct (connect_chain_spec rest (fwd_layer l (Some x0)) (ctx_layer l (Some x0))) as [H1 H2].
  destruct (connect_chain (fwd_layer l (Some x0)) (ctx_layer l (Some x0)) rest) as [x c]. cbn [fst snd] in H1, H2.
  cbn [forward backward]. rewrite <- H1. destruct x as [x|]; [|reflexivity]. rewrite H2. reflexivity.
Qed.

(* ---------- consequences for the six simple layer kinds (one backward field y) ---------- *)
Lemma elookup_app a b n : elookup (a ++ b) n = match elookup a n with Some v => Some v | None => elookup b n end.
Proof. induction a as [|[k v] a IH]; cbn; [reflexivity|]. destruct (String.eqb n k); [reflexivity|exact IH]. Qed.
Lemma elookup_filter_none p e n : elookup e n = None -> elookup (filter p e) n = None.
Proof.
  induction e as [|[k v] e IH]; cbn; [reflexivity|]. destruct (String.eqb n k) eqn:E; [discriminate|].
  intros H. destruct (p (k, v)); cbn; [rewrite E|]; apply IH, H.
Qed.

(* a layer of these kinds never creates y out of nothing *)
Lemma no_y_stays k x e : elookup e "y" = None -> elookup (reverse (ctx_layer (layer_of k) x) e) "y" = None.
Proof.
  intros H. destruct k; cbn [layer_of ctx_layer bl_cache bl_defs bl_inh reverse]; try exact H;
    unfold bstep; cbn [flat_map map bd_args bd_out all_some]; rewrite ?H; cbn [app]; apply elookup_filter_none, H.
Qed.
Lemma backward_no_y ks : forall x e, elookup e "y" = None -> elookup (backward x (map layer_of ks) e) "y" = None.
Proof.
  induction ks as [|k ks IH]; intros x e H; cbn [map backward]; [exact H|]. apply no_y_stays, IH, H.
Qed.

Lemma bstep_nothing p e : bstep [] (InhList []) p e = [].
Proof. unfold bstep. cbn [flat_map app]. induction e as [|[n v] e IH]; cbn; [reflexivity|exact IH]. Qed.

(* an output without an inverse path through some layer is rejected, wherever that layer sits *)
Theorem fwd_only_rejects x0 ks1 i ks2 :
  loopback x0 (map layer_of (ks1 ++ KFwdOnly i :: ks2)) ["y"] ["y"] = None.
Proof.
  rewrite loopback_correct. unfold loopback_spec. destruct (forward _ _) as [x|]; [|reflexivity].
  cbn [map all_some].
  assert (H : elookup (backward (Some x0) (map layer_of (ks1 ++ KFwdOnly i :: ks2)) (f_outputs ["y"] x)) "y" = None); [|rewrite H; reflexivity].
  generalize (f_outputs ["y"] x). generalize (Some x0). induction ks1 as [|k rest IH]; intros xo e; cbn [app map backward].
  - unfold ctx_layer. cbn [layer_of bl_cache bl_defs bl_inh reverse]. rewrite bstep_nothing. reflexivity.
  - apply no_y_stays. apply IH.
Qed.

(* an invertible layer applies its own inverse to what comes back, with its own parameter *)
Lemma inv_layer_step i x v e : elookup e "y" = Some v ->
  elookup (reverse (ctx_layer (layer_of (KInv i)) (Some x)) e) "y" = Some (VApp (sym "I" i) [v; VApp (sym "P" i) [x] []] []).
Proof.
  intros H. cbn [layer_of ctx_layer bl_cache bl_defs bl_inh reverse]. unfold bstep. cbn [flat_map map bd_args bd_out bd_fn bd_param all_some].
  rewrite H. cbn. reflexivity.
Qed.
