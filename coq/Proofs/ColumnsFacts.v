(* Facts about a CacheColumns layer (Model/Columns.v over Gen/ColumnsGen.v): every request returns the value of the
   uncached pipeline and keeps the stores right, for every history; errors leave the stores untouched; a hit runs
   nothing; the order of the ids does not matter; and what is NOT true: the hash pass of the requested entry runs
   twice on a miss (finding F9), and a shard can share its disk key with a CacheToDisk entry (finding F11). *)
From Connectome Require Import Values ShardGen ColStore ColumnsGen Columns StoreFacts.
From Coq Require Import Permutation.
Local Open Scope list_scope.

Lemma afind_some eq l h x : afind eq l h = Some x -> exists hh, In (hh, x) l /\ eq h hh = true.
Proof.
  induction l as [|[h' v] l IH]; cbn; [discriminate|].
  destruct (eq h h') eqn:E; intros H.
  - injection H as <-. exists h'. split; [left; reflexivity|exact E].
  - destruct (IH H) as (hh & Hin & He). exists hh. split; [right; exact Hin|exact He].
Qed.

Lemma afind_none_in eq l h : (forall a, eq a a = true) -> afind eq l h = None -> forall x, ~ In (h, x) l.
Proof.
  intros Hr. induction l as [|[h' v] l IH]; cbn; intros H x; [tauto|].
  destruct (eq h h') eqn:E; [discriminate|]. intros [Heq|Hin]; [|exact (IH H x Hin)].
  injection Heq as -> ->. rewrite Hr in E. discriminate.
Qed.

Lemma afind_in_some eq l h x : (forall a, eq a a = true) -> In (h, x) l -> exists y, afind eq l h = Some y.
Proof.
  intros Hr Hin. destruct (afind eq l h) as [y|] eqn:E; [exists y; reflexivity|].
  exfalso. exact (afind_none_in eq l h Hr E x Hin).
Qed.

Section Facts.
Variables req deq : nhash -> nhash -> bool.
Variable keq : val -> val -> bool.
Variable sorted : list val -> list val.
Variable get_hash : nat -> val -> option nhash.
Variable get_value : nat -> val -> option val.
(* what the uncached pipeline computes: the node hash and the value of entry k of column col *)
Variable h : nat -> val -> nhash.
Variable v : nat -> val -> val.

Hypothesis req_refl : forall a, req a a = true.
Hypothesis deq_eq : forall a b, deq a b = true -> a = b.
Hypothesis keq_refl : forall a, keq a a = true.
Hypothesis sorted_perm : forall l, Permutation (sorted l) l.
(* the graph of the column computes the hash and the value of the uncached pipeline, or a user function raises *)
Hypothesis get_hash_ok : forall c k x, get_hash c k = Some x -> x = h c k.
Hypothesis get_value_ok : forall c k x, get_value c k = Some x -> x = v c k.
(* C05 for the entries, under the equality the RAM table uses *)
Hypothesis req_sound : forall c k c' k', req (h c k) (h c' k') = true -> v c k = v c' k'.

(* == identifies the requested key with nothing but itself (it does identify 1, 1.0 and True: finding F3) *)
Definition exact_key (key : val) : Prop := forall a, keq a key = true -> a = key.

Definition compound (hs : list nhash) : nhash := HApply "builtins.tuple" hs [].

(* the stores hold right values only: RAM entries, shards, and entries of CacheToDisk layers over the same folders *)
Definition ram_ok (st : colstore) : Prop :=
  forall hh x, In (hh, x) (ram st) -> exists c k, hh = h c k /\ x = v c k.
Definition disk_ok (st : colstore) : Prop :=
  forall hh x, In (hh, x) (disk st) ->
    (exists c k, hh = h c k /\ x = v c k) \/ (exists c ks, hh = compound (map (h c) ks) /\ x = VTuple (map (v c) ks)).
Definition Inv (st : colstore) : Prop := ram_ok st /\ disk_ok st.

Lemma inv_start : Inv colstore0.
Proof. split; intros hh x []. Qed.

Lemma inv_new_process st : Inv st -> Inv (new_process st).
Proof. intros [_ Hd]. split; [intros hh x []|exact Hd]. Qed.

(* ---------- the loops ---------- *)
Lemma hash_loop_ok col key ks r ev : exact_key key ->
  hash_loop req keq get_hash col (h col key) key ks = (r, ev) ->
  (r = inr (map (h col) ks) /\ ev = map (CHash col) ks) \/ (exists f, r = inl (EUser f)).
Proof.
  intros HK. revert r ev. induction ks as [|k t IH]; cbn; intros r ev H.
  - injection H as <- <-. left. split; reflexivity.
  - destruct (get_hash col k) as [x|] eqn:G.
    2:{ injection H as <- <-. right. eexists. reflexivity. }
    apply get_hash_ok in G. subst x.
    destruct (keq k key && negb (req (h col key) (h col k))) eqn:A.
    { apply andb_prop in A as [A1 A2]. apply HK in A1. subst k. rewrite req_refl in A2. discriminate. }
    destruct (hash_loop req keq get_hash col (h col key) key t) as [r0 ev0] eqn:L.
    injection H as <- <-.
    destruct (IH _ _ eq_refl) as [[-> ->]|[f ->]]; [left; split; reflexivity|right; eexists; reflexivity].
Qed.

Lemma value_loop_ok col ks r ev :
  value_loop get_value col ks = (r, ev) ->
  (r = inr (map (v col) ks) /\ ev = map (CValue col) ks) \/ (exists f, r = inl (EUser f)).
Proof.
  revert r ev. induction ks as [|k t IH]; cbn; intros r ev H.
  - injection H as <- <-. left. split; reflexivity.
  - destruct (get_value col k) as [x|] eqn:G.
    2:{ injection H as <- <-. right. eexists. reflexivity. }
    apply get_value_ok in G. subst x.
    destruct (value_loop get_value col t) as [r0 ev0] eqn:L. injection H as <- <-.
    destruct (IH _ _ eq_refl) as [[-> ->]|[f ->]]; [left; split; reflexivity|right; eexists; reflexivity].
Qed.

Lemma pick_map key (f : val -> val) ks acc : exact_key key ->
  pick keq key ks (map f ks) acc = if existsb (fun k => keq k key) ks then Some (f key) else acc.
Proof.
  intros HK. revert acc. induction ks as [|k t IH]; cbn; intros acc; [reflexivity|].
  rewrite IH. destruct (keq k key) eqn:E; cbn.
  - apply HK in E. subst k. destruct (existsb _ t); reflexivity.
  - reflexivity.
Qed.

Lemma existsb_in key ks : In key ks -> existsb (fun k => keq k key) ks = true.
Proof. intros Hin. apply existsb_exists. exists key. split; [exact Hin|apply keq_refl]. Qed.

Lemma ram_fill_disk st hs vals : disk (ram_fill st hs vals) = disk st.
Proof. revert st vals. induction hs as [|a hs IH]; intros st [|b vals]; cbn; try reflexivity. rewrite IH. reflexivity. Qed.

Lemma ram_fill_in st col ks hh x :
  In (hh, x) (ram (ram_fill st (map (h col) ks) (map (v col) ks))) ->
  In (hh, x) (ram st) \/ exists k, In k ks /\ hh = h col k /\ x = v col k.
Proof.
  revert st. induction ks as [|k t IH]; cbn; intros st H; [left; exact H|].
  destruct (IH _ H) as [Hin|(k' & Hk & -> & ->)].
  - cbn in Hin. destruct Hin as [Heq|Hin]; [|left; exact Hin].
    injection Heq as <- <-. right. exists k. auto.
  - right. exists k'. auto.
Qed.

Lemma ram_fill_has st col ks k :
  In k ks -> In (h col k, v col k) (ram (ram_fill st (map (h col) ks) (map (v col) ks))).
Proof.
  revert st. induction ks as [|k0 t IH]; cbn; intros st Hin; [contradiction|].
  destruct Hin as [->|Hin]; [|apply IH; exact Hin].
  clear IH. generalize (ram_set st (h col k) (v col k)) (or_introl eq_refl : In (h col k, v col k) (ram (ram_set st (h col k) (v col k)))).
  induction t as [|k1 t IH]; cbn; intros st' H; [exact H|]. apply IH. cbn. right. exact H.
Qed.

Lemma ram_fill_keeps st hs vals p : In p (ram st) -> In p (ram (ram_fill st hs vals)).
Proof.
  revert st vals. induction hs as [|a hs IH]; intros st [|b vals] H; cbn; try exact H. apply IH. cbn. right. exact H.
Qed.

Lemma inv_ram_fill st col ks : Inv st -> Inv (ram_fill st (map (h col) ks) (map (v col) ks)).
Proof.
  intros [Hr Hd]. split.
  - intros hh x H. destruct (ram_fill_in _ _ _ _ _ H) as [Hin|(k & _ & -> & ->)]; [exact (Hr _ _ Hin)|exists col, k; auto].
  - intros hh x H. rewrite ram_fill_disk in H. exact (Hd _ _ H).
Qed.

(* ---------- the shard of a key contains it ---------- *)
Lemma index_of_in key l : exact_key key -> In key l -> exists pos, index_of keq key l = Some pos /\ nth_error l pos = Some key.
Proof.
  intros HK. induction l as [|k t IH]; cbn; intros Hin; [contradiction|].
  destruct (keq k key) eqn:E.
  - apply HK in E. subst k. exists 0. split; reflexivity.
  - destruct Hin as [->|Hin]; [rewrite keq_refl in E; discriminate|].
    destruct (IH Hin) as (pos & -> & Hn). exists (S pos). split; reflexivity || exact Hn.
Qed.


Lemma get_shard_in size key keys : exact_key key ->
  In key keys -> size <> Some 0 ->
  exists ks c i, get_shard keq sorted size key keys = inr (ks, c, i) /\ In key ks.
Proof.
  intros HK Hin Hs. unfold get_shard.
  assert (In key (sorted keys)) as Hin' by (apply (Permutation_in key (Permutation_sym (sorted_perm keys))); exact Hin).
  destruct (index_of_in key _ HK Hin') as (pos & -> & Hn).
  destruct size as [size|].
  - destruct (Nat.eqb size 0) eqn:E; [apply Nat.eqb_eq in E; subst; congruence|]. apply Nat.eqb_neq in E.
    eexists _, _, _. split; [reflexivity|].
    assert (pos < List.length (sorted keys)) as Hp by (apply nth_error_Some; congruence).
    pose proof (shard_contains (sorted keys) size pos ltac:(lia) Hp) as Hc. rewrite Hn in Hc.
    exact (nth_error_In _ _ Hc).
  - eexists _, _, _. split; [reflexivity|exact Hin'].
Qed.

Lemma get_shard_unknown size key keys : exact_key key -> ~ In key keys -> exists e, get_shard keq sorted size key keys = inl (EValue e).
Proof.
  intros HK Hn. unfold get_shard. destruct (index_of keq key (sorted keys)) as [pos|] eqn:E; [|eexists; reflexivity].
  exfalso. apply Hn. apply (Permutation_in key (sorted_perm keys)).
  clear Hn. revert pos E. induction (sorted keys) as [|k t IH]; cbn; intros pos E; [discriminate|].
  destruct (keq k key) eqn:K; [left; apply HK; exact K|]. right.
  destruct (index_of keq key t) as [p|] eqn:E'; [|discriminate]. exact (IH _ eq_refl).
Qed.

(* ---------- every request is right and keeps the stores right, or a user function raised and nothing changed ---------- *)
(* entries of other layers never sit under the key of a shard *)
Hypothesis disjoint : forall c k c' ks, h c k <> compound (map (h c') ks).

Lemma map_h_eq c ks c' ks' : map (h c) ks = map (h c') ks' -> map (v c) ks = map (v c') ks'.
Proof.
  revert ks'. induction ks as [|k t IH]; intros [|k' t'] H; cbn in *; try discriminate; [reflexivity|].
  injection H as H1 H2. f_equal; [|apply IH; exact H2].
  apply req_sound. rewrite H1. apply req_refl.
Qed.

Theorem column_request_sound col size key keys st r st' ev :
  Inv st -> exact_key key -> In key keys -> size <> Some 0 ->
  column_request req deq keq sorted get_hash get_value col size key keys st = (r, st', ev) ->
  (r = COk (v col key) /\ Inv st') \/ (exists f, r = CErr (EUser f) /\ st' = st).
Proof.
  intros HI HK Hin Hs. unfold column_request.
  destruct (get_hash col key) as [out|] eqn:G.
  2:{ intros H. injection H as <- <- <-. right. eexists. split; reflexivity. }
  apply get_hash_ok in G. subst out. unfold column_evaluate.
  destruct (ram_get req st (h col key)) as [x|] eqn:R.
  { intros H. injection H as <- <- <-. left. split; [|exact HI].
    apply afind_some in R as (hh & Hh & He). destruct HI as [Hr _]. destruct (Hr _ _ Hh) as (c & k & -> & ->).
    f_equal. symmetry. apply req_sound. exact He. }
  destruct (get_shard_in size key keys HK Hin Hs) as (ks & c & i & -> & Hk).
  destruct (hash_loop req keq get_hash col (h col key) key ks) as [rh evh] eqn:L.
  destruct (hash_loop_ok _ _ _ _ _ HK L) as [[-> ->]|[f ->]].
  2:{ intros H. injection H as <- <- <-. right. eexists. split; reflexivity. }
  fold (compound (map (h col) ks)).
  assert (forall vals evs stx, Inv stx -> vals = map (v col) ks ->
            finish keq stx key ks (map (h col) ks) vals evs = (COk (v col key), ram_fill stx (map (h col) ks) vals, evs)) as Hfin.
  { intros vals evs stx _ ->. unfold finish. rewrite (pick_map _ _ _ _ HK), (existsb_in _ _ Hk). reflexivity. }
  destruct (disk_get deq st (compound (map (h col) ks))) as [stored|] eqn:D.
  - apply afind_some in D as (hh & Hh & He). apply deq_eq in He. subst hh.
    destruct HI as [Hr Hd]. destruct (Hd _ _ Hh) as [(c' & k' & Heq & _)|(c' & ks' & Heq & ->)].
    { exfalso. exact (disjoint c' k' col ks (eq_sym Heq)). }
    injection Heq as Heq. rewrite <- (map_h_eq _ _ _ _ Heq).
    rewrite (Hfin _ _ st (conj Hr Hd) eq_refl). intros H. injection H as <- <- <-.
    left. split; [reflexivity|apply inv_ram_fill; split; assumption].
  - destruct (value_loop get_value col ks) as [rv evv] eqn:V.
    destruct (value_loop_ok _ _ _ _ V) as [[-> ->]|[f ->]].
    2:{ intros H. injection H as <- <- <-. right. eexists. split; reflexivity. }
    assert (Inv (disk_set st (compound (map (h col) ks)) (VTuple (map (v col) ks)))) as HI'.
    { destruct HI as [Hr Hd]. split; [exact Hr|]. intros hh x [Heq|H]; [|exact (Hd _ _ H)].
      injection Heq as <- <-. right. exists col, ks. split; reflexivity. }
    rewrite (Hfin _ _ _ HI' eq_refl). intros H. injection H as <- <- <-.
    left. split; [reflexivity|apply inv_ram_fill; exact HI'].
Qed.

(* a key that is not among the ids is rejected by library code, before anything is computed or stored *)
Theorem column_unknown_key col size key keys st out :
  get_hash col key = Some out -> ram_get req st out = None -> exact_key key -> ~ In key keys ->
  exists e, column_request req deq keq sorted get_hash get_value col size key keys st
            = (CErr (EValue e), st, [CHash col key; CKeyReq; CKeysReq]).
Proof.
  intros G R HK Hn. unfold column_request, column_evaluate. rewrite G, R.
  destruct (get_shard_unknown size key keys HK Hn) as [e ->]. exists e. reflexivity.
Qed.

(* histories: requests of known keys, new processes, entries written by CacheToDisk layers over the same folders *)
Definition op_ok (o : colop) : Prop :=
  match o with
  | QRequest col key keys => exact_key key /\ In key keys
  | QNewProcess => True
  | QForeign hh x => exists c k, hh = h c k /\ x = v c k
  end.
Definition out_ok (o : colop) (out : option (cres * list cevent)) : Prop :=
  match o, out with
  | QRequest col key keys, Some (r, _) => r = COk (v col key) \/ exists f, r = CErr (EUser f)
  | QRequest _ _ _, None => False
  | _, _ => True
  end.

Theorem column_history size ops : size <> Some 0 -> Forall op_ok ops ->
  forall st, Inv st ->
  let (outs, st') := col_run req deq keq sorted get_hash get_value size st ops in
  Forall2 out_ok ops outs /\ Inv st'.
Proof.
  intros Hs Hops. induction Hops as [|o ops Ho Hops IH]; intros st HI; cbn; [split; [constructor|exact HI]|].
  destruct o as [col key keys| |hh x]; cbn.
  - destruct (column_request req deq keq sorted get_hash get_value col size key keys st) as [[r st1] ev] eqn:E.
    destruct Ho as [HK Ho].
    destruct (column_request_sound _ _ _ _ _ _ _ _ HI HK Ho Hs E) as [[-> HI1]|(f & -> & ->)].
    + specialize (IH st1 HI1). destruct (col_run _ _ _ _ _ _ size st1 ops) as [outs stf]. destruct IH as [IH1 IH2].
      split; [constructor; [left; reflexivity|exact IH1]|exact IH2].
    + specialize (IH st HI). destruct (col_run _ _ _ _ _ _ size st ops) as [outs stf]. destruct IH as [IH1 IH2].
      split; [constructor; [right; eexists; reflexivity|exact IH1]|exact IH2].
  - specialize (IH _ (inv_new_process st HI)). destruct (col_run _ _ _ _ _ _ size (new_process st) ops) as [outs stf].
    destruct IH as [IH1 IH2]. split; [constructor; [exact I|exact IH1]|exact IH2].
  - assert (Inv (match disk_get deq st hh with Some _ => st | None => disk_set st hh x end)) as HI1.
    { destruct (disk_get deq st hh); [exact HI|]. destruct HI as [Hr Hd]. split; [exact Hr|].
      intros h0 x0 [Heq|H]; [|exact (Hd _ _ H)]. injection Heq as <- <-. left. exact Ho. }
    specialize (IH _ HI1). destruct (col_run _ _ _ _ _ _ size _ ops) as [outs stf].
    destruct IH as [IH1 IH2]. split; [constructor; [exact I|exact IH1]|exact IH2].
Qed.

(* ---------- C08: after a request, every key of its shard is a RAM hit that runs nothing but the hash pass ---------- *)
Theorem column_shard_hits col size key keys st v0 st' ev ks c i :
  exact_key key -> get_shard keq sorted size key keys = inr (ks, c, i) ->
  ram_get req st (h col key) = None ->
  column_request req deq keq sorted get_hash get_value col size key keys st = (COk v0, st', ev) ->
  Inv st ->
  forall key' keys', In key' ks -> get_hash col key' = Some (h col key') ->
  exists x, column_request req deq keq sorted get_hash get_value col size key' keys' st' = (COk x, st', [CHash col key']).
Proof.
  intros HK Hsh R. unfold column_request at 1.
  destruct (get_hash col key) as [out|] eqn:G; [|discriminate].
  apply get_hash_ok in G. subst out. unfold column_evaluate. rewrite R, Hsh.
  destruct (hash_loop req keq get_hash col (h col key) key ks) as [rh evh] eqn:L.
  destruct (hash_loop_ok _ _ _ _ _ HK L) as [[-> ->]|[f ->]]; [|discriminate].
  fold (compound (map (h col) ks)).
  intros H HI key' keys' Hk' G'.
  assert (exists stx, st' = ram_fill stx (map (h col) ks) (map (v col) ks)) as [stx ->].
  { destruct (disk_get deq st (compound (map (h col) ks))) as [stored|] eqn:D.
    - apply afind_some in D as (hh & Hh & He). apply deq_eq in He. subst hh.
      destruct HI as [Hr Hd]. destruct (Hd _ _ Hh) as [(c' & k' & Heq & _)|(c' & ks' & Heq & ->)].
      { exfalso. exact (disjoint c' k' col ks (eq_sym Heq)). }
      injection Heq as Heq. rewrite <- (map_h_eq _ _ _ _ Heq) in H.
      unfold finish in H. destruct (pick keq key ks (map (v col) ks) None); injection H as _ <- _; eexists; reflexivity.
    - destruct (value_loop get_value col ks) as [rv evv] eqn:V.
      destruct (value_loop_ok _ _ _ _ V) as [[-> ->]|[f ->]]; [|discriminate].
      unfold finish in H. destruct (pick keq key ks (map (v col) ks) None); injection H as _ <- _; eexists; reflexivity. }
  unfold column_request. rewrite G'. unfold column_evaluate.
  destruct (afind_in_some req _ _ _ req_refl (ram_fill_has stx col ks key' Hk')) as [y Hy].
  unfold ram_get. rewrite Hy. exists y. reflexivity.
Qed.

(* ---------- C08 across processes: a new process reads the shard from disk and runs no value pass ---------- *)
Hypothesis deq_refl : forall a, deq a a = true.

Lemma disk_entry_right st hs x c0 ks0 :
  Inv st -> hs = map (h c0) ks0 -> disk_get deq st (compound hs) = Some x -> x = VTuple (map (v c0) ks0).
Proof.
  intros [Hr Hd] -> D. apply afind_some in D as (hh & Hh & He). apply deq_eq in He. subst hh.
  destruct (Hd _ _ Hh) as [(c' & k' & Heq & _)|(c' & ks' & Heq & ->)].
  { exfalso. exact (disjoint c' k' c0 ks0 (eq_sym Heq)). }
  injection Heq as Heq. rewrite (map_h_eq _ _ _ _ Heq). reflexivity.
Qed.

Theorem column_restart_reads_shard col size key keys st v0 st' ev ks c i :
  exact_key key -> get_shard keq sorted size key keys = inr (ks, c, i) ->
  ram_get req st (h col key) = None ->
  column_request req deq keq sorted get_hash get_value col size key keys st = (COk v0, st', ev) ->
  Inv st ->
  forall key' keys' c' i', exact_key key' -> In key' ks -> get_shard keq sorted size key' keys' = inr (ks, c', i') ->
  (forall k, get_hash col k = Some (h col k)) ->
  exists st'', column_request req deq keq sorted get_hash get_value col size key' keys' (new_process st')
               = (COk (v col key'), st'', CHash col key' :: CKeyReq :: CKeysReq :: map (CHash col) ks)
            /\ disk st'' = disk st'.
Proof.
  intros HK Hsh R H HI key' keys' c' i' HK' Hk' Hsh' Gall.
  (* after the first request the shard is on disk *)
  assert (Inv st' /\ exists x, disk_get deq st' (compound (map (h col) ks)) = Some x) as [HI' [x Dx]].
  { revert H. unfold column_request. rewrite (Gall key). unfold column_evaluate. rewrite R, Hsh.
    destruct (hash_loop req keq get_hash col (h col key) key ks) as [rh evh] eqn:L.
    destruct (hash_loop_ok _ _ _ _ _ HK L) as [[-> ->]|[f ->]]; [|discriminate].
    fold (compound (map (h col) ks)).
    destruct (disk_get deq st (compound (map (h col) ks))) as [stored|] eqn:D.
    - pose proof (disk_entry_right _ _ _ col ks HI eq_refl D) as ->.
      unfold finish. destruct (pick keq key ks (map (v col) ks) None); intros H; injection H as _ <- _.
      all: split; [apply inv_ram_fill; exact HI|exists (VTuple (map (v col) ks)); unfold disk_get; rewrite ram_fill_disk; exact D].
    - destruct (value_loop get_value col ks) as [rv evv] eqn:V.
      destruct (value_loop_ok _ _ _ _ V) as [[-> ->]|[f ->]]; [|discriminate].
      assert (Inv (disk_set st (compound (map (h col) ks)) (VTuple (map (v col) ks)))) as HI1.
      { destruct HI as [Hr Hd]. split; [exact Hr|]. intros hh y [Heq|Hy]; [|exact (Hd _ _ Hy)].
        injection Heq as <- <-. right. exists col, ks. split; reflexivity. }
      unfold finish. destruct (pick keq key ks (map (v col) ks) None); intros H; injection H as _ <- _.
      all: split; [apply inv_ram_fill; exact HI1|eexists; unfold disk_get; rewrite ram_fill_disk; cbn; rewrite deq_refl; reflexivity]. }
  pose proof (inv_new_process _ HI') as HIn.
  assert (disk_get deq (new_process st') (compound (map (h col) ks)) = Some x) as Dn by exact Dx.
  pose proof (disk_entry_right _ _ _ col ks HIn eq_refl Dn) as ->.
  unfold column_request. rewrite (Gall key'). unfold column_evaluate.
  assert (ram_get req (new_process st') (h col key') = None) as -> by reflexivity.
  rewrite Hsh'.
  destruct (hash_loop req keq get_hash col (h col key') key' ks) as [rh evh] eqn:L.
  destruct (hash_loop_ok _ _ _ _ _ HK' L) as [[-> ->]|[f ->]].
  2:{ exfalso. clear -L Gall get_hash_ok HK' req_refl. revert evh L. induction ks as [|k t IH]; cbn; intros evh L; [discriminate|].
      rewrite (Gall k) in L.
      destruct (keq k key' && negb (req (h col key') (h col k))) eqn:A.
      { apply andb_prop in A as [A1 A2]. apply HK' in A1. subst k. rewrite req_refl in A2. discriminate. }
      destruct (hash_loop req keq get_hash col (h col key') key' t) as [r0 ev0] eqn:L0.
      destruct r0 as [e|hs]; [|discriminate]. injection L as L _. subst e. exact (IH _ eq_refl). }
  fold (compound (map (h col) ks)). rewrite Dn.
  unfold finish. rewrite (pick_map _ _ _ _ HK'), (existsb_in _ _ Hk').
  eexists. split; [reflexivity|]. rewrite ram_fill_disk. reflexivity.
Qed.

(* ---------- F9: on a RAM miss the hash pass of the requested entry runs twice ---------- *)
Theorem column_miss_hashes_entry_twice col size key keys st r st' ev :
  exact_key key -> In key keys -> size <> Some 0 ->
  get_hash col key = Some (h col key) -> (forall k, get_hash col k <> None) ->
  ram_get req st (h col key) = None ->
  column_request req deq keq sorted get_hash get_value col size key keys st = (r, st', ev) ->
  exists ev', ev = CHash col key :: CKeyReq :: CKeysReq :: ev' /\ In (CHash col key) ev'.
Proof.
  intros HK Hin Hs G Gall R. unfold column_request. rewrite G. unfold column_evaluate. rewrite R.
  destruct (get_shard_in size key keys HK Hin Hs) as (ks & c & i & -> & Hk).
  destruct (hash_loop req keq get_hash col (h col key) key ks) as [rh evh] eqn:L.
  destruct (hash_loop_ok _ _ _ _ _ HK L) as [[-> ->]|[f ->]].
  2:{ exfalso. clear -L Gall get_hash_ok HK req_refl. revert evh L. induction ks as [|k t IH]; cbn; intros evh L; [discriminate|].
      destruct (get_hash col k) as [x|] eqn:G; [|exact (Gall k G)].
      apply get_hash_ok in G. subst x.
      destruct (keq k key && negb (req (h col key) (h col k))) eqn:A.
      { apply andb_prop in A as [A1 A2]. apply HK in A1. subst k. rewrite req_refl in A2. discriminate. }
      destruct (hash_loop req keq get_hash col (h col key) key t) as [r0 ev0] eqn:L0.
      destruct r0 as [e|hs]; [|discriminate]. injection L as L _. subst e. exact (IH _ eq_refl). }
  assert (In (CHash col key) (map (CHash col) ks)) as Hev by (apply in_map; exact Hk).
  destruct (disk_get deq st _) as [[]|].
  all: try (intros H; injection H as _ _ <-; eexists; split; [reflexivity|exact Hev]).
  - unfold finish. destruct (pick _ _ _ _ _); intros H; injection H as _ _ <-; eexists; (split; [reflexivity|exact Hev]).
  - destruct (value_loop get_value col ks) as [[e|vals] evv]; [intros H; injection H as _ _ <-|unfold finish; destruct (pick _ _ _ _ _); intros H; injection H as _ _ <-];
      eexists; (split; [reflexivity|apply in_or_app; left; exact Hev]).
Qed.

(* ---------- F10: two cached columns that share an upstream function ----------
   [uses c] are the user functions the value pass of column c executes for an entry.  A request that finds its shard neither in RAM
   nor on disk runs the value pass of EVERY entry of the shard through the graph of its own column; so a function two columns share
   runs once per column. *)
Theorem column_cold_miss_runs_whole_shard col size key keys st r st' ev ks c i :
  exact_key key -> get_shard keq sorted size key keys = inr (ks, c, i) ->
  get_hash col key = Some (h col key) -> (forall k, get_hash col k <> None) -> (forall k, get_value col k <> None) ->
  ram_get req st (h col key) = None -> disk_get deq st (compound (map (h col) ks)) = None ->
  column_request req deq keq sorted get_hash get_value col size key keys st = (r, st', ev) ->
  forall k, In k ks -> In (CValue col k) ev.
Proof.
  intros HK Hsh G Gall Vall R D. unfold column_request. rewrite G. unfold column_evaluate. rewrite R, Hsh.
  destruct (hash_loop req keq get_hash col (h col key) key ks) as [rh evh] eqn:L.
  destruct (hash_loop_ok _ _ _ _ _ HK L) as [[-> ->]|[f ->]].
  2:{ exfalso. clear -L Gall get_hash_ok HK req_refl. revert evh L. induction ks as [|k t IH]; cbn; intros evh L; [discriminate|].
      destruct (get_hash col k) as [x|] eqn:G; [|exact (Gall k G)].
      apply get_hash_ok in G. subst x.
      destruct (keq k key && negb (req (h col key) (h col k))) eqn:A.
      { apply andb_prop in A as [A1 A2]. apply HK in A1. subst k. rewrite req_refl in A2. discriminate. }
      destruct (hash_loop req keq get_hash col (h col key) key t) as [r0 ev0] eqn:L0.
      destruct r0 as [e|hs]; [|discriminate]. injection L as L _. subst e. exact (IH _ eq_refl). }
  fold (compound (map (h col) ks)). rewrite D.
  destruct (value_loop get_value col ks) as [rv evv] eqn:V.
  destruct (value_loop_ok _ _ _ _ V) as [[-> ->]|[f ->]].
  2:{ exfalso. clear -V Vall. revert evv V. induction ks as [|k t IH]; cbn; intros evv V; [discriminate|].
      destruct (get_value col k) as [x|] eqn:G; [|exact (Vall k G)].
      destruct (value_loop get_value col t) as [r0 ev0] eqn:L0.
      destruct r0 as [e|vs]; [|discriminate]. injection V as V _. subst e. exact (IH _ eq_refl). }
  unfold finish. intros H k Hk.
  assert (ev = CHash col key :: CKeyReq :: CKeysReq :: map (CHash col) ks ++ map (CValue col) ks) as ->.
  { destruct (pick keq key ks (map (v col) ks) None); injection H as _ _ <-; reflexivity. }
  right. right. right. apply in_or_app. right. apply in_map. exact Hk.
Qed.

(* ---------- C07: the order in which `ids` lists the keys does not matter ---------- *)
Theorem column_request_ids_order col size key keys keys' st :
  (forall l l', Permutation l l' -> sorted l = sorted l') -> Permutation keys keys' ->
  column_request req deq keq sorted get_hash get_value col size key keys st
  = column_request req deq keq sorted get_hash get_value col size key keys' st.
Proof.
  intros Hc Hp. unfold column_request, column_evaluate, get_shard. rewrite (Hc _ _ Hp). reflexivity.
Qed.
(* ---------- C11: the same request while other threads use the stores ----------
   [env] is applied between any two store accesses of the call; it may do anything that keeps the stores right
   (requests of other threads through any column, clears, writes of CacheToDisk layers). *)
Section Concurrent.
Variable env : nat -> colstore -> colstore.
Hypothesis env_inv : forall n st, Inv st -> Inv (env n st).

Lemma inv_ram_set st col k : Inv st -> Inv (ram_set st (h col k) (v col k)).
Proof.
  intros [Hr Hd]. split; [|exact Hd]. intros hh x [Heq|Hin]; [|exact (Hr _ _ Hin)].
  injection Heq as <- <-. exists col, k. split; reflexivity.
Qed.

Lemma inv_ram_fill_i n st col ks : Inv st -> Inv (ram_fill_i env n st (map (h col) ks) (map (v col) ks)).
Proof.
  revert n st. induction ks as [|k t IH]; cbn; intros n st HI; [exact HI|].
  apply IH. apply inv_ram_set. apply env_inv. exact HI.
Qed.

Theorem column_request_concurrent col size key keys st r st' ev :
  Inv st -> exact_key key -> In key keys -> size <> Some 0 ->
  column_request_i req deq keq sorted get_hash get_value env col size key keys st = (r, st', ev) ->
  (r = COk (v col key) \/ exists f, r = CErr (EUser f)) /\ Inv st'.
Proof.
  intros HI HK Hin Hs. unfold column_request_i.
  destruct (get_hash col key) as [out|] eqn:G.
  2:{ intros H. injection H as <- <- <-. split; [right; eexists; reflexivity|exact HI]. }
  apply get_hash_ok in G. subst out. unfold column_evaluate_i.
  pose proof (env_inv 0 _ HI) as HI1. set (st1 := env 0 st) in *.
  destruct (ram_get req st1 (h col key)) as [x|] eqn:R.
  { intros H. injection H as <- <- <-. split; [left|exact HI1].
    apply afind_some in R as (hh & Hh & He). destruct HI1 as [Hr _]. destruct (Hr _ _ Hh) as (c & k & -> & ->).
    f_equal. symmetry. apply req_sound. exact He. }
  destruct (get_shard_in size key keys HK Hin Hs) as (ks & c & i & -> & Hk).
  destruct (hash_loop req keq get_hash col (h col key) key ks) as [rh evh] eqn:L.
  destruct (hash_loop_ok _ _ _ _ _ HK L) as [[-> ->]|[f ->]].
  2:{ intros H. injection H as <- <- <-. split; [right; eexists; reflexivity|exact HI1]. }
  fold (compound (map (h col) ks)).
  pose proof (env_inv 1 _ HI1) as HI2. set (st2 := env 1 st1) in *.
  assert (forall n evs stx, finish_i keq env n stx key ks (map (h col) ks) (map (v col) ks) evs
                            = (COk (v col key), ram_fill_i env n stx (map (h col) ks) (map (v col) ks), evs)) as Hfin.
  { intros n evs stx. unfold finish_i. rewrite (pick_map _ _ _ _ HK), (existsb_in _ _ Hk). reflexivity. }
  destruct (disk_get deq st2 (compound (map (h col) ks))) as [stored|] eqn:D.
  - apply afind_some in D as (hh & Hh & He). apply deq_eq in He. subst hh.
    destruct HI2 as [Hr Hd]. destruct (Hd _ _ Hh) as [(c' & k' & Heq & _)|(c' & ks' & Heq & ->)].
    { exfalso. exact (disjoint c' k' col ks (eq_sym Heq)). }
    injection Heq as Heq. rewrite <- (map_h_eq _ _ _ _ Heq). rewrite Hfin.
    intros H. injection H as <- <- <-. split; [left; reflexivity|apply inv_ram_fill_i; split; assumption].
  - destruct (value_loop get_value col ks) as [rv evv] eqn:V.
    destruct (value_loop_ok _ _ _ _ V) as [[-> ->]|[f ->]].
    2:{ intros H. injection H as <- <- <-. split; [right; eexists; reflexivity|exact HI2]. }
    rewrite Hfin. intros H. injection H as <- <- <-. split; [left; reflexivity|].
    apply inv_ram_fill_i. pose proof (env_inv 2 _ HI2) as [Hr Hd]. split; [exact Hr|].
    intros hh x [Heq|H]; [|exact (Hd _ _ H)]. injection Heq as <- <-. right. exists col, ks. split; reflexivity.
Qed.
End Concurrent.

(* with nobody else around this is the sequential body *)
Lemma ram_fill_i_id n st hs vals : ram_fill_i (fun _ s => s) n st hs vals = ram_fill st hs vals.
Proof. revert n st vals. induction hs as [|a hs IH]; intros n st [|b vals]; cbn; try reflexivity. apply IH. Qed.

Lemma column_evaluate_i_id col size output key keys st :
  column_evaluate_i req deq keq sorted get_hash get_value (fun _ s => s) col size output key keys st
  = column_evaluate req deq keq sorted get_hash get_value col size output key keys st.
Proof.
  unfold column_evaluate_i, column_evaluate, finish_i, finish. cbv beta.
  destruct (ram_get req st output); [reflexivity|].
  destruct (get_shard keq sorted size key keys) as [e|[[ks c] i]]; [reflexivity|].
  destruct (hash_loop req keq get_hash col output key ks) as [[e|hs] ev]; [reflexivity|].
  destruct (disk_get deq st (HApply "builtins.tuple" hs [])) as [[]|]; try reflexivity.
  - rewrite ram_fill_i_id. reflexivity.
  - destruct (value_loop get_value col ks) as [[e|vals] ev2]; [reflexivity|]. rewrite ram_fill_i_id. reflexivity.
Qed.
End Facts.

(* ---------- the equalities of the real stores ---------- *)
From Connectome Require Import EqFacts.

Definition py_request := column_request hpyeq heqb pyeq.
Definition py_run := col_run hpyeq heqb pyeq.

Lemma nonum_exact_key key : nonum key = true -> exact_key pyeq key.
Proof. intros Hn a H. exact (pyeq_exact a key Hn H). Qed.

(* ---------- F11: without `disjoint` the statement is false ----------
   column 0 caches a field `a`; another field b = tuple(a) (node hash ApplyHash(tuple, hash of a)) is cached by a
   CacheToDisk layer over the same folders; the dataset has one id, so the shard of `a` is keyed by
   ApplyHash(tuple, hash of a(k)) as well. *)
Definition f11_h (c : nat) (k : val) : nhash :=
  match c with 0 => HApply "a" [HLeaf k] [] | _ => HApply "builtins.tuple" [HApply "a" [HLeaf k] []] [] end.
Definition f11_v (c : nat) (k : val) : val :=
  match c with 0 => VApp "a" [k] [] | _ => VApp "builtins.tuple" [VApp "a" [k] []] [] end.
Definition f11_key := VStr "k".
Definition f11_disk_first : colstore := {| ram := []; disk := [(f11_h 1 f11_key, f11_v 1 f11_key)] |}.

Lemma f11_sound : forall c k c' k', hpyeq (f11_h c k) (f11_h c' k') = true -> nonum k' = true -> f11_v c k = f11_v c' k'.
Proof.
  intros [|c] k [|c'] k' H Hn; cbn in H; try discriminate.
  - rewrite !andb_true_r in H. cbn. f_equal. f_equal. apply pyeq_exact; assumption.
  - rewrite !andb_true_r in H. cbn. do 4 f_equal. apply pyeq_exact; assumption.
Qed.

Theorem shard_key_collides_with_entry_key :
  Inv f11_h f11_v f11_disk_first /\ exact_key pyeq f11_key /\
  (* the CacheToDisk layer came first: the column reads b's entry as its shard *)
  (exists e st' ev, py_request (fun l => l) (fun c k => Some (f11_h c k)) (fun c k => Some (f11_v c k)) 0 None f11_key [f11_key] f11_disk_first
                    = (CErr (EInternal e), st', ev)) /\
  (* the column came first: b's node hash now leads to the shard, which is not b's value *)
  (exists r st' ev x, py_request (fun l => l) (fun c k => Some (f11_h c k)) (fun c k => Some (f11_v c k)) 0 None f11_key [f11_key] colstore0
                      = (r, st', ev) /\ disk_get heqb st' (f11_h 1 f11_key) = Some x /\ x <> f11_v 1 f11_key).
Proof.
  split; [|split; [|split]].
  - split; [intros hh x []|]. intros hh x [H|[]]. injection H as <- <-. left. exists 1, f11_key. split; reflexivity.
  - apply nonum_exact_key. reflexivity.
  - eexists _, _, _. vm_compute. reflexivity.
  - eexists _, _, _, _. split; [vm_compute; reflexivity|]. split; [vm_compute; reflexivity|]. discriminate.
Qed.

(* ---------- F9, concretely: one column over one id, cold: the hash pass of the entry runs twice ---------- *)
Example f9_example :
  exists st', py_request (fun l => l) (fun c k => Some (f11_h c k)) (fun c k => Some (f11_v c k)) 0 None f11_key [f11_key] colstore0
  = (COk (f11_v 0 f11_key), st', [CHash 0 f11_key; CKeyReq; CKeysReq; CHash 0 f11_key; CValue 0 f11_key]).
Proof. eexists. vm_compute. reflexivity. Qed.
