(* C04 / C11 for the concrete caches of Model/Store.v: every entry of every cache is Good (its key is a hash
   whose inverse reading is the stored value), Good is kept by get / set / clear and by anything other threads
   may do that keeps it, and the regenerated CacheEdge.evaluate writes only Good entries and treats a Good hit
   like a miss.  Hence every call on a total graph returns the cache-free value, for every history. *)
From Connectome Require Import Values Attrs VM Edges EdgesGen Store Evaluator L2 C01Main C01Inst EdgeFacts HashSound SpecEq EqFacts.
Local Open Scope list_scope.

Section C04.
Variable apply : string -> list val -> list (string * val) -> val.

Definition Good (c : nat) (k v : sval) : Prop :=
  exists h val, k = SHash h /\ nonum_h h = true /\ v = SVal val /\ denote apply h = Some val.

Definition CInvS (σ : cstore) : Prop :=
  forall c st, s_find σ c = Some st -> forall k v, In (k, v) (entries st) -> Good c k v.

Lemma key_exact kd c k k' v : Good c k' v -> key_eqb kd k k' = true -> k = k'.
Proof.
  intros (h' & val & -> & Hn & _ & _) H. destruct k; try discriminate. cbn in H. f_equal.
  destruct kd; [apply hpyeq_exact; assumption|apply heqb_eq; assumption].
Qed.

Lemma e_find_in kd l key v : e_find kd l key = Some v -> exists k', In (k', v) l /\ key_eqb kd key k' = true.
Proof.
  induction l as [|[k' v'] l IH]; cbn; [discriminate|].
  destruct (key_eqb kd key k') eqn:E; [intros [= <-]; exists k'; auto|].
  intros H. destruct (IH H) as (k2 & Hin & Hk). exists k2. auto.
Qed.
Lemma e_del_in kd l key k v : In (k, v) (e_del kd l key) -> In (k, v) l.
Proof.
  induction l as [|[k' v'] l IH]; cbn; [tauto|]. destruct (key_eqb kd key k'); cbn; [auto|intros [H|H]; auto].
Qed.
Lemma firstn_in {A} n : forall (l : list A) x, In x (firstn n l) -> In x l.
Proof. induction n as [|n IH]; intros [|y l] x H; cbn in *; try tauto. destruct H; auto. Qed.

Lemma s_find_put σ c st c' : s_find (s_put σ c st) c' = if Nat.eqb c' c then Some st else s_find σ c'.
Proof.
  induction σ as [|[c0 st0] σ IH]; cbn.
  - destruct (Nat.eqb c' c); reflexivity.
  - destruct (Nat.eqb c c0) eqn:E; cbn.
    + apply Nat.eqb_eq in E. subst c0. destruct (Nat.eqb c' c); reflexivity.
    + destruct (Nat.eqb c' c0) eqn:E2.
      * destruct (Nat.eqb c' c) eqn:E3; [|reflexivity].
        apply Nat.eqb_eq in E2, E3. subst. rewrite Nat.eqb_refl in E. discriminate.
      * exact IH.
Qed.

Lemma CInvS_put σ c st : CInvS σ -> (forall k v, In (k, v) (entries st) -> Good c k v) -> CInvS (s_put σ c st).
Proof.
  intros H Hst c' st' Hf. rewrite s_find_put in Hf. destruct (Nat.eqb_spec c' c); [injection Hf as <-; subst; exact Hst|apply (H c' st' Hf)].
Qed.

Lemma cinv_get σ c k r σ' : CInvS σ -> cget σ c k = (r, σ') -> CInvS σ' /\ (forall v, r = Some v -> Good c k v).
Proof.
  intros H. unfold cget. destruct (s_find σ c) as [st|] eqn:Ef; [|intros [= <- <-]; split; [exact H|discriminate]].
  unfold c_get. destruct (e_find (ck st) (entries st) k) as [v|] eqn:E.
  - destruct (e_find_in _ _ _ _ E) as (k' & Hin & Hk).
    pose proof (H c st Ef k' v Hin) as Hg. pose proof (key_exact _ _ _ _ _ Hg Hk) as ->.
    destruct (is_lru st); intros [= <- <-]; (split; [|intros v0 [= <-]; exact Hg]).
    + apply CInvS_put; [exact H|]. cbn. intros k2 v2 [[= <- <-]|Hin2]; [exact Hg|]. apply (H c st Ef). eapply e_del_in. exact Hin2.
    + apply CInvS_put; [exact H|]. apply (H c st Ef).
  - intros [= <- <-]. split; [|discriminate]. apply CInvS_put; [exact H|]. apply (H c st Ef).
Qed.

Lemma cinv_set σ c k v : CInvS σ -> Good c k v -> CInvS (cset σ c k v).
Proof.
  intros H Hg. unfold cset. destruct (s_find σ c) as [st|] eqn:Ef; [|exact H].
  apply CInvS_put; [exact H|]. unfold c_set. cbn [entries]. intros k2 v2 Hin.
  assert (Hin' : In (k2, v2) ((k, v) :: e_del (ck st) (entries st) k)) by (destruct (cap_of st); [eapply firstn_in; exact Hin|exact Hin]).
  destruct Hin' as [[= <- <-]|Hin2]; [exact Hg|]. apply (H c st Ef). eapply e_del_in. exact Hin2.
Qed.

Lemma cinv_clear σ c : CInvS σ -> CInvS (cclear σ c).
Proof.
  intros H. unfold cclear. destruct (s_find σ c) as [st|] eqn:Ef; [|exact H].
  apply CInvS_put; [exact H|]. unfold c_clear. destruct (ck st); cbn; [tauto|apply (H c st Ef)].
Qed.

Lemma cinv_new (ks : list (nat * ckind)) : CInvS (map (fun ck => (fst ck, new_cache (snd ck))) ks).
Proof.
  intros c st Hf k v Hin. exfalso. induction ks as [|[c0 k0] ks IH]; cbn in Hf; [discriminate|].
  destruct (Nat.eqb c c0); [injection Hf as <-; destruct Hin|exact (IH Hf)].
Qed.

(* ---- the generators of a total graph meet the hypothesis GOK of L2 ---- *)
Section Graph.
Variable raises : string -> list val -> list (string * val) -> bool.
Variable g : graph.
Variable ins : list (nat * val).
Hypothesis Hwf : wf g.
Hypothesis input_not_inner : forall n v e ps, aget ins n = Some v -> nth n g Leaf = Inner e ps -> False.
Hypothesis graph_ok : forall n e ps, nth n g Leaf = Inner e ps -> node_ok e ps.
Hypothesis edges_ok : forall n e ps, nth n g Leaf = Inner e ps -> edge_ok e (List.length ps) = true.
(* every cache edge sits on a node whose plain recursive semantics is defined, with a hash free of numeric leaves
   (keys of the histories are strings: otherwise finding F3 applies) *)
Hypothesis total : forall n c ps, nth n g Leaf = Inner (ECache c) ps ->
  exists F h v, sem apply raises g ins F n = Some (h, v) /\ nonum_h h = true.

Notation GOKg := (GOK (shape g) (gens_of g) apply raises ins Good).
Notation SQ := (spq (shape g) (gens_of g) apply raises ins).
Notation SPn F := (spnode (gens_of g) ins (SQ F)).

Lemma spec_det w n x y F1 F2 : SPn F1 w n = Some x -> SPn F2 w n = Some y -> x = y.
Proof.
  intros A B. apply (Spec_det (shape g) (gens_of g) apply raises ins w n); [exists F1; exact A|exists F2; exact B].
Qed.

Lemma cache_gok f w n c ps : nth n g Leaf = Inner (ECache c) ps -> GOKg f w n (eval_gen (ECache c)).
Proof.
  intros Hn. destruct (total n c ps Hn) as (F & h & v & Hsem & Hnum).
  pose proof (hash_sound apply raises g ins edges_ok _ _ _ _ Hsem) as Hden.
  destruct (sem_spec g apply raises ins graph_ok _ _ _ _ Hsem) as (pl & [Fh Hh] & [Fv Hv]).
  pose proof (graph_ok n _ ps Hn) as ((Har & _) & _). cbn in Har.
  destruct ps as [|p [|? ?]]; try discriminate.
  (* what the specification answers to the two requests of CacheEdge.evaluate *)
  assert (Hcur : forall x, SQ f w n RCurrentHash = Some x -> x = SHash h).
  { intros x Hx. destruct f as [|f]; [discriminate|]. cbn [spq sp1] in Hx. destruct w; [discriminate|].
    destruct (SPn f WH n) as [y|] eqn:Ey; [|discriminate]. cbn in Hx.
    pose proof (spec_det _ _ _ _ _ _ Ey Hh) as ->. cbn in Hx. congruence. }
  (* the value of a cache node is the value of its parent *)
  assert (Hpv : exists F', SPn F' WC p = Some (SVal v)).
  { destruct (aget ins n) eqn:Ei.
    - exfalso. exact (input_not_inner _ _ _ _ Ei Hn).
    - destruct Fv as [|Fv]; [unfold spnode in Hv; rewrite Ei, (gens_of_inner g n _ _ WC Hn) in Hv; discriminate|].
      rewrite (SP_inner g apply raises ins Fv WC n _ _ Ei Hn) in Hv.
      cbn [gen_of] in Hv. unfold eval_gen, eval_gen_aux, CacheEdge_evaluate in Hv. cbn [geval] in Hv.
      destruct (SQ (S Fv) WC n RCurrentHash) as [o|]; [|discriminate]. cbn [geval] in Hv.
      destruct (SQ (S Fv) WC n (RParentValue 0)) as [pvv|] eqn:Epv; [|discriminate]. cbn [geval] in Hv. injection Hv as ->.
      cbn [spq sp1] in Epv. rewrite (shape_parents g n _ _ Hn) in Epv. cbn in Epv. exists Fv. exact Epv. }
  destruct Hpv as [F' HF'].
  assert (Hpar : forall x, SQ f w n (RParentValue 0) = Some x -> x = SVal v).
  { intros x Hx. destruct f as [|f]; [discriminate|]. cbn [spq sp1] in Hx.
    rewrite (shape_parents g n _ _ Hn) in Hx. cbn in Hx. apply (spec_det _ _ _ _ _ _ Hx HF'). }
  unfold eval_gen, eval_gen_aux, CacheEdge_evaluate.
  constructor. intros x Hx. rewrite (Hcur x Hx).
  constructor.
  - constructor. intros val Hval. rewrite (Hpar val Hval). constructor; [|constructor].
    exists h, v. auto.
  - intros x' (h' & v' & Hk & _ & -> & Hd'). injection Hk as <-. rewrite Hden in Hd'. injection Hd' as <-.
    split; [constructor|]. intros r. cbn [geval].
    destruct (SQ f w n (RParentValue 0)) as [pvv|] eqn:Epv; [|discriminate].
    rewrite (Hpar pvv eq_refl). cbn [geval]. auto.
Qed.

Lemma gens_gok : forall f w n e, gens_of g w n = Some e -> GOKg f w n e.
Proof.
  intros f w n e He. unfold gens_of, edge_of in He. destruct (nth n g Leaf) as [|ed ps] eqn:Hn; [discriminate|].
  injection He as <-. destruct (cache_free ed) eqn:Ecf.
  - apply GOK_pure. destruct w; cbn; [apply pure_hash|apply pure_eval]; exact Ecf.
  - destruct ed; try discriminate.
    + destruct w; cbn [gen_of].
      * apply GOK_pure. unfold hash_gen, StaticHash_compute_hash. repeat (constructor; intros).
      * apply (cache_gok f WC n c ps Hn).
    + cbn in Ecf. pose proof (graph_ok n _ ps Hn) as (_ & _ & Hs). destruct ed; discriminate.
    + cbn in Ecf. pose proof (graph_ok n _ ps Hn) as (_ & _ & Hs). destruct ed; discriminate.
Qed.

(* Graph.get_hash on any such store: the node hash of the cache-free semantics, whatever the caches hold *)
Theorem hash_transparent o F h v (interfere : cstore -> cstore) :
  (forall s, CInvS s -> CInvS (interfere s)) ->
  o <= List.length g -> sem apply raises g ins F o = Some (h, v) ->
  exists pl, forall σ, CInvS σ -> exists k s', (forall k', k <= k' ->
      get_hash (shape g) (gens_of g) apply raises cstore cget cset interfere ins o σ k' = Finished cstore (SHashOut h pl) s')
    /\ CInvS (sto cstore s').
Proof.
  intros Hint Ho Hsem.
  destruct (sem_spec g apply raises ins graph_ok _ _ _ _ Hsem) as (pl & [Fh Hh] & _).
  exists pl. intros σ Hc.
  apply (call_refines_w (shape g) (gens_of g) apply raises ins cstore cget cset Good CInvS
           (fun st c k r st' => cinv_get st c k r st') (fun st c k v0 => cinv_set st c k v0) interfere Hint o Hwf
           ltac:(unfold shape; rewrite map_length; lia) gens_gok WH Fh (SHashOut h pl) σ Hh Hc).
Qed.

(* one call on a store whose entries are Good, with arbitrary Good-preserving interference by other threads *)
Theorem call_transparent o F h v σ (interfere : cstore -> cstore) :
  (forall s, CInvS s -> CInvS (interfere s)) ->
  o <= List.length g -> sem apply raises g ins F o = Some (h, v) -> CInvS σ ->
  exists k s', (forall k', k <= k' ->
      call (shape g) (gens_of g) apply raises cstore cget cset interfere ins o σ k' = Finished cstore (SVal v) s')
    /\ CInvS (sto cstore s').
Proof.
  intros Hint Ho Hsem Hc.
  destruct (sem_spec g apply raises ins graph_ok _ _ _ _ Hsem) as (pl & _ & [Fv Hv]).
  apply (call_refines (shape g) (gens_of g) apply raises ins cstore cget cset Good CInvS
           (fun st c k r st' => cinv_get st c k r st') (fun st c k v0 => cinv_set st c k v0) interfere Hint o Hwf
           ltac:(unfold shape; rewrite map_length; lia) gens_gok Fv (SVal v) σ Hv Hc).
Qed.

(* The same with a time-dependent environment: [env t] is whatever the other threads did to the shared caches
   between the (t-1)-th and the t-th cache access of this call.  The access counter lives in the store component
   of the machine, so the generic theorem applies unchanged. *)
Definition tstore := (nat * cstore)%type.
Definition tget (s : tstore) (c : nat) (k : sval) : option sval * tstore :=
  let (r, σ') := cget (snd s) c k in (r, (S (fst s), σ')).
Definition tset (s : tstore) (c : nat) (k v : sval) : tstore := (S (fst s), cset (snd s) c k v).
Definition tenv (env : nat -> cstore -> cstore) (s : tstore) : tstore := (fst s, env (fst s) (snd s)).

Theorem call_transparent_env o F h v σ (env : nat -> cstore -> cstore) :
  (forall t s, CInvS s -> CInvS (env t s)) ->
  o <= List.length g -> sem apply raises g ins F o = Some (h, v) -> CInvS σ ->
  exists k s', (forall k', k <= k' ->
      call (shape g) (gens_of g) apply raises tstore tget tset (tenv env) ins o (0, σ) k' = Finished tstore (SVal v) s')
    /\ CInvS (snd (sto tstore s')).
Proof.
  intros Henv Ho Hsem Hc.
  destruct (sem_spec g apply raises ins graph_ok _ _ _ _ Hsem) as (pl & _ & [Fv Hv]).
  apply (call_refines (shape g) (gens_of g) apply raises ins tstore tget tset Good (fun s => CInvS (snd s))) with (f := Fv).
  - intros st c k r st' Hi Hg. unfold tget in Hg. destruct (cget (snd st) c k) as [r0 σ'] eqn:E. injection Hg as <- <-.
    cbn. apply (cinv_get _ _ _ _ _ Hi E).
  - intros st c k v0 Hi Hg. cbn. apply cinv_set; assumption.
  - intros st Hi. cbn. apply Henv. exact Hi.
  - exact Hwf.
  - unfold shape. rewrite map_length. lia.
  - exact gens_gok.
  - exact Hv.
  - exact Hc.
Qed.
End Graph.

(* ---- histories: calls on any graphs (rebuilds, pipeline variants) sharing the caches, and clears ---- *)
Record hcall := { hc_g : graph; hc_ins : list (nat * val); hc_o : nat;
                  hc_raises : string -> list val -> list (string * val) -> bool }.
Inductive hop2 := HC (c : hcall) (v : val) | HClr (cs : list nat).

Definition call_ok (c : hcall) (v : val) : Prop :=
  wf (hc_g c) /\
  (forall n x e ps, aget (hc_ins c) n = Some x -> nth n (hc_g c) Leaf = Inner e ps -> False) /\
  (forall n e ps, nth n (hc_g c) Leaf = Inner e ps -> node_ok e ps) /\
  (forall n e ps, nth n (hc_g c) Leaf = Inner e ps -> edge_ok e (List.length ps) = true) /\
  (forall n k ps, nth n (hc_g c) Leaf = Inner (ECache k) ps ->
     exists F h x, sem apply (hc_raises c) (hc_g c) (hc_ins c) F n = Some (h, x) /\ nonum_h h = true) /\
  hc_o c <= List.length (hc_g c) /\
  exists F h, sem apply (hc_raises c) (hc_g c) (hc_ins c) F (hc_o c) = Some (h, v).
Definition op_ok (o : hop2) : Prop := match o with HC c v => call_ok c v | HClr _ => True end.

(* "the history runs and every call returns the expected value" *)
Inductive hist (interfere : cstore -> cstore) : cstore -> list hop2 -> Prop :=
| h_nil σ : hist interfere σ []
| h_call σ c v rest k s' :
    (forall k', k <= k' ->
       call (shape (hc_g c)) (gens_of (hc_g c)) apply (hc_raises c) cstore cget cset interfere (hc_ins c) (hc_o c) σ k'
       = Finished cstore (SVal v) s') ->
    hist interfere (sto cstore s') rest -> hist interfere σ (HC c v :: rest)
| h_clear σ cs rest : hist interfere (fold_left cclear cs σ) rest -> hist interfere σ (HClr cs :: rest).

Theorem history_transparent (interfere : cstore -> cstore) :
  (forall s, CInvS s -> CInvS (interfere s)) ->
  forall ops σ, CInvS σ -> Forall op_ok ops -> hist interfere σ ops.
Proof.
  intros Hint. induction ops as [|o ops IH]; intros σ Hc Hok; [constructor|].
  inversion Hok as [|? ? Ho Hrest]; subst. destruct o as [c v|cs].
  - destruct Ho as (Hwf & Hin & Hnode & Hedge & Htot & Hlen & F & h & Hsem).
    destruct (call_transparent (hc_raises c) (hc_g c) (hc_ins c) Hwf Hin Hnode Hedge Htot (hc_o c) F h v σ interfere Hint Hlen Hsem Hc)
      as (k & s' & Hk & Hc').
    eapply h_call; [exact Hk|]. apply IH; assumption.
  - apply h_clear. apply IH; [|exact Hrest].
    clear - Hc. revert σ Hc. induction cs as [|c cs IHc]; intros σ Hc; cbn; [exact Hc|]. apply IHc. apply cinv_clear. exact Hc.
Qed.

End C04.
