(* Association-list and eviction lemmas (EvictionCache of engine/utils.py). *)
From Connectome Require Import Values VM.
(* ---------- association lists ---------- *)
Lemma aget_adel {V} (l : list (nat * V)) k k' :
  aget (adel l k) k' = if Nat.eqb k' k then None else aget l k'.
Proof.
  induction l as [|[a v] l IH]; cbn.
  - destruct (Nat.eqb k' k); reflexivity.
  - destruct (Nat.eqb k a) eqn:E1.
    + rewrite IH. destruct (Nat.eqb k' k) eqn:E2; [reflexivity|].
      destruct (Nat.eqb k' a) eqn:E3; [|reflexivity].
      apply Nat.eqb_eq in E1, E3. subst. rewrite Nat.eqb_refl in E2. discriminate.
    + cbn. destruct (Nat.eqb k' a) eqn:E3.
      * destruct (Nat.eqb k' k) eqn:E2; [|reflexivity].
        apply Nat.eqb_eq in E2, E3. subst. rewrite Nat.eqb_refl in E1. discriminate.
      * exact IH.
Qed.

Lemma aget_aset {V} (l : list (nat * V)) k v k' :
  aget (aset l k v) k' = if Nat.eqb k' k then Some v else aget l k'.
Proof.
  unfold aset; cbn. destruct (Nat.eqb k' k) eqn:E; [reflexivity|].
  rewrite aget_adel, E. reflexivity.
Qed.

(* ---------- counts of an eviction cache ---------- *)
Definition cntc (c : ecache) (p : nat) : nat := match aget (counts c) p with Some n => n | None => 0 end.
Definition wfc (c : ecache) : Prop := forall p n, aget (counts c) p = Some n -> n >= 1.

Lemma evict_spec c k : wfc c -> cntc c k >= 1 ->
  exists c', evict c k = Some c' /\ wfc c' /\
    (forall p, cntc c' p = if Nat.eqb p k then cntc c k - 1 else cntc c p) /\
    (forall p, aget (memo c') p = if Nat.eqb p k && Nat.eqb (cntc c k) 1 then None else aget (memo c) p).
Proof.
  intros Hwf Hk. unfold evict, cntc in *.
  destruct (aget (counts c) k) as [n|] eqn:E; [|lia].
  destruct n as [|[|n]]; [lia| |].
  - eexists; split; [reflexivity|]. split; [|split].
    + intros p m; cbn [counts memo]. rewrite aget_adel. destruct (Nat.eqb p k); [discriminate|]. apply Hwf.
    + intros p; cbn [counts memo]. rewrite aget_adel. destruct (Nat.eqb p k); reflexivity.
    + intros p; cbn [counts memo]. rewrite aget_adel. destruct (Nat.eqb p k); reflexivity.
  - eexists; split; [reflexivity|]. split; [|split].
    + intros p m; cbn [counts memo]. rewrite aget_aset. destruct (Nat.eqb p k); [intros [= <-]; lia|]. apply Hwf.
    + intros p; cbn [counts memo]. rewrite aget_aset. destruct (Nat.eqb p k); cbn; [lia|reflexivity].
    + intros p; cbn [counts memo]. rewrite andb_false_r. reflexivity.
Qed.

Definition occl (ps : list nat) (p : nat) : nat := count_occ Nat.eq_dec ps p.

Ltac bsolve :=
  repeat match goal with
  | |- context [Nat.eqb ?a ?b] => destruct (Nat.eqb_spec a b); subst
  | |- context [Nat.ltb ?a ?b] => destruct (Nat.ltb_spec a b)
  | H : context [Nat.eqb ?a ?b] |- _ => destruct (Nat.eqb_spec a b); subst
  end; cbn in *; try reflexivity; try lia; try congruence.

(* evicting a list of parents from both caches, which carry equal counts *)
Lemma evict_all_spec ps : forall h c,
  wfc h -> wfc c -> (forall p, cntc h p = cntc c p) ->
  (forall p, cntc c p >= occl ps p) ->
  exists h' c', evict_all h c ps = Some (h', c') /\ wfc h' /\ wfc c' /\
    (forall p, cntc h' p = cntc c' p) /\
    (forall p, cntc c' p = cntc c p - occl ps p) /\
    (forall p, aget (memo h') p = if (0 <? occl ps p) && (cntc c p =? occl ps p) then None else aget (memo h) p) /\
    (forall p, aget (memo c') p = if (0 <? occl ps p) && (cntc c p =? occl ps p) then None else aget (memo c) p).
Proof.
  induction ps as [|k ps IH]; intros h c Hwh Hwc Heq Hge.
  - exists h, c. cbn. repeat split; auto. intros p; lia.
  - cbn [evict_all].
    assert (Hk : cntc c k >= 1). { specialize (Hge k). unfold occl in Hge. cbn in Hge. destruct (Nat.eq_dec k k); lia. }
    destruct (evict_spec h k Hwh) as (h1 & E1 & Wh1 & Ch1 & Mh1). { rewrite Heq. exact Hk. }
    destruct (evict_spec c k Hwc Hk) as (c1 & E2 & Wc1 & Cc1 & Mc1).
    rewrite E1, E2.
    destruct (IH h1 c1 Wh1 Wc1) as (h' & c' & E & Wh' & Wc' & Heq' & Cnt' & Mh' & Mc').
    { intros p. rewrite Ch1, Cc1, !Heq. reflexivity. }
    { intros p. rewrite Cc1. specialize (Hge p). unfold occl in *. cbn in Hge.
      destruct (Nat.eqb p k) eqn:Epk.
      - apply Nat.eqb_eq in Epk. subst p. destruct (Nat.eq_dec k k); lia.
      - apply Nat.eqb_neq in Epk. destruct (Nat.eq_dec k p); [congruence|]. lia. }
    exists h', c'. split; [exact E|]. split; [exact Wh'|]. split; [exact Wc'|]. split; [exact Heq'|].
    assert (Hocc : forall p, occl (k :: ps) p = (if Nat.eqb p k then 1 else 0) + occl ps p).
    { intros p. unfold occl. cbn. destruct (Nat.eq_dec k p) as [->|Hn].
      - rewrite Nat.eqb_refl. reflexivity.
      - destruct (Nat.eqb p k) eqn:Epk; [apply Nat.eqb_eq in Epk; congruence|]. reflexivity. }
    split; [|split].
    + intros p. rewrite Cnt', Cc1, Hocc. destruct (Nat.eqb p k) eqn:Epk; [apply Nat.eqb_eq in Epk; subst; lia|lia].
    + intros p. rewrite Mh', Mh1, Cc1, Hocc, Heq. specialize (Hge p). rewrite Hocc in Hge. bsolve.
    + intros p. rewrite Mc', Mc1, Cc1, Hocc. specialize (Hge p). rewrite Hocc in Hge. bsolve.
Qed.
