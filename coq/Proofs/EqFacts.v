(* Decidable equalities of Model/Values.v are exact where the caches rely on it: structural equality (the pickled
   digest) always, Python == (RAM cache keys, NodeHash.__eq__) on terms without numeric leaves. *)
From Connectome Require Import Values.
Local Open Scope list_scope.

(* nested induction principle for values *)
Section ValInd.
Variable P : val -> Prop.
Hypothesis Hstr : forall s, P (VStr s).
Hypothesis Hint : forall z, P (VInt z).
Hypothesis Hflt : forall z, P (VFlt z).
Hypothesis Hbool : forall b, P (VBool b).
Hypothesis Hnone : P VNone.
Hypothesis Hnat : forall n, P (VNat n).
Hypothesis Hfun : forall f, P (VFun f).
Hypothesis Htup : forall xs, Forall P xs -> P (VTuple xs).
Hypothesis Hdict : forall kv, Forall (fun p => P (fst p) /\ P (snd p)) kv -> P (VDict kv).
Hypothesis Happ : forall f pos kw, Forall P pos -> Forall (fun p => P (snd p)) kw -> P (VApp f pos kw).

Fixpoint val_ind' (v : val) : P v :=
  match v with
  | VStr s => Hstr s | VInt z => Hint z | VFlt z => Hflt z | VBool b => Hbool b | VNone => Hnone
  | VNat n => Hnat n | VFun f => Hfun f
  | VTuple xs => Htup xs ((fix go l : Forall P l := match l with [] => Forall_nil _ | x :: t => Forall_cons _ (val_ind' x) (go t) end) xs)
  | VDict kv => Hdict kv ((fix go l : Forall (fun p => P (fst p) /\ P (snd p)) l :=
                             match l with [] => Forall_nil _ | (a, b) :: t => @Forall_cons _ (fun p => P (fst p) /\ P (snd p)) (a, b) t (conj (val_ind' a) (val_ind' b)) (go t) end) kv)
  | VApp f pos kw => Happ f pos kw
      ((fix go l : Forall P l := match l with [] => Forall_nil _ | x :: t => Forall_cons _ (val_ind' x) (go t) end) pos)
      ((fix go l : Forall (fun p => P (snd p)) l := match l with [] => Forall_nil _ | (a, b) :: t => @Forall_cons _ (fun p => P (snd p)) (a, b) t (val_ind' b) (go t) end) kw)
  end.
End ValInd.

Lemma veqb_eq : forall a b, veqb a b = true -> a = b.
Proof.
  induction a as [s|z|z|b0| |n|f|xs IH|kv IH|f pos kw IHp IHk] using val_ind'; intros b H; destruct b; cbn in H; try discriminate.
  - apply String.eqb_eq in H. congruence.
  - apply Z.eqb_eq in H. congruence.
  - apply Z.eqb_eq in H. congruence.
  - apply Bool.eqb_prop in H. congruence.
  - reflexivity.
  - apply Nat.eqb_eq in H. congruence.
  - apply String.eqb_eq in H. congruence.
  - f_equal. revert xs0 H. induction IH as [|x l Hx Hl IHl]; intros [|y l'] H; try discriminate; [reflexivity|].
    apply andb_prop in H as [H1 H2]. f_equal; [apply Hx; exact H1|apply IHl; exact H2].
  - f_equal. revert kv0 H. induction IH as [|[a b] l [Ha Hb] Hl IHl]; intros [|[c d] l'] H; try discriminate; [reflexivity|].
    apply andb_prop in H as [H1 H3]. apply andb_prop in H1 as [H1 H2]. cbn in *.
    f_equal; [f_equal; [apply Ha; exact H1|apply Hb; exact H2]|apply IHl; exact H3].
  - apply andb_prop in H as [H H3]. apply andb_prop in H as [H1 H2]. apply String.eqb_eq in H1. subst.
    f_equal.
    + clear H3 IHk. revert pos0 H2. induction IHp as [|x l Hx Hl IHl]; intros [|y l'] H; try discriminate; [reflexivity|].
      apply andb_prop in H as [H1 H2]. f_equal; [apply Hx; exact H1|apply IHl; exact H2].
    + clear H2 IHp. revert kw0 H3. induction IHk as [|[a b] l Hb Hl IHl]; intros [|[c d] l'] H; try discriminate; [reflexivity|].
      apply andb_prop in H as [H1 H3]. apply andb_prop in H1 as [H1 H2]. apply String.eqb_eq in H1. cbn in *. subst.
      f_equal; [f_equal; apply Hb; exact H2|apply IHl; exact H3].
Qed.

(* no numeric leaf outside the results of user functions (whose == is identity of the term) *)
Fixpoint nonum (v : val) : bool :=
  match v with
  | VInt _ | VFlt _ | VBool _ => false
  | VTuple xs => forallb nonum xs
  | _ => true
  end.

Lemma pyeq_exact : forall a b, nonum b = true -> pyeq a b = true -> a = b.
Proof.
  induction a as [s|z|z|b0| |n|f|xs IH|kv IH|f pos kw IHp IHk] using val_ind'; intros b Hn H; destruct b; cbn in Hn, H; try discriminate.
  - apply String.eqb_eq in H. congruence.
  - reflexivity.
  - apply Nat.eqb_eq in H. congruence.
  - apply String.eqb_eq in H. congruence.
  - f_equal. revert xs0 Hn H. induction IH as [|x l Hx Hl IHl]; intros [|y l'] Hn H; try discriminate; [reflexivity|].
    cbn in Hn. apply andb_prop in Hn as [N1 N2]. apply andb_prop in H as [H1 H2].
    f_equal; [apply Hx; assumption|apply IHl; assumption].
  - apply (veqb_eq (VDict kv) (VDict kv0)). exact H.
  - apply (veqb_eq (VApp f pos kw) (VApp f0 pos0 kw0)). exact H.
Qed.

(* hashes *)
Section HashInd.
Variable P : nhash -> Prop.
Hypothesis Hleaf : forall v, P (HLeaf v).
Hypothesis Happly : forall f args kw, Forall P args -> P (HApply f args kw).
Hypothesis Hgraph : forall h, P h -> P (HGraph h).
Hypothesis Hcustom : forall m args, Forall P args -> P (HCustom m args).
Hypothesis Hplace : P HPlaceholder.
Fixpoint nhash_ind' (h : nhash) : P h :=
  match h with
  | HLeaf v => Hleaf v
  | HApply f args kw => Happly f args kw ((fix go l : Forall P l := match l with [] => Forall_nil _ | x :: t => Forall_cons _ (nhash_ind' x) (go t) end) args)
  | HGraph h => Hgraph h (nhash_ind' h)
  | HCustom m args => Hcustom m args ((fix go l : Forall P l := match l with [] => Forall_nil _ | x :: t => Forall_cons _ (nhash_ind' x) (go t) end) args)
  | HPlaceholder => Hplace
  end.
End HashInd.

Lemma list_eqb_string_eq : forall k l, list_eqb String.eqb k l = true -> k = l.
Proof.
  induction k as [|a k IH]; intros [|b l] H; cbn in H; try discriminate; [reflexivity|].
  apply andb_prop in H as [H1 H2]. apply String.eqb_eq in H1. f_equal; [exact H1|apply IH; exact H2].
Qed.

Fixpoint leaves_ok (ok : val -> bool) (h : nhash) : bool :=
  match h with
  | HLeaf v => ok v
  | HApply _ args _ | HCustom _ args => forallb (leaves_ok ok) args
  | HGraph h => leaves_ok ok h
  | HPlaceholder => true
  end.

Lemma heqb_with_exact (leq : val -> val -> bool) (ok : val -> bool) :
  (forall a b, ok b = true -> leq a b = true -> a = b) ->
  forall a b, leaves_ok ok b = true -> heqb_with leq a b = true -> a = b.
Proof.
  intros Hleq. induction a as [v|f args kw IH|h IH|m args IH|] using nhash_ind'; intros b Hok H; destruct b; cbn in Hok, H; try discriminate.
  - f_equal. apply Hleq; assumption.
  - apply andb_prop in H as [H H3]. apply andb_prop in H as [H1 H2]. apply String.eqb_eq in H1. apply list_eqb_string_eq in H3. subst.
    f_equal. revert args0 Hok H2. induction IH as [|x l Hx Hl IHl]; intros [|y l'] Hok H; try discriminate; [reflexivity|].
    cbn in Hok. apply andb_prop in Hok as [O1 O2]. apply andb_prop in H as [H1 H2]. f_equal; [apply Hx; assumption|apply IHl; assumption].
  - f_equal. apply IH; assumption.
  - apply andb_prop in H as [H1 H2]. apply String.eqb_eq in H1. subst.
    f_equal. revert args0 Hok H2. induction IH as [|x l Hx Hl IHl]; intros [|y l'] Hok H; try discriminate; [reflexivity|].
    cbn in Hok. apply andb_prop in Hok as [O1 O2]. apply andb_prop in H as [H1 H2]. f_equal; [apply Hx; assumption|apply IHl; assumption].
  - reflexivity.
Qed.

(* equal digests <-> equal hash terms (the model's reading of "the pickler is injective") *)
Lemma heqb_eq a b : heqb a b = true -> a = b.
Proof.
  intros H. apply (heqb_with_exact veqb (fun _ => true)); [intros x y _; apply veqb_eq| |exact H].
  clear. induction b as [v|f args kw IH|h IH|m args IH|] using nhash_ind'; cbn; auto;
    induction IH as [|x l Hx Hl IHl]; cbn; auto; rewrite Hx, IHl; reflexivity.
Qed.

(* Python == on hash values is exact when the right-hand hash has no numeric leaves *)
Definition nonum_h := leaves_ok nonum.
Lemma hpyeq_exact a b : nonum_h b = true -> hpyeq a b = true -> a = b.
Proof. apply heqb_with_exact. exact pyeq_exact. Qed.

(* reflexivity *)
Lemma veqb_refl : forall a, veqb a a = true.
Proof.
  induction a as [s|z|z|b0| |n|f|xs IH|kv IH|f pos kw IHp IHk] using val_ind'; cbn.
  - apply String.eqb_refl.
  - apply Z.eqb_refl.
  - apply Z.eqb_refl.
  - destruct b0; reflexivity.
  - reflexivity.
  - apply Nat.eqb_refl.
  - apply String.eqb_refl.
  - induction IH as [|x l Hx Hl IHl]; [reflexivity|]. rewrite Hx. exact IHl.
  - induction IH as [|[a b] l [Ha Hb] Hl IHl]; [reflexivity|]. cbn in Ha, Hb. rewrite Ha, Hb. exact IHl.
  - rewrite String.eqb_refl. cbn.
    assert ((fix vl (x y : list val) {struct x} : bool :=
               match x with [] => match y with [] => true | _ :: _ => false end
               | p :: x' => match y with [] => false | q :: y' => veqb p q && vl x' y' end end) pos pos = true) as ->.
    { induction IHp as [|x l Hx Hl IHl]; [reflexivity|]. rewrite Hx. exact IHl. }
    cbn. induction IHk as [|[a b] l Hb Hl IHl]; [reflexivity|]. cbn in Hb. rewrite String.eqb_refl, Hb. exact IHl.
Qed.

Lemma pyeq_refl : forall a, pyeq a a = true.
Proof.
  induction a as [s|z|z|b0| |n|f|xs IH|kv IH|f pos kw IHp IHk] using val_ind'.
  - cbn. apply String.eqb_refl.
  - cbn. apply Z.eqb_refl.
  - cbn. apply Z.eqb_refl.
  - cbn. apply Z.eqb_refl.
  - reflexivity.
  - cbn. apply Nat.eqb_refl.
  - cbn. apply String.eqb_refl.
  - cbn. induction IH as [|x l Hx Hl IHl]; [reflexivity|]. rewrite Hx. exact IHl.
  - exact (veqb_refl (VDict kv)).
  - exact (veqb_refl (VApp f pos kw)).
Qed.

Lemma list_eqb_string_refl : forall k, list_eqb String.eqb k k = true.
Proof. induction k as [|a k IH]; cbn; [reflexivity|]. rewrite String.eqb_refl. exact IH. Qed.

Lemma heqb_with_refl (leq : val -> val -> bool) : (forall a, leq a a = true) -> forall a, heqb_with leq a a = true.
Proof.
  intros Hl. induction a as [v|f args kw IH|h IH|m args IH|] using nhash_ind'; cbn.
  - apply Hl.
  - rewrite String.eqb_refl, list_eqb_string_refl. cbn. rewrite andb_true_r.
    induction IH as [|x l Hx Hl' IHl]; [reflexivity|]. rewrite Hx. exact IHl.
  - exact IH.
  - rewrite String.eqb_refl. cbn. induction IH as [|x l Hx Hl' IHl]; [reflexivity|]. rewrite Hx. exact IHl.
  - reflexivity.
Qed.
Lemma heqb_refl a : heqb a a = true. Proof. apply heqb_with_refl. exact veqb_refl. Qed.
Lemma hpyeq_refl a : hpyeq a a = true. Proof. apply heqb_with_refl. exact pyeq_refl. Qed.
