(* Further facts about the regenerated hash makers: what a node hash does NOT depend on (Silent arguments), and the
   known weakness of in-process equality (finding F3). *)
From Connectome Require Import Values Attrs VM Edges EdgesGen HashSound EqFacts.
Local Open Scope list_scope.

Lemma replace_nth_length {A} (x : A) : forall l i, List.length (replace_nth i x l) = List.length l.
Proof. induction l as [|a l IH]; intros [|i]; cbn; auto. Qed.
Lemma replace_nth_nth {A} (x d : A) : forall l i j,
  nth j (replace_nth i x l) d = if Nat.eqb j i && Nat.ltb i (List.length l) then x else nth j l d.
Proof.
  induction l as [|a l IH]; intros i j.
  - destruct i; cbn; rewrite andb_false_r; reflexivity.
  - destruct i as [|i], j as [|j]; cbn; try reflexivity. apply IH.
Qed.

Definition silence (sil : list nat) (l : list nhash) : list nhash :=
  fold_left (fun acc idx => replace_nth idx (HLeaf VNone) acc) sil l.
Lemma silence_length sil : forall l, List.length (silence sil l) = List.length l.
Proof. induction sil as [|i sil IH]; intros l; cbn; [reflexivity|]. unfold silence in IH. rewrite IH. apply replace_nth_length. Qed.
Lemma silence_nth sil : forall l j,
  nth j (silence sil l) hnone = if existsb (Nat.eqb j) sil && Nat.ltb j (List.length l) then HLeaf VNone else nth j l hnone.
Proof.
  induction sil as [|i sil IH]; intros l j; cbn [silence fold_left existsb]; [reflexivity|].
  fold (silence sil (replace_nth i (HLeaf VNone) l)). rewrite IH, replace_nth_length, replace_nth_nth.
  destruct (Nat.eqb_spec j i) as [->|Hne]; cbn [orb andb].
  - destruct (Nat.ltb i (List.length l)) eqn:E; [destruct (existsb _ sil); reflexivity|].
    rewrite !andb_false_r. reflexivity.
  - reflexivity.
Qed.

(* the node hash of a function edge ignores the hashes at Silent positions and nothing else is hidden: it is a
   function of the hashes at the other positions, the function and the keyword names *)
Lemma silent_independent f ar kw sil ph ph' :
  List.length ph = List.length ph' ->
  (forall i, existsb (Nat.eqb i) sil = false -> nth i ph hnone = nth i ph' hnone) ->
  FunctionEdge_make_hash (self_of (EFunc f ar kw sil)) ph = FunctionEdge_make_hash (self_of (EFunc f ar kw sil)) ph'.
Proof.
  intros Hl Hag. unfold FunctionEdge_make_hash. cbn [self_of static_graph silent function kw_names].
  destruct sil as [|s0 sil]; cbn [nonempty].
  - f_equal. apply (nth_ext _ _ hnone hnone Hl). intros i _. apply Hag. reflexivity.
  - f_equal. change (silence (s0 :: sil) ph = silence (s0 :: sil) ph').
    apply (nth_ext _ _ hnone hnone); [rewrite !silence_length; exact Hl|]. intros i _.
    rewrite !silence_nth, <- Hl. destruct (existsb (Nat.eqb i) (s0 :: sil)) eqn:E; cbn [andb].
    + destruct (Nat.ltb i (List.length ph)) eqn:E2; [reflexivity|].
      apply Nat.ltb_ge in E2. rewrite !nth_overflow by lia. reflexivity.
    + apply Hag. exact E.
Qed.

(* F3: in-process equality of node hashes (NodeHash.__eq__, RAM cache keys) identifies hashes whose leaves are
   ==-equal but different; the digests (structural equality) differ *)
Lemma pyeq_not_exact :
  hpyeq (HLeaf (VInt 1)) (HLeaf (VFlt 1)) = true /\ hpyeq (HLeaf (VInt 1)) (HLeaf (VBool true)) = true /\
  HLeaf (VInt 1) <> HLeaf (VFlt 1) /\ heqb (HLeaf (VInt 1)) (HLeaf (VFlt 1)) = false.
Proof. repeat split; try reflexivity; discriminate. Qed.
