(* Facts about the regenerated edge generators (Gen/EdgesGen.v via Model/Edges.v) that the property theorems
   use.  A change of a generator body in /repo regenerates EdgesGen.v; if the new body no longer has the
   characterised behaviour, the corresponding lemma here stops checking. *)
From Connectome Require Import Values Attrs VM Edges EdgesGen Evaluator L2.
Local Open Scope list_scope.

(* generators that never touch a shared cache *)
Inductive pure_gen : gen -> Prop :=
| pg_ret r : pure_gen (GRet r)
| pg_yield r k : (forall x, pure_gen (k x)) -> pure_gen (GYield r k)
| pg_raise e : pure_gen (GRaise e).

Lemma pure_relay gn : pure_gen gn -> pure_gen (relay gn).
Proof. induction 1; cbn; constructor; auto. Qed.

Fixpoint cache_free (e : edge) : bool :=
  match e with ECache _ => false | EByValue i | EImpure i => cache_free i | _ => true end.

Lemma pure_eval e : cache_free e = true -> pure_gen (eval_gen e).
Proof.
  destruct e; cbn; intros Hc; try discriminate; unfold eval_gen, eval_gen_aux;
    repeat (constructor; intros); cbn;
    repeat match goal with |- pure_gen (if ?b then _ else _) => destruct b end;
    repeat match goal with |- pure_gen (match ?b with _ => _ end) => destruct b end;
    repeat (constructor; intros).
  unfold CheckIdsEdge_evaluate. destruct (val_in _ _); constructor.
Qed.

Lemma pure_hash e : cache_free e = true -> pure_gen (hash_gen e).
Proof.
  destruct e; cbn [cache_free]; intros Hc; try discriminate; unfold hash_gen;
    try (repeat (constructor; intros); cbn;
         repeat match goal with |- pure_gen (match ?b with _ => _ end) => destruct b end;
         repeat (constructor; intros); fail).
  - apply pure_relay. apply (pure_eval e Hc).
  - apply pure_relay. apply (pure_eval e Hc).
Qed.

Section GOK.
Variable g : pgraph.
Variable gens : which -> nat -> option gen.
Variable apply : string -> list val -> list (string * val) -> val.
Variable raises : string -> list val -> list (string * val) -> bool.
Variable ins : list (nat * val).
Variable Good : nat -> sval -> sval -> Prop.

Lemma GOK_pure f w n gn : pure_gen gn -> GOK g gens apply raises ins Good f w n gn.
Proof. induction 1; constructor; auto. Qed.
End GOK.
