(* C01, the failing direction: whatever the user functions do, a call whose failure-free run is defined either returns
   the same value or stops with the exception of a user function that raised - never with an internal error.
   The machine consults [raises] in exactly one place (the Call arm): a run under any [raises] is the run under
   "nothing raises" up to the first call that raises. *)
From Connectome Require Import Values VM.
Local Open Scope list_scope.

Section RaiseDir.
Variable g : pgraph.
Variable gens : which -> nat -> option gen.
Variable apply : string -> list val -> list (string * val) -> val.
Variable raises : string -> list val -> list (string * val) -> bool.
Variable cstore : Type.
Variable cget : cstore -> nat -> sval -> option sval * cstore.
Variable cset : cstore -> nat -> sval -> sval -> cstore.
Variable interfere : cstore -> cstore.

Definition quiet : string -> list val -> list (string * val) -> bool := fun _ _ _ => false.
Notation stepr := (step g gens apply raises cstore cget cset interfere).
Notation stepq := (step g gens apply quiet cstore cget cset interfere).
Notation runr := (run g gens apply raises cstore cget cset interfere).
Notation runq := (run g gens apply quiet cstore cget cset interfere).

(* a user exception: raised by the machine exactly when [raises] says so at a call it executes *)
Definition user_raise (o : outcome cstore) : Prop :=
  exists f pos kw s, o = Raised cstore (EUser f) s /\ raises f pos kw = true.

Definition ostate (o : outcome cstore) : st cstore :=
  match o with Running _ s | Finished _ _ s | Raised _ _ s | Stuck _ _ s => s end.

Lemma step_quiet s : stepr s = stepq s \/
  (user_raise (stepr s) /\ sto cstore (ostate (stepr s)) = sto cstore s /\ exists s', stepq s = Running cstore s').
Proof.
  unfold step. destruct (cmds cstore s) as [|c K]; [left; reflexivity|].
  destruct c as [|n it| | |r|w key|i|n k rs]; try (left; reflexivity).
  destruct r as [i|i| | |rs|f pos kw]; try (left; reflexivity).
  destruct (stack cstore s) as [|x S1]; [left; reflexivity|].
  unfold quiet at 1. destruct (raises f pos kw) eqn:E; [|left; reflexivity].
  right. split; [exists f, pos, kw; eexists; split; [reflexivity|exact E]|split; [reflexivity|eexists; reflexivity]].
Qed.

Theorem run_quiet : forall fuel s v s',
  runq fuel s = Finished cstore v s' -> runr fuel s = Finished cstore v s' \/ user_raise (runr fuel s).
Proof.
  induction fuel as [|fuel IH]; intros s v s' H; [discriminate|]. cbn [run] in *.
  destruct (step_quiet s) as [E|[Hu [_ [s1 E1]]]].
  - rewrite E. destruct (stepq s) as [s1| | |]; [apply IH, H|left; exact H|discriminate|discriminate].
  - right. destruct Hu as (f & pos & kw & s2 & Hr & Hb). rewrite Hr. exists f, pos, kw, s2. auto.
Qed.

(* the same for runs that have not finished yet *)
Theorem run_quiet_gen : forall fuel s,
  match runq fuel s with
  | Finished _ v s' => runr fuel s = Finished cstore v s' \/ user_raise (runr fuel s)
  | Running _ s' => runr fuel s = Running cstore s' \/ user_raise (runr fuel s)
  | _ => True
  end.
Proof.
  induction fuel as [|fuel IH]; intros s; cbn [run]; [left; reflexivity|].
  destruct (step_quiet s) as [E|[Hu [_ [s1 E1]]]].
  - rewrite E. destruct (stepq s) as [s1|v s1|e s1|why s1]; [apply IH|left; reflexivity|exact I|exact I].
  - rewrite E1. destruct Hu as (f & pos & kw & s2 & Hr & Hb). rewrite Hr.
    assert (U : user_raise (Raised cstore (EUser f) s2)) by (exists f, pos, kw, s2; auto).
    destruct (runq fuel s1); auto.
Qed.

(* when the failure-free run finishes with v after k steps: under any [raises], at every fuel, the machine is still
   running, or has finished with v, or has stopped with the exception of a user function that raised; it is never
   stuck and never stops with another exception; from k steps on it is no longer running *)
Theorem only_user_exceptions k s v s' :
  (forall k', k <= k' -> runq k' s = Finished cstore v s') ->
  forall k', (exists s1, runr k' s = Running cstore s1 /\ k' < k) \/ runr k' s = Finished cstore v s' \/ user_raise (runr k' s).
Proof.
  intros Hq k'. pose proof (run_quiet_gen k' s) as H.
  destruct (Nat.le_gt_cases k k') as [Hle|Hlt].
  - rewrite (Hq k' Hle) in H. tauto.
  - destruct (runq k' s) as [s1|v1 s1|e s1|why s1] eqn:E.
    + destruct H as [H|H]; [left; exists s1; auto|auto].
    + (* finished early: then also at k *)
      assert (Ek : runq k s = Finished cstore v1 s1).
      { clear - E Hlt. revert s E. assert (Hk : k' <= k) by lia. clear Hlt. revert k Hk.
        induction k' as [|k' IH]; intros k Hk s E; [discriminate|]. destruct k as [|k]; [lia|]. cbn [run] in *.
        destruct (stepq s) as [s2| | |]; [apply IH; [lia|exact E]|exact E|exact E|exact E]. }
      rewrite (Hq k (Nat.le_refl k)) in Ek. injection Ek as <- <-. destruct H; auto.
    + exfalso. assert (Ek : runq k s = Raised cstore e s1).
      { clear - E Hlt. assert (Hk : k' <= k) by lia. clear Hlt. revert k Hk s E.
        induction k' as [|k' IH]; intros k Hk s E; [discriminate|]. destruct k as [|k]; [lia|]. cbn [run] in *.
        destruct (stepq s) as [s2| | |]; [apply IH; [lia|exact E]|exact E|exact E|exact E]. }
      rewrite (Hq k (Nat.le_refl k)) in Ek. discriminate.
    + exfalso. assert (Ek : runq k s = Stuck cstore why s1).
      { clear - E Hlt. assert (Hk : k' <= k) by lia. clear Hlt. revert k Hk s E.
        induction k' as [|k' IH]; intros k Hk s E; [discriminate|]. destruct k as [|k]; [lia|]. cbn [run] in *.
        destruct (stepq s) as [s2| | |]; [apply IH; [lia|exact E]|exact E|exact E|exact E]. }
      rewrite (Hq k (Nat.le_refl k)) in Ek. discriminate.
Qed.

(* the store a run under [raises] is left with - whatever its outcome - is a store the failure-free run passes through *)
Theorem store_of_any_run_is_quiet : forall k s, exists j, sto cstore (ostate (runr k s)) = sto cstore (ostate (runq j s)).
Proof.
  induction k as [|k IH]; intros s; [exists 0; reflexivity|]. cbn [run].
  destruct (step_quiet s) as [E|[Hu [Hs _]]].
  - rewrite E. destruct (stepq s) as [s1|v s1|e s1|why s1] eqn:Eq.
    + destruct (IH s1) as [j Hj]. exists (S j). cbn [run]. rewrite Eq. exact Hj.
    + exists 1. cbn [run]. rewrite Eq. reflexivity.
    + exists 1. cbn [run]. rewrite Eq. reflexivity.
    + exists 1. cbn [run]. rewrite Eq. reflexivity.
  - exists 0. cbn [run ostate]. destruct Hu as (f & pos & kw & s2 & Hr & _). rewrite Hr in *. cbn [ostate] in *. exact Hs.
Qed.
End RaiseDir.

(* ---------- what every step does to the store: nothing, or the cache accesses of one generator ---------- *)
Section StorePreservation.
Variable g : pgraph.
Variable gens : which -> nat -> option gen.
Variable apply : string -> list val -> list (string * val) -> val.
Variable raises : string -> list val -> list (string * val) -> bool.
Variable cstore : Type.
Variable cget : cstore -> nat -> sval -> option sval * cstore.
Variable cset : cstore -> nat -> sval -> sval -> cstore.
Variable interfere : cstore -> cstore.
Variable Q : cstore -> Prop.
Hypothesis Q_settle : forall gn σ, Q σ -> Q (snd (settle cstore cget cset interfere gn σ)).

Lemma step_keeps s : Q (sto cstore s) -> Q (sto cstore (ostate cstore (step g gens apply raises cstore cget cset interfere s))).
Proof.
  intros H. unfold step. destruct (cmds cstore s) as [|c K]; [exact H|].
  destruct c as [|n it| | |r|w key|i|n k rs].
  2: { destruct (stack cstore s) as [|v S1]; [exact H|].
       pose proof (Q_settle (it v) (sto cstore s) H) as Hq.
       destruct (settle cstore cget cset interfere (it v) (sto cstore s)) as [gn σ]. cbn [snd] in Hq.
       destruct gn; cbn [ostate sto]; try exact Hq.
       destruct (evict_all _ _ _) as [[h' c']|]; exact Hq. }
  all: repeat (first [exact H | match goal with |- context [match ?x with _ => _ end] => destruct x end]).
Qed.

Lemma run_add : forall j m s,
  run g gens apply raises cstore cget cset interfere (j + m) s =
  match run g gens apply raises cstore cget cset interfere j s with
  | Running _ s' => run g gens apply raises cstore cget cset interfere m s'
  | o => o
  end.
Proof.
  induction j as [|j IH]; intros m s; [reflexivity|]. cbn [run plus].
  destruct (step g gens apply raises cstore cget cset interfere s) as [s1| | |]; [apply IH|reflexivity|reflexivity|reflexivity].
Qed.

Theorem run_keeps : forall k s, Q (sto cstore s) -> Q (sto cstore (ostate cstore (run g gens apply raises cstore cget cset interfere k s))).
Proof.
  induction k as [|k IH]; intros s H; [exact H|]. cbn [run].
  pose proof (step_keeps s H) as Hs.
  destruct (step g gens apply raises cstore cget cset interfere s) as [s1| | |]; cbn [ostate] in *; [apply IH, Hs|exact Hs|exact Hs|exact Hs].
Qed.
End StorePreservation.
