(* Graph-level bags (containers/base.py EdgesBag), connect_bags and its relational denotation: connecting is
   substitution of the left outputs for the right inputs, whatever the order of the edges (i.e. of Python set iteration),
   provided the node sets of the operands are disjoint -- which freeze() establishes for every connection. *)
From Coq Require Import List Arith Bool String Lia.
Import ListNotations.
Open Scope nat_scope.

Definition nd := (nat * string)%type.            (* node = (identity, name) *)
Inductive elabel := LIdent | LFun (f : string).
Record bedge := mkE { be : elabel; bins : list nd; bout : nd }.

Record bag := mkBag {
  inputs : list nd; outputs : list nd; edges : list bedge;
  virt : string -> bool;                          (* membership in the (finite or co-finite) virtual set *)
  pers : list string }.

Inductive expr := EIn (x : string) | EMiss (x : string) | EApp (g : string) (args : list expr).

Fixpoint subst (env : string -> expr) (e : expr) : expr :=
  match e with
  | EIn x => env x
  | EMiss x => EMiss x
  | EApp g es => EApp g (map (subst env) es)
  end.

(* relational denotation of a node: identity edges are transparent *)
Inductive Den (b : bag) : nd -> expr -> Prop :=
| Den_in n : In n (inputs b) -> Den b n (EIn (snd n))
| Den_miss n : ~ In n (inputs b) -> (forall e, In e (edges b) -> bout e <> n) -> Den b n (EMiss (snd n))
| Den_id n m x e0 : In e0 (edges b) -> be e0 = LIdent -> bins e0 = [m] -> bout e0 = n -> Den b m x -> Den b n x
| Den_fun n g es e0 : In e0 (edges b) -> be e0 = LFun g -> bout e0 = n -> DenL b (bins e0) es -> Den b n (EApp g es)
with DenL (b : bag) : list nd -> list expr -> Prop :=
| DenL_nil : DenL b [] []
| DenL_cons m ms x xs : Den b m x -> DenL b ms xs -> DenL b (m :: ms) (x :: xs).

Scheme Den_min := Minimality for Den Sort Prop
  with DenL_min := Minimality for DenL Sort Prop.
Combined Scheme Den_mutind from Den_min, DenL_min.

Definition nodes (b : bag) : list nd :=
  inputs b ++ outputs b ++ flat_map (fun e => bout e :: bins e) (edges b).

Definition find_name (ns : list nd) (x : string) : option nd := find (fun n => String.eqb (snd n) x) ns.
Definition has_name (ns : list nd) (x : string) : bool := existsb (fun n => String.eqb (snd n) x) ns.
Definition mem_str (x : string) (l : list string) : bool := existsb (String.eqb x) l.

Section Connect.
Variables c1 c2 : nd -> nd.        (* clone of a right input (left-virtual case) / of a left output (pass-through) *)
Variables l r : bag.

Definition vin : list nd := filter (fun ri => virt l (snd ri)) (inputs r).
Definition pass : list nd :=
  filter (fun lo => virt r (snd lo) || (mem_str (snd lo) (pers l) && negb (has_name (outputs r) (snd lo)))) (outputs l).
Definition common : list bedge :=
  flat_map (fun ri => match find_name (outputs l) (snd ri) with
                      | Some lo => [mkE LIdent [lo] ri] | None => [] end) (inputs r).

Definition connect : bag :=
  {| inputs := inputs l ++ map c1 vin;
     outputs := outputs r ++ map c2 pass;
     edges := edges l ++ edges r ++ common
              ++ map (fun ri => mkE LIdent [c1 ri] ri) vin
              ++ map (fun lo => mkE LIdent [lo] (c2 lo)) pass;
     virt := fun x => virt l x && virt r x;
     pers := pers l ++ pers r |}.

(* ---- well-formedness assumed of the operands (established by normalize_bag / freeze) ---- *)
Hypothesis disj : forall n, In n (nodes l) -> In n (nodes r) -> False.
Hypothesis c1_fresh : forall n, ~ In (c1 n) (nodes l) /\ ~ In (c1 n) (nodes r).
Hypothesis c2_fresh : forall n, ~ In (c2 n) (nodes l) /\ ~ In (c2 n) (nodes r).
Hypothesis c12 : forall n m, c1 n <> c2 m.
Hypothesis c1_name : forall n, snd (c1 n) = snd n.
Hypothesis r_inputs_leaves : forall e, In e (edges r) -> ~ In (bout e) (inputs r).
Hypothesis l_virt_out : forall x, virt l x = true -> has_name (outputs l) x = false.
Hypothesis r_in_names : forall a b, In a (inputs r) -> In b (inputs r) -> snd a = snd b -> a = b.

Lemma in_nodes_inputs b n : In n (inputs b) -> In n (nodes b).
Proof. unfold nodes. intros; apply in_or_app; auto. Qed.
Lemma in_nodes_outputs b n : In n (outputs b) -> In n (nodes b).
Proof. unfold nodes. intros; apply in_or_app; right; apply in_or_app; auto. Qed.
Lemma in_nodes_bout b e : In e (edges b) -> In (bout e) (nodes b).
Proof.
  unfold nodes. intros H. apply in_or_app; right; apply in_or_app; right.
  apply in_flat_map. exists e. split; [exact H|left; reflexivity].
Qed.
Lemma in_nodes_bins b e m : In e (edges b) -> In m (bins e) -> In m (nodes b).
Proof.
  unfold nodes. intros H Hm. apply in_or_app; right; apply in_or_app; right.
  apply in_flat_map. exists e. split; [exact H|right; exact Hm].
Qed.

Lemma in_common e : In e common -> exists ri lo, In ri (inputs r) /\ find_name (outputs l) (snd ri) = Some lo /\ e = mkE LIdent [lo] ri.
Proof.
  unfold common. rewrite in_flat_map. intros (ri & Hri & He).
  destruct (find_name (outputs l) (snd ri)) as [lo|] eqn:E; [|destruct He].
  destruct He as [<-|[]]. eauto.
Qed.

Lemma find_name_some ns x n : find_name ns x = Some n -> In n ns /\ snd n = x.
Proof. unfold find_name. intros H. apply find_some in H as [H1 H2]. apply String.eqb_eq in H2. auto. Qed.
Lemma find_name_none ns x : find_name ns x = None -> has_name ns x = false.
Proof.
  unfold find_name, has_name. intros H. destruct (existsb (fun n => String.eqb (snd n) x) ns) eqn:E; [|reflexivity].
  apply existsb_exists in E as (n & Hn & Hx). pose proof (find_none (fun n => String.eqb (snd n) x) ns H n Hn) as Hf. cbn in Hf. congruence.
Qed.
Lemma has_name_find ns x : has_name ns x = true -> exists n, find_name ns x = Some n.
Proof.
  unfold has_name, find_name. intros H. destruct (find (fun n => String.eqb (snd n) x) ns) eqn:E; [eauto|].
  apply existsb_exists in H as (n & Hn & Hx). pose proof (find_none (fun n => String.eqb (snd n) x) ns E n Hn) as Hf. cbn in Hf. congruence.
Qed.

(* every edge of the connected bag, classified *)
Lemma in_edges_connect e : In e (edges connect) ->
  In e (edges l) \/ In e (edges r) \/ In e common \/
  (exists ri, In ri vin /\ e = mkE LIdent [c1 ri] ri) \/ (exists lo, In lo pass /\ e = mkE LIdent [lo] (c2 lo)).
Proof.
  cbn. rewrite !in_app_iff, !in_map_iff. intros [H|[H|[H|[H|H]]]]; auto.
  - destruct H as (ri & <- & Hri). right; right; right; left. eauto.
  - destruct H as (lo & <- & Hlo). right; right; right; right. eauto.
Qed.

(* edges that target a node of l are exactly l's own *)
Lemma edge_into_l e n : In n (nodes l) -> In e (edges connect) -> bout e = n -> In e (edges l).
Proof.
  intros Hn He Hb. destruct (in_edges_connect e He) as [H|[H|[H|[H|H]]]]; [exact H| | | |].
  - exfalso. apply (disj n Hn). rewrite <- Hb. apply in_nodes_bout. exact H.
  - exfalso. destruct (in_common e H) as (ri & lo & Hri & _ & ->). cbn in Hb. subst n.
    apply (disj ri Hn). apply in_nodes_inputs. exact Hri.
  - exfalso. destruct H as (ri & Hri & ->). cbn in Hb. subst n. apply filter_In in Hri as [Hri _].
    apply (disj ri Hn). apply in_nodes_inputs. exact Hri.
  - exfalso. destruct H as (lo & _ & ->). cbn in Hb. subst n. apply (proj1 (c2_fresh lo)). exact Hn.
Qed.

Lemma l_not_clone n : In n (nodes l) -> ~ In n (map c1 vin).
Proof. intros Hn H. apply in_map_iff in H as (m & <- & _). apply (proj1 (c1_fresh m)). exact Hn. Qed.
Lemma r_not_clone n : In n (nodes r) -> ~ In n (map c1 vin).
Proof. intros Hn H. apply in_map_iff in H as (m & <- & _). apply (proj2 (c1_fresh m)). exact Hn. Qed.

(* T1: the left operand's denotation is preserved *)
Lemma left_preserved :
  (forall n e, Den l n e -> In n (nodes l) -> Den connect n e) /\
  (forall ns es, DenL l ns es -> (forall n, In n ns -> In n (nodes l)) -> DenL connect ns es).
Proof.
  apply Den_mutind.
  - intros n Hin _. apply Den_in. cbn. apply in_or_app. left. exact Hin.
  - intros n Hni Hne Hn. apply Den_miss.
    + cbn. rewrite in_app_iff. intros [H|H]; [tauto|]. apply (l_not_clone n Hn H).
    + intros e He Hb. apply (Hne e); [|exact Hb]. apply (edge_into_l e n Hn He Hb).
  - intros n m x e0 He0 Hk Hi Ho _ IH Hn. eapply Den_id; [|exact Hk|exact Hi|exact Ho|].
    + cbn. apply in_or_app. left. exact He0.
    + apply IH. apply (in_nodes_bins l e0 m He0). rewrite Hi. left. reflexivity.
  - intros n g es e0 He0 Hk Ho _ IH Hn. eapply Den_fun; [|exact Hk|exact Ho|].
    + cbn. apply in_or_app. left. exact He0.
    + apply IH. intros m Hm. apply (in_nodes_bins l e0 m He0 Hm).
  - intros _. constructor.
  - intros m ms x xs _ IH1 _ IH2 Hall. constructor; [apply IH1|apply IH2]; intros; apply Hall; cbn; auto.
Qed.

(* the environment seen by the right operand *)
Variable envl : string -> expr.
Hypothesis envl_ok : forall lo, In lo (outputs l) -> Den l lo (envl (snd lo)).
Definition env (x : string) : expr :=
  if has_name (outputs l) x then envl x else if virt l x then EIn x else EMiss x.

(* edges that target a node of r: r's own, or a stitch onto one of r's inputs *)
Lemma edge_into_r e n : In n (nodes r) -> In e (edges connect) -> bout e = n ->
  In e (edges r) \/
  (In n (inputs r) /\ ((exists lo, find_name (outputs l) (snd n) = Some lo /\ e = mkE LIdent [lo] n) \/
                       (virt l (snd n) = true /\ e = mkE LIdent [c1 n] n))).
Proof.
  intros Hn He Hb. destruct (in_edges_connect e He) as [H|[H|[H|[H|H]]]].
  - exfalso. apply (disj n); [|exact Hn]. rewrite <- Hb. apply in_nodes_bout. exact H.
  - left. exact H.
  - right. destruct (in_common e H) as (ri & lo & Hri & Hf & ->). cbn in Hb. subst ri. split; [exact Hri|]. left. eauto.
  - right. destruct H as (ri & Hri & ->). cbn in Hb. subst ri. apply filter_In in Hri as [Hri Hv]. split; [exact Hri|]. right. auto.
  - exfalso. destruct H as (lo & _ & ->). cbn in Hb. subst n. apply (proj2 (c2_fresh lo)). exact Hn.
Qed.

(* T2: the right operand's denotation is substituted *)
Lemma right_substituted :
  (forall n e, Den r n e -> In n (nodes r) -> Den connect n (subst env e)) /\
  (forall ns es, DenL r ns es -> (forall n, In n ns -> In n (nodes r)) -> DenL connect ns (map (subst env) es)).
Proof.
  apply Den_mutind.
  - (* an input of r named x *)
    intros n Hin Hn. cbn [subst]. unfold env.
    destruct (has_name (outputs l) (snd n)) eqn:Hh.
    + destruct (has_name_find _ _ Hh) as [lo Hf]. destruct (find_name_some _ _ _ Hf) as [Hlo Hnm].
      eapply Den_id with (e0 := mkE LIdent [lo] n) (m := lo); try reflexivity.
      * cbn. rewrite !in_app_iff. right; right; left. unfold common. apply in_flat_map. exists n. split; [exact Hin|].
        rewrite Hf. left. reflexivity.
      * rewrite <- Hnm. apply (proj1 left_preserved); [apply envl_ok; exact Hlo|apply in_nodes_outputs; exact Hlo].
    + destruct (virt l (snd n)) eqn:Hv.
      * eapply Den_id with (e0 := mkE LIdent [c1 n] n) (m := c1 n); try reflexivity.
        -- cbn. rewrite !in_app_iff. right; right; right; left. apply in_map_iff. exists n. split; [reflexivity|].
           apply filter_In. auto.
        -- rewrite <- (c1_name n). apply Den_in. cbn. apply in_or_app. right. apply in_map. apply filter_In. auto.
      * apply Den_miss.
        -- cbn. rewrite in_app_iff. intros [H|H]; [apply (disj n); [apply in_nodes_inputs; exact H|exact Hn]|apply (r_not_clone n Hn H)].
        -- intros e He Hb. destruct (edge_into_r e n Hn He Hb) as [H|(_ & [(lo & Hf & _)|(Hv' & _)])].
           ++ apply (r_inputs_leaves e H). rewrite Hb. exact Hin.
           ++ apply find_name_some in Hf as [Hlo Hnm].
              assert (has_name (outputs l) (snd n) = true); [|congruence].
              apply existsb_exists. exists lo. split; [exact Hlo|]. apply String.eqb_eq. exact Hnm.
           ++ congruence.
  - (* a dangling leaf of r stays dangling *)
    intros n Hni Hne Hn. cbn [subst]. apply Den_miss.
    + cbn. rewrite in_app_iff. intros [H|H]; [apply (disj n); [apply in_nodes_inputs; exact H|exact Hn]|apply (r_not_clone n Hn H)].
    + intros e He Hb. destruct (edge_into_r e n Hn He Hb) as [H|(Hin & _)]; [apply (Hne e H Hb)|tauto].
  - intros n m x e0 He0 Hk Hi Ho _ IH Hn. eapply Den_id; [|exact Hk|exact Hi|exact Ho|].
    + cbn. rewrite !in_app_iff. right; left. exact He0.
    + apply IH. apply (in_nodes_bins r e0 m He0). rewrite Hi. left. reflexivity.
  - intros n g es e0 He0 Hk Ho _ IH Hn. cbn [subst]. eapply Den_fun; [|exact Hk|exact Ho|].
    + cbn. rewrite !in_app_iff. right; left. exact He0.
    + apply IH. intros m Hm. apply (in_nodes_bins r e0 m He0 Hm).
  - intros _. constructor.
  - intros m ms x xs _ IH1 _ IH2 Hall. cbn [map]. constructor; [apply IH1|apply IH2]; intros; apply Hall; cbn; auto.
Qed.

(* T3: pass-through outputs carry the left denotation *)
Lemma pass_through lo : In lo pass -> Den connect (c2 lo) (envl (snd lo)).
Proof.
  intros Hp. pose proof Hp as Hp'. apply filter_In in Hp' as [Hlo _].
  eapply Den_id with (e0 := mkE LIdent [lo] (c2 lo)) (m := lo); try reflexivity.
  - cbn. rewrite !in_app_iff. right; right; right; right. apply in_map_iff. eauto.
  - apply (proj1 left_preserved); [apply envl_ok; exact Hlo|apply in_nodes_outputs; exact Hlo].
Qed.

(* the statement of C02_connect at the level of outputs *)
Theorem connect_is_substitution :
  (forall ro e, In ro (outputs r) -> Den r ro e -> Den connect ro (subst env e)) /\
  (forall lo, In lo pass -> Den connect (c2 lo) (envl (snd lo))).
Proof.
  split; [|exact pass_through].
  intros ro e Hro Hd. apply (proj1 right_substituted); [exact Hd|apply in_nodes_outputs; exact Hro].
Qed.
End Connect.

