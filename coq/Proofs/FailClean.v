(* C04: "a failed computation leaves nothing behind that a later call could read".  The store is given a ghost log of
   every write (the machine is parametric in its store, so the refinement theorems apply to the logged store
   unchanged).  (1) At every state of ANY run, if all logged writes are Good the store meets the invariant (every step
   changes the store only through the cache accesses of one generator).  (2) The failure-free run ends with all its
   logged writes Good (refinement with the logged store), and logs only grow, so all its intermediate logs are Good.
   (3) The store a failing run is left with is a store the failure-free run passes through (RaiseDir).  Hence the store
   meets the invariant after any call, failed or not - and the next call is transparent again (C04_history). *)
From Connectome Require Import Values Attrs VM Edges Evaluator L2 Store HashSound SpecEq EqFacts C01Main C01Inst C04Main RaiseDir C01Raise.
Local Open Scope list_scope.

Section Logged.
Variable apply : string -> list val -> list (string * val) -> val.
Variable interfere : cstore -> cstore.
Hypothesis interfere_ok : forall s, CInvS apply s -> CInvS apply (interfere s).

Definition wr := (nat * sval * sval)%type.
Definition lstore := (cstore * list wr)%type.
Definition lget (s : lstore) (c : nat) (k : sval) : option sval * lstore :=
  let (r, σ') := cget (fst s) c k in (r, (σ', snd s)).
Definition lset (s : lstore) (c : nat) (k v : sval) : lstore := (cset (fst s) c k v, (c, k, v) :: snd s).
Definition linterfere (s : lstore) : lstore := (interfere (fst s), snd s).
Definition GoodW (w : wr) : Prop := Good apply (fst (fst w)) (snd (fst w)) (snd w).
Definition CInvL (s : lstore) : Prop := CInvS apply (fst s) /\ Forall GoodW (snd s).

(* (1) *)
Definition J (s : lstore) : Prop := Forall GoodW (snd s) -> CInvS apply (fst s).
Lemma J_settle gn : forall s, J s -> J (snd (settle lstore lget lset linterfere gn s)).
Proof.
  induction gn as [r|r k IH|e|c key k IH|c key v k IH]; intros s Hj; cbn [settle snd]; try exact Hj.
  - unfold lget, linterfere. cbn [fst snd]. destruct (cget (interfere (fst s)) c key) as [hit σ'] eqn:E.
    apply IH. intros Hl. cbn [fst snd] in *. apply (proj1 (cinv_get apply _ _ _ _ _ (interfere_ok _ (Hj Hl)) E)).
  - apply IH. unfold lset, linterfere. cbn [fst snd]. intros Hl. inversion Hl as [|w l Hw Hl']; subst.
    apply cinv_set; [apply interfere_ok, Hj, Hl'|exact Hw].
Qed.

(* logs only grow *)
Definition extends (l0 : list wr) (s : lstore) : Prop := exists ws, snd s = ws ++ l0.
Lemma extends_settle l0 gn : forall s, extends l0 s -> extends l0 (snd (settle lstore lget lset linterfere gn s)).
Proof.
  induction gn as [r|r k IH|e|c key k IH|c key v k IH]; intros s He; cbn [settle snd]; try exact He.
  - unfold lget, linterfere. cbn [fst snd]. destruct (cget (interfere (fst s)) c key) as [hit σ']. apply IH. exact He.
  - apply IH. unfold lset, linterfere. destruct He as [ws Hw]. exists ((c, key, v) :: ws). cbn [snd]. rewrite Hw. reflexivity.
Qed.

(* the logged machine is the plain machine with a ghost component *)
Section Lift.
Variable g : pgraph.
Variable gens : which -> nat -> option gen.
Variable raises : string -> list val -> list (string * val) -> bool.
Definition lift (s : st cstore) (l : list wr) : st lstore :=
  {| stack := stack cstore s; cmds := cmds cstore s; H := H cstore s; C := C cstore s; log := log cstore s; sto := (sto cstore s, l) |}.
Definition omap (f : st cstore -> st lstore) (o : outcome cstore) : outcome lstore :=
  match o with
  | Running _ s => Running lstore (f s) | Finished _ v s => Finished lstore v (f s)
  | Raised _ e s => Raised lstore e (f s) | Stuck _ w s => Stuck lstore w (f s)
  end.
Lemma settle_lift gn : forall σ l, exists l',
  settle lstore lget lset linterfere gn (σ, l) = (fst (settle cstore cget cset interfere gn σ), (snd (settle cstore cget cset interfere gn σ), l')).
Proof.
  induction gn as [r|r k IH|e|c key k IH|c key v k IH]; intros σ l; cbn [settle fst snd]; try (exists l; reflexivity).
  - unfold lget, linterfere. cbn [fst snd]. destruct (cget (interfere σ) c key) as [hit σ']. apply IH.
  - unfold lset, linterfere. cbn [fst snd]. apply IH.
Qed.
Lemma step_lift s l : exists l',
  step g gens apply raises lstore lget lset linterfere (lift s l) = omap (fun t => lift t l') (step g gens apply raises cstore cget cset interfere s).
Proof.
  unfold step. cbn [lift cmds stack H C log sto]. destruct (cmds cstore s) as [|c K]; [exists l; reflexivity|].
  destruct c as [|n it| | |r|w key|i|n k rs].
  2: { destruct (stack cstore s) as [|v S1]; [exists l; reflexivity|].
       destruct (settle_lift (it v) (sto cstore s) l) as [l' ->].
       destruct (settle cstore cget cset interfere (it v) (sto cstore s)) as [gn σ]. cbn [fst snd].
       exists l'. destruct gn; try reflexivity. destruct (evict_all _ _ _) as [[h' c']|]; reflexivity. }
  all: exists l; repeat (first [reflexivity | match goal with |- context [match ?x with _ => _ end] => destruct x end]).
Qed.
Lemma run_lift : forall k s l, exists l',
  run g gens apply raises lstore lget lset linterfere k (lift s l) = omap (fun t => lift t l') (run g gens apply raises cstore cget cset interfere k s).
Proof.
  induction k as [|k IH]; intros s l; [exists l; reflexivity|]. cbn [run].
  destruct (step_lift s l) as [l1 ->].
  destruct (step g gens apply raises cstore cget cset interfere s) as [s1|v s1|e s1|w s1]; cbn [omap]; [apply IH|exists l1; reflexivity..].
Qed.
Lemma sto_omap_lift o l : fst (sto lstore (ostate lstore (omap (fun t => lift t l) o))) = sto cstore (ostate cstore o).
Proof. destruct o; reflexivity. Qed.
End Lift.
End Logged.

Section Main.
Variable apply : string -> list val -> list (string * val) -> val.
Variable interfere : cstore -> cstore.
Hypothesis interfere_ok : forall s, CInvS apply s -> CInvS apply (interfere s).
Variable g : graph.
Variable ins : list (nat * val).
Variable o : nat.
Variable v : val.
Hypothesis Hok : call_ok apply {| hc_g := g; hc_ins := ins; hc_o := o; hc_raises := quiet |} v.

Notation lcall r := (call (shape g) (gens_of g) apply r lstore lget lset (linterfere interfere) ins o).
Notation pcall r := (call (shape g) (gens_of g) apply r cstore cget cset interfere ins o).

(* (2) the failure-free run on the logged store ends with the invariant and all its writes Good *)
Lemma quiet_logged_finishes σ : CInvS apply σ ->
  exists k sF, (forall k', k <= k' -> lcall quiet (σ, []) k' = Finished lstore (SVal v) sF) /\ CInvL apply (sto lstore sF).
Proof.
  intros Hc. destruct Hok as (Hwf & Hin & Hnode & Hedge & Htot & Hlen & F & h & Hsem). cbn [hc_g hc_ins hc_o hc_raises] in *.
  destruct (sem_spec g apply quiet ins Hnode _ _ _ _ Hsem) as (pl & _ & [Fv Hv]).
  apply (call_refines (shape g) (gens_of g) apply quiet ins lstore lget lset (Good apply) (CInvL apply)) with (f := Fv).
  - intros st c k r st' [Hi Hl] Hg. unfold lget in Hg. destruct (cget (fst st) c k) as [r0 σ'] eqn:E. injection Hg as <- <-.
    destruct (cinv_get apply _ _ _ _ _ Hi E) as [H1 H2]. split; [split; [exact H1|exact Hl]|exact H2].
  - intros st c k v0 [Hi Hl] Hg. split; [apply cinv_set; assumption|constructor; [exact Hg|exact Hl]].
  - intros st [Hi Hl]. split; [apply interfere_ok, Hi|exact Hl].
  - exact Hwf.
  - unfold shape. rewrite map_length. lia.
  - exact (gens_gok apply quiet g ins Hin Hnode Hedge Htot).
  - exact Hv.
  - split; [exact Hc|constructor].
Qed.

(* every store the failure-free logged run passes through meets the invariant *)
Lemma quiet_logged_stores_good σ : CInvS apply σ -> forall j, CInvS apply (fst (sto lstore (ostate lstore (lcall quiet (σ, []) j)))).
Proof.
  intros Hc j. destruct (quiet_logged_finishes σ Hc) as (k & sF & Hk & [_ HlF]).
  unfold call in *. set (s0 := init_state (shape g) lstore ins o CEvaluate (σ, [])) in *.
  (* J holds everywhere *)
  assert (HJ : J apply (sto lstore (ostate lstore (run (shape g) (gens_of g) apply quiet lstore lget lset (linterfere interfere) j s0)))).
  { apply (run_keeps (shape g) (gens_of g) apply quiet lstore lget lset (linterfere interfere) (J apply) (J_settle apply interfere interfere_ok)).
    intros _. exact Hc. }
  apply HJ.
  (* the log at step j is a suffix of the final log *)
  pose proof (Hk (j + k) ltac:(lia)) as Hfin. rewrite run_add in Hfin.
  destruct (run (shape g) (gens_of g) apply quiet lstore lget lset (linterfere interfere) j s0) as [sj|vj sj|ej sj|wj sj] eqn:Ej; cbn [ostate].
  - pose proof (run_keeps (shape g) (gens_of g) apply quiet lstore lget lset (linterfere interfere) (extends (snd (sto lstore sj)))
                  (extends_settle interfere (snd (sto lstore sj))) k sj (ex_intro _ [] eq_refl)) as He.
    rewrite Hfin in He. cbn [ostate] in He. destruct He as [ws Hw]. rewrite Hw in HlF. apply Forall_app in HlF. exact (proj2 HlF).
  - injection Hfin as _ <-. exact HlF.
  - discriminate.
  - discriminate.
Qed.

(* (3) + projection: after ANY call on the plain machine - whatever the user functions do, however many steps it ran,
   finished, failed or still running - the shared store meets the invariant of C04 *)
Theorem store_good_at_every_step raises σ k :
  CInvS apply σ -> CInvS apply (sto cstore (ostate cstore (pcall raises σ k))).
Proof.
  intros Hc. unfold call.
  destruct (run_lift apply interfere (shape g) (gens_of g) raises k (init_state (shape g) cstore ins o CEvaluate σ) []) as [l' Hl].
  rewrite <- (sto_omap_lift (run (shape g) (gens_of g) apply raises cstore cget cset interfere k (init_state (shape g) cstore ins o CEvaluate σ)) l').
  rewrite <- Hl.
  change (lift (init_state (shape g) cstore ins o CEvaluate σ) []) with (init_state (shape g) lstore ins o CEvaluate (σ, [])).
  destruct (store_of_any_run_is_quiet (shape g) (gens_of g) apply raises lstore lget lset (linterfere interfere) k
              (init_state (shape g) lstore ins o CEvaluate (σ, []))) as [j Hj].
  rewrite Hj. apply (quiet_logged_stores_good σ Hc j).
Qed.
End Main.

(* ---------- histories in which calls may fail ---------- *)
Section Histories.
Variable apply : string -> list val -> list (string * val) -> val.
Variable interfere : cstore -> cstore.
Hypothesis interfere_ok : forall s, CInvS apply s -> CInvS apply (interfere s).

Definition quiet_of (c : hcall) : hcall := {| hc_g := hc_g c; hc_ins := hc_ins c; hc_o := hc_o c; hc_raises := quiet |}.
Definition ended (raises : string -> list val -> list (string * val) -> bool) (v : val) (o : outcome cstore) : Prop :=
  (exists s', o = Finished cstore (SVal v) s') \/ user_raise raises cstore o.
Definition hcall_out (c : hcall) (σ : cstore) (k : nat) : outcome cstore :=
  call (shape (hc_g c)) (gens_of (hc_g c)) apply (hc_raises c) cstore cget cset interfere (hc_ins c) (hc_o c) σ k.

(* "every call ends with the cache-free value or with the exception of a user function that raised, and the history
   goes on from the store the call left behind" *)
Inductive histf : cstore -> list hop2 -> Prop :=
| hf_nil σ : histf σ []
| hf_call σ c v rest k :
    ended (hc_raises c) v (hcall_out c σ k) ->
    histf (sto cstore (ostate cstore (hcall_out c σ k))) rest -> histf σ (HC c v :: rest)
| hf_clear σ cs rest : histf (fold_left cclear cs σ) rest -> histf σ (HClr cs :: rest).

Definition opf_ok (o : hop2) : Prop := match o with HC c v => call_ok apply (quiet_of c) v | HClr _ => True end.

Theorem history_with_failures : forall ops σ, CInvS apply σ -> Forall opf_ok ops -> histf σ ops.
Proof.
  induction ops as [|op ops IH]; intros σ Hc Hok; [constructor|].
  inversion Hok as [|? ? Ho Hrest]; subst. destruct op as [c v|cs].
  - cbn in Ho.
    destruct (cached_only_user_exceptions apply c v σ interfere (hc_raises c) interfere_ok Ho Hc) as (k & s' & Hk).
    apply (hf_call σ c v ops k).
    + specialize (Hk k). cbn zeta in Hk. unfold hcall_out. destruct Hk as [(s1 & _ & Hlt)|[H|H]]; [lia|left; eexists; exact H|right; exact H].
    + apply IH; [|exact Hrest]. unfold hcall_out.
      exact (store_good_at_every_step apply interfere interfere_ok (hc_g c) (hc_ins c) (hc_o c) v Ho (hc_raises c) σ k Hc).
  - apply hf_clear. apply IH; [|exact Hrest].
    clear - Hc. revert σ Hc. induction cs as [|c cs IHc]; intros σ Hc; cbn; [exact Hc|]. apply IHc. apply cinv_clear. exact Hc.
Qed.
End Histories.
