(* A recursive big-step evaluator with the same memo tables, eviction counters, Store checks and shared-store
   accesses as the stack machine of Model/VM.v, but without stacks.  It is the middle layer of the C01/C03
   refinement: Sim.v shows the machine simulates it, L2.v shows it computes the cache-free specification. *)
From Connectome Require Import Values VM.

Definition gid := (which * nat)%type.
Definition which_eqb (a b : which) : bool := match a, b with WH, WH | WC, WC => true | _, _ => false end.
Definition gid_eqb (a b : gid) : bool := which_eqb (fst a) (fst b) && Nat.eqb (snd a) (snd b).
Lemma gid_eqb_spec a b : reflect (a = b) (gid_eqb a b).
Proof.
  destruct a as [w1 n1], b as [w2 n2]; unfold gid_eqb; cbn.
  destruct (Nat.eqb_spec n1 n2); destruct w1, w2; cbn; constructor; congruence.
Qed.

Definition item (i : nat) (x : sval) : option sval :=
  match x with SHashOut h p => Some (match i with 0 => SHash h | _ => p end) | _ => None end.

Section Evaluator.
Variable g : pgraph.
Variable gens : which -> nat -> option gen.
Variable apply : string -> list val -> list (string * val) -> val.
Variable raises : string -> list val -> list (string * val) -> bool.
Variable cstore : Type.
Variable cget : cstore -> nat -> sval -> option sval * cstore.
Variable cset : cstore -> nat -> sval -> sval -> cstore.
Variable interfere : cstore -> cstore.

(* rdone is a ghost: the generators that have completed in this call *)
Record rst := { rH : ecache; rC : ecache; rlog : list call_rec; rdone : list gid; rstore : cstore }.
Inductive res := ROk (x : sval) (s : rst) | RErr.
Definition sel (w : which) (s : rst) := match w with WH => rH s | WC => rC s end.

Definition store (w : which) (key : nat) (top : sval) (s : rst) : option rst :=
  let ec := sel w s in
  match aget (memo ec) key, aget (counts ec) key with
  | None, Some _ =>
      let ec' := {| counts := counts ec; memo := (key, top) :: memo ec |} in
      Some (match w with
            | WH => {| rH := ec'; rC := rC s; rlog := rlog s; rdone := (w, key) :: rdone s; rstore := rstore s |}
            | WC => {| rH := rH s; rC := ec'; rlog := rlog s; rdone := (w, key) :: rdone s; rstore := rstore s |} end)
  | _, _ => None
  end.

Definition with_store (s : rst) (st : cstore) : rst :=
  {| rH := rH s; rC := rC s; rlog := rlog s; rdone := rdone s; rstore := st |}.

Section WithHandle.
Variable handle : nat -> req -> rst -> res.

Fixpoint drive (n : nat) (gn : gen) (s : rst) : res :=
  match gn with
  | GRet r => ROk r s
  | GYield r k => match handle n r s with ROk x s' => drive n (k x) s' | RErr => RErr end
  | GRaise _ => RErr
  | GGet c key k => let (hit, st') := cget (interfere (rstore s)) c key in drive n (k hit) (with_store s st')
  | GSet c key v k => drive n k (with_store s (cset (interfere (rstore s)) c key v))
  end.

Definition node (w : which) (n : nat) (s : rst) : res :=
  match aget (memo (sel w s)) n with
  | Some v => ROk v s
  | None =>
    match gens w n with
    | None => RErr
    | Some e =>
      match drive n e s with
      | ROk r s1 =>
        match evict_all (rH s1) (rC s1) (parents g n) with
        | None => RErr
        | Some (h', c') =>
          match store w n r {| rH := h'; rC := c'; rlog := rlog s1; rdone := rdone s1; rstore := rstore s1 |} with
          | Some s2 => ROk r s2
          | None => RErr
          end
        end
      | RErr => RErr
      end
    end
  end.

Definition with_item (i : nat) (r : res) : res :=
  match r with ROk x s => match item i x with Some y => ROk y s | None => RErr end | RErr => RErr end.

(* rs is given last-first; the first request's result ends up first *)
Fixpoint tuple (n : nat) (rs : list req) (acc : list sval) (s : rst) : option (list sval * rst) :=
  match rs with
  | [] => Some (acc, s)
  | r :: rest => match handle n r s with ROk x s' => tuple n rest (x :: acc) s' | RErr => None end
  end.

Definition handle1 (n : nat) (r : req) (s : rst) : res :=
  match r with
  | RParentValue i => match nth_error (parents g n) i with Some p => node WC p s | None => RErr end
  | RParentHash i => match nth_error (parents g n) i with Some p => with_item 0 (node WH p s) | None => RErr end
  | RCurrentHash => with_item 0 (node WH n s)
  | RPayload => with_item 1 (node WH n s)
  | RAwait rs => match tuple n (rev rs) [] s with Some (xs, s') => ROk (STup xs) s' | None => RErr end
  | RCall fn pos kw =>
      if raises fn pos kw then RErr
      else ROk (SVal (apply fn pos kw))
             {| rH := rH s; rC := rC s; rlog := (fn, pos, kw) :: rlog s; rdone := rdone s; rstore := rstore s |}
  end.
End WithHandle.

Fixpoint ev (fuel : nat) : nat -> req -> rst -> res :=
  match fuel with 0 => fun _ _ _ => RErr | S f => handle1 (ev f) end.

End Evaluator.

Arguments rH {cstore} _.
Arguments rC {cstore} _.
Arguments rlog {cstore} _.
Arguments rdone {cstore} _.
Arguments rstore {cstore} _.
Arguments ROk {cstore} _ _.
Arguments RErr {cstore}.
Arguments sel {cstore} _ _.
Arguments store {cstore} _ _ _ _.
Arguments with_store {cstore} _ _.
