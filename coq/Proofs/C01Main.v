(* Assembly of the C01 chain: Graph.__call__ (count_entries, _prepare_cache, execute) on a well-formed graph
   returns the cache-free specification value, for every k large enough, and keeps the store invariant. *)
From Connectome Require Import Values VM Evaluator EvictLemmas Sim L2 Counts.
Local Open Scope list_scope.

Section Main.
Variable g : pgraph.
Variable gens : which -> nat -> option gen.
Variable apply : string -> list val -> list (string * val) -> val.
Variable raises : string -> list val -> list (string * val) -> bool.
Variable ins : list (nat * val).
Variable cstore : Type.
Variable cget : cstore -> nat -> sval -> option sval * cstore.
Variable cset : cstore -> nat -> sval -> sval -> cstore.
Variable Good : nat -> sval -> sval -> Prop.
Variable CInv : cstore -> Prop.
Hypothesis cinv_get : forall st c k r st', CInv st -> cget st c k = (r, st') ->
  CInv st' /\ (forall v, r = Some v -> Good c k v).
Hypothesis cinv_set : forall st c k v, CInv st -> Good c k v -> CInv (cset st c k v).
Variable interfere : cstore -> cstore.
Hypothesis interfere_inv : forall st, CInv st -> CInv (interfere st).
Variable o : nat.
Hypothesis wfg : forall n p, In p (parents g n) -> p < n.
Hypothesis Ho : o < S (List.length g).

Definition inputs := map fst ins.
Definition R := Rset g inputs o.
Notation isin := (isin inputs).

Lemma isin_aget p : isin p = true <-> aget ins p <> None.
Proof.
  unfold Counts.isin, inputs. induction ins as [|[k v] l IH]; cbn; [split; [discriminate|congruence]|].
  destruct (Nat.eqb p k); cbn; [split; [discriminate|reflexivity]|exact IH].
Qed.
Lemma isin_false_aget p : isin p = false -> aget ins p = None.
Proof.
  intros H. destruct (aget ins p) eqn:E; [|reflexivity].
  assert (isin p = true) by (apply isin_aget; congruence). congruence.
Qed.

(* ---- the counters are positive ---- *)
Definition allpos (l : list (nat * nat)) : Prop := Forall (fun kc => snd kc >= 1) l.
Lemma allpos_add l k m : allpos l -> m >= 1 -> allpos (add_count l k m).
Proof.
  intros Hl Hm. induction l as [|[k' c] l IH]; cbn.
  - constructor; [exact Hm|constructor].
  - inversion Hl as [|? ? Hc Hl']; subst. destruct (Nat.eqb k k').
    + constructor; [cbn in *; lia|exact Hl'].
    + constructor; [exact Hc|apply IH; exact Hl'].
Qed.
Lemma allpos_visit f m : m >= 1 -> forall n acc, allpos acc -> allpos (visit f g inputs m n acc).
Proof.
  intros Hm. induction f as [|f IH]; intros n acc Ha; cbn [visit]; [exact Ha|].
  destruct (existsb (Nat.eqb n) inputs); [apply allpos_add; assumption|].
  assert (Hfold : forall qs a, allpos a -> allpos (fold_left (fun a0 q => visit f g inputs m q a0) qs a)).
  { induction qs as [|q qs IHq]; intros a Hal; cbn [fold_left]; [exact Hal|]. apply IHq. apply IH. exact Hal. }
  apply Hfold. apply allpos_add; assumption.
Qed.
Lemma allpos_aget l p n : allpos l -> aget l p = Some n -> n >= 1.
Proof.
  induction l as [|[k c] l IH]; cbn; [discriminate|]. intros Hl. inversion Hl as [|? ? Hc Hl']; subst.
  destruct (Nat.eqb p k); [intros [= <-]; exact Hc|apply IH; exact Hl'].
Qed.

Definition cnt0 := count_entries g inputs o 2.
Lemma cnt0_pos p n : aget cnt0 p = Some n -> n >= 1.
Proof. apply allpos_aget. unfold cnt0, count_entries. apply allpos_visit; [lia|constructor]. Qed.

(* ---- the initial state of a call ---- *)
Definition used := filter (fun iv : nat * val => match aget cnt0 (fst iv) with Some (S _) => true | _ => false end) ins.
Definition s0 (σ : cstore) : rst cstore :=
  {| rH := {| counts := cnt0; memo := map (fun iv => (fst iv, leafv WH (snd iv))) used |};
     rC := {| counts := cnt0; memo := map (fun iv => (fst iv, leafv WC (snd iv))) used |};
     rlog := []; rdone := []; rstore := σ |}.

Lemma init_is_s0 σ first :
  init_state g cstore ins o first σ = mk cstore [SNode o] [first; CReturn] (s0 σ).
Proof. reflexivity. Qed.

Lemma aget_used_gen (c : list (nat * nat)) (F : val -> sval) (l : list (nat * val)) p :
  aget (map (fun iv : nat * val => (fst iv, F (snd iv)))
         (filter (fun iv : nat * val => match aget c (fst iv) with Some (S _) => true | _ => false end) l)) p =
  match aget c p with Some (S _) => option_map F (aget l p) | _ => None end.
Proof.
  induction l as [|[k v] l IH]; cbn [filter map fst snd aget].
  - destruct (aget c p) as [[|?]|]; reflexivity.
  - destruct (Nat.eqb p k) eqn:E.
    + apply Nat.eqb_eq in E. subst k. destruct (aget c p) as [[|n]|] eqn:Ec; cbn [map aget fst snd option_map].
      * exact IH.
      * rewrite Nat.eqb_refl. reflexivity.
      * exact IH.
    + destruct (aget c k) as [[|n]|]; cbn [map aget fst snd]; rewrite ?E; exact IH.
Qed.
Lemma aget_used (F : val -> sval) p :
  aget (map (fun iv : nat * val => (fst iv, F (snd iv))) used) p =
  match aget cnt0 p with Some (S _) => option_map F (aget ins p) | _ => None end.
Proof. apply aget_used_gen. Qed.

Lemma cntc_s0 σ w p : cntc (sel w (s0 σ)) p = cntof cnt0 p.
Proof. destruct w; reflexivity. Qed.

Notation Inv := (Inv g gens apply raises ins cstore CInv R).
Notation Spec := (Spec g gens apply raises ins).

Lemma budget p : cntof cnt0 p >= 2 * (ind p o + S_ g R p).
Proof. apply (counts_ok g inputs 2 wfg o p Ho). Qed.

Lemma need_nil p : need g R [] p = 2 * S_ g R p.
Proof.
  unfold need, needL, S_. induction R as [|a L IH]; [reflexivity|].
  cbn [map]. rewrite !ls_cons, IH. unfold term. cbn. lia.
Qed.

Lemma Inv_s0 σ : CInv σ -> Inv (s0 σ).
Proof.
  intros Hc. constructor.
  - intros p n. cbn. apply cnt0_pos.
  - intros p n. cbn. apply cnt0_pos.
  - intros p. reflexivity.
  - intros w m v Hm. exists 1. unfold spnode.
    assert (Hu : aget (memo (sel w (s0 σ))) m =
                 match aget cnt0 m with Some (S _) => option_map (leafv w) (aget ins m) | _ => None end).
    { destruct w; [exact (aget_used (leafv WH) m)|exact (aget_used (leafv WC) m)]. }
    rewrite Hu in Hm. destruct (aget cnt0 m) as [[|c]|]; try discriminate.
    destruct (aget ins m) as [vi|]; [|discriminate]. cbn in Hm. congruence.
  - intros p. unfold cnt. rewrite (cntc_s0 σ WC). rewrite need_nil. pose proof (budget p). lia.
  - intros w m [].
  - intros w m v Hi Hcnt.
    assert (Hu : aget (memo (sel w (s0 σ))) m =
                 match aget cnt0 m with Some (S _) => option_map (leafv w) (aget ins m) | _ => None end).
    { destruct w; [exact (aget_used (leafv WH) m)|exact (aget_used (leafv WC) m)]. }
    rewrite Hu, Hi. unfold cnt in Hcnt. rewrite (cntc_s0 σ WC) in Hcnt. unfold cntof in Hcnt.
    destruct (aget cnt0 m) as [[|c]|]; try lia. reflexivity.
  - exact Hc.
  - constructor.
Qed.

Lemma o_in_dom : In o R \/ aget ins o <> None.
Proof.
  destruct (isin o) eqn:E; [right; apply isin_aget; exact E|left].
  unfold R, Rset, inner. apply filter_In. split; [|rewrite E; reflexivity].
  apply vis_self. lia.
Qed.

Hypothesis gens_ok : forall f w n e, gens w n = Some e ->
  GOK g gens apply raises ins Good f w n e.

(* The whole call.  [spnode (spq f) WC o = Some v]: composing the user functions recursively, every cache
   lookup answered by "miss", yields v.  The final evaluator state s' carries the ghost list of completed
   generators and the full invariant. *)
Theorem call_refines_ghost f v σ :
  spnode gens ins (spq g gens apply raises ins f) WC o = Some v -> CInv σ ->
  exists k (s' : rst cstore), (forall k', k <= k' ->
      run g gens apply raises cstore cget cset interfere k' (init_state g cstore ins o CEvaluate σ)
      = Finished cstore v (mk cstore [v] [CReturn] s')) /\ Inv s'.
Proof.
  intros Hs Hc.
  assert (Hcnt : cnt cstore (s0 σ) o >= 1).
  { unfold cnt. rewrite (cntc_s0 σ WC). pose proof (budget o). unfold ind in *. rewrite Nat.eqb_refl in *. lia. }
  assert (Hclosed : forall n p, In n R -> In p (parents g n) -> In p R \/ aget ins p <> None).
  { intros n p Hn Hp. destruct (proj1 (proj2 (proj2 (counts_ok g inputs 2 wfg o o Ho))) n p Hn Hp) as [H|H]; [left; exact H|].
    right. apply isin_aget. exact H. }
  destruct (ev_output g gens apply raises ins cstore cget cset Good CInv cinv_get cinv_set interfere interfere_inv
              R (proj1 (proj2 (counts_ok g inputs 2 wfg o o Ho))) wfg Hclosed gens_ok f o (s0 σ) v Hs
              (Inv_s0 σ Hc) Hcnt o_in_dom) as (s' & Hnode & Hinv').
  destruct (sim_call g gens apply raises cstore cget cset interfere f o WC (s0 σ) v s' Hnode) as [k Hk].
  exists k, s'. split; [|exact Hinv'].
  intros k' Hle. rewrite init_is_s0. apply Hk. exact Hle.
Qed.

Theorem call_refines f v σ :
  spnode gens ins (spq g gens apply raises ins f) WC o = Some v -> CInv σ ->
  exists k s', (forall k', k <= k' ->
      run g gens apply raises cstore cget cset interfere k' (init_state g cstore ins o CEvaluate σ)
      = Finished cstore v s') /\ CInv (sto cstore s').
Proof.
  intros Hs Hc. destruct (call_refines_ghost f v σ Hs Hc) as (k & s' & Hk & Hinv').
  exists k, (mk cstore [v] [CReturn] s'). split; [exact Hk|].
  apply (i_cinv _ _ _ _ _ _ _ _ _ Hinv').
Qed.

(* either entry point: w = WC is Graph.call, w = WH is Graph.get_hash *)
Theorem call_refines_w w f v σ :
  spnode gens ins (spq g gens apply raises ins f) w o = Some v -> CInv σ ->
  exists k s', (forall k', k <= k' ->
      run g gens apply raises cstore cget cset interfere k' (init_state g cstore ins o (cmd_of w) σ)
      = Finished cstore v s') /\ CInv (sto cstore s').
Proof.
  intros Hs Hc.
  assert (Hcnt : cnt cstore (s0 σ) o >= 1).
  { unfold cnt. rewrite (cntc_s0 σ WC). pose proof (budget o). unfold ind in *. rewrite Nat.eqb_refl in *. lia. }
  assert (Hclosed : forall n p, In n R -> In p (parents g n) -> In p R \/ aget ins p <> None).
  { intros n p Hn Hp. destruct (proj1 (proj2 (proj2 (counts_ok g inputs 2 wfg o o Ho))) n p Hn Hp) as [H|H]; [left; exact H|].
    right. apply isin_aget. exact H. }
  destruct (ev_output_w g gens apply raises ins cstore cget cset Good CInv cinv_get cinv_set interfere interfere_inv
              R (proj1 (proj2 (counts_ok g inputs 2 wfg o o Ho))) wfg Hclosed gens_ok f w o (s0 σ) v Hs
              (Inv_s0 σ Hc) Hcnt o_in_dom) as (s' & Hnode & Hinv').
  destruct (sim_call g gens apply raises cstore cget cset interfere f o w (s0 σ) v s' Hnode) as [k Hk].
  exists k, (mk cstore [v] [CReturn] s'). split; [|apply (i_cinv _ _ _ _ _ _ _ _ _ Hinv')].
  intros k' Hle. rewrite init_is_s0. apply Hk. exact Hle.
Qed.

End Main.
