(* C19: a pickled compiled function computes the same values and hashes: its store is the pickled store (RAM caches
   empty, disk caches the same), which meets the invariant of C04, and C04 / get_hash are independent of what an
   invariant-respecting store holds. *)
From Connectome Require Import Values Attrs VM Edges EdgesGen Store MemGen MemPickleGen PickleGen Evaluator L2 HashSound SpecEq EqFacts C01Inst C04Main Pickle.
Local Open Scope list_scope.

Lemma s_find_pickle σ c : s_find (pickle_store σ) c = option_map pickle_cache (s_find σ c).
Proof.
  induction σ as [|[c0 st] σ IH]; cbn; [reflexivity|]. destruct (Nat.eqb c c0); [reflexivity|exact IH].
Qed.

Lemma pickle_entries st k v : In (k, v) (entries (pickle_cache st)) -> In (k, v) (entries st).
Proof.
  unfold pickle_cache. destruct (ck st); [|auto]. destruct (list_eqb String.eqb mc_reduce_keeps ["size"%string]); [intros []|auto].
Qed.

(* RAM caches of the copy start empty and keep their bound and kind; disk caches are the same stores *)
Lemma pickle_ram_empty st s : ck st = KRam s -> pickle_cache st = new_cache (KRam s).
Proof. intros H. unfold pickle_cache. rewrite H. reflexivity. Qed.
Lemma pickle_disk_same st : ck st = KDisk -> pickle_cache st = st.
Proof. intros H. unfold pickle_cache. rewrite H. reflexivity. Qed.

Section P.
Variable apply : string -> list val -> list (string * val) -> val.

Lemma cinv_pickle σ : CInvS apply σ -> CInvS apply (pickle_store σ).
Proof.
  intros H c st Hf k v Hin. rewrite s_find_pickle in Hf. destruct (s_find σ c) as [st0|] eqn:E; [|discriminate].
  injection Hf as <-. apply (H c st0 E). apply pickle_entries, Hin.
Qed.

(* the copy, run on the pickled store while anything that respects the invariant (the original writing to the shared
   disk store, other processes) interferes, returns what the original returns on its own store: the cache-free value *)
Theorem pickle_transparent (c : hcall) v σ (interfere : cstore -> cstore) :
  (forall s, CInvS apply s -> CInvS apply (interfere s)) -> call_ok apply c v -> CInvS apply σ ->
  exists k s1 s2, forall k', k <= k' ->
    call (shape (hc_g c)) (gens_of (hc_g c)) apply (hc_raises c) cstore cget cset interfere (hc_ins c) (hc_o c) σ k'
      = Finished cstore (SVal v) s1 /\
    call (shape (hc_g c)) (gens_of (hc_g c)) apply (hc_raises c) cstore cget cset interfere (hc_ins c) (hc_o c) (pickle_store σ) k'
      = Finished cstore (SVal v) s2.
Proof.
  intros Hint (Hwf & Hin & Hnode & Hedge & Htot & Hlen & F & h & Hsem) Hc.
  destruct (call_transparent apply (hc_raises c) (hc_g c) (hc_ins c) Hwf Hin Hnode Hedge Htot (hc_o c) F h v σ interfere Hint Hlen Hsem Hc)
    as (k1 & s1 & Hk1 & _).
  destruct (call_transparent apply (hc_raises c) (hc_g c) (hc_ins c) Hwf Hin Hnode Hedge Htot (hc_o c) F h v (pickle_store σ) interfere Hint Hlen Hsem
              (cinv_pickle σ Hc)) as (k2 & s2 & Hk2 & _).
  exists (Nat.max k1 k2), s1, s2. intros k' Hle. split; [apply Hk1|apply Hk2]; lia.
Qed.

(* ... and Graph.get_hash of the copy is the node hash of the original: equal persistent digests *)
Theorem pickle_same_hash (c : hcall) v σ (interfere : cstore -> cstore) :
  (forall s, CInvS apply s -> CInvS apply (interfere s)) -> call_ok apply c v -> CInvS apply σ ->
  exists h pl k s1 s2, forall k', k <= k' ->
    get_hash (shape (hc_g c)) (gens_of (hc_g c)) apply (hc_raises c) cstore cget cset interfere (hc_ins c) (hc_o c) σ k'
      = Finished cstore (SHashOut h pl) s1 /\
    get_hash (shape (hc_g c)) (gens_of (hc_g c)) apply (hc_raises c) cstore cget cset interfere (hc_ins c) (hc_o c) (pickle_store σ) k'
      = Finished cstore (SHashOut h pl) s2.
Proof.
  intros Hint (Hwf & Hin & Hnode & Hedge & Htot & Hlen & F & h & Hsem) Hc.
  destruct (hash_transparent apply (hc_raises c) (hc_g c) (hc_ins c) Hwf Hin Hnode Hedge Htot (hc_o c) F h v interfere Hint Hlen Hsem)
    as (pl & Hpl).
  destruct (Hpl σ Hc) as (k1 & s1 & Hk1 & _).
  destruct (Hpl (pickle_store σ) (cinv_pickle σ Hc)) as (k2 & s2 & Hk2 & _).
  exists h, pl, (Nat.max k1 k2), s1, s2. intros k' Hle. split; [apply Hk1|apply Hk2]; lia.
Qed.
End P.
