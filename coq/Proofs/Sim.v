(* Layer 1 of the C01/C03 refinement: the stack machine of Model/VM.v simulates the recursive evaluator.
   Pure program equivalence: it holds for every graph shape, arbitrary generator trees (with cache effects),
   any interpretation of the user functions, any shared store and any interference. *)
From Connectome Require Import Values VM Evaluator.
Local Open Scope list_scope.

Section Sim.
Variable g : pgraph.
Variable gens : which -> nat -> option gen.
Variable apply : string -> list val -> list (string * val) -> val.
Variable raises : string -> list val -> list (string * val) -> bool.
Variable cstore : Type.
Variable cget : cstore -> nat -> sval -> option sval * cstore.
Variable cset : cstore -> nat -> sval -> sval -> cstore.
Variable interfere : cstore -> cstore.

Notation rst := (rst cstore).
Notation res := (res cstore).
Notation st := (st cstore).
Notation step := (step g gens apply raises cstore cget cset interfere).
Notation run := (run g gens apply raises cstore cget cset interfere).
Notation settle := (settle cstore cget cset interfere).
Notation drive := (drive cstore cget cset interfere).
Notation node := (node g gens cstore cget cset interfere).
Notation tuple := (tuple cstore).
Notation handle1 := (handle1 g gens apply raises cstore cget cset interfere).
Notation ev := (ev g gens apply raises cstore cget cset interfere).

Definition mk (stk : list sval) (ks : list cmd) (s : rst) : st :=
  {| stack := stk; cmds := ks; H := rH s; C := rC s; log := rlog s; sto := rstore s |}.

Fixpoint run_to (k : nat) (s : st) : option st :=
  match k with
  | 0 => Some s
  | S k' => match step s with Running _ s' => run_to k' s' | _ => None end
  end.

Lemma run_to_app a b s s' s'' : run_to a s = Some s' -> run_to b s' = Some s'' -> run_to (a + b) s = Some s''.
Proof.
  revert s; induction a as [|a IH]; cbn [run_to plus]; intros s H1 H2.
  - inversion H1; subst; exact H2.
  - destruct (step s) as [s1| | |]; try discriminate. eapply IH; eassumption.
Qed.

(* reaches s s' k: exactly k machine steps lead from s to s' *)
Definition reaches (s s' : st) : Prop := exists k, run_to k s = Some s'.
Lemma reaches_refl s : reaches s s. Proof. exists 0; reflexivity. Qed.
Lemma reaches_trans a b c : reaches a b -> reaches b c -> reaches a c.
Proof. intros [k1 H1] [k2 H2]; exists (k1 + k2); eapply run_to_app; eassumption. Qed.
Lemma reaches_step a b c : step a = Running _ b -> reaches b c -> reaches a c.
Proof. intros Hs [k Hk]; exists (S k); cbn [run_to]; rewrite Hs; exact Hk. Qed.

Definition sim_req (handle : nat -> req -> rst -> res) : Prop :=
  forall n r s x s', handle n r s = ROk x s' ->
  forall S K, reaches (mk (SNode n :: S) (CReq r :: K) s) (mk (x :: S) K s').

Section Lemmas.
Variable handle : nat -> req -> rst -> res.
Hypothesis Hh : sim_req handle.

Lemma sim_drive gn : forall n s r0 s1 h' c',
  drive handle n gn s = ROk r0 s1 ->
  evict_all (rH s1) (rC s1) (parents g n) = Some (h', c') ->
  forall (v : sval) (it : sval -> gen) S K σ, settle (it v) σ = settle gn (rstore s) ->
  reaches (mk (v :: S) (CSend n it :: K) (with_store s σ))
          (mk (r0 :: S) K {| rH := h'; rC := c'; rlog := rlog s1; rdone := rdone s1; rstore := rstore s1 |}).
Proof.
  induction gn as [r | r k IH | e | c key k IH | c key v0 k IH];
    intros n s r0 s1 h' c' Hd He v it S K σ Hit; cbn [drive] in Hd.
  - injection Hd as <- <-.
    eapply reaches_step; [|apply reaches_refl].
    unfold VM.step, mk; cbn. rewrite Hit. cbn. rewrite He. reflexivity.
  - destruct (handle n r s) as [x s'|] eqn:Hr; [|discriminate].
    eapply reaches_step.
    { unfold VM.step, mk; cbn. rewrite Hit. cbn. reflexivity. }
    eapply reaches_trans.
    { apply (Hh _ _ _ _ _ Hr S (CSend n k :: K)). }
    replace s' with (with_store s' (rstore s')) at 1 by (destruct s'; reflexivity).
    eapply IH; eauto.
  - discriminate.
  - cbn [VM.settle] in Hit.
    destruct (cget (interfere (rstore s)) c key) as [hit st'] eqn:Eg.
    specialize (IH hit n (with_store s st') r0 s1 h' c' Hd He v it S K σ). cbn in IH.
    apply IH. exact Hit.
  - cbn [VM.settle] in Hit.
    specialize (IH n (with_store s (cset (interfere (rstore s)) c key v0)) r0 s1 h' c' Hd He v it S K σ).
    cbn in IH. apply IH. exact Hit.
Qed.

Lemma store_step w key top S K s s2 :
  store w key top s = Some s2 ->
  step (mk (top :: S) (CStore w key :: K) s) = Running _ (mk (top :: S) K s2).
Proof.
  unfold store, VM.step, mk; cbn. destruct w; cbn.
  - destruct (aget (memo (rH s)) key); [discriminate|].
    destruct (aget (counts (rH s)) key); [|discriminate]. intros [= <-]. reflexivity.
  - destruct (aget (memo (rC s)) key); [discriminate|].
    destruct (aget (counts (rC s)) key); [|discriminate]. intros [= <-]. reflexivity.
Qed.

Definition cmd_of (w : which) := match w with WH => CComputeHash | WC => CEvaluate end.

Lemma sim_node w n s x s' :
  node handle w n s = ROk x s' ->
  forall S K, reaches (mk (SNode n :: S) (cmd_of w :: K) s) (mk (x :: S) K s').
Proof.
  unfold Evaluator.node. intros Hn S K.
  destruct (aget (memo (sel w s)) n) as [v|] eqn:Hm.
  - injection Hn as <- <-. eapply reaches_step; [|apply reaches_refl].
    destruct w; unfold VM.step, mk, sel in *; cbn; rewrite Hm; reflexivity.
  - destruct (gens w n) as [e|] eqn:He; [|discriminate].
    destruct (drive handle n e s) as [r s1|] eqn:Hd; [|discriminate].
    destruct (evict_all (rH s1) (rC s1) (parents g n)) as [[h' c']|] eqn:Hev; [|discriminate].
    destruct (store w n r _) as [s2|] eqn:Hst; [|discriminate].
    injection Hn as <- <-.
    apply reaches_step with (b := mk (SNoneS :: S) (CSend n (fun _ => e) :: CStore w n :: K) s).
    { destruct w; unfold VM.step, mk, sel in *; cbn; rewrite Hm, He; reflexivity. }
    eapply reaches_trans.
    { replace s with (with_store s (rstore s)) at 1 by (destruct s; reflexivity).
      eapply (sim_drive _ _ _ _ _ _ _ Hd Hev SNoneS (fun _ => e)); reflexivity. }
    eapply reaches_step; [|apply reaches_refl].
    apply (store_step _ _ _ _ _ _ _ Hst).
Qed.

Lemma sim_item i x y S K s :
  item i x = Some y -> step (mk (x :: S) (CItem i :: K) s) = Running _ (mk (y :: S) K s).
Proof. destruct x; cbn; try discriminate. intros [= <-]. reflexivity. Qed.

Lemma sim_tuple n : forall rs acc s xs s', tuple handle n rs acc s = Some (xs, s') ->
  forall S K total, total = List.length acc + List.length rs ->
  reaches (mk (acc ++ S) (CTuple n total (rev rs) :: K) s) (mk (STup xs :: S) K s')
  /\ List.length xs = total.
Proof.
  induction rs as [|r rest IH]; intros acc s xs s' Ht S K total Htot; cbn [Evaluator.tuple] in Ht.
  - injection Ht as <- <-. cbn in Htot. rewrite Nat.add_0_r in Htot. subst total. split; [|reflexivity].
    eapply reaches_step; [|apply reaches_refl].
    unfold VM.step, mk; cbn.
    assert (Hle : Nat.leb (List.length acc) (List.length (acc ++ S)) = true).
    { apply Nat.leb_le. rewrite app_length. lia. }
    rewrite Hle.
    rewrite firstn_app, Nat.sub_diag, firstn_all. cbn. rewrite app_nil_r.
    rewrite skipn_app, Nat.sub_diag, skipn_all. cbn. reflexivity.
  - destruct (handle n r s) as [x s1|] eqn:Hr; [|discriminate].
    specialize (IH (x :: acc) s1 xs s' Ht S K total).
    destruct IH as [IH Hlen]. { cbn in *. lia. }
    split; [|exact Hlen].
    apply reaches_step with (b := mk (SNode n :: acc ++ S) (CReq r :: CTuple n total (rev rest) :: K) s).
    { unfold VM.step, mk; cbn. rewrite rev_app_distr. cbn. rewrite rev_involutive. reflexivity. }
    eapply reaches_trans.
    { apply (Hh _ _ _ _ _ Hr (acc ++ S) (CTuple n total (rev rest) :: K)). }
    exact IH.
Qed.

Lemma sim_handle1 : sim_req (handle1 handle).
Proof.
  intros n r s x s' Hr S K. destruct r as [i | i | | | rs | fn pos kw]; cbn [Evaluator.handle1] in Hr.
  - (* ParentHash *)
    destruct (nth_error (parents g n) i) as [p|] eqn:Hp; [|discriminate].
    unfold with_item in Hr. destruct (node handle WH p s) as [y s1|] eqn:Hn; [|discriminate].
    destruct (item 0 y) as [z|] eqn:Hi; [|discriminate]. injection Hr as <- <-.
    eapply reaches_step. { unfold VM.step, mk; cbn. rewrite Hp. reflexivity. }
    eapply reaches_trans. { apply (sim_node WH _ _ _ _ Hn S (CItem 0 :: K)). }
    eapply reaches_step; [apply (sim_item _ _ _ _ _ _ Hi)|apply reaches_refl].
  - (* ParentValue *)
    destruct (nth_error (parents g n) i) as [p|] eqn:Hp; [|discriminate].
    eapply reaches_step. { unfold VM.step, mk; cbn. rewrite Hp. reflexivity. }
    apply (sim_node WC _ _ _ _ Hr S K).
  - (* CurrentHash *)
    unfold with_item in Hr. destruct (node handle WH n s) as [y s1|] eqn:Hn; [|discriminate].
    destruct (item 0 y) as [z|] eqn:Hi; [|discriminate]. injection Hr as <- <-.
    eapply reaches_step. { unfold VM.step, mk; cbn. reflexivity. }
    eapply reaches_trans. { apply (sim_node WH _ _ _ _ Hn S (CItem 0 :: K)). }
    eapply reaches_step; [apply (sim_item _ _ _ _ _ _ Hi)|apply reaches_refl].
  - (* Payload *)
    unfold with_item in Hr. destruct (node handle WH n s) as [y s1|] eqn:Hn; [|discriminate].
    destruct (item 1 y) as [z|] eqn:Hi; [|discriminate]. injection Hr as <- <-.
    eapply reaches_step. { unfold VM.step, mk; cbn. reflexivity. }
    eapply reaches_trans. { apply (sim_node WH _ _ _ _ Hn S (CItem 1 :: K)). }
    eapply reaches_step; [apply (sim_item _ _ _ _ _ _ Hi)|apply reaches_refl].
  - (* Await *)
    destruct (tuple handle n (rev rs) [] s) as [[xs s1]|] eqn:Ht; [|discriminate]. injection Hr as <- <-.
    eapply reaches_step. { unfold VM.step, mk; cbn. reflexivity. }
    destruct (sim_tuple n (rev rs) [] s xs s1 Ht S K (List.length rs)) as [Hreach _].
    { cbn. rewrite rev_length. reflexivity. }
    rewrite rev_involutive in Hreach. exact Hreach.
  - (* Call *)
    destruct (raises fn pos kw) eqn:Hrz; [discriminate|]. injection Hr as <- <-.
    eapply reaches_step; [|apply reaches_refl]. unfold VM.step, mk; cbn. rewrite Hrz. reflexivity.
Qed.
End Lemmas.

Theorem sim : forall fuel, sim_req (ev fuel).
Proof.
  induction fuel as [|f IH]; [intros n r s x s' H; discriminate|].
  cbn [Evaluator.ev]. apply sim_handle1. exact IH.
Qed.

(* whole call: if the recursive evaluator returns v for the output, so does the machine *)
Lemma run_to_finish k : forall s0 s1 o, run_to k s0 = Some s1 ->
  step s1 = o -> (forall s2, o <> Running _ s2) -> run (S k) s0 = o.
Proof.
  induction k as [|k IHk]; intros s0 s1 o Hk Ho Hnr; cbn [run_to] in Hk.
  - injection Hk as ->. cbn [VM.run]. rewrite Ho. destruct o; reflexivity.
  - cbn [VM.run]. destruct (step s0) as [s'| | |]; try discriminate. eapply IHk; eassumption.
Qed.

Lemma run_more k : forall s o, run k s = o -> (forall s2, o <> Running _ s2) -> forall k', k <= k' -> run k' s = o.
Proof.
  induction k as [|k IH]; intros s o Hr Hn k' Hle; cbn [VM.run] in Hr.
  - exfalso. eapply Hn. symmetry. exact Hr.
  - destruct k' as [|k']; [lia|]. cbn [VM.run].
    destruct (step s) as [s'| | |]; try exact Hr. apply IH; [exact Hr|exact Hn|lia].
Qed.

Corollary sim_call fuel out w s v s' :
  node (ev fuel) w out s = ROk v s' ->
  exists k, forall k', k <= k' ->
    run k' (mk [SNode out] [cmd_of w; CReturn] s) = Finished _ v (mk [v] [CReturn] s').
Proof.
  intros Hn. destruct (sim_node (ev fuel) (sim fuel) w out s v s' Hn [] [CReturn]) as [k Hk].
  exists (S k). intros k' Hle. eapply run_more; [|intros s2; discriminate|exact Hle].
  eapply run_to_finish; [exact Hk|reflexivity|intros s2; discriminate].
Qed.

End Sim.
