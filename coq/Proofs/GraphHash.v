(* C06: the static graph hash (Graph.hash(): bottom-up Edge._hash_graph with the input replaced by a placeholder)
   over the regenerated _hash_graph bodies. *)
From Connectome Require Import Values Attrs VM Edges EdgesGen HashSound GraphHashModel.
Local Open Scope list_scope.


(* ---- injectivity of the regenerated hash makers: what a static hash pins down ---- *)
Lemma switch_graph_hash_routing t n t' n' inputs inputs' :
  SwitchEdge_hash_graph (self_of (ESwitch t n)) inputs = SwitchEdge_hash_graph (self_of (ESwitch t' n')) inputs' ->
  sorted_items t = sorted_items t' /\ inputs = inputs'.
Proof.
  intros H. unfold SwitchEdge_hash_graph in H. cbn [self_of id_to_index app] in H. injection H as H1 H2. split; [|exact H2].
  revert H1. generalize (sorted_items t) (sorted_items t'). induction l as [|[k i] l IH]; intros [|[k' i'] l'] H; cbn in H; try discriminate; [reflexivity|].
  injection H as -> Hi Hl. apply Nat2Z.inj in Hi. subst. f_equal. apply IH. exact Hl.
Qed.

Lemma func_graph_hash_inj f ar kw f' ar' kw' ph ph' :
  FunctionEdge_make_hash (self_of (EFunc f ar kw [])) ph = FunctionEdge_make_hash (self_of (EFunc f' ar' kw' [])) ph' ->
  f = f' /\ kw = kw' /\ ph = ph'.
Proof. rewrite !func_hash_char. intros [= -> -> ->]. auto. Qed.

Lemma product_graph_hash_inj k k' ph ph' :
  ProductEdge_make_hash (self_of (EProduct k)) ph = ProductEdge_make_hash (self_of (EProduct k')) ph' -> ph = ph'.
Proof. rewrite !product_hash_char. intros [= ->]. reflexivity. Qed.

Lemma const_graph_hash_inj v v' i i' :
  ConstantEdge_hash_graph (self_of (EConst v)) i = ConstantEdge_hash_graph (self_of (EConst v')) i' -> v = v'.
Proof. unfold ConstantEdge_hash_graph. cbn. intros [= ->]. reflexivity. Qed.

(* the placeholder standing for the entry id is not the hash of any constant *)
Lemma placeholder_fresh v : HPlaceholder <> HLeaf v.
Proof. discriminate. Qed.

(* an impure edge has no static hash: every keyed layer above it fails to build (C13 uses this) *)
Lemma impure_no_graph_hash i inputs : ImpureEdge_hash_graph (self_of (EImpure i)) inputs = None.
Proof. reflexivity. Qed.

(* the pinned SwitchEdge._hash_graph omitted the routing: CustomHash('connectome.SwitchEdge', *inputs) *)
Definition SwitchEdge_hash_graph_pinned (inputs : list nhash) : option nhash := Some (HCustom "connectome.SwitchEdge" inputs).
Lemma switch_graph_hash_pinned_refuted :
  exists t t' inputs, sorted_items t <> sorted_items t' /\
    SwitchEdge_hash_graph_pinned inputs = SwitchEdge_hash_graph_pinned inputs /\
    lookup t (VStr "2") <> lookup t' (VStr "2").
Proof.
  exists [(VStr "1", 0); (VStr "2", 0); (VStr "3", 1)], [(VStr "1", 0); (VStr "2", 1); (VStr "3", 1)], [HPlaceholder].
  repeat split; cbn; discriminate.
Qed.
