(* Helpers to discharge the per-node hypotheses of the concrete theorems on explicit graphs. *)
From Connectome Require Import Values Attrs VM Edges HashSound SpecEq C01Inst.
Local Open Scope list_scope.

Lemma nodes_forall (P : edge -> list nat -> Prop) (g : graph) :
  Forall (fun d => match d with Leaf => True | Inner e ps => P e ps end) g ->
  forall n e ps, nth n g Leaf = Inner e ps -> P e ps.
Proof.
  intros H n e ps Hn. destruct (Nat.lt_ge_cases n (List.length g)) as [Hlt|Hge].
  - rewrite Forall_forall in H. specialize (H _ (nth_In g Leaf Hlt)). rewrite Hn in H. exact H.
  - rewrite nth_overflow in Hn by exact Hge. discriminate.
Qed.

(* boolean versions of node_ok / edge_ok over a whole graph *)
Definition node_okb (e : edge) (ps : list nat) : bool :=
  Nat.eqb (edge_arity e) (List.length ps)
  && (match e with EFunc _ ar kw _ => Nat.leb (List.length kw) ar | _ => true end)
  && (match e with ESwitch t _ => forallb (fun kv : val * nat => snd kv + 1 <? List.length ps) t | _ => true end)
  && (match e with EByValue i | EImpure i => simple i | _ => true end).
Lemma node_okb_sound e ps : node_okb e ps = true -> node_ok e ps.
Proof.
  unfold node_okb, node_ok, arity_ok. intros H. apply andb_prop in H as [H H4]. apply andb_prop in H as [H H3]. apply andb_prop in H as [H1 H2].
  apply Nat.eqb_eq in H1. repeat split; auto.
  - destruct e; auto. apply Nat.leb_le. exact H2.
  - destruct e; auto.
  - destruct e; auto.
Qed.
Definition graph_okb (g : graph) : bool :=
  forallb (fun d => match d with Leaf => true | Inner e ps => node_okb e ps && edge_ok e (List.length ps) end) g.
Lemma graph_okb_sound g : graph_okb g = true ->
  (forall n e ps, nth n g Leaf = Inner e ps -> node_ok e ps) /\
  (forall n e ps, nth n g Leaf = Inner e ps -> edge_ok e (List.length ps) = true).
Proof.
  unfold graph_okb. rewrite forallb_forall. intros H. split.
  - apply (nodes_forall node_ok). apply Forall_forall. intros d Hd. specialize (H d Hd). destruct d; [exact I|].
    apply andb_prop in H as [H _]. apply node_okb_sound. exact H.
  - apply (nodes_forall (fun e ps => edge_ok e (List.length ps) = true)). apply Forall_forall. intros d Hd. specialize (H d Hd).
    destruct d; [exact I|]. apply andb_prop in H as [_ H]. exact H.
Qed.
