(* C12: safety of the two-level store under process death at any micro-step and arbitrary file loss, and recovery. *)
From Coq Require Import List Arith Bool Lia.
From Connectome Require Import Crash.
Import ListNotations.

Lemma list_eqb_nat_refl l : list_eqb_nat l l = true.
Proof. induction l as [|x l IH]; cbn; [reflexivity|]. rewrite Nat.eqb_refl, IH. reflexivity. Qed.
Lemma same_mapping_refl m : same_mapping m m = true.
Proof. apply list_eqb_nat_refl. Qed.

Lemma upd_same f k i : upd f k i k = i.
Proof. unfold upd. rewrite Nat.eqb_refl. reflexivity. Qed.
Lemma upd_other f k i k' : k' <> k -> upd f k i k' = f k'.
Proof. intros H. unfold upd. destruct (Nat.eqb_spec k' k); [contradiction|reflexivity]. Qed.

(* ---------- what single steps do to the index ---------- *)
Lemma micro_index k v s p k' :
  index (fst (micro k v s p)) k' = index s k' \/ (k' = k /\ index (fst (micro k v s p)) k' = IGood v).
Proof.
  destruct p as [[|b rest] ph|ph| |]; cbn; auto.
  - destruct ph as [|[|[|ph]]]; cbn; auto. destruct (has (blobs s) b); cbn; auto.
  - destruct ph as [|[|[|ph]]]; cbn; auto.
    + destruct (index s k) as [|m|]; cbn; auto. destruct (same_mapping m v); cbn; auto.
    + destruct (Nat.eqb_spec k' k) as [->|Hne]; [right; split; [reflexivity|apply upd_same]|left; apply upd_other, Hne].
Qed.

Lemma read_index k s k' : index (snd (read k s)) k' = index s k' \/ index (snd (read k s)) k' = IAbsent.
Proof.
  unfold read. destruct (index s k) as [|m|] eqn:E; cbn; auto.
  - destruct (forallb (has (blobs s)) m); cbn; auto.
    destruct (Nat.eqb_spec k' k) as [->|Hne]; [right; apply upd_same|left; apply upd_other, Hne].
  - destruct (Nat.eqb_spec k' k) as [->|Hne]; [right; apply upd_same|left; apply upd_other, Hne].
Qed.
Lemma read_miss k s : fst (read k s) = Miss -> index (snd (read k s)) k = IAbsent.
Proof.
  unfold read. destruct (index s k) as [|m|] eqn:E; cbn; auto.
  - destruct (forallb (has (blobs s)) m); cbn; [discriminate|]. intros _. apply upd_same.
  - intros _. apply upd_same.
Qed.
Lemma read_hit k s m :
  fst (read k s) = Hit m -> index s k = IGood m /\ forallb (has (blobs s)) m = true /\ snd (read k s) = s.
Proof.
  unfold read. destruct (index s k) as [|m'|] eqn:E; cbn; try discriminate.
  destruct (forallb (has (blobs s)) m') eqn:F; cbn; [|discriminate]. intros [= ->]. auto.
Qed.

Section Facts.
  Variable V : key -> list blob.
  Variable D : key -> list key.

  (* an index file is missing, truncated, or the complete mapping of the value of its entry *)
  Definition Inv (s : fs) : Prop := forall k, index s k = IAbsent \/ index s k = IGood (V k) \/ index s k = ITorn.

  Definition pending (c : cfg) : list key :=
    (match c_cur c with Some (k, _) => [k] | None => [] end)
    ++ flat_map (fun i => match i with IWrite k => [k] | IGet _ => [] end) (c_todo c).
  Definition CInv (c : cfg) : Prop :=
    Inv (c_fs c) /\ (forall k, In k (pending c) -> index (c_fs c) k <> ITorn)
    /\ (forall k p, c_cur c = Some (k, p) -> p <> PFail).

  Definition ok_ans (a : ans) : Prop := match a with Answer k m _ => m = V k | Collision _ => False end.

  Lemma micro_inv k s p : Inv s -> Inv (fst (micro k (V k) s p)).
  Proof. intros H k'. destruct (micro_index k (V k) s p k') as [->|[-> ->]]; auto. Qed.
  Lemma read_inv k s : Inv s -> Inv (snd (read k s)).
  Proof. intros H k'. destruct (read_index k s k') as [->| ->]; auto. Qed.
  Lemma lost_inv s s' : Inv s -> lost s s' -> Inv s'.
  Proof. intros H [_ Hl] k. destruct (Hl k) as [->|[->| ->]]; auto. Qed.

  Lemma micro_nofail k s p : Inv s -> index s k <> ITorn -> p <> PFail -> snd (micro k (V k) s p) <> PFail.
  Proof.
    intros Hi Ht Hp. destruct p as [[|b rest] ph|ph| |]; cbn; try discriminate; try contradiction.
    - destruct ph as [|[|[|ph]]]; cbn; try discriminate. destruct (has (blobs s) b); discriminate.
    - destruct ph as [|[|[|ph]]]; cbn; try discriminate.
      destruct (Hi k) as [E|[E|E]]; rewrite E; [discriminate| |contradiction].
      rewrite same_mapping_refl. discriminate.
  Qed.
  Lemma micro_nottorn k s p k' : index s k' <> ITorn -> index (fst (micro k (V k) s p)) k' <> ITorn.
  Proof. intros H. destruct (micro_index k (V k) s p k') as [->|[_ ->]]; [exact H|discriminate]. Qed.
  Lemma read_nottorn k s k' : index s k' <> ITorn -> index (snd (read k s)) k' <> ITorn.
  Proof. intros H. destruct (read_index k s k') as [->| ->]; [exact H|discriminate]. Qed.

  Lemma pending_gets l : flat_map (fun i => match i with IWrite k => [k] | IGet _ => [] end) (map IGet l) = [].
  Proof. induction l as [|x l IH]; cbn; auto. Qed.

  (* one step of a process keeps the invariant and answers only with the value of the entry *)
  Lemma sstep_cinv c : CInv c -> CInv (fst (sstep V D c)) /\ Forall ok_ans (snd (sstep V D c)).
  Proof.
    intros (Hi & Hp & Hf). unfold sstep. destruct c as [s cur todo]; cbn [c_fs c_cur c_todo] in *.
    destruct cur as [[k p]|].
    - pose proof (micro_inv k s p Hi) as Hi'. pose proof (micro_nofail k s p Hi (Hp k (or_introl eq_refl)) (Hf k p eq_refl)) as Hnf.
      destruct (micro k (V k) s p) as [s' p'] eqn:E. cbn [fst snd] in *.
      assert (Hp' : forall k', In k' (pending {| c_fs := s; c_cur := Some (k, p); c_todo := todo |}) -> index s' k' <> ITorn).
      { intros k' Hin. change s' with (fst (s', p')). rewrite <- E. apply micro_nottorn, Hp, Hin. }
      assert (Hrest : forall k', In k' (pending {| c_fs := s'; c_cur := None; c_todo := todo |}) -> index s' k' <> ITorn).
      { intros k' Hin. apply Hp'. unfold pending in *. cbn [c_cur c_todo] in *. cbn. right. exact Hin. }
      assert (Hcur : forall p0, forall k', In k' (pending {| c_fs := s'; c_cur := Some (k, p0); c_todo := todo |}) -> index s' k' <> ITorn).
      { intros p0 k' Hin. apply Hp'. exact Hin. }
      destruct p'; cbn [fst snd]; try contradiction.
      + split; [|constructor]. split; [exact Hi'|split]; cbn [c_fs c_cur c_todo]; [apply Hcur|intros k0 p0 [= <- <-]; discriminate].
      + split; [|constructor]. split; [exact Hi'|split]; cbn [c_fs c_cur c_todo]; [apply Hcur|intros k0 p0 [= <- <-]; discriminate].
      + split; [|constructor; [reflexivity|constructor]]. split; [exact Hi'|split]; cbn [c_fs c_cur c_todo]; [exact Hrest|discriminate].
    - destruct todo as [|[k|k] rest]; cbn [fst snd].
      + split; [split; [exact Hi|split; [exact Hp|exact Hf]]|constructor].
      + pose proof (read_inv k s Hi) as Hi'. pose proof (read_miss k s) as Hm. pose proof (read_hit k s) as Hh.
        destruct (read k s) as [o s'] eqn:E. cbn [fst snd] in *.
        assert (Hp' : forall k', index s k' <> ITorn -> index s' k' <> ITorn).
        { intros k' H. change s' with (snd (o, s')). rewrite <- E. apply read_nottorn, H. }
        destruct o as [m|]; cbn [fst snd].
        * destruct (Hh m eq_refl) as (Hg & _ & _). split.
          -- split; [exact Hi'|split]; cbn [c_fs c_cur c_todo]; [|discriminate].
             intros k' Hin. apply Hp', Hp. unfold pending in *. cbn [c_cur c_todo] in *. cbn in *. exact Hin.
          -- constructor; [|constructor]. cbn. destruct (Hi k) as [E'|[E'|E']]; rewrite E' in Hg; congruence.
        * split; [|constructor]. split; [exact Hi'|split]; cbn [c_fs c_cur c_todo]; [|discriminate].
          intros k' Hin. unfold pending in Hin. cbn [c_cur c_todo app] in Hin. rewrite flat_map_app, pending_gets in Hin.
          cbn in Hin. destruct Hin as [<-|Hin]; [rewrite (Hm eq_refl); discriminate|].
          apply Hp', Hp. unfold pending. cbn. exact Hin.
      + split; [|constructor]. split; [exact Hi|split]; cbn [c_fs c_cur c_todo].
        * intros k' Hin. apply Hp. unfold pending in *. cbn [c_cur c_todo] in *. cbn in *. exact Hin.
        * intros k0 p0 [= <- <-]. discriminate.
  Qed.

  (* histories: steps of the running process; or the process dies, files are lost, and another process starts *)
  Inductive hstep : cfg -> list ans -> cfg -> Prop :=
  | h_step c : hstep c (snd (sstep V D c)) (fst (sstep V D c))
  | h_crash c s' gets : lost (c_fs c) s' -> hstep c [] {| c_fs := s'; c_cur := None; c_todo := map IGet gets |}.
  Inductive hsteps : cfg -> list ans -> cfg -> Prop :=
  | hs_nil c : hsteps c [] c
  | hs_cons c a c' b c'' : hstep c a c' -> hsteps c' b c'' -> hsteps c (a ++ b) c''.

  Lemma hstep_cinv c a c' : CInv c -> hstep c a c' -> CInv c' /\ Forall ok_ans a.
  Proof.
    intros H Hs. destruct Hs as [c|c s' gets Hl].
    - apply sstep_cinv, H.
    - split; [|constructor]. destruct H as (Hi & _ & _). split; [exact (lost_inv _ _ Hi Hl)|split]; cbn [c_fs c_cur c_todo].
      + intros k Hin. unfold pending in Hin. cbn [c_cur c_todo app] in Hin. rewrite pending_gets in Hin. destruct Hin.
      + discriminate.
  Qed.

  Theorem crash_safe c0 out c1 : CInv c0 -> hsteps c0 out c1 -> Forall ok_ans out /\ CInv c1.
  Proof.
    intros H Hs. induction Hs as [c|c a c' b c'' Hst Hss IH]; [split; [constructor|exact H]|].
    destruct (hstep_cinv _ _ _ H Hst) as [H' Ha]. destruct (IH H') as [Hb Hc]. split; [apply Forall_app; split; assumption|exact Hc].
  Qed.

  (* a process that starts on any store whose index files are missing, truncated or complete *)
  Lemma start_cinv s gets : Inv s -> CInv {| c_fs := s; c_cur := None; c_todo := map IGet gets |}.
  Proof.
    intros H. split; [exact H|split]; cbn [c_fs c_cur c_todo]; [|discriminate].
    intros k Hin. unfold pending in Hin. cbn [c_cur c_todo app] in Hin. rewrite pending_gets in Hin. destruct Hin.
  Qed.
  Definition empty_fs : fs := {| blobs := []; index := fun _ => IAbsent; tmps := 0 |}.
  Lemma empty_inv : Inv empty_fs.
  Proof. intros k. left. reflexivity. Qed.

  (* never partially read: a hit is the complete value, with every blob it names present *)
  Lemma hit_is_complete k s m :
    Inv s -> fst (read k s) = Hit m -> m = V k /\ (forall b, In b m -> has (blobs s) b = true) /\ snd (read k s) = s.
  Proof.
    intros Hi Hh. destruct (read_hit k s m Hh) as (Hg & Hb & Hs). split; [|split; [|exact Hs]].
    - destruct (Hi k) as [E|[E|E]]; rewrite E in Hg; congruence.
    - intros b Hin. rewrite forallb_forall in Hb. apply Hb, Hin.
  Qed.

  (* ---------- recovery: an uninterrupted get always ends with the entry readable ---------- *)
  Fixpoint mrun (k : key) (v : list blob) (n : nat) (s : fs) (p : pc) : fs * pc :=
    match n with 0 => (s, p) | S n' => let (s', p') := micro k v s p in mrun k v n' s' p' end.
  Definition terminal (p : pc) : bool := match p with PDone | PFail => true | _ => false end.

  Lemma micro_terminal k v s p : terminal p = true -> micro k v s p = (s, p).
  Proof. destruct p; cbn; try discriminate; reflexivity. Qed.
  Lemma mrun_terminal k v n : forall s p, terminal p = true -> mrun k v n s p = (s, p).
  Proof. induction n as [|n IH]; intros s p H; cbn [mrun]; [reflexivity|]. rewrite (micro_terminal k v s p H). apply IH, H. Qed.
  Lemma mrun_add k v a b : forall s p s' p', mrun k v a s p = (s', p') -> mrun k v (a + b) s p = mrun k v b s' p'.
  Proof.
    induction a as [|a IH]; intros s p s' p' H; cbn [mrun plus] in *; [injection H as -> ->; reflexivity|].
    destruct (micro k v s p) as [s1 p1]. apply IH, H.
  Qed.

  Lemma has_cons l b x : has (b :: l) x = Nat.eqb x b || has l x.
  Proof. reflexivity. Qed.

  Lemma blobs_phase k v : forall todo s ph, exists n s',
    n <= 4 * length todo + 1 /\ mrun k v n s (PBlob todo ph) = (s', PIndex 0) /\ index s' = index s /\
    (forall b, has (blobs s) b = true -> has (blobs s') b = true) /\
    (ph = 0 -> forall b, In b todo -> has (blobs s') b = true).
  Proof.
    induction todo as [|b rest IH]; intros s ph.
    - exists 1, s. cbn. repeat split; auto; try (intros _ b []); try lia.
    - assert (Hstep : exists n1 s1, n1 <= 4 /\ mrun k v n1 s (PBlob (b :: rest) ph) = (s1, PBlob rest 0) /\ index s1 = index s /\
                (forall x, has (blobs s) x = true -> has (blobs s1) x = true) /\ (ph = 0 -> has (blobs s1) b = true)).
      { destruct ph as [|[|[|ph]]].
        - destruct (has (blobs s) b) eqn:Hb.
          + exists 1, s. cbn. rewrite Hb. repeat split; auto.
          + eexists 4, _. cbn. rewrite Hb. cbn. split; [lia|]. split; [reflexivity|]. cbn. split; [reflexivity|]. split.
            * intros x Hx. unfold has in *. cbn. rewrite Hx. apply orb_true_r.
            * intros _. unfold has. cbn. rewrite Nat.eqb_refl. reflexivity.
        - eexists 3, _. cbn. split; [lia|]. split; [reflexivity|]. cbn. split; [reflexivity|]. split; [|discriminate].
          intros x Hx. unfold has in *. cbn. rewrite Hx. apply orb_true_r.
        - eexists 2, _. cbn. split; [lia|]. split; [reflexivity|]. cbn. split; [reflexivity|]. split; [|discriminate].
          intros x Hx. unfold has in *. cbn. rewrite Hx. apply orb_true_r.
        - exists 1, s. cbn. repeat split; auto. discriminate. }
      destruct Hstep as (n1 & s1 & Hn1 & Hr1 & Hi1 & Hm1 & Hb1).
      destruct (IH s1 0) as (n2 & s2 & Hn2 & Hr2 & Hi2 & Hm2 & Hb2).
      exists (n1 + n2), s2. split; [cbn [length]; lia|]. split; [rewrite (mrun_add _ _ _ _ _ _ _ _ Hr1); exact Hr2|].
      split; [congruence|]. split.
      + intros x Hx. apply Hm2, Hm1, Hx.
      + intros Hph x [<-|Hx]; [apply Hm2, Hb1, Hph|apply Hb2; auto].
  Qed.

  Lemma srun_add a b : forall c, srun V D (a + b) c =
    let (c', o) := srun V D a c in let (c'', o') := srun V D b c' in (c'', o ++ o').
  Proof.
    induction a as [|a IH]; intros c; cbn [srun plus].
    - destruct (srun V D b c) as [c'' o']. reflexivity.
    - destruct (sstep V D c) as [c1 o1]. rewrite IH. destruct (srun V D a c1) as [c2 o2]. destruct (srun V D b c2) as [c3 o3].
      rewrite app_assoc. reflexivity.
  Qed.

  Lemma srun_micro k todo n : forall s p s' p', mrun k (V k) n s p = (s', p') -> terminal p' = false ->
    srun V D n {| c_fs := s; c_cur := Some (k, p); c_todo := todo |} = ({| c_fs := s'; c_cur := Some (k, p'); c_todo := todo |}, []).
  Proof.
    induction n as [|n IH]; intros s p s' p' H Ht; cbn [mrun srun] in *; [injection H as -> ->; reflexivity|].
    unfold sstep. cbn [c_cur c_fs c_todo]. destruct (micro k (V k) s p) as [s1 p1] eqn:E.
    assert (Ht1 : terminal p1 = false).
    { destruct (terminal p1) eqn:T; [|reflexivity]. rewrite (mrun_terminal _ _ _ _ _ T) in H. injection H as <- <-. congruence. }
    destruct p1; try discriminate; rewrite (IH _ _ _ _ H Ht); reflexivity.
  Qed.

  Theorem get_completes k s : D k = [] -> Inv s ->
    exists n c' hit, n <= 4 * length (V k) + 8 /\
      srun V D n {| c_fs := s; c_cur := None; c_todo := [IGet k] |} = (c', [Answer k (V k) hit]) /\
      finished c' = true /\ fst (read k (c_fs c')) = Hit (V k).
  Proof.
    intros HD Hi. destruct (read k s) as [o s1] eqn:E. destruct o as [m|].
    - destruct (hit_is_complete k s m Hi) as (Hm & Hb & Hs); [rewrite E; reflexivity|]. subst m.
      exists 1, {| c_fs := s1; c_cur := None; c_todo := [] |}, true. split; [lia|]. split.
      + cbn [srun]. unfold sstep. cbn [c_cur c_todo c_fs]. rewrite E. reflexivity.
      + split; [reflexivity|]. cbn [c_fs]. rewrite E in Hs. cbn in Hs. subst s1. rewrite E. reflexivity.
    - assert (Hidx : index s1 k = IAbsent). { change s1 with (snd (Miss, s1)). rewrite <- E. apply read_miss. rewrite E. reflexivity. }
      destruct (blobs_phase k (V k) (V k) s1 0) as (n & s2 & Hn & Hr & Hi2 & _ & Hb).
      set (s3 := with_tmps (with_index (with_tmps s2 (S (tmps s2))) k (IGood (V k))) (pred (tmps (with_tmps s2 (S (tmps s2)))))).
      exists (2 + (n + 4)), {| c_fs := s3; c_cur := None; c_todo := [] |}, false. split; [lia|]. split.
      + change (2 + (n + 4)) with (S (S (n + 4))). cbn [srun]. unfold sstep at 1. cbn [c_cur c_todo c_fs]. rewrite E, HD. cbn [map app].
        unfold sstep at 1. cbn [c_cur c_todo c_fs].
        rewrite srun_add. rewrite (srun_micro k [] n _ _ _ _ Hr eq_refl).
        cbn [srun]. unfold sstep. cbn [c_cur c_fs c_todo micro]. rewrite Hi2, Hidx. cbn [c_cur c_fs c_todo micro app]. reflexivity.
      + split; [reflexivity|]. cbn [c_fs]. unfold read. subst s3. cbn [index with_tmps with_index blobs]. rewrite upd_same.
        assert (forallb (has (blobs s2)) (V k) = true) as ->; [|reflexivity].
        apply forallb_forall. intros b Hin. apply Hb; auto.
  Qed.

  (* ---------- recovery with stacked caches: the computation of an entry may read other disk entries ---------- *)
  Lemma srun_cinv n : forall c, CInv c -> CInv (fst (srun V D n c)).
  Proof.
    induction n as [|n IH]; intros c H; cbn [srun]; [exact H|].
    pose proof (proj1 (sstep_cinv c H)) as H1. destruct (sstep V D c) as [c1 o1]. cbn [fst] in H1.
    specialize (IH c1 H1). destruct (srun V D n c1) as [c2 o2]. exact IH.
  Qed.

  (* an uninterrupted write of an entry whose index is not truncated ends with the entry readable *)
  Lemma write_completes k s rest : Inv s -> index s k <> ITorn ->
    exists n s', n <= 4 * length (V k) + 6 /\
      srun V D n {| c_fs := s; c_cur := None; c_todo := IWrite k :: rest |}
      = ({| c_fs := s'; c_cur := None; c_todo := rest |}, [Answer k (V k) false]) /\
      fst (read k s') = Hit (V k).
  Proof.
    intros Hi Ht.
    destruct (blobs_phase k (V k) (V k) s 0) as (n & s2 & Hn & Hr & Hi2 & _ & Hb).
    assert (Hall : forallb (has (blobs s2)) (V k) = true).
    { apply forallb_forall. intros b Hin. apply Hb; auto. }
    destruct (Hi k) as [E|[E|E]]; [| |contradiction].
    - (* no index yet: four more steps *)
      set (s3 := with_tmps (with_index (with_tmps s2 (S (tmps s2))) k (IGood (V k))) (pred (tmps (with_tmps s2 (S (tmps s2)))))).
      exists (1 + (n + 4)), s3. split; [lia|]. split.
      + change (1 + (n + 4)) with (S (n + 4)). cbn [srun]. unfold sstep at 1. cbn [c_cur c_todo c_fs].
        rewrite srun_add. rewrite (srun_micro k rest n _ _ _ _ Hr eq_refl).
        cbn [srun]. unfold sstep. cbn [c_cur c_fs c_todo micro]. rewrite Hi2, E. cbn [c_cur c_fs c_todo micro app]. reflexivity.
      + unfold read. subst s3. cbn [index with_tmps with_index blobs]. rewrite upd_same, Hall. reflexivity.
    - (* the complete index is already there (written by an earlier, interrupted process): it is matched and kept *)
      exists (1 + (n + 1)), s2. split; [lia|]. split.
      + change (1 + (n + 1)) with (S (n + 1)). cbn [srun]. unfold sstep at 1. cbn [c_cur c_todo c_fs].
        rewrite srun_add. rewrite (srun_micro k rest n _ _ _ _ Hr eq_refl).
        cbn [srun]. unfold sstep. cbn [c_cur c_fs c_todo micro]. rewrite Hi2, E, same_mapping_refl. cbn [app]. reflexivity.
      + unfold read. rewrite Hi2, E, Hall. reflexivity.
  Qed.

  Variable rank : key -> nat.
  Hypothesis D_rank : forall k d, In d (D k) -> rank d < rank k.

  Lemma gets_complete : forall r,
    (forall k, rank k < r -> forall s rest, CInv {| c_fs := s; c_cur := None; c_todo := IGet k :: rest |} ->
       exists n s' outs, srun V D n {| c_fs := s; c_cur := None; c_todo := IGet k :: rest |}
                         = ({| c_fs := s'; c_cur := None; c_todo := rest |}, outs) /\ fst (read k s') = Hit (V k)) /\
    (forall ds, (forall d, In d ds -> rank d < r) -> forall s rest, CInv {| c_fs := s; c_cur := None; c_todo := map IGet ds ++ rest |} ->
       exists n s' outs, srun V D n {| c_fs := s; c_cur := None; c_todo := map IGet ds ++ rest |}
                         = ({| c_fs := s'; c_cur := None; c_todo := rest |}, outs)).
  Proof.
    induction r as [|r [IHk IHl]].
    { split; [intros k Hk; lia|]. intros [|d ds] Hd s rest _; [exists 0, s, []; reflexivity|]. specialize (Hd d (or_introl eq_refl)). lia. }
    assert (Hk : forall k, rank k < S r -> forall s rest, CInv {| c_fs := s; c_cur := None; c_todo := IGet k :: rest |} ->
       exists n s' outs, srun V D n {| c_fs := s; c_cur := None; c_todo := IGet k :: rest |}
                         = ({| c_fs := s'; c_cur := None; c_todo := rest |}, outs) /\ fst (read k s') = Hit (V k)).
    { intros k Hr s rest Hc. destruct (read k s) as [o s1] eqn:E. destruct o as [m|].
      - destruct (hit_is_complete k s m (proj1 Hc)) as (Hm & _ & Hs); [rewrite E; reflexivity|]. subst m.
        rewrite E in Hs. cbn in Hs. subst s1.
        exists 1, s, [Answer k (V k) true]. split; [|rewrite E; reflexivity].
        cbn [srun]. unfold sstep. cbn [c_cur c_todo c_fs]. rewrite E. reflexivity.
      - (* a miss: the entries its computation reads, then its own write *)
        pose proof (proj1 (sstep_cinv _ Hc)) as Hc1. unfold sstep in Hc1. cbn [c_cur c_todo c_fs] in Hc1. rewrite E in Hc1. cbn [fst] in Hc1.
        assert (Hdr : forall d, In d (D k) -> rank d < r) by (intros d Hd; pose proof (D_rank k d Hd); lia).
        destruct (IHl (D k) Hdr s1 (IWrite k :: rest) Hc1) as (n1 & s2 & o1 & Hr1).
        pose proof (srun_cinv n1 _ Hc1) as Hc2. rewrite Hr1 in Hc2. cbn [fst] in Hc2.
        destruct (write_completes k s2 rest (proj1 Hc2)) as (n2 & s3 & _ & Hr2 & Hread).
        { apply (proj1 (proj2 Hc2)). unfold pending. cbn. left. reflexivity. }
        exists (1 + (n1 + n2)), s3, (o1 ++ [Answer k (V k) false]). split; [|exact Hread].
        change (1 + (n1 + n2)) with (S (n1 + n2)). cbn [srun]. unfold sstep at 1. cbn [c_cur c_todo c_fs]. rewrite E.
        rewrite srun_add, Hr1, Hr2. reflexivity. }
    split; [exact Hk|].
    induction ds as [|d ds IHd]; intros Hd s rest Hc; [exists 0, s, []; reflexivity|]. cbn [map app] in *.
    destruct (Hk d (Hd d (or_introl eq_refl)) s (map IGet ds ++ rest) Hc) as (n1 & s1 & o1 & Hr1 & _).
    pose proof (srun_cinv n1 _ Hc) as Hc1. rewrite Hr1 in Hc1. cbn [fst] in Hc1.
    destruct (IHd (fun x Hx => Hd x (or_intror Hx)) s1 rest Hc1) as (n2 & s2 & o2 & Hr2).
    exists (n1 + n2), s2, (o1 ++ o2). rewrite srun_add, Hr1, Hr2. reflexivity.
  Qed.

  (* never permanently unusable, with any acyclic nesting of disk caches *)
  Theorem get_completes_nested k s : Inv s ->
    exists n c' outs, srun V D n {| c_fs := s; c_cur := None; c_todo := [IGet k] |} = (c', outs) /\
      finished c' = true /\ Forall ok_ans outs /\ fst (read k (c_fs c')) = Hit (V k).
  Proof.
    intros Hi.
    destruct (proj1 (gets_complete (S (rank k))) k ltac:(lia) s [] (start_cinv s [k] Hi)) as (n & s' & outs & Hr & Hread).
    exists n, {| c_fs := s'; c_cur := None; c_todo := [] |}, outs. split; [exact Hr|]. split; [reflexivity|]. split; [|exact Hread].
    assert (Hgen : forall n c, CInv c -> Forall ok_ans (snd (srun V D n c))).
    { clear. induction n as [|n IH]; intros c H; cbn [srun]; [constructor|].
      destruct (sstep_cinv c H) as [H1 H2]. destruct (sstep V D c) as [c1 o1]. cbn [fst snd] in *.
      specialize (IH c1 H1). destruct (srun V D n c1) as [c2 o2]. cbn [snd] in *. apply Forall_app. split; assumption. }
    specialize (Hgen n _ (start_cinv s [k] Hi)). cbn [map] in Hgen. rewrite Hr in Hgen. exact Hgen.
  Qed.
End Facts.
