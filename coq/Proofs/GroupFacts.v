(* Theorems about the relational model of the dataset-wide layers: GroupFacts. *)
From Connectome Require Import Values NameSet RelBase GroupGen SortFacts.
From Coq Require Import Sorting.Sorted.
Local Open Scope list_scope.

(* ---------- GroupBy ---------- *)
Theorem group_partition ids key i : In i ids ->
  In (key i) (group_keys ids key) /\ In i (group_members ids key (key i)) /\
  forall k, In i (group_members ids key k) -> k = key i.
Proof.
  intros Hi. unfold group_keys, group_members. repeat split.
  - apply sset_in. apply in_map. exact Hi.
  - apply ssort_in, filter_In. split; [exact Hi|apply String.eqb_refl].
  - intros k H. apply ssort_in, filter_In in H as [_ H]. apply String.eqb_eq in H. congruence.
Qed.
Theorem group_members_spec ids key k i : In i (group_members ids key k) <-> In i ids /\ key i = k.
Proof. unfold group_members. rewrite ssort_in, filter_In, String.eqb_eq. tauto. Qed.
Theorem group_keys_spec ids key k : In k (group_keys ids key) <-> exists i, In i ids /\ key i = k.
Proof.
  unfold group_keys. rewrite sset_in, in_map_iff. split; intros [i [A B]]; exists i; tauto.
Qed.
Theorem group_sorted ids key k : Sorted sle (group_keys ids key) /\ Sorted sle (group_members ids key k).
Proof. split; apply ssort_sorted. Qed.

