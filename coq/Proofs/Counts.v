(* count_entries (path counts times the multiplier) meets the eviction budget of the machine: every reached inner
   node x needs `multiplier * occurrences` evictions of each parent. *)
From Connectome Require Import Values VM EvictLemmas.
Local Open Scope list_scope.

Lemma ls_cons x l : list_sum (x :: l) = x + list_sum l. Proof. reflexivity. Qed.
Lemma ls_nil : list_sum [] = 0. Proof. reflexivity. Qed.

Section Counts.
Variable g : pgraph.
Variable inputs : list nat.
Variable m : nat.                                   (* the multiplier, 2 in Graph.__init__ *)
Hypothesis wfg : forall n p, In p (parents g n) -> p < n.

Definition isin (n : nat) : bool := existsb (Nat.eqb n) inputs.
Definition cntof (l : list (nat * nat)) (p : nat) : nat := match aget l p with Some c => c | None => 0 end.
Definition ind (a b : nat) : nat := if Nat.eqb a b then 1 else 0.

Lemma cntof_add l k p : cntof (add_count l k m) p = cntof l p + m * ind p k.
Proof.
  unfold cntof, ind. induction l as [|[k' c] l IH]; cbn.
  - destruct (Nat.eqb p k); cbn; lia.
  - destruct (Nat.eqb k k') eqn:E; cbn.
    + apply Nat.eqb_eq in E. subst k'. destruct (Nat.eqb p k); cbn; lia.
    + destruct (Nat.eqb p k') eqn:E2; cbn.
      * apply Nat.eqb_eq in E2. subst k'. rewrite Nat.eqb_sym in E. rewrite E. lia.
      * exact IH.
Qed.

(* W f n p: how much a traversal from n with fuel f adds to the counter of p *)
Definition W (f n p : nat) : nat := cntof (visit f g inputs m n []) p.

Lemma visit_additive f : forall n acc p, cntof (visit f g inputs m n acc) p = cntof acc p + W f n p.
Proof.
  induction f as [|f IH]; intros n acc p; unfold W; cbn [visit]; [change (cntof [] p) with 0; lia|].
  fold (isin n).
  destruct (isin n).
  - rewrite !cntof_add. change (cntof [] p) with 0. lia.
  - assert (Hfold : forall qs a, cntof (fold_left (fun a0 q => visit f g inputs m q a0) qs a) p
                                 = cntof a p + list_sum (map (fun q => W f q p) qs)).
    { induction qs as [|q qs IHq]; intros a; cbn [fold_left map]; rewrite ?ls_cons, ?ls_nil; [lia|].
      rewrite IHq, IH. lia. }
    rewrite !Hfold, !cntof_add. change (cntof [] p) with 0. lia.
Qed.

Lemma W_step f n p : W (S f) n p = m * ind p n + (if isin n then 0 else list_sum (map (fun q => W f q p) (parents g n))).
Proof.
  unfold W at 1. cbn [visit]. fold (isin n). destruct (isin n).
  - rewrite cntof_add. change (cntof [] p) with 0. lia.
  - assert (Hfold : forall qs a, cntof (fold_left (fun a0 q => visit f g inputs m q a0) qs a) p
                                 = cntof a p + list_sum (map (fun q => W f q p) qs)).
    { induction qs as [|q qs IHq]; intros a; cbn [fold_left map]; rewrite ?ls_cons, ?ls_nil; [lia|].
      rewrite IHq, visit_additive. lia. }
    rewrite Hfold, cntof_add. change (cntof [] p) with 0. lia.
Qed.

(* the nodes a traversal reaches *)
Fixpoint vis (f n : nat) : list nat :=
  match f with
  | 0 => []
  | S f' => nodup Nat.eq_dec (n :: if isin n then [] else flat_map (vis f') (parents g n))
  end.
Definition inner (l : list nat) : list nat := filter (fun x => negb (isin x)) l.
Definition S_ (l : list nat) (p : nat) : nat := list_sum (map (fun x => occl (parents g x) p) l).

Lemma sum_incl (h : nat -> nat) : forall L M, NoDup L -> incl L M -> list_sum (map h L) <= list_sum (map h M).
Proof.
  induction L as [|x L IH]; intros M Hnd Hin; [cbn; lia|].
  inversion Hnd as [|? ? Hx Hnd']; subst.
  assert (Hx' : In x M) by (apply Hin; left; reflexivity).
  destruct (in_split _ _ Hx') as (M1 & M2 & ->).
  assert (Hin' : incl L (M1 ++ M2)).
  { intros y Hy. assert (In y (M1 ++ x :: M2)) by (apply Hin; right; exact Hy).
    rewrite in_app_iff in *. cbn in H. destruct H as [H|[H|H]]; auto. subst y. tauto. }
  specialize (IH _ Hnd' Hin'). rewrite !map_app, !list_sum_app in *. cbn [map]. rewrite !ls_cons. lia.
Qed.

Lemma sum_flat_map (h : nat -> nat) (F : nat -> list nat) qs :
  list_sum (map h (flat_map F qs)) = list_sum (map (fun q => list_sum (map h (F q))) qs).
Proof. induction qs as [|q qs IH]; cbn [flat_map map]; [reflexivity|]. rewrite map_app, list_sum_app, ls_cons, IH. reflexivity. Qed.

Lemma sum_ind_occ p qs : list_sum (map (fun q => ind p q) qs) = occl qs p.
Proof.
  unfold occl, ind. induction qs as [|q qs IH]; [reflexivity|]. cbn [map count_occ]. rewrite ls_cons, IH.
  destruct (Nat.eq_dec q p) as [->|Hn]; [rewrite Nat.eqb_refl; reflexivity|].
  destruct (Nat.eqb p q) eqn:E; [apply Nat.eqb_eq in E; congruence|reflexivity].
Qed.

Lemma inner_incl_flat f ps :
  incl (inner (nodup Nat.eq_dec (flat_map (vis f) ps))) (flat_map (fun q => inner (vis f q)) ps).
Proof.
  intros x Hx. unfold inner in *. apply filter_In in Hx as [Hx Hb]. apply nodup_In in Hx.
  apply in_flat_map in Hx as (q & Hq & Hxq). apply in_flat_map. exists q. split; [exact Hq|].
  apply filter_In. auto.
Qed.

(* the budget inequality: every reached inner node x contributes its occurrences of p once *)
Theorem W_budget : forall f n p, n < f -> W f n p >= m * (ind p n + S_ (inner (vis f n)) p).
Proof.
  induction f as [|f IH]; intros n p Hf; [lia|].
  rewrite W_step. cbn [vis]. destruct (isin n) eqn:Hn.
  - (* an input: only itself, no inner node *)
    cbn. unfold inner, S_. cbn. rewrite Hn. cbn. lia.
  - set (ps := parents g n).
    assert (Hps : forall q, In q ps -> W f q p >= m * (ind p q + S_ (inner (vis f q)) p)).
    { intros q Hq. apply IH. pose proof (wfg n q Hq). lia. }
    assert (Hsum : list_sum (map (fun q => W f q p) ps) >=
                   m * (occl ps p + list_sum (map (fun q => S_ (inner (vis f q)) p) ps))).
    { clear - Hps. rewrite <- sum_ind_occ. induction ps as [|q ps IHp]; cbn [map]; rewrite ?ls_cons, ?ls_nil; [lia|].
      assert (W f q p >= m * (ind p q + S_ (inner (vis f q)) p)) by (apply Hps; left; reflexivity).
      assert (list_sum (map (fun q0 => W f q0 p) ps) >=
              m * (list_sum (map (fun q0 => ind p q0) ps) + list_sum (map (fun q0 => S_ (inner (vis f q0)) p) ps)))
        by (apply IHp; intros; apply Hps; right; assumption).
      nia. }
    (* the reached inner nodes are n together with (a duplicate-free part of) what the parents reach *)
    assert (Hreach : S_ (inner (nodup Nat.eq_dec (n :: flat_map (vis f) ps))) p
                     <= occl ps p + list_sum (map (fun q => S_ (inner (vis f q)) p) ps)).
    { unfold S_ at 1.
      transitivity (list_sum (map (fun x => occl (parents g x) p) (n :: flat_map (fun q => inner (vis f q)) ps))).
      - apply sum_incl.
        + unfold inner. apply NoDup_filter. apply NoDup_nodup.
        + intros x Hx. unfold inner in Hx. apply filter_In in Hx as [Hx Hb]. apply nodup_In in Hx.
          destruct Hx as [<-|Hx]; [left; reflexivity|]. right.
          apply in_flat_map in Hx as (q & Hq & Hxq). apply in_flat_map. exists q. split; [exact Hq|].
          unfold inner. apply filter_In. auto.
      - cbn [map]. rewrite ls_cons. fold ps. rewrite (sum_flat_map (fun x => occl (parents g x) p) (fun q => inner (vis f q)) ps).
        unfold S_. lia. }
    nia.
Qed.

(* the reached set is closed under parents, as long as fuel suffices *)
Lemma vis_self f n : 0 < f -> In n (vis f n).
Proof. destruct f; [lia|]. intros _. cbn [vis]. apply nodup_In. left. reflexivity. Qed.

Lemma vis_closed : forall f n x q, n < f -> In x (vis f n) -> isin x = false -> In q (parents g x) -> In q (vis f n).
Proof.
  induction f as [|f IH]; intros n x q Hf Hx Hi Hq; [lia|].
  cbn [vis] in *. apply nodup_In in Hx. apply nodup_In. destruct Hx as [<-|Hx].
  - rewrite Hi. right. apply in_flat_map. exists q. split; [exact Hq|]. apply vis_self. pose proof (wfg n q Hq). lia.
  - destruct (isin n); [destruct Hx|]. right. apply in_flat_map in Hx as (q0 & Hq0 & Hx).
    apply in_flat_map. exists q0. split; [exact Hq0|]. apply (IH q0 x q); auto. pose proof (wfg n q0 Hq0). lia.
Qed.

Lemma vis_nodup f n : NoDup (vis f n).
Proof. destruct f; cbn [vis]; [constructor|apply NoDup_nodup]. Qed.

(* packaged for layer 2: R := the reached inner nodes *)
Definition Rset (o : nat) : list nat := inner (vis (S (List.length g)) o).
Definition c0 (o p : nat) : nat := cntof (count_entries g inputs o m) p.

Theorem counts_ok o p : o < S (List.length g) ->
  c0 o p >= m * (ind p o + S_ (Rset o) p) /\
  NoDup (Rset o) /\
  (forall x q, In x (Rset o) -> In q (parents g x) -> In q (Rset o) \/ isin q = true) /\
  (forall x, In x (Rset o) -> isin x = false).
Proof.
  intros Ho. unfold c0, count_entries, Rset. fold (W (S (List.length g)) o p). split; [apply W_budget; exact Ho|].
  split; [unfold inner; apply NoDup_filter, vis_nodup|]. split.
  - intros x q Hx Hq. unfold inner in *. apply filter_In in Hx as [Hx Hb]. apply negb_true_iff in Hb.
    destruct (isin q) eqn:Eq; [right; reflexivity|left].
    apply filter_In. split; [|rewrite Eq; reflexivity]. apply (vis_closed _ o x q Ho Hx Hb Hq).
  - intros x Hx. unfold inner in Hx. apply filter_In in Hx as [_ Hb]. apply negb_true_iff in Hb. exact Hb.
Qed.
End Counts.

