(* Layer 3 of the chain: the generator-level specification (L2.spq: run the regenerated generators of every edge,
   answering each request by the specification of the requested node, every cache lookup a miss) agrees with the
   plain recursive semantics [HashSound.sem] (hash and value of a node from the hashes and values of its
   parents).  Together with HashSound.hash_sound this gives C05 for the generator-level spec, and the
   hypothesis GOK of L2 for cache edges (C04). *)
From Connectome Require Import Values Attrs VM Edges EdgesGen Evaluator L2 HashSound.
Local Open Scope list_scope.

Section SpecEq.
Variable g : graph.
Variable apply : string -> list val -> list (string * val) -> val.
Variable raises : string -> list val -> list (string * val) -> bool.
Variable ins : list (nat * val).

Notation SQ := (spq (shape g) (gens_of g) apply raises ins).
Notation SP F := (spnode (gens_of g) ins (SQ F)).
Definition SpecG (w : which) (n : nat) (x : sval) : Prop := exists F, SP F w n = Some x.

Lemma SP_mono F F' w n x : F <= F' -> SP F w n = Some x -> SP F' w n = Some x.
Proof. intros Hle. apply spnode_mono. apply spq_mono. exact Hle. Qed.
Lemma SQ_mono F F' w n r x : F <= F' -> SQ F w n r = Some x -> SQ F' w n r = Some x.
Proof. intros Hle. apply (spq_mono (shape g) (gens_of g) apply raises ins F F' Hle). Qed.

Lemma geval_up F F' w n gn x : F <= F' -> geval (SQ F) w n gn = Some x -> geval (SQ F') w n gn = Some x.
Proof. intros Hle. apply geval_mono. apply spq_mono. exact Hle. Qed.

Lemma shape_parents n e ps : nth n g Leaf = Inner e ps -> parents (shape g) n = ps.
Proof.
  intros H. unfold parents, shape.
  pose proof (map_nth (fun d => match d with Leaf => None | Inner _ ps => Some ps end) g Leaf n) as E.
  cbn beta iota in E. rewrite E, H. reflexivity.
Qed.
Lemma gens_of_inner n e ps w : nth n g Leaf = Inner e ps -> gens_of g w n = Some (gen_of w e).
Proof. intros H. unfold gens_of, edge_of. rewrite H. reflexivity. Qed.

Lemma SP_inner F w n e ps : aget ins n = None -> nth n g Leaf = Inner e ps ->
  SP (S F) w n = geval (SQ (S F)) w n (gen_of w e).
Proof. intros Hi Hn. unfold spnode. rewrite Hi, (gens_of_inner n e ps w Hn). reflexivity. Qed.

Lemma SQ_await F w n rs : SQ (S F) w n (RAwait rs) = option_map STup (spmap (SQ F) w n rs).
Proof. reflexivity. Qed.

Lemma SQ_current F n : SQ (S F) WC n RCurrentHash = obind (SP F WH n) (item 0).
Proof. reflexivity. Qed.
Lemma SQ_payload F n : SQ (S F) WC n RPayload = obind (SP F WH n) (item 1).
Proof. reflexivity. Qed.

(* requests for parents *)
Lemma SQ_pv F w n e ps i p x : nth n g Leaf = Inner e ps -> nth_error ps i = Some p ->
  SP F WC p = Some x -> SQ (S F) w n (RParentValue i) = Some x.
Proof. intros Hn Hp Hx. cbn [spq sp1]. rewrite (shape_parents n e ps Hn), Hp. exact Hx. Qed.
Lemma SQ_ph F w n e ps i p h pl : nth n g Leaf = Inner e ps -> nth_error ps i = Some p ->
  SP F WH p = Some (SHashOut h pl) -> SQ (S F) w n (RParentHash i) = Some (SHash h).
Proof. intros Hn Hp Hx. cbn [spq sp1]. rewrite (shape_parents n e ps Hn), Hp. cbn. rewrite Hx. reflexivity. Qed.

(* what is known of the parents of a node: a common fuel at which all their hashes and values are defined *)
Definition parents_at (F : nat) (ps : list nat) (ph : list nhash) (pv : list val) : Prop :=
  List.length ph = List.length ps /\ List.length pv = List.length ps /\
  forall i p, nth_error ps i = Some p ->
    (exists pl, SP F WH p = Some (SHashOut (nth i ph hnone) pl)) /\ SP F WC p = Some (SVal (nth i pv VNone)).

Lemma spmap_seq_gen (mk : nat -> req) (res : nat -> sval) F w n : forall k a,
  (forall i, a <= i < a + k -> SQ F w n (mk i) = Some (res i)) ->
  spmap (SQ F) w n (map mk (seq a k)) = Some (map res (seq a k)).
Proof.
  induction k as [|k IH]; intros a H; cbn; [reflexivity|].
  rewrite (H a) by lia. rewrite (IH (S a)); [reflexivity|]. intros i Hi. apply H. lia.
Qed.

Lemma await_values F w n e ps ph pv : nth n g Leaf = Inner e ps -> parents_at F ps ph pv ->
  SQ (S (S F)) w n (RAwait (map (fun idx => RParentValue idx) (seq 0 (List.length ps)))) = Some (STup (map SVal pv)).
Proof.
  intros Hn (Lh & Lv & Hp). rewrite SQ_await.
  rewrite (spmap_seq_gen (fun idx => RParentValue idx) (fun i => SVal (nth i pv VNone)) (S F) w n (List.length ps) 0).
  - cbn. f_equal. f_equal. rewrite <- Lv. clear. rewrite <- (map_map (fun i => nth i pv VNone) SVal). f_equal.
    induction pv as [|a l IH]; [reflexivity|]. cbn. f_equal. rewrite <- seq_shift, map_map. exact IH.
  - intros i Hi. destruct (nth_error ps i) as [p|] eqn:E; [|apply nth_error_None in E; lia].
    apply (SQ_pv F w n e ps i p _ Hn E). apply (Hp i p E).
Qed.

Lemma await_hashes F w n e ps ph pv : nth n g Leaf = Inner e ps -> parents_at F ps ph pv ->
  SQ (S (S F)) w n (RAwait (map (fun idx => RParentHash idx) (seq 0 (List.length ps)))) = Some (STup (map SHash ph)).
Proof.
  intros Hn (Lh & Lv & Hp). rewrite SQ_await.
  rewrite (spmap_seq_gen (fun idx => RParentHash idx) (fun i => SHash (nth i ph hnone)) (S F) w n (List.length ps) 0).
  - cbn. f_equal. f_equal. rewrite <- Lh. clear. rewrite <- (map_map (fun i => nth i ph hnone) SHash). f_equal.
    induction ph as [|a l IH]; [reflexivity|]. cbn. f_equal. rewrite <- seq_shift, map_map. exact IH.
  - intros i Hi. destruct (nth_error ps i) as [p|] eqn:E; [|apply nth_error_None in E; lia].
    destruct (proj1 (Hp i p E)) as [pl Hpl]. apply (SQ_ph F w n e ps i p _ pl Hn E Hpl).
Qed.

Lemma map_unval_SVal pv : map unval (map SVal pv) = pv.
Proof. induction pv as [|a l IH]; cbn; [reflexivity|f_equal; exact IH]. Qed.
Lemma map_unhash_SHash ph : map unhash (map SHash ph) = ph.
Proof. induction ph as [|a l IH]; cbn; [reflexivity|f_equal; exact IH]. Qed.

(* ---- running the regenerated generators against the specification ---- *)
Lemma geval_relay ans w n gn :
  geval ans w n (relay gn) = option_map (fun r => SHashOut (HLeaf (unval r)) r) (geval ans w n gn).
Proof.
  induction gn as [r|r k IH|e|c key k IH|c key v k IH]; cbn [relay geval]; try reflexivity.
  - destruct (ans w n r); [apply IH|reflexivity].
  - apply IH.
  - exact IH.
Qed.

(* edges whose evaluate() only awaits the parents' values *)
Definition simple (e : edge) : bool :=
  match e with EFunc _ _ _ _ | EConst _ | EIdent | EProduct _ | ECheckIds => true | _ => false end.

Definition arity_ok (e : edge) (ps : list nat) : Prop :=
  edge_arity e = List.length ps /\ match e with EFunc _ ar kw _ => List.length kw <= ar | _ => True end.

Lemma eval_simple F w n e0 e ps ph pv v :
  nth n g Leaf = Inner e0 ps -> parents_at F ps ph pv ->
  simple e = true -> edge_arity e = List.length ps ->
  edge_val apply raises e pv = Some v ->
  geval (SQ (S (S F))) w n (eval_gen e) = Some (SVal v).
Proof.
  intros Hn Hp Hs Har Hv.
  pose proof (await_values F w n e0 ps ph pv Hn Hp) as Haw.
  destruct Hp as (Lh & Lv & Hp).
  destruct e as [fn ar kw sil|c| |k|c| |inner|inner|t k|]; try discriminate; cbn in Har; cbn [edge_val] in Hv.
  - (* FunctionEdge.evaluate *)
    unfold eval_gen, eval_gen_aux, FunctionEdge_evaluate. cbn [self_of static_graph arity kw_names function geval].
    subst ar. rewrite Haw. cbn [untup]. rewrite map_unval_SVal. cbn [geval].
    change (SQ (S (S F)) w n (RCall fn ?a ?k)) with (if raises fn a k then None else Some (SVal (apply fn a k))).
    destruct (raises fn _ _); [discriminate|]. injection Hv as <-. reflexivity.
  - injection Hv as <-. unfold eval_gen, eval_gen_aux, StaticEdge_evaluate. cbn [self_of arity geval evaluate_of].
    rewrite <- Har in Haw. rewrite Haw. reflexivity.
  - injection Hv as <-. unfold eval_gen, eval_gen_aux, StaticEdge_evaluate.
    cbn [self_of static_graph with_arity attrs0 arity geval evaluate_of].
    rewrite <- Har in Haw. rewrite Haw. cbn [untup]. unfold IdentityEdge_evaluate. cbn [geval].
    destruct pv as [|a l]; [cbn in Lv; lia|]. reflexivity.
  - injection Hv as <-. unfold eval_gen, eval_gen_aux, StaticEdge_evaluate.
    cbn [self_of static_graph with_arity attrs0 arity geval evaluate_of].
    rewrite Har, Haw. cbn [untup]. unfold ProductEdge_evaluate. cbn [geval]. rewrite map_unval_SVal. reflexivity.
  - unfold eval_gen, eval_gen_aux, StaticEdge_evaluate.
    cbn [self_of static_graph with_arity attrs0 arity geval evaluate_of].
    rewrite <- Har in Haw. rewrite Haw. cbn [untup]. unfold CheckIdsEdge_evaluate.
    destruct pv as [|a [|b l]]; try (cbn in Lv; lia). cbn [map nth unval] in *.
    destruct (val_in a b); [|discriminate]. injection Hv as <-. reflexivity.
Qed.

Definition edge_payload (e : edge) (pv : list val) (v : val) : sval :=
  match e with
  | EBarrier | EByValue _ | EImpure _ => SVal v
  | ESwitch t _ => match lookup t (nth 0 pv VNone) with Some i => SVal (VNat i) | None => SNoneS end
  | _ => SNoneS
  end.

Definition static_hash (e : edge) : bool :=
  match e with EFunc _ _ _ _ | EConst _ | EIdent | EProduct _ | ECache _ | ECheckIds => true | _ => false end.

Lemma hash_static F w n e0 e ps ph pv v :
  nth n g Leaf = Inner e0 ps -> parents_at F ps ph pv ->
  static_hash e = true -> edge_arity e = List.length ps ->
  geval (SQ (S (S F))) w n (hash_gen e) = Some (SHashOut (edge_hash e ph pv v) SNoneS).
Proof.
  intros Hn Hp Hs Har.
  pose proof (await_hashes F w n e0 ps ph pv Hn Hp) as Haw. rewrite <- Har in Haw.
  destruct e as [fn ar kw sil|c| |k|c| |inner|inner|t k|]; try discriminate; cbn in Har;
    unfold hash_gen, StaticHash_compute_hash;
    cbn [self_of static_graph with_arity attrs0 arity geval compute_hash_of edge_arity] in *;
    rewrite Haw; cbn [untup geval]; rewrite map_unhash_SHash; reflexivity.
Qed.

(* the two generators of a node, given the specification of its parents *)
Lemma node_spec F n e ps ph pv v :
  aget ins n = None -> nth n g Leaf = Inner e ps -> parents_at F ps ph pv ->
  arity_ok e ps ->
  (match e with ESwitch t _ => forallb (fun kv : val * nat => snd kv + 1 <? List.length ps) t = true | _ => True end) ->
  (match e with EByValue i | EImpure i => simple i = true | _ => True end) ->
  edge_val apply raises e pv = Some v ->
  SP (S (S (S F))) WH n = Some (SHashOut (edge_hash e ph pv v) (edge_payload e pv v)) /\
  SP (S (S (S (S (S F))))) WC n = Some (SVal v).
Proof.
  intros Hi Hn Hp [Har Hkw] Hok Hinner Hv.
  assert (HH : SP (S (S (S F))) WH n = Some (SHashOut (edge_hash e ph pv v) (edge_payload e pv v))).
  { rewrite (SP_inner _ WH n e ps Hi Hn). cbn [gen_of].
    destruct (static_hash e) eqn:Est.
    - assert (edge_payload e pv v = SNoneS) as -> by (destruct e; try discriminate; reflexivity).
      apply (geval_up (S (S F)) (S (S (S F)))); [lia|].
      apply (hash_static F WH n e e ps ph pv v Hn Hp Est Har).
    - destruct Hp as (Lh & Lv & Hp).
      destruct e as [fn ar kw sil|c| |k|c| |inner|inner|t k|]; try discriminate; cbn [edge_hash edge_payload].
      + (* HashBarrier.compute_hash *)
        cbn in Har. cbn [edge_val] in Hv. injection Hv as <-.
        destruct ps as [|p [|? ?]]; try discriminate. destruct (Hp 0 p eq_refl) as [_ Hpv].
        unfold hash_gen, HashBarrier_compute_hash. cbn [geval].
        rewrite (SQ_pv (S (S F)) WH n EBarrier [p] 0 p _ Hn eq_refl (SP_mono F (S (S F)) _ _ _ ltac:(lia) Hpv)).
        cbn [geval unval unhash]. reflexivity.
      + (* ComputableHashBase.compute_hash of a hash-by-value edge *)
        unfold hash_gen, ComputableHashBase_compute_hash. cbn [self_of edge_evaluate]. rewrite geval_relay.
        fold (eval_gen inner).
        rewrite (geval_up (S (S F)) (S (S (S F))) _ _ _ _ ltac:(lia)
                   (eval_simple F WH n (EByValue inner) inner ps ph pv v Hn (conj Lh (conj Lv Hp)) Hinner Har Hv)).
        reflexivity.
      + unfold hash_gen, ComputableHashBase_compute_hash. cbn [self_of edge_evaluate]. rewrite geval_relay.
        fold (eval_gen inner).
        rewrite (geval_up (S (S F)) (S (S (S F))) _ _ _ _ ltac:(lia)
                   (eval_simple F WH n (EImpure inner) inner ps ph pv v Hn (conj Lh (conj Lv Hp)) Hinner Har Hv)).
        reflexivity.
      + (* SwitchEdge.compute_hash *)
        cbn in Har. cbn [edge_val] in Hv. pose proof Hok as Hrange.
        destruct (lookup t (nth 0 pv VNone)) as [idx|] eqn:El; [|discriminate]. injection Hv as <-.
        pose proof (lookup_range _ _ _ _ Hrange El) as Hidx.
        destruct (nth_error ps 0) as [p0|] eqn:E0; [|apply nth_error_None in E0; lia].
        destruct (nth_error ps (idx + 1)) as [pi|] eqn:Ei; [|apply nth_error_None in Ei; lia].
        destruct (Hp 0 p0 E0) as [_ Hpv0]. destruct (Hp (idx + 1) pi Ei) as [[pl Hph] _].
        unfold hash_gen, SwitchEdge_compute_hash. cbn [self_of id_to_index geval].
        rewrite (SQ_pv (S (S F)) WH n _ ps 0 p0 _ Hn E0 (SP_mono F (S (S F)) _ _ _ ltac:(lia) Hpv0)).
        cbn [unval]. rewrite El. cbn [geval unnat].
        rewrite (SQ_ph (S (S F)) WH n _ ps (idx + 1) pi _ pl Hn Ei (SP_mono F (S (S F)) _ _ _ ltac:(lia) Hph)).
        reflexivity. }
  split; [exact HH|].
  rewrite (SP_inner _ WC n e ps Hi Hn). cbn [gen_of].
  destruct (simple e) eqn:Esim.
  - apply (geval_up (S (S F)) (S (S (S (S (S F)))))); [lia|].
    apply (eval_simple F WC n e e ps ph pv v Hn Hp Esim Har Hv).
  - assert (Hcur : SQ (S (S (S (S (S F))))) WC n RCurrentHash = Some (SHash (edge_hash e ph pv v))).
    { rewrite SQ_current, (SP_mono (S (S (S F))) (S (S (S (S F)))) _ _ _ ltac:(lia) HH). reflexivity. }
    assert (Hpay : SQ (S (S (S (S (S F))))) WC n RPayload = Some (edge_payload e pv v)).
    { rewrite SQ_payload, (SP_mono (S (S (S F))) (S (S (S (S F)))) _ _ _ ltac:(lia) HH). reflexivity. }
    destruct Hp as (Lh & Lv & Hp).
    destruct e as [fn ar kw sil|c| |k|c| |inner|inner|t k|]; try discriminate; cbn [edge_payload] in Hpay.
    + (* CacheEdge.evaluate: the specification reads every lookup as a miss *)
      cbn in Har. cbn [edge_val] in Hv. injection Hv as <-.
      destruct ps as [|p [|? ?]]; try discriminate. destruct (Hp 0 p eq_refl) as [_ Hpv].
      unfold eval_gen, eval_gen_aux, CacheEdge_evaluate. cbn [geval]. rewrite Hcur. cbn [geval].
      rewrite (SQ_pv (S (S (S (S F)))) WC n _ [p] 0 p _ Hn eq_refl (SP_mono F (S (S (S (S F)))) _ _ _ ltac:(lia) Hpv)).
      reflexivity.
    + unfold eval_gen, eval_gen_aux, HashBarrier_evaluate. cbn [geval]. rewrite Hpay. reflexivity.
    + unfold eval_gen, eval_gen_aux, ComputableHashBase_evaluate. cbn [geval]. rewrite Hpay. reflexivity.
    + unfold eval_gen, eval_gen_aux, ComputableHashBase_evaluate. cbn [geval]. rewrite Hpay. reflexivity.
    + (* SwitchEdge.evaluate *)
      cbn in Har. cbn [edge_val] in Hv. pose proof Hok as Hrange.
      destruct (lookup t (nth 0 pv VNone)) as [idx|] eqn:El; [|discriminate]. injection Hv as <-.
      pose proof (lookup_range _ _ _ _ Hrange El) as Hidx.
      destruct (nth_error ps (idx + 1)) as [pi|] eqn:Ei; [|apply nth_error_None in Ei; lia].
      destruct (Hp (idx + 1) pi Ei) as [_ Hpv].
      unfold eval_gen, eval_gen_aux, SwitchEdge_evaluate. cbn [geval]. rewrite Hpay. cbn [geval unnat].
      rewrite (SQ_pv (S (S (S (S F)))) WC n _ ps (idx + 1) pi _ Hn Ei (SP_mono F (S (S (S (S F)))) _ _ _ ltac:(lia) Hpv)).
      reflexivity.
Qed.

(* ---- the whole graph ---- *)
Definition node_ok (e : edge) (ps : list nat) : Prop :=
  arity_ok e ps /\
  (match e with ESwitch t _ => forallb (fun kv : val * nat => snd kv + 1 <? List.length ps) t = true | _ => True end) /\
  (match e with EByValue i | EImpure i => simple i = true | _ => True end).
Hypothesis graph_ok : forall n e ps, nth n g Leaf = Inner e ps -> node_ok e ps.

Lemma parents_common : forall ps ph pv,
  List.length ph = List.length ps -> List.length pv = List.length ps ->
  (forall i p, nth_error ps i = Some p ->
     exists pl, SpecG WH p (SHashOut (nth i ph hnone) pl) /\ SpecG WC p (SVal (nth i pv VNone))) ->
  exists F, parents_at F ps ph pv.
Proof.
  induction ps as [|p ps IH]; intros ph pv Lh Lv H.
  - exists 0. split; [exact Lh|]. split; [exact Lv|]. intros i q Hq. destruct i; discriminate.
  - destruct ph as [|h ph]; [discriminate|]. destruct pv as [|v pv]; [discriminate|].
    destruct (IH ph pv) as [F1 (L1 & L2 & H1)]; [cbn in Lh; lia|cbn in Lv; lia| |].
    { intros i q Hq. apply (H (S i) q Hq). }
    destruct (H 0 p eq_refl) as (pl & [Fh Hh] & [Fv Hv]).
    exists (max F1 (max Fh Fv)). split; [exact Lh|]. split; [exact Lv|]. intros i q Hq.
    destruct i as [|i]; cbn in Hq.
    + injection Hq as <-. split.
      * exists pl. apply (SP_mono Fh); [lia|exact Hh].
      * apply (SP_mono Fv); [lia|exact Hv].
    + split.
      * destruct (proj1 (H1 i q Hq)) as [pl' Hpl]. exists pl'. apply (SP_mono F1); [lia|exact Hpl].
      * apply (SP_mono F1); [lia|]. apply (H1 i q Hq).
Qed.

Theorem sem_spec : forall f n h v, sem apply raises g ins f n = Some (h, v) ->
  exists pl, SpecG WH n (SHashOut h pl) /\ SpecG WC n (SVal v).
Proof.
  induction f as [|f IH]; intros n h v H; [discriminate|]. cbn [sem] in H.
  destruct (aget ins n) as [vi|] eqn:Hi.
  { injection H as <- <-. exists SNoneS. split; exists 0; unfold spnode; rewrite Hi; reflexivity. }
  destruct (nth n g Leaf) as [|e ps] eqn:En; [discriminate|].
  set (rs := map (sem apply raises g ins f) ps) in *.
  destruct (forallb _ rs) eqn:Hall; [|discriminate].
  set (ph := map (fun r => match r with Some (h, _) => h | None => hnone end) rs) in *.
  set (pv := map (fun r => match r with Some (_, v) => v | None => VNone end) rs) in *.
  destruct (edge_val apply raises e pv) as [v0|] eqn:Ev; [|discriminate]. injection H as <- <-.
  destruct (graph_ok n e ps En) as (Har & Hsw & Hin).
  destruct (parents_common ps ph pv) as [F HF].
  - subst ph rs. rewrite !map_length. reflexivity.
  - subst pv rs. rewrite !map_length. reflexivity.
  - intros i p Hp.
    assert (Hs : exists hp vp, sem apply raises g ins f p = Some (hp, vp) /\ nth i ph hnone = hp /\ nth i pv VNone = vp).
    { subst ph pv rs. clear - Hp Hall. revert i Hp. induction ps as [|q ps IHp]; intros i Hp; [destruct i; discriminate|].
      cbn in Hall. destruct (sem apply raises g ins f q) as [[hq vq]|] eqn:Eq; [|discriminate]. cbn in Hall.
      destruct i as [|i]; cbn in Hp.
      - injection Hp as <-. exists hq, vq. split; [exact Eq|]. cbn [map nth]. rewrite Eq. auto.
      - destruct (IHp Hall i Hp) as (hp & vp & A & B & C). exists hp, vp. split; [exact A|]. cbn [map nth]. auto. }
    destruct Hs as (hp & vp & Hsem & -> & ->). apply (IH p hp vp Hsem).
  - destruct (node_spec F n e ps ph pv v0 Hi En HF Har Hsw Hin Ev) as [A B].
    exists (edge_payload e pv v0). split; eexists; eassumption.
Qed.
End SpecEq.
