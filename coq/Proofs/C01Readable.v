(* C01 in its readable form: the value of [HashSound.sem] -- evaluate the user functions recursively in dependency
   order, positional arguments first, keyword arguments split from the right, tuples in request order -- is what
   Graph.__call__ returns. *)
From Connectome Require Import Values Attrs VM Edges Evaluator L2 HashSound SpecEq C01Inst.
Local Open Scope list_scope.

Theorem composes_cachefree :
  forall (g : graph) apply raises ins (cstore : Type) cget cset interfere o F h v (σ : cstore),
  wf g -> no_cache g -> (forall n e ps, nth n g Leaf = Inner e ps -> node_ok e ps) -> o <= List.length g ->
  sem apply raises g ins F o = Some (h, v) ->
  exists k s', forall k', k <= k' ->
    call (shape g) (gens_of g) apply raises cstore cget cset interfere ins o σ k' = Finished cstore (SVal v) s'.
Proof.
  intros g apply raises ins cstore cget cset interfere o F h v σ Hwf Hnc Hok Ho Hsem.
  destruct (sem_spec g apply raises ins Hok _ _ _ _ Hsem) as (pl & _ & [Fv Hv]).
  apply (refines_cachefree g apply raises ins cstore cget cset interfere o Fv (SVal v) σ Hwf Hnc Ho Hv).
Qed.

(* the equations of [sem] per edge kind, as the property text states them *)
Lemma sem_func apply raises f ar kw sil pv :
  edge_val apply raises (EFunc f ar kw sil) pv =
  let npos := List.length pv - List.length kw in
  let args := if nonempty kw then firstn npos pv else pv in
  let kwargs := if nonempty kw then zip kw (skipn npos pv) else [] in
  if raises f args kwargs then None else Some (apply f args kwargs).
Proof. reflexivity. Qed.
Lemma sem_product apply raises k pv : edge_val apply raises (EProduct k) pv = Some (VTuple pv).
Proof. reflexivity. Qed.
Lemma sem_transparent apply raises c pv :
  edge_val apply raises EIdent pv = Some (nth 0 pv VNone) /\ edge_val apply raises (ECache c) pv = Some (nth 0 pv VNone)
  /\ edge_val apply raises EBarrier pv = Some (nth 0 pv VNone).
Proof. repeat split. Qed.
Lemma sem_wrappers apply raises i pv :
  edge_val apply raises (EByValue i) pv = edge_val apply raises i pv /\ edge_val apply raises (EImpure i) pv = edge_val apply raises i pv.
Proof. split; reflexivity. Qed.
