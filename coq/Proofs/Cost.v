(* C20: cost of the graph traversals.  A traversal that remembers visited nodes (the regenerated shape `Memo` of
   validate_graph, count_entries, hash_graph, find_dependencies, detect_cycles, _detect_impure, to_edges) calls its
   visitor at most 1 + |E| times; one that does not (`PerPath`, the pinned validate_graph / count_entries /
   _detect_impure) calls it once per path, which is exponential on stacked diamonds (finding F4a). *)
From Connectome Require Import Values VM GraphGen TravGen.
Local Open Scope list_scope.

Lemma lsum_cons x l : list_sum (x :: l) = x + list_sum l. Proof. reflexivity. Qed.

Lemma NoDup_app_intro {A} (a b : list A) : NoDup a -> NoDup b -> (forall x, In x a -> In x b -> False) -> NoDup (a ++ b).
Proof.
  induction a as [|x a IH]; intros Ha Hb H; cbn; [exact Hb|]. inversion Ha as [|? ? Hx Ha']; subst. constructor.
  - intros Hin. apply in_app_or in Hin as [Hin|Hin]; [exact (Hx Hin)|]. apply (H x); [left; reflexivity|exact Hin].
  - apply IH; auto. intros y Hy. apply H. right. exact Hy.
Qed.

Section Trav.
Variable g : pgraph.

(* memoised DFS: returns the visited set and the number of visitor calls *)
Fixpoint dfs_memo (fuel : nat) (n : nat) (vis : list nat) : list nat * nat :=
  match fuel with
  | 0 => (vis, 1)
  | S f =>
    if existsb (Nat.eqb n) vis then (vis, 1)
    else fold_left (fun acc p => let (v, c) := dfs_memo f p (fst acc) in (v, snd acc + c)) (parents g n) (n :: vis, 1)
  end.

(* per-path DFS: number of visitor calls *)
Fixpoint dfs_paths (fuel : nat) (n : nat) : nat :=
  match fuel with
  | 0 => 1
  | S f => 1 + list_sum (map (dfs_paths f) (parents g n))
  end.

Definition edges_of (ns : list nat) : nat := list_sum (map (fun n => List.length (parents g n)) ns).

(* invariant: calls so far <= 1 + edges of the nodes newly put into the visited set *)
Lemma dfs_memo_bound : forall fuel n vis,
  let (vis', c) := dfs_memo fuel n vis in
  exists new, vis' = new ++ vis /\ c <= 1 + edges_of new /\ NoDup new /\ (forall x, In x new -> ~ In x vis).
Proof.
  induction fuel as [|f IH]; intros n vis; cbn [dfs_memo].
  - exists []. repeat split; cbn; auto; try lia; constructor.
  - destruct (existsb (Nat.eqb n) vis) eqn:E.
    + exists []. repeat split; cbn; auto; try lia; constructor.
    + assert (Hn : ~ In n vis).
      { intros Hin. assert (existsb (Nat.eqb n) vis = true) by (apply existsb_exists; exists n; split; [exact Hin|apply Nat.eqb_refl]). congruence. }
      (* fold over the parents, generalised *)
      assert (Hfold : forall ps new0 c0, NoDup new0 -> (forall x, In x new0 -> ~ In x vis) ->
                let (v, c) := fold_left (fun acc p => let (v, c) := dfs_memo f p (fst acc) in (v, snd acc + c)) ps (new0 ++ vis, c0) in
                exists new, v = new ++ vis /\ c <= c0 + List.length ps + (edges_of new - edges_of new0) /\ NoDup new /\
                            (forall x, In x new -> ~ In x vis) /\ (exists extra, new = extra ++ new0)).
      { induction ps as [|p ps IHp]; intros new0 c0 Hnd Hdis; cbn [fold_left].
        - exists new0. repeat split; auto; try lia. exists []. reflexivity.
        - cbn [fst snd]. specialize (IH p (new0 ++ vis)). destruct (dfs_memo f p (new0 ++ vis)) as [v1 c1].
          destruct IH as (new1 & -> & Hc1 & Hnd1 & Hdis1).
          rewrite app_assoc. specialize (IHp (new1 ++ new0) (c0 + c1)).
          destruct (fold_left _ ps ((new1 ++ new0) ++ vis, c0 + c1)) as [v c].
          destruct IHp as (new & -> & Hc & Hnd' & Hdis' & (extra & ->)).
          { apply NoDup_app_intro; auto. intros x H1 H0. apply (Hdis1 x H1). apply in_or_app. left. exact H0. }
          { intros x Hx. apply in_app_or in Hx as [Hx|Hx]; [|apply Hdis; exact Hx]. intros Hv. apply (Hdis1 x Hx). apply in_or_app. right. exact Hv. }
          exists (extra ++ new1 ++ new0). repeat split; auto.
          + unfold edges_of in *. rewrite !map_app, !list_sum_app in *. cbn [List.length]. lia.
          + exists (extra ++ new1). rewrite app_assoc. reflexivity. }
      specialize (Hfold (parents g n) [n] 1).
      change (n :: vis) with ([n] ++ vis).
      destruct (fold_left _ (parents g n) ([n] ++ vis, 1)) as [v c].
      destruct Hfold as (new & -> & Hc & Hnd & Hdis & (extra & ->)).
      { constructor; [intros []|constructor]. }
      { intros x [<-|[]]. exact Hn. }
      exists (extra ++ [n]). repeat split; auto.
      unfold edges_of in *. rewrite !map_app, !list_sum_app in *. cbn in *. lia.
Qed.

Definition total_edges : nat := list_sum (map (fun d : option (list nat) => match d with Some ps => List.length ps | None => 0 end) g).

Lemma parents_len_nth n : List.length (parents g n) = match nth n g None with Some ps => List.length ps | None => 0 end.
Proof. unfold parents. destruct (nth n g None); reflexivity. Qed.

Lemma total_edges_seq : total_edges = list_sum (map (fun n => List.length (parents g n)) (seq 0 (List.length g))).
Proof.
  unfold total_edges.
  assert (H : forall (l : list (option (list nat))) k,
             list_sum (map (fun d : option (list nat) => match d with Some ps => List.length ps | None => 0 end) l)
             = list_sum (map (fun n => match nth (n - k) l None with Some ps => List.length ps | None => 0 end) (seq k (List.length l)))).
  { induction l as [|d l IH]; intros k; cbn [List.length seq map]; [reflexivity|].
    rewrite !lsum_cons, Nat.sub_diag. cbn [nth]. f_equal. rewrite (IH (S k)). f_equal. apply map_ext_in. intros n Hn. apply in_seq in Hn.
    replace (n - k) with (S (n - S k)) by lia. reflexivity. }
  rewrite (H g 0). f_equal. apply map_ext. intros n. rewrite Nat.sub_0_r. symmetry. apply parents_len_nth.
Qed.

Lemma sum_nodup_le (h : nat -> nat) : forall L M, NoDup L -> incl L M -> list_sum (map h L) <= list_sum (map h M).
Proof.
  induction L as [|x L IH]; intros M Hnd Hin; [cbn; lia|].
  inversion Hnd as [|? ? Hx Hnd']; subst.
  assert (Hx' : In x M) by (apply Hin; left; reflexivity).
  destruct (in_split _ _ Hx') as (M1 & M2 & ->).
  assert (Hin' : incl L (M1 ++ M2)).
  { intros y Hy. assert (In y (M1 ++ x :: M2)) by (apply Hin; right; exact Hy).
    rewrite in_app_iff in *. cbn in H. destruct H as [H|[H|H]]; auto. subst y. tauto. }
  specialize (IH _ Hnd' Hin'). rewrite !map_app, !list_sum_app in *. cbn [map] in *. rewrite !lsum_cons in *. lia.
Qed.

Lemma edges_of_le new : NoDup new -> edges_of new <= total_edges.
Proof.
  intros Hnd. rewrite total_edges_seq. unfold edges_of.
  set (h := fun n => List.length (parents g n)).
  assert (Hsplit : list_sum (map h new) = list_sum (map h (filter (fun x => Nat.ltb x (List.length g)) new))).
  { clear Hnd. induction new as [|x l IH]; [reflexivity|]. cbn [map filter]. rewrite lsum_cons. destruct (Nat.ltb_spec x (List.length g)).
    - cbn [map]. rewrite lsum_cons. lia.
    - rewrite <- IH. unfold h at 1. unfold parents. rewrite nth_overflow by lia. cbn. lia. }
  rewrite Hsplit. apply sum_nodup_le; [apply NoDup_filter; exact Hnd|].
  intros x Hx. apply filter_In in Hx as [_ Hx]. apply Nat.ltb_lt in Hx. apply in_seq. lia.
Qed.

(* a memoised traversal from any node calls its visitor at most 1 + |E| times *)
Theorem memo_traversal_linear fuel n : snd (dfs_memo fuel n []) <= 1 + total_edges.
Proof.
  pose proof (dfs_memo_bound fuel n []) as H. destruct (dfs_memo fuel n []) as [vis c].
  destruct H as (new & _ & Hc & Hnd & _). cbn. pose proof (edges_of_le new Hnd). lia.
Qed.

(* the Crop pattern: image_i(image_{i-1}, box_i), box_i(image_{i-1}).  A traversal without a visited set doubles per layer. *)
Theorem perpath_exponential (img box : nat -> nat) k :
  (forall i, 1 <= i <= k -> parents g (img i) = [img (i - 1); box i] /\ parents g (box i) = [img (i - 1)]) ->
  forall fuel, 2 * k < fuel -> 2 ^ k <= dfs_paths fuel (img k).
Proof.
  induction k as [|k IH]; intros H fuel Hf.
  - destruct fuel; cbn; lia.
  - destruct fuel as [|[|f]]; try lia.
    destruct (H (S k) ltac:(lia)) as [Hi Hb]. replace (S k - 1) with k in * by lia.
    assert (IH' : forall fu, 2 * k < fu -> 2 ^ k <= dfs_paths fu (img k)).
    { intros fu Hfu. apply IH; [|exact Hfu]. intros i Hi'. apply H. lia. }
    assert (E1 : dfs_paths (S (S f)) (img (S k)) = 1 + (dfs_paths (S f) (img k) + (dfs_paths (S f) (box (S k)) + 0))).
    { change (dfs_paths (S (S f)) (img (S k))) with (1 + list_sum (map (dfs_paths (S f)) (parents g (img (S k))))). rewrite Hi. reflexivity. }
    assert (E2 : dfs_paths (S f) (box (S k)) = 1 + (dfs_paths f (img k) + 0)).
    { change (dfs_paths (S f) (box (S k))) with (1 + list_sum (map (dfs_paths f) (parents g (box (S k))))). rewrite Hb. reflexivity. }
    pose proof (IH' (S f) ltac:(lia)). pose proof (IH' f ltac:(lia)). rewrite E1, E2. cbn [Nat.pow]. lia.
Qed.
End Trav.

(* the concrete family: node 0 is the input, layer i adds box_i = 2i-1 and image_i = 2i *)
Definition diamond (k : nat) : pgraph :=
  None :: flat_map (fun i => [Some [2 * i - 2]; Some [2 * i - 2; 2 * i - 1]]) (seq 1 k).

Example diamond_10 :
  snd (dfs_memo (diamond 10) 30 20 []) = 31 /\ Nat.ltb 3000 (dfs_paths (diamond 10) 30 20) = true /\ total_edges (diamond 10) = 30.
Proof. vm_compute. auto. Qed.

(* F4b: a RAM cache keys by NodeHash.value, a nested tuple that is hashed and compared WITHOUT sharing, i.e. at the
   cost of the tree size of the hash term; on the Crop pattern the tree doubles per layer *)
Fixpoint hsize (h : nhash) : nat :=
  match h with
  | HApply _ args _ | HCustom _ args => 1 + list_sum (map hsize args)
  | HGraph h => 1 + hsize h
  | _ => 1
  end.
Fixpoint crop_hash (k : nat) : nhash :=
  match k with
  | 0 => HLeaf (VStr "id")
  | S k' => HApply "image" [crop_hash k'; HApply "box" [crop_hash k'] []] []
  end.
Lemma crop_hash_exponential k : 2 ^ k <= hsize (crop_hash k).
Proof.
  induction k as [|k IH]; [cbn; lia|].
  change (hsize (crop_hash (S k))) with (1 + (hsize (crop_hash k) + ((1 + (hsize (crop_hash k) + 0)) + 0))). cbn [Nat.pow]. lia.
Qed.
