(* Theorems about the relational model of the dataset-wide layers: SortFacts. *)
From Connectome Require Import Values NameSet RelBase.
From Coq Require Import Sorting.Sorted.
Local Open Scope list_scope.

(* ---------- sorting ---------- *)
Lemma sleb_total a b : sleb a b = false -> sleb b a = true.
Proof.
  unfold sleb. rewrite (String.compare_antisym b a). destruct (String.compare a b); cbn; congruence.
Qed.
Lemma sinsert_in x y l : In y (sinsert x l) <-> y = x \/ In y l.
Proof.
  induction l as [|a l IH]; cbn; [intuition congruence|]. destruct (sleb x a); cbn; [intuition congruence|]. rewrite IH. intuition congruence.
Qed.
Lemma ssort_in y l : In y (ssort l) <-> In y l.
Proof. induction l as [|a l IH]; [cbn; tauto|]. change (ssort (a :: l)) with (sinsert a (ssort l)). rewrite sinsert_in, IH. cbn. intuition congruence. Qed.
Lemma sinsert_length x l : List.length (sinsert x l) = S (List.length l).
Proof. induction l as [|a l IH]; cbn; [reflexivity|]. destruct (sleb x a); cbn; congruence. Qed.
Lemma ssort_length l : List.length (ssort l) = List.length l.
Proof. induction l as [|a l IH]; [reflexivity|]. change (ssort (a :: l)) with (sinsert a (ssort l)). rewrite sinsert_length, IH. reflexivity. Qed.

Definition sle (a b : string) : Prop := sleb a b = true.
Lemma sinsert_sorted x l : Sorted sle l -> Sorted sle (sinsert x l).
Proof.
  induction 1 as [|a l Hs IH Hd]; cbn; [repeat constructor|].
  destruct (sleb x a) eqn:E.
  - constructor; [constructor; assumption|constructor; exact E].
  - constructor; [exact IH|]. destruct l as [|b l]; cbn.
    + constructor. apply sleb_total. exact E.
    + destruct (sleb x b); constructor; [apply sleb_total; exact E|]. inversion Hd; assumption.
Qed.
Lemma ssort_sorted l : Sorted sle (ssort l).
Proof. induction l as [|a l IH]; [constructor|]. change (ssort (a :: l)) with (sinsert a (ssort l)). apply sinsert_sorted; exact IH. Qed.

Lemma snodup_in y l : In y (snodup l) <-> In y l.
Proof.
  induction l as [|a l IH]; cbn; [tauto|]. destruct (lmem a l) eqn:E; cbn; rewrite IH; [|tauto].
  apply lmem_In in E. split; [tauto|]. intros [<-|H]; auto.
Qed.
Lemma snodup_nodup l : NoDup (snodup l).
Proof.
  induction l as [|a l IH]; cbn; [constructor|]. destruct (lmem a l) eqn:E; [exact IH|].
  constructor; [|exact IH]. rewrite snodup_in. apply lmem_false. exact E.
Qed.
Lemma sset_in y l : In y (sset l) <-> In y l.
Proof. unfold sset. rewrite ssort_in, snodup_in. tauto. Qed.

Lemma slookup_in {V} (t : list (string * V)) k v : slookup t k = Some v -> In (k, v) t.
Proof.
  induction t as [|[k' v'] t IH]; cbn; [discriminate|]. destruct (String.eqb_spec k k'); [intros [= <-]; subst; auto|auto].
Qed.
Lemma slookup_none {V} (t : list (string * V)) k : slookup t k = None <-> ~ In k (map fst t).
Proof.
  induction t as [|[k' v'] t IH]; cbn; [tauto|]. destruct (String.eqb_spec k k'); [subst; split; [discriminate|tauto]|].
  rewrite IH. split; [intros H [E|E]; [congruence|tauto]|tauto].
Qed.
Lemma slookup_app {V} (a b : list (string * V)) k :
  slookup (a ++ b) k = match slookup a k with Some v => Some v | None => slookup b k end.
Proof. induction a as [|[k' v'] a IH]; cbn; [reflexivity|]. destruct (String.eqb k k'); [reflexivity|exact IH]. Qed.
Lemma slookup_const (k0 : nat) (ds : list string) i : slookup (map (fun j => (j, k0)) ds) i = if lmem i ds then Some k0 else None.
Proof.
  induction ds as [|a ds IH]; cbn; [reflexivity|]. destruct (String.eqb i a); cbn; [reflexivity|exact IH].
Qed.

