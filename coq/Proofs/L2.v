(* Layer 2 of the C01/C03/C04/C11 refinement: the recursive evaluator (with eviction counters, Store checks, shared
   caches and arbitrary invariant-preserving interference from other threads) computes the pure, cache-free
   specification.  Holds for arbitrary generator trees; the graph only has to be acyclic (parents < child). *)
From Connectome Require Import Values VM Evaluator EvictLemmas.
Local Open Scope list_scope.

Section L2.
Variable g : pgraph.
Variable gens : which -> nat -> option gen.       (* the two generators of every inner node *)
Variable apply : string -> list val -> list (string * val) -> val.
Variable raises : string -> list val -> list (string * val) -> bool.
Variable ins : list (nat * val).
(* the shared caches, abstractly: any store whose entries are Good and stay Good under Good writes *)
Variable cstore : Type.
Variable cget : cstore -> nat -> sval -> option sval * cstore.
Variable cset : cstore -> nat -> sval -> sval -> cstore.
Variable Good : nat -> sval -> sval -> Prop.
Variable CInv : cstore -> Prop.
Hypothesis cinv_get : forall st c k r st', CInv st -> cget st c k = (r, st') ->
  CInv st' /\ (forall v, r = Some v -> Good c k v).
Hypothesis cinv_set : forall st c k v, CInv st -> Good c k v -> CInv (cset st c k v).
(* other threads: before every cache access of this call the store may have been changed arbitrarily,
   as long as the invariant is kept *)
Variable interfere : cstore -> cstore.
Hypothesis interfere_inv : forall st, CInv st -> CInv (interfere st).

Notation rst := (rst cstore).
Notation res := (res cstore).
Notation drive := (drive cstore cget cset interfere).
Notation node := (node g gens cstore cget cset interfere).
Notation tuple := (tuple cstore).
Notation handle1 := (handle1 g gens apply raises cstore cget cset interfere).
Notation ev := (ev g gens apply raises cstore cget cset interfere).

(* ================= pure spec ================= *)
Definition obind {A B} (o : option A) (f : A -> option B) : option B := match o with Some a => f a | None => None end.

Section SpWith.
Variable ans : which -> nat -> req -> option sval.
Fixpoint geval (w : which) (n : nat) (gn : gen) : option sval :=
  match gn with
  | GRet r => Some r
  | GYield r k => match ans w n r with Some x => geval w n (k x) | None => None end
  | GRaise _ => None
  | GGet _ _ k => geval w n (k None)            (* the cache-free reading: every lookup misses *)
  | GSet _ _ _ k => geval w n k
  end.
Definition spnode (w : which) (m : nat) : option sval :=
  match aget ins m with
  | Some v => Some (leafv w v)
  | None => match gens w m with Some e => geval w m e | None => None end
  end.
Fixpoint spmap (w : which) (n : nat) (rs : list req) : option (list sval) :=
  match rs with
  | [] => Some []
  | r :: t => match ans w n r, spmap w n t with Some x, Some xs => Some (x :: xs) | _, _ => None end
  end.
Definition sp1 (w : which) (n : nat) (r : req) : option sval :=
  match r with
  | RParentValue i => obind (nth_error (parents g n) i) (spnode WC)
  | RParentHash i => obind (nth_error (parents g n) i) (fun p => obind (spnode WH p) (item 0))
  | RCurrentHash => match w with WC => obind (spnode WH n) (item 0) | WH => None end
  | RPayload => match w with WC => obind (spnode WH n) (item 1) | WH => None end
  | RAwait rs => option_map STup (spmap w n rs)
  | RCall fn pos kw => if raises fn pos kw then None else Some (SVal (apply fn pos kw))
  end.
End SpWith.
Fixpoint spq (fuel : nat) : which -> nat -> req -> option sval :=
  match fuel with 0 => fun _ _ _ => None | S f => sp1 (spq f) end.

(* ---- monotonicity in fuel ---- *)
Definition ans_le (a b : which -> nat -> req -> option sval) : Prop :=
  forall w n r x, a w n r = Some x -> b w n r = Some x.

Lemma geval_mono a b : ans_le a b -> forall w n gn x, geval a w n gn = Some x -> geval b w n gn = Some x.
Proof.
  intros Hab w n gn. induction gn as [r|r k IH|e|c key k IH|c key v k IH]; cbn; intros x Hx; auto.
  destruct (a w n r) as [y|] eqn:E; [|discriminate]. rewrite (Hab _ _ _ _ E). auto.
Qed.
Lemma spnode_mono a b : ans_le a b -> forall w m x, spnode a w m = Some x -> spnode b w m = Some x.
Proof.
  intros Hab w m x. unfold spnode. destruct (aget ins m); auto. destruct (gens w m); auto.
  apply geval_mono; exact Hab.
Qed.
Lemma spmap_mono a b : ans_le a b -> forall w n rs xs, spmap a w n rs = Some xs -> spmap b w n rs = Some xs.
Proof.
  intros Hab w n rs. induction rs as [|r t IH]; cbn; intros xs Hx; auto.
  destruct (a w n r) as [y|] eqn:E; [|discriminate]. rewrite (Hab _ _ _ _ E).
  destruct (spmap a w n t) as [ys|] eqn:E2; [|discriminate]. rewrite (IH _ eq_refl). exact Hx.
Qed.
Lemma sp1_mono a b : ans_le a b -> ans_le (sp1 a) (sp1 b).
Proof.
  intros Hab w n r x. destruct r as [i|i| | |rs|fn pos kw]; cbn; auto.
  - destruct (nth_error (parents g n) i); cbn; auto.
    destruct (spnode a WH n0) as [y|] eqn:E; cbn; [|discriminate]. rewrite (spnode_mono a b Hab _ _ _ E). auto.
  - destruct (nth_error (parents g n) i); cbn; auto. apply spnode_mono; exact Hab.
  - destruct w; auto. destruct (spnode a WH n) as [y|] eqn:E; cbn; [|discriminate]. rewrite (spnode_mono a b Hab _ _ _ E). auto.
  - destruct w; auto. destruct (spnode a WH n) as [y|] eqn:E; cbn; [|discriminate]. rewrite (spnode_mono a b Hab _ _ _ E). auto.
  - destruct (spmap a w n rs) as [ys|] eqn:E; cbn; [|discriminate]. rewrite (spmap_mono a b Hab _ _ _ _ E). auto.
Qed.
Lemma spq_step f : ans_le (spq f) (spq (S f)).
Proof.
  induction f as [|f IH]; [intros w n r x H; discriminate|].
  change (ans_le (sp1 (spq f)) (sp1 (spq (S f)))). apply sp1_mono. exact IH.
Qed.
Lemma spq_mono f f' : f <= f' -> ans_le (spq f) (spq f').
Proof.
  induction 1 as [|f' _ IH]; [intros w n r x H; exact H|].
  intros w n r x H. apply spq_step. apply IH. exact H.
Qed.

Definition Spec (w : which) (m : nat) (v : sval) : Prop := exists f, spnode (spq f) w m = Some v.
Lemma Spec_det w m v v' : Spec w m v -> Spec w m v' -> v = v'.
Proof.
  intros [f1 H1] [f2 H2].
  pose proof (spnode_mono _ _ (spq_mono f1 (max f1 f2) (Nat.le_max_l _ _)) _ _ _ H1) as A.
  pose proof (spnode_mono _ _ (spq_mono f2 (max f1 f2) (Nat.le_max_r _ _)) _ _ _ H2) as B.
  congruence.
Qed.

(* ================= the budget `need` ================= *)
Variable R : list nat.      (* inner nodes reachable from the output, inputs excluded *)
Hypothesis R_nodup : NoDup R.

Definition isdone (D : list gid) (x : gid) : bool := existsb (gid_eqb x) D.
Definition term (D : list gid) (p : nat) (x : gid) : nat := if isdone D x then 0 else occl (parents g (snd x)) p.
Definition needL (L : list nat) (D : list gid) (p : nat) : nat :=
  list_sum (map (fun m => term D p (WH, m) + term D p (WC, m)) L).
Definition need := needL R.

Lemma isdone_cons D x y : isdone (y :: D) x = gid_eqb x y || isdone D x.
Proof. reflexivity. Qed.
Lemma isdone_in D x : isdone D x = true <-> In x D.
Proof.
  unfold isdone. rewrite existsb_exists. split.
  - intros [y [Hy E]]. destruct (gid_eqb_spec x y); [subst; exact Hy|discriminate].
  - intros H. exists x. split; [exact H|]. destruct (gid_eqb_spec x x); congruence.
Qed.
Lemma term_cons_other D p x y : x <> y -> term (y :: D) p x = term D p x.
Proof. intros Hn. unfold term. rewrite isdone_cons. destruct (gid_eqb_spec x y); [congruence|reflexivity]. Qed.
Lemma term_cons_same D p x : term (x :: D) p x = 0.
Proof. unfold term. rewrite isdone_cons. destruct (gid_eqb_spec x x); [reflexivity|congruence]. Qed.
Lemma term_cons_le D p x y : term (y :: D) p x <= term D p x.
Proof. unfold term. rewrite isdone_cons. destruct (gid_eqb x y); cbn; [lia|]. destruct (isdone D x); lia. Qed.

Lemma needL_cons a L D p : needL (a :: L) D p = term D p (WH, a) + term D p (WC, a) + needL L D p.
Proof. reflexivity. Qed.

Lemma needL_notin L D p w m : ~ In m L -> needL L ((w, m) :: D) p = needL L D p.
Proof.
  induction L as [|a L IH]; intros Hn; [reflexivity|].
  rewrite !needL_cons. rewrite IH by (cbn in Hn; tauto).
  rewrite !term_cons_other; [reflexivity| |]; intros [= ]; subst; cbn in Hn; tauto.
Qed.

Lemma needL_complete L D p w m : NoDup L -> In m L -> isdone D (w, m) = false ->
  needL L D p = needL L ((w, m) :: D) p + occl (parents g m) p.
Proof.
  induction L as [|a L IH]; intros Hnd Hin Hd; [destruct Hin|].
  inversion Hnd as [|? ? Hna Hnd']; subst.
  rewrite !needL_cons.
  destruct (Nat.eq_dec a m) as [->|Hne].
  - rewrite needL_notin by exact Hna.
    destruct w.
    + rewrite term_cons_same. rewrite term_cons_other by discriminate.
      unfold term at 1. rewrite Hd. cbn [snd]. lia.
    + rewrite term_cons_same. rewrite term_cons_other by discriminate.
      unfold term at 2. rewrite Hd. cbn [snd]. lia.
  - destruct Hin as [->|Hin]; [congruence|].
    rewrite (IH Hnd' Hin Hd).
    rewrite !term_cons_other; [lia| |]; intros [= ]; congruence.
Qed.

Lemma need_complete D p w m : In m R -> isdone D (w, m) = false ->
  need D p = need ((w, m) :: D) p + occl (parents g m) p.
Proof. apply needL_complete. exact R_nodup. Qed.

Lemma need_ge D p w m : In m R -> isdone D (w, m) = false -> need D p >= occl (parents g m) p.
Proof. intros Hin Hd. rewrite (need_complete D p w m Hin Hd). lia. Qed.


(* ================= invariant and frames ================= *)
Hypothesis wfg : forall n p, In p (parents g n) -> p < n.
Hypothesis R_closed : forall n p, In n R -> In p (parents g n) -> In p R \/ aget ins p <> None.
Hypothesis R_inner : forall n, In n R -> aget ins n = None.

Definition cnt (s : rst) (p : nat) : nat := cntc (rC s) p.

Record Inv (s : rst) : Prop := {
  i_wfh : wfc (rH s);
  i_wfc : wfc (rC s);
  i_eq : forall p, cntc (rH s) p = cntc (rC s) p;
  i_sound : forall w m v, aget (memo (sel w s)) m = Some v -> Spec w m v;
  i_budget : forall p, cnt s p >= need (rdone s) p;
  i_done : forall w m, In (w, m) (rdone s) -> cnt s m >= 1 -> aget (memo (sel w s)) m <> None;
  i_ins : forall w m v, aget ins m = Some v -> cnt s m >= 1 -> aget (memo (sel w s)) m = Some (leafv w v);
  i_cinv : CInv (rstore s);
  i_nodup : NoDup (rdone s)      (* no generator completes twice in one call *)
}.

Definition InProg (s : rst) (w : which) (n : nat) : Prop :=
  In n R /\ isdone (rdone s) (w, n) = false /\ cnt s n >= 1 /\ aget (memo (sel w s)) n = None.

Definition isWC (w : which) : bool := match w with WC => true | WH => false end.

Record Fr (n : nat) (allowH : bool) (s s' : rst) : Prop := {
  f_cnt : forall p, n <= p -> cnt s' p = cnt s p;
  f_incl : forall x, In x (rdone s) -> In x (rdone s');
  f_new : forall w2 m2, In (w2, m2) (rdone s') -> In (w2, m2) (rdone s) \/ m2 < n \/ (allowH = true /\ m2 = n /\ w2 = WH);
  f_memo : forall w2 m2, n < m2 -> aget (memo (sel w2 s')) m2 = aget (memo (sel w2 s)) m2;
  f_self : forall w2, (w2 = WC \/ allowH = false) -> aget (memo (sel w2 s')) n = aget (memo (sel w2 s)) n
}.

Record FrNode (w : which) (m : nat) (s s' : rst) : Prop := {
  n_cnt : forall p, m <= p -> cnt s' p = cnt s p;
  n_incl : forall x, In x (rdone s) -> In x (rdone s');
  n_new : forall w2 m2, In (w2, m2) (rdone s') -> In (w2, m2) (rdone s) \/ m2 < m \/ (m2 = m /\ (w2 = w \/ w2 = WH));
  n_memo : forall w2 m2, m < m2 -> aget (memo (sel w2 s')) m2 = aget (memo (sel w2 s)) m2;
  n_self : w = WH -> aget (memo (sel WC s')) m = aget (memo (sel WC s)) m
}.

Lemma Fr_refl n b s : Fr n b s s.
Proof. constructor; auto. Qed.

Lemma Fr_trans n b s1 s2 s3 : Fr n b s1 s2 -> Fr n b s2 s3 -> Fr n b s1 s3.
Proof.
  intros A B. constructor.
  - intros p Hp. rewrite (f_cnt _ _ _ _ B p Hp). apply (f_cnt _ _ _ _ A p Hp).
  - intros x Hx. apply (f_incl _ _ _ _ B). apply (f_incl _ _ _ _ A). exact Hx.
  - intros w2 m2 H. destruct (f_new _ _ _ _ B w2 m2 H) as [H1|H1]; [|auto].
    apply (f_new _ _ _ _ A w2 m2 H1).
  - intros w2 m2 H. rewrite (f_memo _ _ _ _ B w2 m2 H). apply (f_memo _ _ _ _ A w2 m2 H).
  - intros w2 H. rewrite (f_self _ _ _ _ B w2 H). apply (f_self _ _ _ _ A w2 H).
Qed.

Lemma FrNode_refl w m s : FrNode w m s s.
Proof. constructor; auto. Qed.

Lemma FrNode_below w p n b s s' : p < n -> FrNode w p s s' -> Fr n b s s'.
Proof.
  intros Hlt A. constructor.
  - intros q Hq. apply (n_cnt _ _ _ _ A). lia.
  - apply (n_incl _ _ _ _ A).
  - intros w2 m2 H. destruct (n_new _ _ _ _ A w2 m2 H) as [H1|[H1|[H1 _]]]; [auto|right; left; lia|right; left; lia].
  - intros w2 m2 H. apply (n_memo _ _ _ _ A). lia.
  - intros w2 _. apply (n_memo _ _ _ _ A). lia.
Qed.

Lemma FrNode_self n s s' : FrNode WH n s s' -> Fr n true s s'.
Proof.
  intros A. constructor.
  - apply (n_cnt _ _ _ _ A).
  - apply (n_incl _ _ _ _ A).
  - intros w2 m2 H. destruct (n_new _ _ _ _ A w2 m2 H) as [H1|[H1|[H1 H2]]]; [auto|auto|].
    right; right. destruct H2; subst; auto.
  - apply (n_memo _ _ _ _ A).
  - intros w2 [->|H]; [apply (n_self _ _ _ _ A); reflexivity|discriminate].
Qed.

Lemma isdone_false_notin D x : isdone D x = false <-> ~ In x D.
Proof. rewrite <- isdone_in. destruct (isdone D x); split; intros; try congruence; tauto. Qed.

Lemma InProg_Fr s s' w n : InProg s w n -> Fr n (isWC w) s s' -> InProg s' w n.
Proof.
  intros (HR & Hd & Hc & Hm) A. split; [exact HR|]. split; [|split].
  - apply isdone_false_notin. intros Hin. apply isdone_false_notin in Hd.
    destruct (f_new _ _ _ _ A w n Hin) as [H1|[H1|(Hb & _ & Hw)]]; [tauto|lia|].
    subst w. discriminate.
  - rewrite (f_cnt _ _ _ _ A n (le_n _)). exact Hc.
  - rewrite (f_self _ _ _ _ A w); [exact Hm|]. destruct w; auto.
Qed.

Lemma occl_in ps p : In p ps -> occl ps p >= 1.
Proof. intros H. unfold occl. apply (count_occ_In Nat.eq_dec) in H. lia. Qed.
Lemma occl_notin ps p : ~ In p ps -> occl ps p = 0.
Proof. intros H. unfold occl. apply count_occ_not_In. exact H. Qed.

Lemma cntc_some c p : cntc c p >= 1 -> exists n, aget (counts c) p = Some n.
Proof. unfold cntc. destruct (aget (counts c) p); [eauto|lia]. Qed.


(* ================= what is assumed of generators with cache effects ================= *)
(* along every run consistent with the spec's answers: a hit with a Good value must lead to the same result as a
   miss, and only Good values are written *)
Inductive GOK (f : nat) (w : which) (n : nat) : gen -> Prop :=
| gok_ret r : GOK f w n (GRet r)
| gok_yield r k : (forall x, spq f w n r = Some x -> GOK f w n (k x)) -> GOK f w n (GYield r k)
| gok_raise e : GOK f w n (GRaise e)
| gok_get c key k : GOK f w n (k None) ->
    (forall x, Good c key x -> GOK f w n (k (Some x)) /\
               (forall r, geval (spq f) w n (k None) = Some r -> geval (spq f) w n (k (Some x)) = Some r)) ->
    GOK f w n (GGet c key k)
| gok_set c key v k : Good c key v -> GOK f w n k -> GOK f w n (GSet c key v k).
Hypothesis gens_ok : forall f w n e, gens w n = Some e -> GOK f w n e.

(* ================= the main induction ================= *)
Definition P_req (f : nat) : Prop :=
  forall w n r s x, spq f w n r = Some x -> Inv s -> InProg s w n ->
  exists s', ev f n r s = ROk x s' /\ Inv s' /\ Fr n (isWC w) s s'.

Lemma spmap_app a w n l1 : forall l2 ys, spmap a w n (l1 ++ l2) = Some ys ->
  exists y1 y2, spmap a w n l1 = Some y1 /\ spmap a w n l2 = Some y2 /\ ys = y1 ++ y2.
Proof.
  induction l1 as [|r l1 IH]; cbn; intros l2 ys H.
  - exists [], ys. auto.
  - destruct (a w n r) as [x|]; [|discriminate].
    destruct (spmap a w n (l1 ++ l2)) as [zs|] eqn:E; [|discriminate]. injection H as <-.
    destruct (IH _ _ E) as (y1 & y2 & -> & H2 & ->). exists (x :: y1), y2. auto.
Qed.

Lemma store_ok w key top (s : rst) : aget (memo (sel w s)) key = None -> cntc (sel w s) key >= 1 ->
  exists s2, store w key top s = Some s2 /\ rdone s2 = (w, key) :: rdone s /\
    counts (rH s2) = counts (rH s) /\ counts (rC s2) = counts (rC s) /\ rstore s2 = rstore s /\
    (forall w2 m2, aget (memo (sel w2 s2)) m2 =
       if which_eqb w2 w && Nat.eqb m2 key then Some top else aget (memo (sel w2 s)) m2).
Proof.
  intros Hm Hc. unfold store. rewrite Hm. destruct (cntc_some _ _ Hc) as [c ->].
  destruct w; eexists; (split; [reflexivity|]); cbn; repeat split; auto;
    intros w2 m2; destruct w2; cbn; auto; rewrite (Nat.eqb_sym m2 key); reflexivity.
Qed.

Lemma cntc_counts c c' p : counts c = counts c' -> cntc c p = cntc c' p.
Proof. unfold cntc. intros ->. reflexivity. Qed.
Lemma wfc_counts c c' : counts c = counts c' -> wfc c' -> wfc c.
Proof. unfold wfc. intros ->. auto. Qed.

Section Step.
Variable f : nat.
Hypothesis IHf : P_req f.

Lemma Inv_with_store s st : Inv s -> CInv st -> Inv (with_store s st).
Proof. intros [] Hc. constructor; unfold sel, cnt in *; cbn in *; assumption. Qed.
Lemma Fr_with_store n b s st : Fr n b s (with_store s st).
Proof. constructor; unfold sel, cnt; cbn; auto. Qed.

Lemma drive_ok w n gn : forall s r, GOK f w n gn -> geval (spq f) w n gn = Some r -> Inv s -> InProg s w n ->
  exists s1, drive (ev f) n gn s = ROk r s1 /\ Inv s1 /\ Fr n (isWC w) s s1.
Proof.
  induction gn as [r0|r0 k IH|e|c key k IH|c key v k IH]; cbn [Evaluator.drive geval]; intros s r Hok Hg Hi Hp.
  - injection Hg as <-. exists s. auto using Fr_refl.
  - destruct (spq f w n r0) as [x|] eqn:E; [|discriminate]. inversion Hok as [|? ? Hk| | |]; subst.
    destruct (IHf _ _ _ _ _ E Hi Hp) as (s' & Hev & Hi' & Hf').
    rewrite Hev. destruct (IH x s' r (Hk x E) Hg Hi' (InProg_Fr _ _ _ _ Hp Hf')) as (s1 & Hd & Hi1 & Hf1).
    exists s1. split; [exact Hd|]. split; [exact Hi1|]. eapply Fr_trans; eassumption.
  - discriminate.
  - (* a lookup in a shared cache, after arbitrary invariant-preserving interference *)
    inversion Hok as [| | |? ? ? Hnone Hsome|]; subst.
    destruct (cget (interfere (rstore s)) c key) as [hit st'] eqn:Eg.
    destruct (cinv_get _ _ _ _ _ (interfere_inv _ (i_cinv _ Hi)) Eg) as [Hc' Hgood].
    set (s0 := with_store s st').
    assert (Hi0 : Inv s0) by (apply Inv_with_store; [exact Hi|exact Hc']).
    assert (Hf0 : Fr n (isWC w) s s0) by apply Fr_with_store.
    pose proof (InProg_Fr _ _ _ _ Hp Hf0) as Hp0.
    destruct hit as [x|].
    + destruct (Hsome x (Hgood x eq_refl)) as [Hk Heq].
      destruct (IH (Some x) s0 r Hk) as (s1 & Hd & Hi1 & Hf1); [apply Heq; exact Hg|exact Hi0|exact Hp0|].
      exists s1. split; [exact Hd|]. split; [exact Hi1|]. eapply Fr_trans; eassumption.
    + destruct (IH None s0 r Hnone Hg Hi0 Hp0) as (s1 & Hd & Hi1 & Hf1).
      exists s1. split; [exact Hd|]. split; [exact Hi1|]. eapply Fr_trans; eassumption.
  - (* a write: only Good values are written, so the store invariant survives *)
    inversion Hok as [| | | |? ? ? ? Hgood Hk]; subst.
    set (s0' := with_store s (cset (interfere (rstore s)) c key v)).
    assert (Hi0' : Inv s0').
    { apply Inv_with_store; [exact Hi|]. apply cinv_set; [apply interfere_inv; apply (i_cinv _ Hi)|exact Hgood]. }
    assert (Hf0 : Fr n (isWC w) s s0') by apply Fr_with_store.
    destruct (IH s0' r Hk Hg Hi0' (InProg_Fr _ _ _ _ Hp Hf0)) as (s1 & Hd & Hi1 & Hf1).
    exists s1. split; [exact Hd|]. split; [exact Hi1|]. eapply Fr_trans; eassumption.
Qed.

Lemma tuple_ok w n l : forall acc s ys, spmap (spq f) w n (rev l) = Some ys -> Inv s -> InProg s w n ->
  exists s', tuple (ev f) n l acc s = Some (ys ++ acc, s') /\ Inv s' /\ Fr n (isWC w) s s'.
Proof.
  induction l as [|r rest IH]; cbn [Evaluator.tuple rev]; intros acc s ys Hs Hi Hp.
  - cbn in Hs. injection Hs as <-. exists s. auto using Fr_refl.
  - destruct (spmap_app _ _ _ _ _ _ Hs) as (y1 & y2 & H1 & H2 & ->).
    cbn in H2. destruct (spq f w n r) as [x|] eqn:E; [|discriminate]. injection H2 as <-.
    destruct (IHf _ _ _ _ _ E Hi Hp) as (s' & Hev & Hi' & Hf'). rewrite Hev.
    destruct (IH (x :: acc) s' y1 H1 Hi' (InProg_Fr _ _ _ _ Hp Hf')) as (s2 & Ht & Hi2 & Hf2).
    exists s2. rewrite <- app_assoc. cbn. split; [exact Ht|]. split; [exact Hi2|]. eapply Fr_trans; eassumption.
Qed.

Lemma node_ok w m s v : spnode (spq f) w m = Some v -> Inv s -> cnt s m >= 1 -> (In m R \/ aget ins m <> None) ->
  exists s', node (ev f) w m s = ROk v s' /\ Inv s' /\ FrNode w m s s'.
Proof.
  intros Hsp Hi Hc Hdom. assert (Hspec : Spec w m v) by (exists f; exact Hsp). unfold Evaluator.node.
  destruct (aget (memo (sel w s)) m) as [v'|] eqn:Hm.
  { exists s. split; [|split; [exact Hi|apply FrNode_refl]].
    f_equal. apply (Spec_det w m); [apply (i_sound _ Hi _ _ _ Hm)|exact Hspec]. }
  destruct (aget ins m) as [vi|] eqn:Hin.
  { rewrite (i_ins _ Hi w m vi Hin Hc) in Hm. discriminate. }
  destruct Hdom as [HR|Hx]; [|congruence].
  unfold spnode in Hsp. rewrite Hin in Hsp.
  destruct (gens w m) as [e|] eqn:He; [|discriminate].
  assert (Hnd : isdone (rdone s) (w, m) = false).
  { apply isdone_false_notin. intros Hd. apply (i_done _ Hi w m Hd Hc). exact Hm. }
  assert (Hp : InProg s w m) by (repeat split; assumption).
  destruct (drive_ok w m _ s v (gens_ok f w m e He) Hsp Hi Hp) as (s1 & Hd & Hi1 & Hf1).
  rewrite Hd.
  pose proof (InProg_Fr _ _ _ _ Hp Hf1) as (_ & Hnd1 & Hc1 & Hm1).
  set (ps := parents g m) in *.
  assert (Hself : forall q, m <= q -> occl ps q = 0).
  { intros q Hq. apply occl_notin. intros Hin'. apply wfg in Hin'. lia. }
  destruct (evict_all_spec ps (rH s1) (rC s1) (i_wfh _ Hi1) (i_wfc _ Hi1) (i_eq _ Hi1))
    as (h' & c' & Hev & Wh' & Wc' & Heq' & Cnt' & Mh' & Mc').
  { intros p. pose proof (i_budget _ Hi1 p). pose proof (need_ge (rdone s1) p w m HR Hnd1). unfold cnt in *. unfold ps. lia. }
  rewrite Hev.
  set (sE := {| rH := h'; rC := c'; rlog := rlog s1; rdone := rdone s1; rstore := rstore s1 |}).
  set (evd := fun q => (0 <? occl ps q) && (cntc (rC s1) q =? occl ps q)).
  assert (ME : forall w2 q, aget (memo (sel w2 sE)) q = if evd q then None else aget (memo (sel w2 s1)) q).
  { intros w2 q. destruct w2; cbn; [apply Mh'|apply Mc']. }
  assert (CE : forall q, cntc (rC sE) q = cntc (rC s1) q - occl ps q) by (intros q; apply Cnt').
  assert (HmE : aget (memo (sel w sE)) m = None).
  { rewrite ME. destruct (evd m); [reflexivity|exact Hm1]. }
  assert (HcE : cntc (sel w sE) m >= 1).
  { assert (cntc (rC sE) m >= 1) by (rewrite CE, (Hself m (le_n _)); unfold cnt in Hc1; lia).
    destruct w; cbn in *; [rewrite Heq'|]; assumption. }
  destruct (store_ok w m v sE HmE HcE) as (s2 & Hst & D2 & KH & KC & KS & M2).
  change (rdone sE) with (rdone s1) in D2.
  rewrite Hst. exists s2. split; [reflexivity|].
  assert (C2 : forall q, cnt s2 q = cnt s1 q - occl ps q).
  { intros q. unfold cnt. rewrite (cntc_counts _ _ q KC). apply CE. }
  assert (M2' : forall w2 q, aget (memo (sel w2 s2)) q =
            if which_eqb w2 w && Nat.eqb q m then Some v
            else if evd q then None else aget (memo (sel w2 s1)) q).
  { intros w2 q. rewrite M2, ME. reflexivity. }
  assert (Hevd0 : forall q, evd q = true -> cnt s2 q = 0).
  { intros q Hq. rewrite C2. unfold evd in Hq. apply andb_prop in Hq as [_ Hq]. apply Nat.eqb_eq in Hq. unfold cnt. lia. }
  split.
  - (* Inv s2 *)
    constructor.
    + apply (wfc_counts _ _ KH). exact Wh'.
    + apply (wfc_counts _ _ KC). exact Wc'.
    + intros q. rewrite (cntc_counts _ _ q KH), (cntc_counts _ _ q KC). apply Heq'.
    + intros w2 q v0. rewrite M2'.
      destruct (which_eqb w2 w && Nat.eqb q m) eqn:Eh.
      * intros [= <-]. apply andb_prop in Eh as [Ew Eq]. apply Nat.eqb_eq in Eq. subst q.
        destruct w2, w; try discriminate; exact Hspec.
      * destruct (evd q); [discriminate|]. apply (i_sound _ Hi1).
    + intros q. rewrite C2, D2. pose proof (i_budget _ Hi1 q) as B.
      pose proof (need_complete (rdone s1) q w m HR Hnd1) as N. unfold ps. lia.
    + intros w2 q Hin' Hq. rewrite M2'.
      destruct (which_eqb w2 w && Nat.eqb q m) eqn:Eh; [discriminate|].
      destruct (evd q) eqn:Ee; [apply Hevd0 in Ee; lia|].
      rewrite D2 in Hin'. destruct Hin' as [[= <- <-]|Hin'].
      * destruct w; cbn in Eh; rewrite Nat.eqb_refl in Eh; discriminate.
      * apply (i_done _ Hi1 w2 q Hin'). rewrite C2 in Hq. lia.
    + intros w2 q vq Hq Hcq. rewrite M2'.
      destruct (which_eqb w2 w && Nat.eqb q m) eqn:Eh.
      * apply andb_prop in Eh as [_ Eq]. apply Nat.eqb_eq in Eq. subst q. congruence.
      * destruct (evd q) eqn:Ee; [apply Hevd0 in Ee; lia|].
        apply (i_ins _ Hi1 w2 q vq Hq). rewrite C2 in Hcq. lia.
    + rewrite KS. exact (i_cinv _ Hi1).
    + rewrite D2. constructor; [apply isdone_false_notin; exact Hnd1|exact (i_nodup _ Hi1)].
  - (* FrNode *)
    constructor.
    + intros q Hq. rewrite C2, (Hself q Hq), Nat.sub_0_r. apply (f_cnt _ _ _ _ Hf1 q Hq).
    + intros x0 Hx0. rewrite D2. right. apply (f_incl _ _ _ _ Hf1). exact Hx0.
    + intros w2 q Hin'. rewrite D2 in Hin'. destruct Hin' as [[= <- <-]|Hin'].
      * right; right. auto.
      * destruct (f_new _ _ _ _ Hf1 w2 q Hin') as [H1|[H1|(_ & -> & ->)]]; auto.
    + intros w2 q Hq. rewrite M2'.
      replace (Nat.eqb q m) with false by (symmetry; apply Nat.eqb_neq; lia). rewrite andb_false_r.
      unfold evd. rewrite (Hself q) by lia. cbn. apply (f_memo _ _ _ _ Hf1 w2 q Hq).
    + intros ->. rewrite M2'. cbn [which_eqb andb].
      unfold evd. rewrite (Hself m (le_n _)). cbn. apply (f_self _ _ _ _ Hf1 WC). left; reflexivity.
Qed.

Lemma req_ok : P_req (S f).
Proof.
  intros w n r s x Hs Hi Hp. cbn [Evaluator.ev spq] in *. pose proof Hp as (HR & Hnd & Hc & Hm).
  assert (Hpar : forall p, In p (parents g n) -> cnt s p >= 1).
  { intros p Hin. pose proof (i_budget _ Hi p). pose proof (need_ge (rdone s) p w n HR Hnd). pose proof (occl_in _ _ Hin). lia. }
  destruct r as [i|i| | |rs|fn pos kw]; cbn [Evaluator.handle1 sp1] in *.
  - destruct (nth_error (parents g n) i) as [p|] eqn:Hn; cbn in Hs; [|discriminate].
    destruct (spnode (spq f) WH p) as [y|] eqn:Hy; cbn in Hs; [|discriminate].
    pose proof (nth_error_In _ _ Hn) as Hin.
    destruct (node_ok WH p s y Hy Hi (Hpar p Hin) (R_closed _ _ HR Hin)) as (s' & Hnode & Hi' & Hf').
    rewrite Hnode. cbn. rewrite Hs. exists s'. split; [reflexivity|]. split; [exact Hi'|].
    eapply FrNode_below; [apply (wfg _ _ Hin)|exact Hf'].
  - destruct (nth_error (parents g n) i) as [p|] eqn:Hn; cbn in Hs; [|discriminate].
    pose proof (nth_error_In _ _ Hn) as Hin.
    destruct (node_ok WC p s x Hs Hi (Hpar p Hin) (R_closed _ _ HR Hin)) as (s' & Hnode & Hi' & Hf').
    rewrite Hnode. exists s'. split; [reflexivity|]. split; [exact Hi'|].
    eapply FrNode_below; [apply (wfg _ _ Hin)|exact Hf'].
  - destruct w; [discriminate|].
    destruct (spnode (spq f) WH n) as [y|] eqn:Hy; cbn in Hs; [|discriminate].
    destruct (node_ok WH n s y Hy Hi Hc (or_introl HR)) as (s' & Hnode & Hi' & Hf').
    rewrite Hnode. cbn. rewrite Hs. exists s'. split; [reflexivity|]. split; [exact Hi'|].
    apply FrNode_self. exact Hf'.
  - destruct w; [discriminate|].
    destruct (spnode (spq f) WH n) as [y|] eqn:Hy; cbn in Hs; [|discriminate].
    destruct (node_ok WH n s y Hy Hi Hc (or_introl HR)) as (s' & Hnode & Hi' & Hf').
    rewrite Hnode. cbn. rewrite Hs. exists s'. split; [reflexivity|]. split; [exact Hi'|].
    apply FrNode_self. exact Hf'.
  - destruct (spmap (spq f) w n rs) as [ys|] eqn:Hy; cbn in Hs; [|discriminate]. injection Hs as <-.
    destruct (tuple_ok w n (rev rs) [] s ys) as (s' & Ht & Hi' & Hf'); [rewrite rev_involutive; exact Hy|exact Hi|exact Hp|].
    rewrite Ht, app_nil_r. exists s'. auto.
  - destruct (raises fn pos kw); [discriminate|]. injection Hs as <-.
    eexists. split; [reflexivity|]. split.
    + destruct Hi. constructor; unfold sel, cnt in *; cbn in *; assumption.
    + constructor; unfold sel, cnt; cbn; auto.
Qed.
End Step.

Theorem ev_req : forall f, P_req f.
Proof. induction f as [|f IH]; [intros w n r s x H; discriminate|apply req_ok; exact IH]. Qed.

(* the evaluator returns the spec value of the requested output and keeps the invariant *)
Theorem ev_output f o s v :
  spnode (spq f) WC o = Some v -> Inv s -> cnt s o >= 1 -> (In o R \/ aget ins o <> None) ->
  exists s', node (ev f) WC o s = ROk v s' /\ Inv s'.
Proof.
  intros Hs Hi Hc Hd. destruct (node_ok f (ev_req f) WC o s v Hs Hi Hc Hd) as (s' & H1 & H2 & _). eauto.
Qed.

(* the same for either table: w = WH is Graph.get_hash *)
Theorem ev_output_w f w o s v :
  spnode (spq f) w o = Some v -> Inv s -> cnt s o >= 1 -> (In o R \/ aget ins o <> None) ->
  exists s', node (ev f) w o s = ROk v s' /\ Inv s'.
Proof.
  intros Hs Hi Hc Hd. destruct (node_ok f (ev_req f) w o s v Hs Hi Hc Hd) as (s' & H1 & H2 & _). eauto.
Qed.

End L2.

