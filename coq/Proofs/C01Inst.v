(* C01 for concrete graphs of engine edges: instantiation of the generic chain (Sim, L2, Counts, C01Main). *)
From Connectome Require Import Values Attrs VM Edges Evaluator EvictLemmas Sim L2 Counts C01Main EdgeFacts.
Local Open Scope list_scope.

Definition wf (g : graph) : Prop := forall n p, In p (parents (shape g) n) -> p < n.
Definition no_cache (g : graph) : Prop := forall n e, edge_of g n = Some e -> cache_free e = true.

(* decidable versions, for examples and for the case shards *)
Definition wfb (g : graph) : bool :=
  forallb (fun nd => match snd nd with Leaf => true | Inner _ ps => forallb (fun p => Nat.ltb p (fst nd)) ps end)
          (combine (seq 0 (List.length g)) g).
Definition no_cacheb (g : graph) : bool :=
  forallb (fun d => match d with Leaf => true | Inner e _ => cache_free e end) g.

Lemma nth_combine_seq {A} (l : list A) (d : A) n : n < List.length l ->
  In (n, nth n l d) (combine (seq 0 (List.length l)) l).
Proof.
  intros Hn.
  assert (H : forall k (l : list A) n, n < List.length l -> In (k + n, nth n l d) (combine (seq k (List.length l)) l)).
  { clear. intros k l. revert k. induction l as [|a l IH]; intros k n Hn; cbn in *; [lia|].
    destruct n as [|n]; [left; f_equal; lia|]. right. replace (k + S n) with (S k + n) by lia. apply IH. lia. }
  apply (H 0 l n Hn).
Qed.

Lemma wfb_sound g : wfb g = true -> wf g.
Proof.
  unfold wfb, wf. rewrite forallb_forall. intros H n p Hp.
  unfold parents, shape in Hp.
  destruct (Nat.lt_ge_cases n (List.length g)) as [Hlt|Hge].
  - pose proof (map_nth (fun d => match d with Leaf => None | Inner _ ps => Some ps end) g Leaf n) as E.
    cbn beta iota in E. rewrite E in Hp. clear E.
    specialize (H (n, nth n g Leaf) (nth_combine_seq g Leaf n Hlt)). cbn in H.
    destruct (nth n g Leaf) as [|e ps]; [destruct Hp|].
    rewrite forallb_forall in H. apply Nat.ltb_lt. apply H. exact Hp.
  - rewrite nth_overflow in Hp by (rewrite map_length; exact Hge). destruct Hp.
Qed.

Lemma no_cacheb_sound g : no_cacheb g = true -> no_cache g.
Proof.
  unfold no_cacheb, no_cache, edge_of. rewrite forallb_forall. intros H n e He.
  destruct (Nat.lt_ge_cases n (List.length g)) as [Hlt|Hge].
  - specialize (H (nth n g Leaf) (nth_In g Leaf Hlt)). destruct (nth n g Leaf); [discriminate|]. congruence.
  - rewrite nth_overflow in He by exact Hge. discriminate.
Qed.

Section Inst.
Variable g : graph.
Variable apply : string -> list val -> list (string * val) -> val.
Variable raises : string -> list val -> list (string * val) -> bool.
Variable ins : list (nat * val).

(* The specification: compose the generators' semantics recursively, no memo tables, no eviction, no caches
   (every lookup answered "miss").  Per edge kind it unfolds to the equations of Proofs/SpecEq.v. *)
Definition spec (w : which) (fuel o : nat) : option sval :=
  spnode (gens_of g) ins (spq (shape g) (gens_of g) apply raises ins fuel) w o.

Variable cstore : Type.
Variable cget : cstore -> nat -> sval -> option sval * cstore.
Variable cset : cstore -> nat -> sval -> sval -> cstore.
Variable interfere : cstore -> cstore.

Notation callg := (call (shape g) (gens_of g) apply raises cstore cget cset interfere ins).

Theorem refines_cachefree o fuel v σ :
  wf g -> no_cache g -> o <= List.length g ->
  spec WC fuel o = Some v ->
  exists k s', forall k', k <= k' -> callg o σ k' = Finished cstore v s'.
Proof.
  intros Hwf Hnc Ho Hs.
  destruct (call_refines (shape g) (gens_of g) apply raises ins cstore cget cset
              (fun _ _ _ => True) (fun _ => True)) with (interfere := interfere) (o := o) (f := fuel) (v := v) (σ := σ)
    as (k & s' & Hk & _); auto.
  - unfold shape. rewrite map_length. lia.
  - intros f w n e He. unfold gens_of in He. destruct (edge_of g n) as [ed|] eqn:Hed; [|discriminate].
    injection He as <-. apply GOK_pure. destruct w; cbn; [apply pure_hash|apply pure_eval]; apply (Hnc n ed Hed).
  - exists k, s'. exact Hk.
Qed.

Corollary never_stuck_cachefree o fuel v σ :
  wf g -> no_cache g -> o <= List.length g -> spec WC fuel o = Some v ->
  forall k why s, callg o σ k <> Stuck cstore why s.
Proof.
  intros Hwf Hnc Ho Hs k why s Hstuck.
  destruct (refines_cachefree o fuel v σ Hwf Hnc Ho Hs) as (k0 & s' & Hk0).
  pose proof (Hk0 (max k k0) (Nat.le_max_r _ _)) as Hfin.
  unfold call in *.
  rewrite (run_more _ _ _ _ _ _ _ _ k _ _ Hstuck (fun s2 => ltac:(discriminate)) (max k k0) (Nat.le_max_l _ _)) in Hfin.
  discriminate.
Qed.
End Inst.
