(* Theorems about the relational model of the dataset-wide layers: MergeFacts. *)
From Connectome Require Import Values NameSet RelBase MergeGen SortFacts.
From Coq Require Import Sorting.Sorted.
Local Open Scope list_scope.

(* ---------- Merge ---------- *)
Fixpoint owner_of (dss : list (list string)) (j : nat) (i : string) : option nat :=
  match dss with [] => None | ds :: r => if lmem i ds then Some j else owner_of r (S j) i end.

(* the routing table: an id maps to k exactly when dataset k (counted from the first one) is the first to contain it *)
Lemma merge_table_from_spec : forall dss k acc t,
  merge_table_from k dss acc = Some t ->
  forall i, slookup t i = match slookup acc i with Some j => Some j | None => owner_of dss k i end.
Proof.
  induction dss as [|ds rest IH]; intros k acc t H i; cbn in H.
  - injection H as <-. destruct (slookup acc i); reflexivity.
  - destruct (existsb _ (snodup ds)) eqn:E; [discriminate|].
    rewrite (IH _ _ _ H i), slookup_app, slookup_const. cbn [owner_of].
    destruct (slookup acc i) as [j|] eqn:Ea; [reflexivity|].
    assert (Hm : lmem i (snodup ds) = lmem i ds).
    { destruct (lmem i ds) eqn:E1; [apply lmem_In, snodup_in, lmem_In; exact E1|apply lmem_false; rewrite snodup_in; apply lmem_false; exact E1]. }
    rewrite Hm. destruct (lmem i ds); reflexivity.
Qed.

Theorem merge_table_routes dss t : merge_table dss = Some t -> forall i, slookup t i = owner_of dss 0 i.
Proof. intros H i. rewrite (merge_table_from_spec dss 0 [] t H i). reflexivity. Qed.

(* overlapping datasets are rejected: if an id occurs in two datasets no table is built *)
Lemma merge_table_from_keys : forall dss k acc t, merge_table_from k dss acc = Some t -> forall i, In i (map fst acc) -> In i (map fst t).
Proof.
  induction dss as [|ds rest IH]; intros k acc t H i Hi; cbn in H; [injection H as <-; exact Hi|].
  destruct (existsb _ (snodup ds)); [discriminate|]. apply (IH _ _ _ H). rewrite map_app, in_app_iff. left. exact Hi.
Qed.
Theorem merge_overlap_rejected : forall dss k acc i,
  In i (map fst acc) -> (exists ds, In ds dss /\ In i ds) -> merge_table_from k dss acc = None.
Proof.
  induction dss as [|ds rest IH]; intros k acc i Hacc [ds0 [Hin Hi]]; [destruct Hin|]. cbn.
  destruct (existsb _ (snodup ds)) eqn:E; [reflexivity|].
  destruct Hin as [<-|Hin].
  - exfalso. assert (existsb (fun i0 => lmem i0 (map fst acc)) (snodup ds) = true); [|congruence].
    apply existsb_exists. exists i. split; [apply snodup_in; exact Hi|apply lmem_In; exact Hacc].
  - apply (IH _ _ i); [rewrite map_app, in_app_iff; left; exact Hacc|exists ds0; auto].
Qed.
Theorem merge_two_overlap_rejected a b rest i : In i a -> In i b -> merge_table (a :: b :: rest) = None.
Proof.
  intros Ha Hb. unfold merge_table. cbn [merge_table_from].
  assert (E : existsb (fun i0 : string => lmem i0 (map fst (@nil (string * nat)))) (snodup a) = false).
  { clear. induction (snodup a) as [|x l IH]; cbn; auto. }
  rewrite E. cbn [app]. apply (merge_overlap_rejected (b :: rest) 1 _ i).
  - rewrite map_map. cbn. rewrite map_id. apply snodup_in. exact Ha.
  - exists b. split; [left; reflexivity|exact Hb].
Qed.

Theorem merged_ids_spec t i : In i (merged_ids t) <-> In i (map fst t).
Proof. unfold merged_ids. apply ssort_in. Qed.
Theorem merged_ids_sorted t : Sorted sle (merged_ids t).
Proof. apply ssort_sorted. Qed.

