(* Facts about the name-level model of layer stacks (Model/NameLevel.v) and the regenerated AntiSet operators. *)
From Connectome Require Import Values NameSet AntiSetGen NameLevel.
Local Open Scope list_scope.

(* ---------- the regenerated AntiSet operators are the set operations on co-finite sets ---------- *)
Theorem as_and_spec e o x : ns_in x (as_and e o) <-> ns_in x (Co e) /\ ns_in x o.
Proof. destruct o as [s|e']; cbn; [rewrite in_ldiff|rewrite in_lunion]; tauto. Qed.
Theorem as_sub_spec e o x : ns_in x (as_sub e o) <-> ns_in x (Co e) /\ ~ ns_in x o.
Proof.
  destruct o as [s|e']; cbn; [rewrite in_lunion; tauto|rewrite in_ldiff].
  split; [tauto|]. intros [H1 H2]. destruct (in_dec string_dec x e'); tauto.
Qed.
Theorem as_or_spec e o x : ns_in x (as_or e o) <-> ns_in x (Co e) \/ ns_in x o.
Proof.
  destruct o as [s|e']; cbn; [rewrite in_ldiff|rewrite in_linter].
  - destruct (in_dec string_dec x s), (in_dec string_dec x e); tauto.
  - destruct (in_dec string_dec x e'), (in_dec string_dec x e); tauto.
Qed.
Theorem as_rsub_spec e o x : ns_in x (as_rsub e o) <-> ns_in x o /\ ~ ns_in x (Co e).
Proof.
  destruct o as [s|e']; cbn; [rewrite in_linter|rewrite in_ldiff].
  - destruct (in_dec string_dec x e); tauto.
  - destruct (in_dec string_dec x e); tauto.
Qed.
Theorem as_contains_spec e x : as_contains e x = true <-> ns_in x (Co e).
Proof. unfold as_contains. cbn. rewrite negb_true_iff. apply lmem_false. Qed.
Theorem as_commutative_aliases : as_rand = as_and /\ as_ror = as_or.
Proof. split; reflexivity. Qed.

Lemma ns_minus_fin_spec s f x : ns_in x (ns_minus_fin s f) <-> ns_in x s /\ ~ In x f.
Proof. destruct s; cbn; [apply in_ldiff|]. rewrite in_lunion. tauto. Qed.
Lemma ns_inter_spec a b x : ns_in x (ns_inter a b) <-> ns_in x a /\ ns_in x b.
Proof.
  destruct a as [l|e]; cbn.
  - destruct b as [m|e']; cbn; [apply in_linter|rewrite in_ldiff; tauto].
  - rewrite as_and_spec. cbn. tauto.
Qed.

(* ---------- define / inherit / drop: which names survive a `>>` and what they denote ---------- *)
Lemma alookup_app {V} (a b : list (string * V)) k :
  alookup (a ++ b) k = match alookup a k with Some v => Some v | None => alookup b k end.
Proof. induction a as [|[k' v'] a IH]; cbn; [reflexivity|]. destruct (String.eqb k k'); [reflexivity|exact IH]. Qed.
Lemma alookup_map {V W} (f : V -> W) (a : list (string * V)) k :
  alookup (map (fun o => (fst o, f (snd o))) a) k = option_map f (alookup a k).
Proof. induction a as [|[k' v'] a IH]; cbn; [reflexivity|]. destruct (String.eqb k k'); [reflexivity|exact IH]. Qed.
Lemma alookup_filter {V} (p : string -> bool) (a : list (string * V)) k :
  alookup (filter (fun o => p (fst o)) a) k = if p k then alookup a k else None.
Proof.
  induction a as [|[k' v'] a IH]; cbn [filter alookup fst]; [destruct (p k); reflexivity|].
  destruct (p k') eqn:Ep; cbn [alookup].
  - destruct (String.eqb_spec k k') as [->|Hne]; [rewrite Ep; reflexivity|exact IH].
  - destruct (String.eqb_spec k k') as [->|Hne]; [rewrite Ep; rewrite IH, Ep; reflexivity|exact IH].
Qed.
Lemma alookup_none_keys {V} (a : list (string * V)) k : alookup a k = None <-> lmem k (akeys a) = false.
Proof.
  unfold akeys. induction a as [|[k' v'] a IH]; cbn; [tauto|]. destruct (String.eqb k k'); cbn; [split; discriminate|exact IH].
Qed.

Definition env_of (l r : nbag) (x : string) : expr :=
  match alookup (b_outs l) x with
  | Some e => e
  | None => if ns_mem x (b_virt l) then XIn x else XMiss x (match alookup (b_optin r) x with Some b => b | None => false end)
  end.

(* The pipeline after `l >> r` exposes: what r defines (with l's outputs substituted for r's inputs), plus the outputs of l
   that r does not define and either inherits (virtual) or that are persistent in l.  Every other field of l is gone. *)
Theorem compose_lookup l r n :
  alookup (b_outs (compose l r)) n =
  match alookup (b_outs r) n with
  | Some e => Some (xsubst (env_of l r) e)
  | None => if ns_mem n (b_virt r) || lmem n (b_pers l) then alookup (b_outs l) n else None
  end.
Proof.
  unfold compose. cbn [b_outs]. rewrite alookup_app, alookup_map.
  destruct (alookup (b_outs r) n) as [e|] eqn:Er; cbn [option_map]; [reflexivity|].
  rewrite (alookup_filter (fun k => negb (lmem k (akeys (b_outs r))) && (ns_mem k (b_virt r) || lmem k (b_pers l)))).
  apply alookup_none_keys in Er. rewrite Er. reflexivity.
Qed.

Theorem compose_virtual l r x : ns_in x (b_virt (compose l r)) <-> ns_in x (b_virt l) /\ ns_in x (b_virt r).
Proof. apply ns_inter_spec. Qed.

(* a field that neither survives nor is inherited by both is not served at all (never answered by an earlier layer) *)
Theorem compose_stale l r n :
  alookup (b_outs r) n = None -> ns_mem n (b_virt r) = false -> lmem n (b_pers l) = false ->
  alookup (b_outs (compose l r)) n = None /\ ~ ns_in n (b_virt (compose l r)).
Proof.
  intros H1 H2 H3. split; [rewrite compose_lookup, H1, H2, H3; reflexivity|].
  rewrite compose_virtual. intros [_ H]. apply ns_mem_in in H. congruence.
Qed.

(* ---------- bracketings: Chain._connect / LazyChain._connect re-apply their layers one by one ---------- *)
Inductive ltree := TItem (it : stack_item) | TChain (ts : list ltree) | TLazy (ts : list ltree).

Definition connect_item (prev : nbag) (it : stack_item) : nbag := compose prev (item_bag prev it).

(* layers/base.py: Chain._connect(previous) = _apply_chain(previous, self._layers); LazyChain._connect likewise *)
Fixpoint connect_tree (prev : nbag) (t : ltree) : nbag :=
  match t with
  | TItem it => connect_item prev it
  | TChain ts | TLazy ts => fold_left connect_tree ts prev
  end.
Fixpoint flatten (t : ltree) : list stack_item :=
  match t with
  | TItem it => [it]
  | TChain ts | TLazy ts => flat_map flatten ts
  end.

Section TreeInd.
Variable P : ltree -> Prop.
Hypothesis Hitem : forall it, P (TItem it).
Hypothesis Hchain : forall ts, Forall P ts -> P (TChain ts).
Hypothesis Hlazy : forall ts, Forall P ts -> P (TLazy ts).
Fixpoint ltree_ind' (t : ltree) : P t :=
  match t with
  | TItem it => Hitem it
  | TChain ts => Hchain ts ((fix go l : Forall P l := match l with [] => Forall_nil _ | x :: r => Forall_cons _ (ltree_ind' x) (go r) end) ts)
  | TLazy ts => Hlazy ts ((fix go l : Forall P l := match l with [] => Forall_nil _ | x :: r => Forall_cons _ (ltree_ind' x) (go r) end) ts)
  end.
End TreeInd.

Theorem connect_tree_flat : forall t prev, connect_tree prev t = fold_left connect_item (flatten t) prev.
Proof.
  assert (Hlist : forall ts, Forall (fun t => forall prev, connect_tree prev t = fold_left connect_item (flatten t) prev) ts ->
                  forall prev, fold_left connect_tree ts prev = fold_left connect_item (flat_map flatten ts) prev).
  { induction 1 as [|t ts Ht Hts IH]; intros prev; cbn [fold_left flat_map]; [reflexivity|].
    rewrite fold_left_app, <- Ht. apply IH. }
  induction t as [it|ts IH|ts IH] using ltree_ind'; intros prev; cbn [connect_tree flatten]; [reflexivity| |]; apply Hlist; exact IH.
Qed.

(* hence any two bracketings (nested Chain / LazyChain in tail position) of the same sequence give the same pipeline *)
Corollary bracketing_irrelevant t1 t2 prev : flatten t1 = flatten t2 -> connect_tree prev t1 = connect_tree prev t2.
Proof. intros H. rewrite !connect_tree_flat, H. reflexivity. Qed.

(* ---------- optional fields: the outcome of compilation ---------- *)
Theorem field_state_spec b o :
  (field_state b o = 0 <-> misses (snd o) = []) /\
  (field_state b o = 1 <-> misses (snd o) <> [] /\ alookup (b_optout b) (fst o) = Some true /\ forallb snd (misses (snd o)) = true).
Proof.
  unfold field_state. destruct (misses (snd o)) as [|m ms] eqn:E.
  - split; [tauto|]. split; [discriminate|intros [H _]; congruence].
  - destruct (alookup (b_optout b) (fst o)) as [[|]|]; cbn [andb].
    + destruct (forallb snd (m :: ms)) eqn:F; split; split; try discriminate; try tauto; intros; try (split; [discriminate|tauto]).
      destruct H as (_ & _ & H). congruence.
    + split; split; try discriminate. intros (_ & H & _). discriminate.
    + split; split; try discriminate. intros (_ & H & _). discriminate.
Qed.

Theorem outcome_fields b l : bag_outcome b = Fields l ->
  (forall o, In o (b_outs b) -> field_state b o <> 2) /\
  (forall n, In n l <-> exists e, In (n, e) (b_outs b) /\ misses e = []).
Proof.
  unfold bag_outcome. destruct (filter _ (b_outs b)) as [|o0 r] eqn:E; [|discriminate]. intros [= <-]. split.
  - intros o Ho H2. assert (In o (filter (fun o => Nat.eqb (field_state b o) 2) (b_outs b))); [|rewrite E in H; destruct H].
    apply filter_In. split; [exact Ho|rewrite H2; reflexivity].
  - intros n. rewrite in_map_iff. split.
    + intros [[n' e] [Hn Hin]]. cbn in Hn. subst n'. apply filter_In in Hin as [Hin Hs]. apply Nat.eqb_eq in Hs.
      exists e. split; [exact Hin|]. apply (proj1 (field_state_spec b (n, e))). exact Hs.
    + intros [e [Hin Hm]]. exists (n, e). split; [reflexivity|]. apply filter_In. split; [exact Hin|].
      apply Nat.eqb_eq. apply (proj1 (field_state_spec b (n, e))). exact Hm.
Qed.

Theorem outcome_error b f ms : bag_outcome b = DepError f ms ->
  exists e, In (f, e) (b_outs b) /\ misses e <> [] /\
    (alookup (b_optout b) f <> Some true \/ forallb snd (misses e) = false) /\ ms = snodup_ (map fst (misses e)).
Proof.
  unfold bag_outcome. destruct (filter _ (b_outs b)) as [|[f0 e0] r] eqn:E; [discriminate|]. intros [= <- <-].
  assert (Hin : In (f0, e0) (filter (fun o => Nat.eqb (field_state b o) 2) (b_outs b))) by (rewrite E; left; reflexivity).
  apply filter_In in Hin as [Hin Hs]. apply Nat.eqb_eq in Hs. exists e0. split; [exact Hin|].
  unfold field_state in Hs. cbn [fst snd] in Hs. destruct (misses e0) as [|m l0] eqn:Em; [discriminate|].
  split; [discriminate|]. split; [|reflexivity].
  destruct (alookup (b_optout b) f0) as [[|]|]; cbn [andb] in Hs; [|left; discriminate|left; discriminate].
  destruct (forallb snd (m :: l0)); [discriminate|right; reflexivity].
Qed.
