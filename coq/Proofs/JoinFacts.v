(* Theorems about the relational model of the dataset-wide layers: JoinFacts. *)
From Connectome Require Import Values NameSet RelBase JoinGen JoinMapGen SortFacts.
From Coq Require Import Sorting.Sorted.
Local Open Scope list_scope.

(* ---------- Join ---------- *)
Theorem join_partition l r k :
  (In k (join_inner l r) <-> In k (map snd l) /\ In k (map snd r)) /\
  (In k (join_left_only l r) <-> In k (map snd l) /\ ~ In k (map snd r)) /\
  (In k (join_right_only l r) <-> In k (map snd r) /\ ~ In k (map snd l)).
Proof.
  unfold join_inner, join_left_only, join_right_only, keys_of.
  rewrite !filter_In, !negb_true_iff, !lmem_In, !lmem_false, !snodup_in. tauto.
Qed.
Theorem join_ids_spec how l r k :
  In k (join_ids how l r) <->
  (In k (map snd l) /\ In k (map snd r)) \/
  (ids_uses_left how = true /\ In k (map snd l) /\ ~ In k (map snd r)) \/
  (ids_uses_right how = true /\ In k (map snd r) /\ ~ In k (map snd l)).
Proof.
  unfold join_ids. rewrite sset_in, !in_app_iff.
  destruct (join_partition l r k) as (A & B & C). rewrite A.
  destruct (ids_uses_left how), (ids_uses_right how); cbn [In]; rewrite ?B, ?C; intuition congruence.
Qed.
Theorem join_ids_sorted how l r : Sorted sle (join_ids how l r).
Proof. apply ssort_sorted. Qed.
Theorem join_modes :
  (forall l r k, In k (join_ids JInner l r) <-> In k (map snd l) /\ In k (map snd r)) /\
  (forall l r k, In k (join_ids JLeft l r) <-> In k (map snd l)) /\
  (forall l r k, In k (join_ids JRight l r) <-> In k (map snd r)) /\
  (forall l r k, In k (join_ids JOuter l r) <-> In k (map snd l) \/ In k (map snd r)).
Proof.
  repeat split; intros; try (apply join_ids_spec in H; cbn in H); try (apply join_ids_spec; cbn);
    try (destruct (in_dec string_dec k (map snd l)); destruct (in_dec string_dec k (map snd r))); intuition congruence.
Qed.
Theorem join_entry_spec side k i : join_entry side k = Some i -> In (i, k) side.
Proof.
  unfold join_entry, ids_with. induction side as [|[a b] s IH]; cbn; [discriminate|].
  destruct (String.eqb_spec b k); cbn; [intros [= <-]; subst; auto|auto].
Qed.
Theorem join_entry_none side k : join_entry side k = None <-> ~ In k (map snd side).
Proof.
  unfold join_entry, ids_with. induction side as [|[a b] s IH]; cbn; [tauto|].
  destruct (String.eqb_spec b k); cbn; [subst; split; [discriminate|tauto]|]. rewrite IH. split; [intros H [E|E]; [congruence|tauto]|tauto].
Qed.
(* duplicate keys on a side are exactly what dup_keys detects (JoinMapping rejects them through reverse_func) *)
Theorem dup_keys_spec side : dup_keys side = false <-> forall k, List.length (ids_with side k) <= 1.
Proof.
  unfold dup_keys. split.
  - intros H k. destruct (in_dec string_dec k (map snd side)) as [Hin|Hn].
    + assert (Hk : In k (keys_of side)) by (apply snodup_in; exact Hin).
      destruct (Nat.ltb 1 (List.length (ids_with side k))) eqn:E; [|apply Nat.ltb_ge in E; exact E].
      exfalso. assert (existsb (fun k0 => Nat.ltb 1 (List.length (ids_with side k0))) (keys_of side) = true); [|congruence].
      apply existsb_exists. exists k. auto.
    + unfold ids_with. assert (filter (fun e : string * string => String.eqb (snd e) k) side = []) as ->; [|cbn; lia].
      clear - Hn. induction side as [|[a b] s IH]; cbn in *; [reflexivity|]. destruct (String.eqb_spec b k); [tauto|apply IH; tauto].
  - intros H. destruct (existsb _ (keys_of side)) eqn:E; [|reflexivity]. apply existsb_exists in E as [k [_ Hk]].
    apply Nat.ltb_lt in Hk. specialize (H k). lia.
Qed.

