(* C01 / C04, the failing direction for concrete graphs: instances of RaiseDir.only_user_exceptions. *)
From Connectome Require Import Values Attrs VM Edges Evaluator L2 Store HashSound SpecEq C01Main C01Inst C01Readable C04Main RaiseDir.
Local Open Scope list_scope.

(* cache-free graphs over the regenerated generators: if composing the user functions is defined when nothing raises,
   then under ANY behaviour of the user functions the call, at every number of steps, is still running, has returned
   that composition, or has stopped with the exception of a user function that raised *)
Theorem cachefree_only_user_exceptions (g : graph) apply raises ins (cstore : Type) cget cset interfere o fuel v (σ : cstore) :
  wf g -> no_cache g -> o <= List.length g ->
  spec g apply quiet ins WC fuel o = Some v ->
  exists k s', forall k',
    let out := call (shape g) (gens_of g) apply raises cstore cget cset interfere ins o σ k' in
    (exists s1, out = Running cstore s1 /\ k' < k) \/ out = Finished cstore v s' \/ user_raise raises cstore out.
Proof.
  intros Hwf Hnc Ho Hs.
  destruct (refines_cachefree g apply quiet ins cstore cget cset interfere o fuel v σ Hwf Hnc Ho Hs) as (k & s' & Hk).
  exists k, s'. intros k'. apply (only_user_exceptions (shape g) (gens_of g) apply raises cstore cget cset interfere k _ v s' Hk).
Qed.

(* graphs with RAM and disk caches on any store meeting the invariant of C04, under any invariant-respecting interference *)
Theorem cached_only_user_exceptions apply (c : hcall) v σ (interfere : cstore -> cstore) raises :
  (forall s, CInvS apply s -> CInvS apply (interfere s)) ->
  call_ok apply {| hc_g := hc_g c; hc_ins := hc_ins c; hc_o := hc_o c; hc_raises := quiet |} v -> CInvS apply σ ->
  exists k s', forall k',
    let out := call (shape (hc_g c)) (gens_of (hc_g c)) apply raises cstore cget cset interfere (hc_ins c) (hc_o c) σ k' in
    (exists s1, out = Running cstore s1 /\ k' < k) \/ out = Finished cstore (SVal v) s' \/ user_raise raises cstore out.
Proof.
  intros Hint (Hwf & Hin & Hnode & Hedge & Htot & Hlen & F & h & Hsem) Hc. cbn [hc_g hc_ins hc_o hc_raises] in *.
  destruct (call_transparent apply quiet (hc_g c) (hc_ins c) Hwf Hin Hnode Hedge Htot (hc_o c) F h v σ interfere Hint Hlen Hsem Hc)
    as (k & s' & Hk & _).
  exists k, s'. intros k'.
  apply (only_user_exceptions (shape (hc_g c)) (gens_of (hc_g c)) apply raises cstore cget cset interfere k _ (SVal v) s' Hk).
Qed.

(* C11 with failing calls: under any schedule of the other threads (a time-dependent environment that keeps entries Good)
   and any behaviour of the user functions, a call whose failure-free value is v is, at every step, still running, or
   has returned v, or has stopped with the exception of a user function that raised *)
Theorem scheduled_only_user_exceptions apply (g : graph) (ins : list (nat * val)) raises :
  wf g ->
  (forall n v e ps, aget ins n = Some v -> nth n g Leaf = Inner e ps -> False) ->
  (forall n e ps, nth n g Leaf = Inner e ps -> node_ok e ps) ->
  (forall n e ps, nth n g Leaf = Inner e ps -> edge_ok e (List.length ps) = true) ->
  (forall n c ps, nth n g Leaf = Inner (ECache c) ps ->
     exists F h v, sem apply quiet g ins F n = Some (h, v) /\ EqFacts.nonum_h h = true) ->
  forall o F h v (σ : cstore) (env : nat -> cstore -> cstore),
  (forall t s, CInvS apply s -> CInvS apply (env t s)) ->
  o <= List.length g -> sem apply quiet g ins F o = Some (h, v) -> CInvS apply σ ->
  exists k s', forall k',
    let out := call (shape g) (gens_of g) apply raises tstore tget tset (tenv env) ins o (0, σ) k' in
    (exists s1, out = Running tstore s1 /\ k' < k) \/ out = Finished tstore (SVal v) s' \/ user_raise raises tstore out.
Proof.
  intros Hwf Hin Hnode Hedge Htot o F h v σ env Henv Ho Hsem Hc.
  destruct (call_transparent_env apply quiet g ins Hwf Hin Hnode Hedge Htot o F h v σ env Henv Ho Hsem Hc) as (k & s' & Hk & _).
  exists k, s'. intros k'.
  apply (only_user_exceptions (shape g) (gens_of g) apply raises tstore tget tset (tenv env) k _ (SVal v) s' Hk).
Qed.
