(* Theorems about the relational model of the dataset-wide layers: SplitFacts. *)
From Connectome Require Import Values NameSet RelBase SplitGen SortFacts.
From Coq Require Import Sorting.Sorted.
Local Open Scope list_scope.

(* ---------- Split ---------- *)
Theorem split_pairs_spec ids parts new old part :
  In (new, (old, part)) (split_pairs ids parts) <-> In old ids /\ In (new, part) (parts old).
Proof.
  unfold split_pairs. rewrite in_flat_map. split.
  - intros [o [Ho Hin]]. apply in_map_iff in Hin as [[n p] [E Hp]]. cbn in E. injection E as <- <- <-. auto.
  - intros [Ho Hp]. exists old. split; [exact Ho|]. apply in_map_iff. exists (new, part). auto.
Qed.
Theorem split_ids_spec ids parts new : In new (split_ids ids parts) <-> exists old part, In old ids /\ In (new, part) (parts old).
Proof.
  unfold split_ids. rewrite ssort_in, in_map_iff. split.
  - intros [[n [o p]] [E H]]. cbn in E. subst n. apply split_pairs_spec in H. exists o, p. exact H.
  - intros (o & p & H). exists (new, (o, p)). split; [reflexivity|apply split_pairs_spec; exact H].
Qed.
(* without collisions every new id has exactly one (old id, part) *)
Theorem split_unique ids parts new a b :
  split_collides ids parts = false ->
  In (new, a) (split_pairs ids parts) -> In (new, b) (split_pairs ids parts) -> a = b.
Proof.
  unfold split_collides. intros Hc. apply negb_false_iff, Nat.eqb_eq in Hc.
  assert (Hnd : NoDup (map fst (split_pairs ids parts))).
  { generalize dependent (map fst (split_pairs ids parts)). intros l. induction l as [|x l IH]; cbn; [constructor|].
    destruct (lmem x l) eqn:E; intros H.
    - exfalso. pose proof (snodup_nodup l) as Hn.
      assert (List.length (snodup l) <= List.length l).
      { clear. induction l as [|y l IH]; cbn; [lia|]. destruct (lmem y l); cbn; lia. }
      lia.
    - cbn in H. constructor; [apply lmem_false; exact E|apply IH; lia]. }
  clear Hc. generalize dependent (split_pairs ids parts). intros l Hnd. induction l as [|[n v] l IH]; cbn; [tauto|].
  inversion Hnd as [|? ? Hx Hnd']; subst. intros [E1|H1] [E2|H2].
  - congruence.
  - injection E1 as -> ->. exfalso. apply Hx. apply in_map_iff. exists (new, b). auto.
  - injection E2 as -> ->. exfalso. apply Hx. apply in_map_iff. exists (new, a). auto.
  - apply IH; assumption.
Qed.
