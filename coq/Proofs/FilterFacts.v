(* Theorems about the relational model of the dataset-wide layers: FilterFacts. *)
From Connectome Require Import Values NameSet RelBase FilterGen SortFacts.
From Coq Require Import Sorting.Sorted.
Local Open Scope list_scope.

(* ---------- Filter / CheckIds ---------- *)
Theorem filter_ids_spec p ids i : In i (filter_ids p ids) <-> In i ids /\ p i = true.
Proof. apply filter_In. Qed.
Theorem filter_stacked p q ids : filter_ids q (filter_ids p ids) = filter_ids (fun i => p i && q i) ids.
Proof.
  unfold filter_ids. induction ids as [|a l IH]; [reflexivity|]. cbn. destruct (p a); cbn; [destruct (q a); cbn; rewrite IH; reflexivity|exact IH].
Qed.
(* the original order is kept: filtering commutes with taking any prefix/suffix split *)
Theorem filter_keeps_order p a b : filter_ids p (a ++ b) = filter_ids p a ++ filter_ids p b.
Proof. apply filter_app. Qed.
Theorem keep_drop_spec sel ids i :
  (In i (filter_ids (keep_pred sel) ids) <-> In i ids /\ In i sel) /\ (In i (filter_ids (drop_pred sel) ids) <-> In i ids /\ ~ In i sel).
Proof.
  unfold filter_ids, keep_pred, drop_pred. rewrite !filter_In, negb_true_iff, lmem_In, lmem_false. tauto.
Qed.
Theorem check_id_spec ids i : check_id ids i = true <-> In i ids.
Proof. apply lmem_In. Qed.

