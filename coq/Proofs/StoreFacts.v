(* Facts about the concrete caches of Model/Store.v (MemoryCache over dict / pylru.lrucache, with the
   regenerated clear()) and about the regenerated shard arithmetic of CachedColumn._get_shard. *)
From Connectome Require Import Values Store MemGen ShardGen.
Local Open Scope list_scope.

(* ---------- the LRU bound, for every operation list, including clear ---------- *)
Definition bounded (n : nat) (c : cache_state) : Prop :=
  is_lru c = true /\ ck c = KRam (Some n) /\ List.length (entries c) <= n.

Lemma e_del_le k l key : List.length (e_del k l key) <= List.length l.
Proof. induction l as [|[k' v] l IH]; cbn; [lia|]. destruct (key_eqb k key k'); cbn; lia. Qed.
Lemma e_del_found k l key v : e_find k l key = Some v -> List.length (e_del k l key) < List.length l.
Proof.
  induction l as [|[k' v'] l IH]; cbn; [discriminate|].
  destruct (key_eqb k key k'); [intros _; pose proof (e_del_le k l key); lia|]. intros H. cbn. specialize (IH H). lia.
Qed.

Lemma new_bounded n : bounded n (new_cache (KRam (Some n))).
Proof. repeat split; cbn; lia. Qed.

Lemma c_get_bounded n c key : bounded n c -> bounded n (snd (c_get c key)).
Proof.
  intros (Hl & Hk & Hn). unfold c_get. destruct (e_find (ck c) (entries c) key) as [v|] eqn:E; cbn; [|repeat split; assumption].
  rewrite Hl. cbn. repeat split; auto. cbn. pose proof (e_del_found _ _ _ _ E). lia.
Qed.
Lemma c_set_bounded n c key v : bounded n c -> bounded n (c_set c key v).
Proof.
  intros (Hl & Hk & Hn). unfold c_set, cap_of. rewrite Hk, Hl. repeat split; auto. cbn [entries].
  rewrite firstn_length. lia.
Qed.
(* this is where the translated clear() enters: with the pinned `self._cache = {}` (mc_clear = ResetToDict) the
   table stops being an lrucache and the lemma is false *)
Lemma c_clear_bounded n c : bounded n c -> bounded n (c_clear c).
Proof.
  intros (Hl & Hk & Hn). unfold c_clear. rewrite Hk. unfold mc_clear. repeat split; cbn; auto; lia.
Qed.

Inductive mop := MGet (key : sval) | MSet (key v : sval) | MClear.
Definition mstep (c : cache_state) (o : mop) : cache_state :=
  match o with MGet k => snd (c_get c k) | MSet k v => c_set c k v | MClear => c_clear c end.

Theorem lru_bound_all n ops :
  List.length (entries (fold_left mstep ops (new_cache (KRam (Some n))))) <= n.
Proof.
  assert (H : forall c, bounded n c -> bounded n (fold_left mstep ops c)).
  { induction ops as [|o ops IH]; cbn; intros c Hc; [exact Hc|]. apply IH.
    destruct o; cbn; [apply c_get_bounded|apply c_set_bounded|apply c_clear_bounded]; exact Hc. }
  apply (H _ (new_bounded n)).
Qed.

(* what the pinned clear() did, kept as the ready-made witness for the failing-input search *)
Definition c_clear_to_dict (c : cache_state) : cache_state := {| ck := ck c; is_lru := false; entries := [] |}.
Definition mstep_pinned (c : cache_state) (o : mop) : cache_state :=
  match o with MGet k => snd (c_get c k) | MSet k v => c_set c k v | MClear => c_clear_to_dict c end.
Definition kN (n : nat) : sval := SHash (HLeaf (VNat n)).
Example lru_bound_pinned_refuted :
  List.length (entries (fold_left mstep_pinned
      [MSet (kN 1) SNoneS; MSet (kN 2) SNoneS; MSet (kN 3) SNoneS; MClear;
       MSet (kN 1) SNoneS; MSet (kN 2) SNoneS; MSet (kN 3) SNoneS; MSet (kN 4) SNoneS]
      (new_cache (KRam (Some 3))))) = 4.
Proof. vm_compute. reflexivity. Qed.

(* ---------- shards partition the sorted keys ---------- *)
Section Shards.
Context {A : Type}.

Lemma skipn_skipn' x : forall y (l : list A), skipn x (skipn y l) = skipn (y + x) l.
Proof. induction y as [|y IH]; intros l; cbn; [reflexivity|]. destruct l; [rewrite skipn_nil; reflexivity|apply IH]. Qed.
Lemma nth_error_firstn' n : forall (l : list A) i, i < n -> nth_error (firstn n l) i = nth_error l i.
Proof.
  induction n as [|n IH]; intros l i Hi; [lia|]. destruct l as [|a l]; [reflexivity|].
  destruct i as [|i]; [reflexivity|]. cbn. apply IH. lia.
Qed.
Lemma nth_error_skipn' n : forall (l : list A) i, nth_error (skipn n l) i = nth_error l (n + i).
Proof.
  induction n as [|n IH]; intros l i; [reflexivity|]. destruct l as [|a l]; [cbn; destruct i; reflexivity|]. cbn. apply IH.
Qed.

Lemma concat_shards size (Hs : size > 0) : forall k (keys : list A), List.length keys <= k * size ->
  List.concat (map (fun i => firstn size (skipn (i * size) keys)) (seq 0 k)) = keys.
Proof.
  induction k as [|k IH]; intros keys Hlen.
  - cbn in *. destruct keys; [reflexivity|cbn in Hlen; lia].
  - cbn [seq map List.concat]. rewrite Nat.mul_0_l. cbn [skipn].
    rewrite <- seq_shift, map_map.
    assert (E : map (fun i => firstn size (skipn (S i * size) keys)) (seq 0 k)
              = map (fun i => firstn size (skipn (i * size) (skipn size keys))) (seq 0 k)).
    { apply map_ext. intros i. rewrite skipn_skipn'. reflexivity. }
    rewrite E, IH.
    + apply firstn_skipn.
    + rewrite skipn_length. cbn in Hlen. lia.
Qed.

Theorem shards_partition (keys : list A) size : size > 0 ->
  List.concat (map (shard_keys keys size) (seq 0 (shard_count (List.length keys) size))) = keys.
Proof.
  intros Hs. unfold shard_keys, shard_count. apply (concat_shards size Hs).
  pose proof (Nat.div_mod (List.length keys + size - 1) size ltac:(lia)) as D.
  pose proof (Nat.mod_upper_bound (List.length keys + size - 1) size ltac:(lia)) as U.
  rewrite Nat.mul_comm. lia.
Qed.

(* the shard selected for a key contains it, at offset pos mod size *)
Theorem shard_contains (keys : list A) size pos : size > 0 -> pos < List.length keys ->
  nth_error (shard_keys keys size (shard_idx pos size)) (pos mod size) = nth_error keys pos.
Proof.
  intros Hs Hp. unfold shard_keys, shard_idx.
  pose proof (Nat.div_mod pos size ltac:(lia)) as D.
  pose proof (Nat.mod_upper_bound pos size ltac:(lia)) as U.
  rewrite nth_error_firstn' by exact U.
  rewrite nth_error_skipn'. f_equal. rewrite Nat.mul_comm. lia.
Qed.

Theorem shard_idx_lt (keys : list A) size pos : size > 0 -> pos < List.length keys ->
  shard_idx pos size < shard_count (List.length keys) size.
Proof.
  intros Hs Hp. unfold shard_idx, shard_count.
  apply Nat.div_lt_upper_bound; [lia|].
  pose proof (Nat.div_mod (List.length keys + size - 1) size ltac:(lia)) as D.
  pose proof (Nat.mod_upper_bound (List.length keys + size - 1) size ltac:(lia)) as U. lia.
Qed.
End Shards.
