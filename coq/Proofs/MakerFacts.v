(* C05 for the dataset-wide edges: every ingredient of what a Filter / GroupBy / Join / Split / HashDigest edge computes
   - the static hash of its nested graph, the key function, EVERY input hash - is a component of its node hash.
   Over the REGENERATED _make_hash / _hash_graph bodies (Gen/EdgesGen.v): dropping an input or the graph hash from any of
   them breaks the corresponding lemma. *)
From Connectome Require Import Values Attrs VM Edges EdgesGen StaticHash.
Local Open Scope list_scope.

Lemma group_edge_hash_inj s s' i i' :
  GroupEdge_make_hash s i = GroupEdge_make_hash s' i' -> graph_hash s = graph_hash s' /\ i = i'.
Proof. unfold GroupEdge_make_hash. cbn [app]. intros [= -> ->]. auto. Qed.
Lemma group_mapping_hash_inj s s' i i' :
  GroupMapping_make_hash s i = GroupMapping_make_hash s' i' -> graph_hash s = graph_hash s' /\ i = i'.
Proof. unfold GroupMapping_make_hash. cbn [app]. intros [= -> ->]. auto. Qed.
Lemma split_mapping_hash_inj s s' i i' :
  SplitMapping_make_hash s i = SplitMapping_make_hash s' i' -> graph_hash s = graph_hash s' /\ i = i'.
Proof. unfold SplitMapping_make_hash. cbn [app]. intros [= -> ->]. auto. Qed.
Lemma join_mapping_hash_inj s s' i i' :
  JoinMapping_make_hash s i = JoinMapping_make_hash s' i' ->
  to_key s = to_key s' /\ left_hash s = left_hash s' /\ right_hash s = right_hash s' /\ i = i'.
Proof. unfold JoinMapping_make_hash. cbn [app]. intros [= -> -> -> ->]. auto. Qed.
Lemma filter_edge_hash_inj s s' i i' :
  FilterEdge_make_hash s i = FilterEdge_make_hash s' i' -> graph_hash s = graph_hash s' /\ nth 0 i hnone = nth 0 i' hnone.
Proof. unfold FilterEdge_make_hash. intros [= -> ->]. auto. Qed.
Lemma hash_digest_hash_inj s s' i i' :
  HashDigestEdge_make_hash s i = HashDigestEdge_make_hash s' i' ->
  algorithm s = algorithm s' /\ return_value s = return_value s' /\ i = i'.
Proof. unfold HashDigestEdge_make_hash. cbn [app]. intros [= -> -> ->]. auto. Qed.
Lemma switch_branch_hash_inj s s' i i' :
  SwitchBranch_hash_graph s i = SwitchBranch_hash_graph s' i' -> i = i'.
Proof. unfold SwitchBranch_hash_graph. intros [= ->]. auto. Qed.
Lemma switch_missing_hash_inj s s' i i' :
  SwitchMissing_hash_graph s i = SwitchMissing_hash_graph s' i' -> index s = index s' /\ i = i'.
Proof. unfold SwitchMissing_hash_graph. cbn [app]. intros [= H ->]. split; [exact H|reflexivity]. Qed.
(* a column cache is transparent: the hash of the cached entry, statically and at run time *)
Lemma cached_column_transparent s i : CachedColumn_hash_graph s i = Some (nth 0 i hnone).
Proof. reflexivity. Qed.
