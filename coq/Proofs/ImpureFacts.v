(* C13: the impurity walk finds exactly the impure edges upstream; an impure edge upstream leaves no static hash. *)
From Connectome Require Import Values Attrs VM Edges EdgesGen GraphHashModel Impure C01Inst.
Local Open Scope list_scope.

Inductive upstream (g : graph) : nat -> nat -> Prop :=
| up_refl n : upstream g n n
| up_step n e ps p m : nth n g Leaf = Inner e ps -> In p ps -> upstream g p m -> upstream g n m.

Theorem detect_sound g : forall fuel n, detect_impure fuel g n = true ->
  exists m e ps, upstream g n m /\ nth m g Leaf = Inner e ps /\ is_impure e = true.
Proof.
  induction fuel as [|f IH]; intros n H; [discriminate|]. cbn [detect_impure] in H.
  destruct (nth n g Leaf) as [|e ps] eqn:En; [discriminate|]. apply orb_prop in H as [H|H].
  - exists n, e, ps. split; [constructor|auto].
  - apply existsb_exists in H as [p [Hp Hd]]. destruct (IH p Hd) as (m & e' & ps' & Hu & Hn & Hi).
    exists m, e', ps'. split; [eapply up_step; eassumption|auto].
Qed.

Theorem detect_complete g : wf g -> forall n m, upstream g n m -> forall e ps, nth m g Leaf = Inner e ps -> is_impure e = true ->
  forall fuel, n < fuel -> detect_impure fuel g n = true.
Proof.
  intros Hwf n m Hu. induction Hu as [n|n e0 ps0 p m Hn Hp Hu IH]; intros e ps Hm Hi fuel Hf.
  - destruct fuel; [lia|]. cbn [detect_impure]. rewrite Hm, Hi. reflexivity.
  - destruct fuel; [lia|]. cbn [detect_impure]. rewrite Hn. apply orb_true_iff. right.
    apply existsb_exists. exists p. split; [exact Hp|]. apply (IH e ps Hm Hi).
    assert (p < n); [|lia]. apply (Hwf n p). unfold parents, shape.
    pose proof (map_nth (fun d => match d with Leaf => None | Inner _ ps => Some ps end) g Leaf n) as E.
    cbn beta iota in E. rewrite E, Hn. exact Hp.
Qed.

(* an impure edge reachable without passing through an input leaves no static hash (ImpureEdge._hash_graph raises) *)
Theorem impure_blocks_graph_hash g inputs : forall n m, upstream g n m -> forall i ps, nth m g Leaf = Inner (EImpure i) ps ->
  (forall x, upstream g n x -> upstream g x m -> existsb (Nat.eqb x) inputs = false) ->
  forall fuel, hash_graph g inputs fuel n = None.
Proof.
  intros n m Hu. induction Hu as [n|n e0 ps0 p m Hn Hp Hu IH]; intros i ps Hm Hin fuel.
  - destruct fuel; [reflexivity|]. cbn [hash_graph]. rewrite (Hin n (up_refl g n) (up_refl g n)), Hm.
    destruct (forallb _ _); [|reflexivity]. unfold edge_hash_graph_of. destruct (Nat.eqb _ _); reflexivity.
  - destruct fuel; [reflexivity|]. cbn [hash_graph].
    rewrite (Hin n (up_refl g n) (up_step g n e0 ps0 p m Hn Hp Hu)), Hn.
    assert (Hnone : hash_graph g inputs fuel p = None).
    { apply (IH i ps Hm). intros x H1 H2. apply Hin; [eapply up_step; eassumption|exact H2]. }
    assert (Hf : forallb (fun r : option nhash => match r with Some _ => true | None => false end) (map (hash_graph g inputs fuel) ps0) = false).
    { clear - Hp Hnone. induction ps0 as [|q l IHl]; [destruct Hp|]. cbn. destruct Hp as [->|Hp]; [rewrite Hnone; reflexivity|].
      rewrite (IHl Hp). apply andb_false_r. }
    rewrite Hf. reflexivity.
Qed.
