(* Theorems about the relational model of the dataset-wide layers (Model/Relational.v). *)
From Connectome Require Import Values NameSet MiscGen Relational.
From Coq Require Import Sorting.Sorted.
Local Open Scope list_scope.

(* ---------- sorting ---------- *)
Lemma sleb_total a b : sleb a b = false -> sleb b a = true.
Proof.
  unfold sleb. rewrite (String.compare_antisym b a). destruct (String.compare a b); cbn; congruence.
Qed.
Lemma sinsert_in x y l : In y (sinsert x l) <-> y = x \/ In y l.
Proof.
  induction l as [|a l IH]; cbn; [intuition congruence|]. destruct (sleb x a); cbn; [intuition congruence|]. rewrite IH. intuition congruence.
Qed.
Lemma ssort_in y l : In y (ssort l) <-> In y l.
Proof. induction l as [|a l IH]; [cbn; tauto|]. change (ssort (a :: l)) with (sinsert a (ssort l)). rewrite sinsert_in, IH. cbn. intuition congruence. Qed.
Lemma sinsert_length x l : List.length (sinsert x l) = S (List.length l).
Proof. induction l as [|a l IH]; cbn; [reflexivity|]. destruct (sleb x a); cbn; congruence. Qed.
Lemma ssort_length l : List.length (ssort l) = List.length l.
Proof. induction l as [|a l IH]; [reflexivity|]. change (ssort (a :: l)) with (sinsert a (ssort l)). rewrite sinsert_length, IH. reflexivity. Qed.

Definition sle (a b : string) : Prop := sleb a b = true.
Lemma sinsert_sorted x l : Sorted sle l -> Sorted sle (sinsert x l).
Proof.
  induction 1 as [|a l Hs IH Hd]; cbn; [repeat constructor|].
  destruct (sleb x a) eqn:E.
  - constructor; [constructor; assumption|constructor; exact E].
  - constructor; [exact IH|]. destruct l as [|b l]; cbn.
    + constructor. apply sleb_total. exact E.
    + destruct (sleb x b); constructor; [apply sleb_total; exact E|]. inversion Hd; assumption.
Qed.
Lemma ssort_sorted l : Sorted sle (ssort l).
Proof. induction l as [|a l IH]; [constructor|]. change (ssort (a :: l)) with (sinsert a (ssort l)). apply sinsert_sorted; exact IH. Qed.

Lemma snodup_in y l : In y (snodup l) <-> In y l.
Proof.
  induction l as [|a l IH]; cbn; [tauto|]. destruct (lmem a l) eqn:E; cbn; rewrite IH; [|tauto].
  apply lmem_In in E. split; [tauto|]. intros [<-|H]; auto.
Qed.
Lemma snodup_nodup l : NoDup (snodup l).
Proof.
  induction l as [|a l IH]; cbn; [constructor|]. destruct (lmem a l) eqn:E; [exact IH|].
  constructor; [|exact IH]. rewrite snodup_in. apply lmem_false. exact E.
Qed.
Lemma sset_in y l : In y (sset l) <-> In y l.
Proof. unfold sset. rewrite ssort_in, snodup_in. tauto. Qed.

(* ---------- Merge ---------- *)
Lemma slookup_in {V} (t : list (string * V)) k v : slookup t k = Some v -> In (k, v) t.
Proof.
  induction t as [|[k' v'] t IH]; cbn; [discriminate|]. destruct (String.eqb_spec k k'); [intros [= <-]; subst; auto|auto].
Qed.
Lemma slookup_none {V} (t : list (string * V)) k : slookup t k = None <-> ~ In k (map fst t).
Proof.
  induction t as [|[k' v'] t IH]; cbn; [tauto|]. destruct (String.eqb_spec k k'); [subst; split; [discriminate|tauto]|].
  rewrite IH. split; [intros H [E|E]; [congruence|tauto]|tauto].
Qed.
Lemma slookup_app {V} (a b : list (string * V)) k :
  slookup (a ++ b) k = match slookup a k with Some v => Some v | None => slookup b k end.
Proof. induction a as [|[k' v'] a IH]; cbn; [reflexivity|]. destruct (String.eqb k k'); [reflexivity|exact IH]. Qed.
Lemma slookup_const (k0 : nat) (ds : list string) i : slookup (map (fun j => (j, k0)) ds) i = if lmem i ds then Some k0 else None.
Proof.
  induction ds as [|a ds IH]; cbn; [reflexivity|]. destruct (String.eqb i a); cbn; [reflexivity|exact IH].
Qed.

Fixpoint owner_of (dss : list (list string)) (j : nat) (i : string) : option nat :=
  match dss with [] => None | ds :: r => if lmem i ds then Some j else owner_of r (S j) i end.

(* the routing table: an id maps to k exactly when dataset k (counted from the first one) is the first to contain it *)
Lemma merge_table_from_spec : forall dss k acc t,
  merge_table_from k dss acc = Some t ->
  forall i, slookup t i = match slookup acc i with Some j => Some j | None => owner_of dss k i end.
Proof.
  induction dss as [|ds rest IH]; intros k acc t H i; cbn in H.
  - injection H as <-. destruct (slookup acc i); reflexivity.
  - destruct (existsb _ (snodup ds)) eqn:E; [discriminate|].
    rewrite (IH _ _ _ H i), slookup_app, slookup_const. cbn [owner_of].
    destruct (slookup acc i) as [j|] eqn:Ea; [reflexivity|].
    assert (Hm : lmem i (snodup ds) = lmem i ds).
    { destruct (lmem i ds) eqn:E1; [apply lmem_In, snodup_in, lmem_In; exact E1|apply lmem_false; rewrite snodup_in; apply lmem_false; exact E1]. }
    rewrite Hm. destruct (lmem i ds); reflexivity.
Qed.

Theorem merge_table_routes dss t : merge_table dss = Some t -> forall i, slookup t i = owner_of dss 0 i.
Proof. intros H i. rewrite (merge_table_from_spec dss 0 [] t H i). reflexivity. Qed.

(* overlapping datasets are rejected: if an id occurs in two datasets no table is built *)
Lemma merge_table_from_keys : forall dss k acc t, merge_table_from k dss acc = Some t -> forall i, In i (map fst acc) -> In i (map fst t).
Proof.
  induction dss as [|ds rest IH]; intros k acc t H i Hi; cbn in H; [injection H as <-; exact Hi|].
  destruct (existsb _ (snodup ds)); [discriminate|]. apply (IH _ _ _ H). rewrite map_app, in_app_iff. left. exact Hi.
Qed.
Theorem merge_overlap_rejected : forall dss k acc i,
  In i (map fst acc) -> (exists ds, In ds dss /\ In i ds) -> merge_table_from k dss acc = None.
Proof.
  induction dss as [|ds rest IH]; intros k acc i Hacc [ds0 [Hin Hi]]; [destruct Hin|]. cbn.
  destruct (existsb _ (snodup ds)) eqn:E; [reflexivity|].
  destruct Hin as [<-|Hin].
  - exfalso. assert (existsb (fun i0 => lmem i0 (map fst acc)) (snodup ds) = true); [|congruence].
    apply existsb_exists. exists i. split; [apply snodup_in; exact Hi|apply lmem_In; exact Hacc].
  - apply (IH _ _ i); [rewrite map_app, in_app_iff; left; exact Hacc|exists ds0; auto].
Qed.
Theorem merge_two_overlap_rejected a b rest i : In i a -> In i b -> merge_table (a :: b :: rest) = None.
Proof.
  intros Ha Hb. unfold merge_table. cbn [merge_table_from].
  assert (E : existsb (fun i0 : string => lmem i0 (map fst (@nil (string * nat)))) (snodup a) = false).
  { clear. induction (snodup a) as [|x l IH]; cbn; auto. }
  rewrite E. cbn [app]. apply (merge_overlap_rejected (b :: rest) 1 _ i).
  - rewrite map_map. cbn. rewrite map_id. apply snodup_in. exact Ha.
  - exists b. split; [left; reflexivity|exact Hb].
Qed.

Theorem merged_ids_spec t i : In i (merged_ids t) <-> In i (map fst t).
Proof. unfold merged_ids. apply ssort_in. Qed.
Theorem merged_ids_sorted t : Sorted sle (merged_ids t).
Proof. apply ssort_sorted. Qed.

(* ---------- Filter / CheckIds ---------- *)
Theorem filter_ids_spec p ids i : In i (filter_ids p ids) <-> In i ids /\ p i = true.
Proof. apply filter_In. Qed.
Theorem filter_stacked p q ids : filter_ids q (filter_ids p ids) = filter_ids (fun i => p i && q i) ids.
Proof.
  unfold filter_ids. induction ids as [|a l IH]; [reflexivity|]. cbn. destruct (p a); cbn; [destruct (q a); cbn; rewrite IH; reflexivity|exact IH].
Qed.
(* the original order is kept: filtering commutes with taking any prefix/suffix split *)
Theorem filter_keeps_order p a b : filter_ids p (a ++ b) = filter_ids p a ++ filter_ids p b.
Proof. apply filter_app. Qed.
Theorem keep_drop_spec sel ids i :
  (In i (filter_ids (keep_pred sel) ids) <-> In i ids /\ In i sel) /\ (In i (filter_ids (drop_pred sel) ids) <-> In i ids /\ ~ In i sel).
Proof.
  unfold filter_ids, keep_pred, drop_pred. rewrite !filter_In, negb_true_iff, lmem_In, lmem_false. tauto.
Qed.
Theorem check_id_spec ids i : check_id ids i = true <-> In i ids.
Proof. apply lmem_In. Qed.

(* ---------- Join ---------- *)
Theorem join_partition l r k :
  (In k (join_inner l r) <-> In k (map snd l) /\ In k (map snd r)) /\
  (In k (join_left_only l r) <-> In k (map snd l) /\ ~ In k (map snd r)) /\
  (In k (join_right_only l r) <-> In k (map snd r) /\ ~ In k (map snd l)).
Proof.
  unfold join_inner, join_left_only, join_right_only, keys_of.
  rewrite !filter_In, !negb_true_iff, !lmem_In, !lmem_false, !snodup_in. tauto.
Qed.
Theorem join_ids_spec how l r k :
  In k (join_ids how l r) <->
  (In k (map snd l) /\ In k (map snd r)) \/
  (ids_uses_left how = true /\ In k (map snd l) /\ ~ In k (map snd r)) \/
  (ids_uses_right how = true /\ In k (map snd r) /\ ~ In k (map snd l)).
Proof.
  unfold join_ids. rewrite sset_in, !in_app_iff.
  destruct (join_partition l r k) as (A & B & C). rewrite A.
  destruct (ids_uses_left how), (ids_uses_right how); cbn [In]; rewrite ?B, ?C; intuition congruence.
Qed.
Theorem join_ids_sorted how l r : Sorted sle (join_ids how l r).
Proof. apply ssort_sorted. Qed.
Theorem join_modes :
  (forall l r k, In k (join_ids JInner l r) <-> In k (map snd l) /\ In k (map snd r)) /\
  (forall l r k, In k (join_ids JLeft l r) <-> In k (map snd l)) /\
  (forall l r k, In k (join_ids JRight l r) <-> In k (map snd r)) /\
  (forall l r k, In k (join_ids JOuter l r) <-> In k (map snd l) \/ In k (map snd r)).
Proof.
  repeat split; intros; try (apply join_ids_spec in H; cbn in H); try (apply join_ids_spec; cbn);
    try (destruct (in_dec string_dec k (map snd l)); destruct (in_dec string_dec k (map snd r))); intuition congruence.
Qed.
Theorem join_entry_spec side k i : join_entry side k = Some i -> In (i, k) side.
Proof.
  unfold join_entry, ids_with. induction side as [|[a b] s IH]; cbn; [discriminate|].
  destruct (String.eqb_spec b k); cbn; [intros [= <-]; subst; auto|auto].
Qed.
Theorem join_entry_none side k : join_entry side k = None <-> ~ In k (map snd side).
Proof.
  unfold join_entry, ids_with. induction side as [|[a b] s IH]; cbn; [tauto|].
  destruct (String.eqb_spec b k); cbn; [subst; split; [discriminate|tauto]|]. rewrite IH. split; [intros H [E|E]; [congruence|tauto]|tauto].
Qed.
(* duplicate keys on a side are exactly what dup_keys detects (JoinMapping rejects them through reverse_func) *)
Theorem dup_keys_spec side : dup_keys side = false <-> forall k, List.length (ids_with side k) <= 1.
Proof.
  unfold dup_keys. split.
  - intros H k. destruct (in_dec string_dec k (map snd side)) as [Hin|Hn].
    + assert (Hk : In k (keys_of side)) by (apply snodup_in; exact Hin).
      destruct (Nat.ltb 1 (List.length (ids_with side k))) eqn:E; [|apply Nat.ltb_ge in E; exact E].
      exfalso. assert (existsb (fun k0 => Nat.ltb 1 (List.length (ids_with side k0))) (keys_of side) = true); [|congruence].
      apply existsb_exists. exists k. auto.
    + unfold ids_with. assert (filter (fun e : string * string => String.eqb (snd e) k) side = []) as ->; [|cbn; lia].
      clear - Hn. induction side as [|[a b] s IH]; cbn in *; [reflexivity|]. destruct (String.eqb_spec b k); [tauto|apply IH; tauto].
  - intros H. destruct (existsb _ (keys_of side)) eqn:E; [|reflexivity]. apply existsb_exists in E as [k [_ Hk]].
    apply Nat.ltb_lt in Hk. specialize (H k). lia.
Qed.

(* ---------- GroupBy ---------- *)
Theorem group_partition ids key i : In i ids ->
  In (key i) (group_keys ids key) /\ In i (group_members ids key (key i)) /\
  forall k, In i (group_members ids key k) -> k = key i.
Proof.
  intros Hi. unfold group_keys, group_members. repeat split.
  - apply sset_in. apply in_map. exact Hi.
  - apply ssort_in, filter_In. split; [exact Hi|apply String.eqb_refl].
  - intros k H. apply ssort_in, filter_In in H as [_ H]. apply String.eqb_eq in H. congruence.
Qed.
Theorem group_members_spec ids key k i : In i (group_members ids key k) <-> In i ids /\ key i = k.
Proof. unfold group_members. rewrite ssort_in, filter_In, String.eqb_eq. tauto. Qed.
Theorem group_keys_spec ids key k : In k (group_keys ids key) <-> exists i, In i ids /\ key i = k.
Proof.
  unfold group_keys. rewrite sset_in, in_map_iff. split; intros [i [A B]]; exists i; tauto.
Qed.
Theorem group_sorted ids key k : Sorted sle (group_keys ids key) /\ Sorted sle (group_members ids key k).
Proof. split; apply ssort_sorted. Qed.

(* ---------- Split ---------- *)
Theorem split_pairs_spec ids parts new old part :
  In (new, (old, part)) (split_pairs ids parts) <-> In old ids /\ In (new, part) (parts old).
Proof.
  unfold split_pairs. rewrite in_flat_map. split.
  - intros [o [Ho Hin]]. apply in_map_iff in Hin as [[n p] [E Hp]]. cbn in E. injection E as <- <- <-. auto.
  - intros [Ho Hp]. exists old. split; [exact Ho|]. apply in_map_iff. exists (new, part). auto.
Qed.
Theorem split_ids_spec ids parts new : In new (split_ids ids parts) <-> exists old part, In old ids /\ In (new, part) (parts old).
Proof.
  unfold split_ids. rewrite ssort_in, in_map_iff. split.
  - intros [[n [o p]] [E H]]. cbn in E. subst n. apply split_pairs_spec in H. exists o, p. exact H.
  - intros (o & p & H). exists (new, (o, p)). split; [reflexivity|apply split_pairs_spec; exact H].
Qed.
(* without collisions every new id has exactly one (old id, part) *)
Theorem split_unique ids parts new a b :
  split_collides ids parts = false ->
  In (new, a) (split_pairs ids parts) -> In (new, b) (split_pairs ids parts) -> a = b.
Proof.
  unfold split_collides. intros Hc. apply negb_false_iff, Nat.eqb_eq in Hc.
  assert (Hnd : NoDup (map fst (split_pairs ids parts))).
  { generalize dependent (map fst (split_pairs ids parts)). intros l. induction l as [|x l IH]; cbn; [constructor|].
    destruct (lmem x l) eqn:E; intros H.
    - exfalso. pose proof (snodup_nodup l) as Hn.
      assert (List.length (snodup l) <= List.length l).
      { clear. induction l as [|y l IH]; cbn; [lia|]. destruct (lmem y l); cbn; lia. }
      lia.
    - cbn in H. constructor; [apply lmem_false; exact E|apply IH; lia]. }
  clear Hc. generalize dependent (split_pairs ids parts). intros l Hnd. induction l as [|[n v] l IH]; cbn; [tauto|].
  inversion Hnd as [|? ? Hx Hnd']; subst. intros [E1|H1] [E2|H2].
  - congruence.
  - injection E1 as -> ->. exfalso. apply Hx. apply in_map_iff. exists (new, b). auto.
  - injection E2 as -> ->. exfalso. apply Hx. apply in_map_iff. exists (new, a). auto.
  - apply IH; assumption.
Qed.
