(* All the facts about the relational model (kept for files that want everything). *)
From Connectome Require Export SortFacts MergeFacts FilterFacts JoinFacts GroupFacts SplitFacts.
