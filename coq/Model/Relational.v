(* Relational model of the dataset-wide layers over ids: Merge (layers/merge.py), Filter / CheckIds (filter.py,
   check_ids.py), Join (join.py), GroupBy (group.py), Split (split.py).  Hand-written from the evaluate() bodies
   (the id makers of Join through the regenerated MiscGen facts); tied to /repo by the correspondence of C14-C17. *)
From Connectome Require Import Values NameSet MiscGen.
Local Open Scope list_scope.

(* ---------- sorted(...) on strings ---------- *)
Definition sleb (a b : string) : bool := match String.compare a b with Gt => false | _ => true end.
Fixpoint sinsert (x : string) (l : list string) : list string :=
  match l with [] => [x] | y :: t => if sleb x y then x :: l else y :: sinsert x t end.
Definition ssort (l : list string) : list string := fold_right sinsert [] l.
Fixpoint snodup (l : list string) : list string :=
  match l with [] => [] | x :: t => if lmem x t then snodup t else x :: snodup t end.
Definition sset (l : list string) : list string := ssort (snodup l).      (* tuple(sorted(set(l))) *)

(* ---------- Merge ---------- *)
(* Merge.__init__: id_to_dataset, filled dataset by dataset; an id already present is an error *)
Fixpoint merge_table_from (k : nat) (dss : list (list string)) (acc : list (string * nat)) : option (list (string * nat)) :=
  match dss with
  | [] => Some acc
  | ds :: rest =>
      if existsb (fun i => lmem i (map fst acc)) (snodup ds) then None
      else merge_table_from (S k) rest (acc ++ map (fun i => (i, k)) (snodup ds))
  end.
Definition merge_table (dss : list (list string)) : option (list (string * nat)) := merge_table_from 0 dss [].
Fixpoint slookup {V} (t : list (string * V)) (k : string) : option V :=
  match t with [] => None | (k', v) :: r => if String.eqb k k' then Some v else slookup r k end.
Definition merged_ids (t : list (string * nat)) : list string := ssort (map fst t).

(* ---------- Filter / CheckIds ---------- *)
Definition filter_ids (p : string -> bool) (ids : list string) : list string := filter p ids.
Definition keep_pred (sel : list string) (i : string) : bool := lmem i sel.
Definition drop_pred (sel : list string) (i : string) : bool := negb (lmem i sel).
Definition check_id (ids : list string) (i : string) : bool := lmem i ids.       (* true: the value passes; false: KeyError *)

(* ---------- Join ---------- *)
(* JoinMapping.evaluate: key -> ids with that key, per side; a key reached twice on one side is an error *)
Definition keys_of (side : list (string * string)) : list string := snodup (map snd side).
Definition ids_with (side : list (string * string)) (k : string) : list string :=
  map fst (filter (fun e => String.eqb (snd e) k) side).
Definition dup_keys (side : list (string * string)) : bool :=
  existsb (fun k => Nat.ltb 1 (List.length (ids_with side k))) (keys_of side).
Definition join_inner (l r : list (string * string)) : list string := filter (fun k => lmem k (keys_of r)) (keys_of l).
Definition join_left_only (l r : list (string * string)) : list string := filter (fun k => negb (lmem k (keys_of r))) (keys_of l).
Definition join_right_only (l r : list (string * string)) : list string := filter (fun k => negb (lmem k (keys_of l))) (keys_of r).
(* ids_maker(how), regenerated: which one-sided key sets are united with the inner one *)
Definition join_ids (how : join_mode) (l r : list (string * string)) : list string :=
  sset (join_inner l r ++ (if ids_uses_left how then join_left_only l r else [])
                       ++ (if ids_uses_right how then join_right_only l r else [])).
(* id_maker(side): the entry of that side with the key, if any *)
Definition join_entry (side : list (string * string)) (k : string) : option string := hd_error (ids_with side k).

(* ---------- GroupBy ---------- *)
Definition group_keys (ids : list string) (key : string -> string) : list string := sset (map key ids).
Definition group_members (ids : list string) (key : string -> string) (k : string) : list string :=
  ssort (filter (fun i => String.eqb (key i) k) ids).

(* ---------- Split ---------- *)
(* SplitMapping.evaluate: {new: (old, part)}; a new id produced twice is an error *)
Definition split_pairs (ids : list string) (parts : string -> list (string * string)) : list (string * (string * string)) :=
  flat_map (fun old => map (fun np => (fst np, (old, snd np))) (parts old)) ids.
Definition split_collides (ids : list string) (parts : string -> list (string * string)) : bool :=
  let news := map fst (split_pairs ids parts) in negb (Nat.eqb (List.length (snodup news)) (List.length news)).
Definition split_ids (ids : list string) (parts : string -> list (string * string)) : list string :=
  ssort (map fst (split_pairs ids parts)).

(* ---------- comparison helpers for the case shards ---------- *)
Definition sl_eqb := list_eqb String.eqb.
Definition tab_fun {V} (d : V) (t : list (string * V)) (k : string) : V := match slookup t k with Some v => v | None => d end.

Record merge_case := { mg_sets : list (list string); mg_built : bool; mg_ids : list string;
                       mg_rows : list (string * option nat) }.     (* probed id, observed owner (None: rejected) *)
Definition check_merge (c : merge_case) : nat :=
  match merge_table (mg_sets c) with
  | None => if mg_built c then 1 else 0
  | Some t =>
      if negb (mg_built c) then 1
      else if negb (sl_eqb (merged_ids t) (mg_ids c)) then 2
      else if forallb (fun row => match slookup t (fst row), snd row with
                                  | Some k, Some k' => Nat.eqb k k' | None, None => true | _, _ => false end) (mg_rows c)
           then 0 else 3
  end.

Record filter_case := { fl_ids : list string; fl_truth : list (string * bool); fl_new : list string }.
Definition check_filter (c : filter_case) : nat :=
  if sl_eqb (filter_ids (tab_fun false (fl_truth c)) (fl_ids c)) (fl_new c) then 0 else 1.

Record join_case := { jn_how : join_mode; jn_left : list (string * string); jn_right : list (string * string);
                      jn_built : bool; jn_ids : list string;
                      jn_rows : list (string * (option string * option string)) }.  (* id, observed left / right source id *)
Definition check_join (c : join_case) : nat :=
  if dup_keys (jn_left c) || dup_keys (jn_right c) then (if jn_built c then 1 else 0)
  else if negb (jn_built c) then 1
  else if negb (sl_eqb (join_ids (jn_how c) (jn_left c) (jn_right c)) (jn_ids c)) then 2
  else if forallb (fun row =>
            let k := fst row in
            let opt_eqb a b := match a, b with Some x, Some y => String.eqb x y | None, None => true | _, _ => false end in
            opt_eqb (join_entry (jn_left c) k) (fst (snd row)) && opt_eqb (join_entry (jn_right c) k) (snd (snd row)))
          (filter (fun row => lmem (fst row) (jn_ids c)) (jn_rows c))
       then 0 else 3.

Record group_case := { gr_ids : list string; gr_key : list (string * string); gr_new : list string;
                       gr_rows : list (string * list string) }.        (* group key, observed members in dict order *)
Definition check_group (c : group_case) : nat :=
  let key := tab_fun "" (gr_key c) in
  if negb (sl_eqb (group_keys (gr_ids c) key) (gr_new c)) then 1
  else if forallb (fun row => sl_eqb (group_members (gr_ids c) key (fst row)) (snd row)) (gr_rows c) then 0 else 2.

Record split_case := { sp_ids : list string; sp_parts : list (string * list (string * string)); sp_built : bool;
                       sp_new : list string; sp_rows : list (string * (string * string)) }.   (* new id, observed (old, part) *)
Definition check_split (c : split_case) : nat :=
  let parts := tab_fun [] (sp_parts c) in
  if split_collides (sp_ids c) parts then (if sp_built c then 1 else 0)
  else if negb (sp_built c) then 1
  else if negb (sl_eqb (split_ids (sp_ids c) parts) (sp_new c)) then 2
  else if forallb (fun row => match slookup (split_pairs (sp_ids c) parts) (fst row) with
                              | Some (o, p) => String.eqb o (fst (snd row)) && String.eqb p (snd (snd row)) | None => false end)
                  (sp_rows c) then 0 else 3.
