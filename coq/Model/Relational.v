(* Relational model of the dataset-wide layers over ids: Merge (layers/merge.py), Filter / CheckIds (filter.py,
   check_ids.py), Join (join.py), GroupBy (group.py), Split (split.py).  The functions on id tables are REGENERATED from the evaluate() bodies
   (Gen/MergeGen.v, FilterGen.v, JoinMapGen.v, GroupGen.v, SplitGen.v; the id makers of Join through JoinGen.v); the comparisons for the case shards below are hand-written. *)
From Connectome Require Import Values NameSet JoinGen.
From Connectome Require Export RelBase MergeGen FilterGen JoinMapGen GroupGen SplitGen.
Local Open Scope list_scope.

(* ---------- comparison helpers for the case shards ---------- *)

Record merge_case := { mg_sets : list (list string); mg_built : bool; mg_ids : list string;
                       mg_rows : list (string * option nat) }.     (* probed id, observed owner (None: rejected) *)
Definition check_merge (c : merge_case) : nat :=
  match merge_table (mg_sets c) with
  | None => if mg_built c then 1 else 0
  | Some t =>
      if negb (mg_built c) then 1
      else if negb (sl_eqb (merged_ids t) (mg_ids c)) then 2
      else if forallb (fun row => match slookup t (fst row), snd row with
                                  | Some k, Some k' => Nat.eqb k k' | None, None => true | _, _ => false end) (mg_rows c)
           then 0 else 3
  end.

Record filter_case := { fl_ids : list string; fl_truth : list (string * bool); fl_new : list string }.
Definition check_filter (c : filter_case) : nat :=
  if sl_eqb (filter_ids (tab_fun false (fl_truth c)) (fl_ids c)) (fl_new c) then 0 else 1.

Record join_case := { jn_how : join_mode; jn_left : list (string * string); jn_right : list (string * string);
                      jn_built : bool; jn_ids : list string;
                      jn_rows : list (string * (option string * option string)) }.  (* id, observed left / right source id *)
Definition check_join (c : join_case) : nat :=
  if dup_keys (jn_left c) || dup_keys (jn_right c) then (if jn_built c then 1 else 0)
  else if negb (jn_built c) then 1
  else if negb (sl_eqb (join_ids (jn_how c) (jn_left c) (jn_right c)) (jn_ids c)) then 2
  else if forallb (fun row =>
            let k := fst row in
            let opt_eqb a b := match a, b with Some x, Some y => String.eqb x y | None, None => true | _, _ => false end in
            opt_eqb (join_entry (jn_left c) k) (fst (snd row)) && opt_eqb (join_entry (jn_right c) k) (snd (snd row)))
          (filter (fun row => lmem (fst row) (jn_ids c)) (jn_rows c))
       then 0 else 3.

Record group_case := { gr_ids : list string; gr_key : list (string * string); gr_new : list string;
                       gr_rows : list (string * list string) }.        (* group key, observed members in dict order *)
Definition check_group (c : group_case) : nat :=
  let key := tab_fun "" (gr_key c) in
  if negb (sl_eqb (group_keys (gr_ids c) key) (gr_new c)) then 1
  else if forallb (fun row => sl_eqb (group_members (gr_ids c) key (fst row)) (snd row)) (gr_rows c) then 0 else 2.

Record split_case := { sp_ids : list string; sp_parts : list (string * list (string * string)); sp_built : bool;
                       sp_new : list string; sp_rows : list (string * (string * string)) }.   (* new id, observed (old, part) *)
Definition check_split (c : split_case) : nat :=
  let parts := tab_fun [] (sp_parts c) in
  if split_collides (sp_ids c) parts then (if sp_built c then 1 else 0)
  else if negb (sp_built c) then 1
  else if negb (sl_eqb (split_ids (sp_ids c) parts) (sp_new c)) then 2
  else if forallb (fun row => match slookup (split_pairs (sp_ids c) parts) (fst row) with
                              | Some (o, p) => String.eqb o (fst (snd row)) && String.eqb p (snd (snd row)) | None => false end)
                  (sp_rows c) then 0 else 3.
