(* Contexts and loopback (containers/context.py BagContext / ChainContext / IdentityContext, containers/base.py
   EdgesBag.loopback, layers/base.py _decorate) for chains of layers, at name level: one forward field x, any
   number of backward fields.  Hand-written; tied to /repo by the correspondence of C10. *)
From Connectome Require Import Values.
Local Open Scope list_scope.

Definition sym (p : string) (i : nat) : string := p ++ String (Ascii.ascii_of_nat (48 + i)) "".
Definition env := list (string * val).          (* the backward fields that are reachable, with their values *)
Fixpoint elookup (e : env) (n : string) : option val :=
  match e with [] => None | (k, v) :: t => if String.eqb n k then Some v else elookup t n end.
Fixpoint smem (n : string) (l : list string) : bool :=
  match l with [] => false | k :: t => String.eqb n k || smem n t end.
Fixpoint all_some {A} (l : list (option A)) : option (list A) :=
  match l with
  | [] => Some []
  | Some x :: t => match all_some t with Some r => Some (x :: r) | None => None end
  | None :: _ => None
  end.

(* a layer: its forward part on x, its @inverse fields, what it inherits *)
Inductive fwd := FDef (with_param : bool) | FInherit.      (* x = F(x[, _p]), or x passes iff it is inherited *)
Inductive inh := InhAll | InhList (l : list string).
Record bdef := { bd_out : string; bd_fn : string; bd_args : list string; bd_param : bool }.
Record blayer := { bl_id : nat; bl_fwd : fwd; bl_defs : list bdef; bl_inh : inh; bl_cache : bool }.
Definition inherits (i : inh) (n : string) : bool := match i with InhAll => true | InhList l => smem n l end.

(* the context of a layer, holding the forward value of its parameter as it is when the layer is connected *)
Inductive ctx :=
| CId                                               (* IdentityContext: propagate everything *)
| CBag (defs : list bdef) (i : inh) (param : val)   (* BagContext: backward inputs, backward outputs, inherit *)
| CChain (prev cur : ctx).                          (* ChainContext(previous, current) *)

(* BagContext.reverse: stitch the backward inputs that are present, keep the backward outputs whose inputs are all
   reachable, let inherited names that the layer does not define pass through *)
Definition bstep (defs : list bdef) (i : inh) (param : val) (e : env) : env :=
  flat_map (fun d => match all_some (map (elookup e) (bd_args d)) with
                     | Some vs => [(bd_out d, VApp (bd_fn d) (vs ++ if bd_param d then [param] else []) [])]
                     | None => [] end) defs
  ++ filter (fun nv => inherits i (fst nv) && negb (smem (fst nv) (map bd_out defs))) e.

Fixpoint reverse (c : ctx) (e : env) : env :=
  match c with
  | CId => e
  | CBag defs i p => bstep defs i p e
  | CChain prev cur => reverse prev (reverse cur e)       (* current first, then previous *)
  end.

(* one layer connected after the forward value x (None: x is no longer available) *)
Definition param_of (l : blayer) (x : val) : val := VApp (sym "P" (bl_id l)) [x] [].
Definition fwd_layer (l : blayer) (x : option val) : option val :=
  if bl_cache l then x
  else match bl_fwd l, x with
       | FDef true, Some v => Some (VApp (sym "F" (bl_id l)) [v; param_of l v] [])
       | FDef false, Some v => Some (VApp (sym "F" (bl_id l)) [v] [])
       | FInherit, _ => if inherits (bl_inh l) "x" then x else None
       | FDef _, None => None
       end.
Definition ctx_layer (l : blayer) (x : option val) : ctx :=
  if bl_cache l then CId
  else CBag (bl_defs l) (bl_inh l) (match x with Some v => param_of l v | None => VNone end).

(* Chain(l1, ..., ln): connect_bags from the left, ChainContext(left.context, right.context) *)
Fixpoint connect_chain (x : option val) (c : ctx) (ls : list blayer) : option val * ctx :=
  match ls with
  | [] => (x, c)
  | l :: rest => connect_chain (fwd_layer l x) (CChain c (ctx_layer l x)) rest
  end.
Definition chain (x0 : val) (ls : list blayer) : option val * ctx :=
  match ls with
  | [] => (Some x0, CId)
  | l :: rest => connect_chain (fwd_layer l (Some x0)) (ctx_layer l (Some x0)) rest
  end.

(* layer._decorate('x', outs, final)(f) applied to x0: forward through the chain, f (field o of its result is
   f_o(x)), back through the contexts; rejected when a requested field is not reachable *)
Definition f_outputs (outs : list string) (x : val) : env := map (fun o => (o, VApp ("f_" ++ o) [x] [])) outs.
Definition loopback (x0 : val) (ls : list blayer) (outs final : list string) : option (list val) :=
  match chain x0 ls with
  | (Some x, c) => all_some (map (elookup (reverse c (f_outputs outs x))) final)
  | (None, _) => None
  end.

(* ---------- the specification, as the property states it ---------- *)
Fixpoint forward (x : option val) (ls : list blayer) : option val :=
  match ls with [] => x | l :: rest => forward (fwd_layer l x) rest end.
(* the backward parts of the layers in reverse order; each sees the parameter computed in ITS layer's forward pass *)
Fixpoint backward (x : option val) (ls : list blayer) (e : env) : env :=
  match ls with
  | [] => e
  | l :: rest => reverse (ctx_layer l x) (backward (fwd_layer l x) rest e)
  end.
Definition loopback_spec (x0 : val) (ls : list blayer) (outs final : list string) : option (list val) :=
  match forward (Some x0) ls with
  | Some x => all_some (map (elookup (backward (Some x0) ls (f_outputs outs x))) final)
  | None => None
  end.

(* ---------- the six layer kinds of the first version of this model, as instances ---------- *)
Inductive lkind :=
| KInv (i : nat)            (* _p = P_i(x); x = F_i(x, _p); y = inverse I_i(y, _p) *)
| KInvNoParam (i : nat)     (* x = F_i(x); y = inverse I_i(y) *)
| KInhAll                   (* Transform(__inherit__=True): no fields *)
| KInhList                  (* Transform(__inherit__=['x', 'y']) *)
| KFwdOnly (i : nat)        (* x = F_i(x), no inverse, nothing inherited *)
| KCache.                   (* CacheToRam(): IdentityContext *)
Definition layer_of (k : lkind) : blayer :=
  match k with
  | KInv i => {| bl_id := i; bl_fwd := FDef true; bl_defs := [{| bd_out := "y"; bd_fn := sym "I" i; bd_args := ["y"]; bd_param := true |}];
                 bl_inh := InhList []; bl_cache := false |}
  | KInvNoParam i => {| bl_id := i; bl_fwd := FDef false; bl_defs := [{| bd_out := "y"; bd_fn := sym "I" i; bd_args := ["y"]; bd_param := false |}];
                        bl_inh := InhList []; bl_cache := false |}
  | KInhAll => {| bl_id := 0; bl_fwd := FInherit; bl_defs := []; bl_inh := InhAll; bl_cache := false |}
  | KInhList => {| bl_id := 0; bl_fwd := FInherit; bl_defs := []; bl_inh := InhList ["x"; "y"]; bl_cache := false |}
  | KFwdOnly i => {| bl_id := i; bl_fwd := FDef false; bl_defs := []; bl_inh := InhList []; bl_cache := false |}
  | KCache => {| bl_id := 0; bl_fwd := FInherit; bl_defs := []; bl_inh := InhAll; bl_cache := true |}
  end.

(* ---------- comparison with the real layers (case shards of C10) ---------- *)
Record lb_case := { lb_layers : list blayer; lb_outs : list string; lb_final : list string; lb_result : option (list val) }.
Definition check_loopback (c : lb_case) : nat :=
  match loopback (VStr "x0") (lb_layers c) (lb_outs c) (lb_final c), lb_result c with
  | Some v, Some w => if list_eqb veqb v w then 0 else 1
  | None, None => 0
  | _, _ => 2
  end.
