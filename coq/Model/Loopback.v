(* Contexts and loopback (containers/context.py BagContext / ChainContext / IdentityContext / NoContext,
   containers/base.py EdgesBag.loopback) for chains of the layer kinds below, at name level: one forward field x,
   one backward field y.  Hand-written; tied to /repo by the correspondence of C10. *)
From Connectome Require Import Values.
Local Open Scope list_scope.

Inductive lkind :=
| KInv (i : nat)            (* _p = P_i(x); x = F_i(x, _p); y = inverse I_i(y, _p) *)
| KInvNoParam (i : nat)     (* x = F_i(x); y = inverse I_i(y) *)
| KInhAll                   (* Transform(__inherit__=True): no fields *)
| KInhList                  (* Transform(__inherit__=['x', 'y']) *)
| KFwdOnly (i : nat)        (* x = F_i(x), no inverse, nothing inherited *)
| KCache.                   (* CacheToRam(): IdentityContext *)

Definition sym (p : string) (i : nat) : string := p ++ String (Ascii.ascii_of_nat (48 + i)) "".

(* the context of a layer, with the forward expressions of its parameters as they are when the layer is connected *)
Inductive ctx :=
| CId                                   (* IdentityContext: propagate everything *)
| CInv (i : nat) (param : option val)   (* BagContext of an invertible layer; Some p: the forward value of _p *)
| CInherit                              (* BagContext with no backward fields, y inherited *)
| CNothing                              (* BagContext with no backward fields and nothing inherited *)
| CChain (prev cur : ctx).              (* ChainContext(previous, current) *)

(* one layer: the new forward value of x and the layer's context *)
Definition connect_layer (x : val) (k : lkind) : val * ctx :=
  match k with
  | KInv i => let p := VApp (sym "P" i) [x] [] in (VApp (sym "F" i) [x; p] [], CInv i (Some p))
  | KInvNoParam i => (VApp (sym "F" i) [x] [], CInv i None)
  | KInhAll | KInhList => (x, CInherit)
  | KFwdOnly i => (VApp (sym "F" i) [x] [], CNothing)
  | KCache => (x, CId)
  end.

(* Chain(l1, ..., ln): connect_bags from the left, ChainContext(left.context, right.context) *)
Fixpoint connect_chain (x : val) (c : ctx) (ks : list lkind) : val * ctx :=
  match ks with
  | [] => (x, c)
  | k :: rest => let (x', ck) := connect_layer x k in connect_chain x' (CChain c ck) rest
  end.
Definition chain (x0 : val) (ks : list lkind) : val * ctx :=
  match ks with
  | [] => (x0, CId)
  | k :: rest => let (x, c) := connect_layer x0 k in connect_chain x c rest
  end.

(* Context.reverse on the single backward value y: None when y is not among the outputs any more *)
Fixpoint reverse (c : ctx) (y : option val) : option val :=
  match c with
  | CId => y
  | CInv i p => match y with
                | Some v => Some (VApp (sym "I" i) (v :: match p with Some pv => [pv] | None => [] end) [])
                | None => None end
  | CInherit => y
  | CNothing => None
  | CChain prev cur => reverse prev (reverse cur y)       (* current first, then previous *)
  end.

(* layer._decorate('x', 'y')(f) applied to x0: forward through the chain, f, back through the contexts *)
Definition loopback (x0 : val) (ks : list lkind) : option val :=
  let (x, c) := chain x0 ks in reverse c (Some (VApp "f" [x] [])).

(* ---------- the specification, as the property states it ---------- *)
Fixpoint forward (x : val) (ks : list lkind) : val :=
  match ks with [] => x | k :: rest => forward (fst (connect_layer x k)) rest end.
(* inverses of the layers in reverse order; each inverse sees the parameter computed in ITS layer's forward pass *)
Fixpoint backward (x : val) (ks : list lkind) (y : val) : option val :=
  match ks with
  | [] => Some y
  | k :: rest =>
      match backward (fst (connect_layer x k)) rest y with
      | None => None
      | Some v =>
          match k with
          | KInv i => Some (VApp (sym "I" i) [v; VApp (sym "P" i) [x] []] [])
          | KInvNoParam i => Some (VApp (sym "I" i) [v] [])
          | KInhAll | KInhList | KCache => Some v
          | KFwdOnly _ => None
          end
      end
  end.
Definition loopback_spec (x0 : val) (ks : list lkind) : option val :=
  backward x0 ks (VApp "f" [forward x0 ks] []).

Record lb_case := { lb_kinds : list lkind; lb_result : option val }.
Definition check_loopback (c : lb_case) : nat :=
  match loopback (VStr "x0") (lb_kinds c), lb_result c with
  | Some v, Some w => if veqb v w then 0 else 1
  | None, None => 0
  | _, _ => 2
  end.
