(* The two stores of a CacheColumns layer and what a request through one of its columns can be observed to do.
   layers/columns.py: `self.ram = MemoryCache(None)` (a dict keyed by NodeHash.value, compared with ==) and
   `self.disk = DiskCache(PickleKeyStorage(...))` (keyed by the digest of the pickled hash), shared by all the
   columns of the layer.  Hand-written; the body of CachedColumn.evaluate over these stores is regenerated
   (Gen/ColumnsGen.v). *)
From Connectome Require Import Values.

Inductive cevent :=
| CHash (col : nat) (k : val)       (* the hash pass of column col for entry k: graph.get_hash(k), or the same
                                       computation made by the calling VM to obtain CurrentHash *)
| CValue (col : nat) (k : val)      (* graph.get_value on the state of k *)
| CKeyReq                           (* ParentValue 1: the key is evaluated upstream *)
| CKeysReq.                         (* ParentValue 2: `ids` is evaluated upstream *)

Record colstore := { ram : list (nhash * val); disk : list (nhash * val) }.
Definition colstore0 : colstore := {| ram := []; disk := [] |}.

Inductive cres := COk (v : val) | CErr (e : exn).

Fixpoint afind (eq : nhash -> nhash -> bool) (l : list (nhash * val)) (h : nhash) : option val :=
  match l with [] => None | (h', v) :: t => if eq h h' then Some v else afind eq t h end.

Section Stores.
Variables req deq : nhash -> nhash -> bool.      (* == on NodeHash.value; equality of digests *)
Definition ram_get (st : colstore) (h : nhash) : option val := afind req (ram st) h.
Definition ram_set (st : colstore) (h : nhash) (v : val) : colstore := {| ram := (h, v) :: ram st; disk := disk st |}.
Definition disk_get (st : colstore) (h : nhash) : option val := afind deq (disk st) h.
Definition disk_set (st : colstore) (h : nhash) (v : val) : colstore := {| ram := ram st; disk := (h, v) :: disk st |}.
End Stores.

(* a new process over the same folders: the RAM table is gone, the disk store stays *)
Definition new_process (st : colstore) : colstore := {| ram := []; disk := disk st |}.
