(* Small concrete graphs used as non-vacuity witnesses by the property files. *)
From Connectome Require Import Values Attrs VM Edges.

Definition ex_g : graph :=
  [Leaf;
   Inner (EFunc "f" 1 [] []) [0];
   Inner (EFunc "g" 2 [] []) [1; 1];
   Inner (EFunc "h" 3 ["y"] []) [2; 1; 0];
   Inner (ESwitch [(VStr "k1", 0); (VStr "k2", 1)] 2) [0; 2; 3];
   Inner (EByValue (EFunc "bv" 1 [] [])) [4];
   Inner EBarrier [5];
   Inner (EProduct 2) [6; 3]].
Definition ex_ins : list (nat * val) := [(0, VStr "k2")].
Definition ex_apply (f : string) (pos : list val) (kw : list (string * val)) : val := VApp f pos kw.


(* x -> f -> [cache 0] -> g -> [cache 1] *)
Definition c04_g (gname : string) : graph :=
  [Leaf; Inner (EFunc "f" 1 [] []) [0]; Inner (ECache 0) [1]; Inner (EFunc gname 1 [] []) [2]; Inner (ECache 1) [3]].
Definition c04_val (gname key : string) : val := VApp gname [VApp "f" [VStr key] []] [].

