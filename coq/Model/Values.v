(* Values, hashes, requests and generators of the connectome engine model.
   Hand-written; tied to /repo by the correspondence checks (tools/props/*.py) and by the
   regenerated kernels in Gen/*.v.  Stdlib only. *)
From Coq Require Export List Arith Bool String ZArith Lia.
Export ListNotations.
Open Scope string_scope.
Open Scope nat_scope.

(* ---------- Python values, as far as the pipelines under study produce them ----------
   User functions are uninterpreted: the harness uses symbolic functions returning [VApp f pos kw].
   Leaves carry their Python type because `==` (RAM cache keys, NodeHash.__eq__) identifies 1, 1.0 and True
   while the pickled digest does not. *)
Inductive val :=
| VStr (s : string)
| VInt (z : Z)
| VFlt (z : Z)                       (* the float whose value is the integer z *)
| VBool (b : bool)
| VNone
| VNat (n : nat)                     (* engine-internal payloads: branch indices *)
| VFun (f : string)                  (* a function object used as data: LeafHash(self.to_key) *)
| VTuple (xs : list val)
| VDict (kv : list (val * val))
| VApp (f : string) (pos : list val) (kw : list (string * val)).

(* ---------- node hashes: NodeHash.value of engine/node_hash.py, constructor for constructor ---------- *)
Inductive nhash :=
| HLeaf (v : val)                                             (* (0, data) *)
| HApply (f : string) (args : list nhash) (kw : list string)  (* (1, func, (args...), kw_names) *)
| HGraph (h : nhash)                                          (* (2, output) *)
| HCustom (marker : string) (args : list nhash)               (* (3, marker, *children) *)
| HPlaceholder.                                               (* graph._PLACEHOLDER = LeafHash(object()) *)

(* things that live on the operand stack of vm.execute *)
Inductive sval :=
| SNode (n : nat)
| SVal (v : val)
| SHashOut (h : nhash) (payload : sval)     (* the pair (NodeHash, payload) returned by compute_hash *)
| SHash (h : nhash)
| SNoneS                                    (* Python None pushed by ComputeHash/Evaluate before the first send *)
| STup (xs : list sval).

Inductive req :=
| RParentHash (i : nat)
| RParentValue (i : nat)
| RCurrentHash
| RPayload
| RAwait (rs : list req)
| RCall (f : string) (pos : list val) (kw : list (string * val)).

Inductive exn :=
| EUser (f : string)          (* whatever the user function f raises *)
| EKey (s : string)           (* KeyError raised by library code *)
| EValue (s : string)         (* ValueError raised by library code *)
| EInternal (s : string).     (* anything else escaping from a generator body: TypeError, IndexError, ... *)

(* A suspended Python generator is a finite resumption tree.  [GGet]/[GSet] are the cache accesses that
   CacheEdge.evaluate performs between two yields. *)
Inductive gen :=
| GRet (r : sval)
| GYield (r : req) (k : sval -> gen)
| GRaise (e : exn)
| GGet (c : nat) (key : sval) (k : option sval -> gen)
| GSet (c : nat) (key v : sval) (k : gen).

Inductive which := WH | WC.      (* the two EvictionCaches of a call: hashes, values *)

(* ---------- projections inserted by the translator (Python is untyped, every variable is an sval) ---------- *)
Definition unval (s : sval) : val := match s with SVal v => v | _ => VNone end.
Definition unhash (s : sval) : nhash := match s with SHash h => h | _ => HLeaf VNone end.
Definition untup (s : sval) : list sval := match s with STup xs => xs | _ => [] end.
Definition unnat (s : sval) : nat := match s with SVal (VNat n) => n | _ => 0 end.

Fixpoint zip {A B} (a : list A) (b : list B) : list (A * B) :=
  match a, b with x :: a', y :: b' => (x, y) :: zip a' b' | _, _ => [] end.

Fixpoint replace_nth {A} (i : nat) (x : A) (l : list A) : list A :=
  match l, i with
  | [], _ => []
  | _ :: t, 0 => x :: t
  | h :: t, S j => h :: replace_nth j x t
  end.

(* association lists keyed by nat: the dicts of EvictionCache *)
Fixpoint aget {V} (l : list (nat * V)) (k : nat) : option V :=
  match l with [] => None | (k', v) :: t => if Nat.eqb k k' then Some v else aget t k end.
Fixpoint adel {V} (l : list (nat * V)) (k : nat) : list (nat * V) :=
  match l with [] => [] | (k', v) :: t => if Nat.eqb k k' then adel t k else (k', v) :: adel t k end.
Definition aset {V} (l : list (nat * V)) (k : nat) (v : V) := (k, v) :: adel l k.

(* ---------- decidable equalities ---------- *)
Section ListEq.
Context {A : Type} (eqb : A -> A -> bool).
Fixpoint list_eqb (x y : list A) : bool :=
  match x, y with [], [] => true | p :: x', q :: y' => eqb p q && list_eqb x' y' | _, _ => false end.
End ListEq.

(* structural equality of values: what the pickled digest distinguishes *)
Fixpoint veqb (a b : val) {struct a} : bool :=
  let fix vl (x y : list val) : bool :=
    match x, y with [], [] => true | p :: x', q :: y' => veqb p q && vl x' y' | _, _ => false end in
  let fix kl (x y : list (string * val)) : bool :=
    match x, y with [], [] => true | (s, p) :: x', (t, q) :: y' => String.eqb s t && veqb p q && kl x' y' | _, _ => false end in
  let fix dl (x y : list (val * val)) : bool :=
    match x, y with [], [] => true | (s, p) :: x', (t, q) :: y' => veqb s t && veqb p q && dl x' y' | _, _ => false end in
  match a, b with
  | VStr s, VStr t => String.eqb s t
  | VInt m, VInt k => Z.eqb m k
  | VFlt m, VFlt k => Z.eqb m k
  | VBool m, VBool k => Bool.eqb m k
  | VNone, VNone => true
  | VNat m, VNat k => Nat.eqb m k
  | VFun f, VFun g => String.eqb f g
  | VTuple p, VTuple q => vl p q
  | VDict p, VDict q => dl p q
  | VApp f p k, VApp g q l => String.eqb f g && vl p q && kl k l
  | _, _ => false
  end.

(* Python `==` on the leaves: ints, floats and bools compare by numeric value *)
Definition numval (v : val) : option Z :=
  match v with VInt z | VFlt z => Some z | VBool b => Some (if b then 1%Z else 0%Z) | _ => None end.

(* The result of a user function is an opaque object; the harness represents it by its canonical text, so two
   results are == exactly when they are the same term (the text of 1, 1.0 and True differs). *)
Fixpoint pyeq (a b : val) {struct a} : bool :=
  let fix vl (x y : list val) : bool :=
    match x, y with [], [] => true | p :: x', q :: y' => pyeq p q && vl x' y' | _, _ => false end in
  match a, b with
  | VStr s, VStr t => String.eqb s t
  | VNone, VNone => true
  | VNat m, VNat k => Nat.eqb m k
  | VFun f, VFun g => String.eqb f g
  | VTuple p, VTuple q => vl p q
  | VApp _ _ _, VApp _ _ _ => veqb a b
  | VDict p, VDict q => veqb (VDict p) (VDict q)
  | _, _ => match numval a, numval b with Some m, Some k => Z.eqb m k | _, _ => false end
  end.

Fixpoint heqb_with (leq : val -> val -> bool) (a b : nhash) {struct a} : bool :=
  let fix hl (x y : list nhash) : bool :=
    match x, y with [], [] => true | p :: x', q :: y' => heqb_with leq p q && hl x' y' | _, _ => false end in
  match a, b with
  | HLeaf v, HLeaf w => leq v w
  | HApply f p k, HApply g q l => String.eqb f g && hl p q && list_eqb String.eqb k l
  | HGraph p, HGraph q => heqb_with leq p q
  | HCustom m p, HCustom n q => String.eqb m n && hl p q
  | HPlaceholder, HPlaceholder => true
  | _, _ => false
  end.
Definition heqb := heqb_with veqb.        (* equality of pickled digests (structure and leaf types) *)
Definition hpyeq := heqb_with pyeq.       (* NodeHash.__eq__ / dict key equality inside one process *)

Fixpoint sveqb (a b : sval) {struct a} : bool :=
  let fix sl (x y : list sval) : bool :=
    match x, y with [], [] => true | p :: x', q :: y' => sveqb p q && sl x' y' | _, _ => false end in
  match a, b with
  | SNode n, SNode m => Nat.eqb n m
  | SVal v, SVal w => veqb v w
  | SHashOut h p, SHashOut k q => heqb h k && sveqb p q
  | SHash h, SHash k => heqb h k
  | SNoneS, SNoneS => true
  | STup p, STup q => sl p q
  | _, _ => false
  end.

(* the two shapes of a recursive graph traversal the translator tells apart (Gen/GraphGen.v, Gen/TravGen.v) *)
Inductive trav_shape := Memo | PerPath.
