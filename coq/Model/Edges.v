(* Edge kinds of the engine and their generators, assembled from the regenerated method bodies (Gen/EdgesGen.v)
   along the method resolution order of the classes.  Which class provides which method is hand-written
   here; the correspondence check compares it with the real MRO (tools/props/common.py: mro_table). *)
From Connectome Require Import Values Attrs VM EdgesGen.

Inductive edge :=
| EFunc (f : string) (ar : nat) (kw : list string) (sil : list nat)   (* FunctionEdge *)
| EConst (v : val)                                                   (* ConstantEdge *)
| EIdent                                                             (* IdentityEdge *)
| EProduct (n : nat)                                                 (* ProductEdge *)
| ECache (c : nat)                                                   (* CacheEdge over storage c *)
| EBarrier                                                           (* HashBarrier *)
| EByValue (inner : edge)                                            (* ComputableHashEdge *)
| EImpure (inner : edge)                                             (* ImpureEdge *)
| ESwitch (table : list (val * nat)) (n : nat)                       (* merge.SwitchEdge, n branches *)
| ECheckIds.                                                         (* check_ids.CheckIdsEdge *)

Definition edge_arity (e : edge) : nat :=
  (fix go e := match e with
   | EFunc _ ar _ _ => ar | EConst _ => 0 | EIdent => 1 | EProduct n => n | ECache _ => 1 | EBarrier => 1
   | EByValue i | EImpure i => go i | ESwitch _ n => S n | ECheckIds => 2 end) e.

(* attributes with every field defaulted; each class sets what its __init__ sets *)
Definition attrs0 : attrs := {|
  arity := 0; kw_names := []; silent := []; function := ""; value := VNone; cache := 0; id_to_index := [];
  index := 0; to_key := ""; graph_hash := hnone; left_hash := hnone; right_hash := hnone;
  algorithm := VNone; return_value := VNone;
  edge_evaluate := GRaise (EInternal "no inner edge"); edge_hash_graph := fun _ => None;
  compute_hash_of := fun _ => SNoneS; make_hash_of := fun _ => hnone;
  evaluate_of := fun _ => GRaise (EInternal "abstract _evaluate") |}.

Definition with_arity (a : attrs) (n : nat) : attrs :=
  {| arity := n; kw_names := kw_names a; silent := silent a; function := function a; value := value a;
     cache := cache a; id_to_index := id_to_index a; index := index a; to_key := to_key a;
     graph_hash := graph_hash a; left_hash := left_hash a; right_hash := right_hash a;
     algorithm := algorithm a; return_value := return_value a;
     edge_evaluate := edge_evaluate a; edge_hash_graph := edge_hash_graph a;
     compute_hash_of := compute_hash_of a; make_hash_of := make_hash_of a; evaluate_of := evaluate_of a |}.

(* StaticGraph mixin: _compute_hash and _hash_graph both go through _make_hash *)
Definition static_graph (a : attrs) (mk : attrs -> list nhash -> nhash) (ev : attrs -> list sval -> gen) : attrs :=
  let a1 := {| arity := arity a; kw_names := kw_names a; silent := silent a; function := function a; value := value a;
     cache := cache a; id_to_index := id_to_index a; index := index a; to_key := to_key a;
     graph_hash := graph_hash a; left_hash := left_hash a; right_hash := right_hash a;
     algorithm := algorithm a; return_value := return_value a;
     edge_evaluate := edge_evaluate a; edge_hash_graph := edge_hash_graph a;
     compute_hash_of := compute_hash_of a; make_hash_of := mk a; evaluate_of := ev a |} in
  {| arity := arity a1; kw_names := kw_names a1; silent := silent a1; function := function a1; value := value a1;
     cache := cache a1; id_to_index := id_to_index a1; index := index a1; to_key := to_key a1;
     graph_hash := graph_hash a1; left_hash := left_hash a1; right_hash := right_hash a1;
     algorithm := algorithm a1; return_value := return_value a1;
     edge_evaluate := edge_evaluate a1; edge_hash_graph := edge_hash_graph a1;
     compute_hash_of := StaticGraph_compute_hash a1; make_hash_of := make_hash_of a1; evaluate_of := evaluate_of a1 |}.

Definition no_eval (_ : attrs) (_ : list sval) : gen := GRaise (EInternal "abstract _evaluate").

(* which class' `evaluate` / `_hash_graph` an edge kind resolves to (MRO) *)
Definition eval_gen_aux (e : edge) (self : attrs) : gen :=
  match e with
  | EFunc _ _ _ _ => FunctionEdge_evaluate self
  | EConst _ | EIdent | EProduct _ | ECheckIds => StaticEdge_evaluate self
  | ECache _ => CacheEdge_evaluate self
  | EBarrier => HashBarrier_evaluate self
  | EByValue _ | EImpure _ => ComputableHashBase_evaluate self
  | ESwitch _ _ => SwitchEdge_evaluate self
  end.
Definition hash_graph_aux (e : edge) (self : attrs) : list nhash -> option nhash :=
  match e with
  | EFunc _ _ _ _ | EIdent | EProduct _ | ECache _ | ECheckIds => StaticGraph_hash_graph self
  | EConst _ => ConstantEdge_hash_graph self
  | EBarrier => HashBarrier_hash_graph self
  | EByValue _ => ComputableHashEdge_hash_graph self
  | EImpure _ => ImpureEdge_hash_graph self
  | ESwitch _ _ => SwitchEdge_hash_graph self
  end.


(* the three per-edge entry points of the engine: compute_hash(), evaluate(), hash_graph(inputs) *)
Fixpoint self_of (e : edge) : attrs :=
  match e with
  | EFunc f ar kw sil =>
      static_graph {| arity := ar; kw_names := kw; silent := sil; function := f; value := VNone; cache := 0;
                      id_to_index := []; index := 0; to_key := ""; graph_hash := hnone; left_hash := hnone;
                      right_hash := hnone; algorithm := VNone; return_value := VNone;
                      edge_evaluate := edge_evaluate attrs0; edge_hash_graph := edge_hash_graph attrs0;
                      compute_hash_of := compute_hash_of attrs0; make_hash_of := make_hash_of attrs0;
                      evaluate_of := evaluate_of attrs0 |} FunctionEdge_make_hash no_eval
  | EConst v =>
      let a := {| arity := 0; kw_names := []; silent := []; function := ""; value := v; cache := 0;
                  id_to_index := []; index := 0; to_key := ""; graph_hash := hnone; left_hash := hnone;
                  right_hash := hnone; algorithm := VNone; return_value := VNone;
                  edge_evaluate := edge_evaluate attrs0; edge_hash_graph := edge_hash_graph attrs0;
                  compute_hash_of := compute_hash_of attrs0; make_hash_of := make_hash_of attrs0;
                  evaluate_of := evaluate_of attrs0 |} in
      {| arity := 0; kw_names := []; silent := []; function := ""; value := v; cache := 0;
         id_to_index := []; index := 0; to_key := ""; graph_hash := hnone; left_hash := hnone;
         right_hash := hnone; algorithm := VNone; return_value := VNone;
         edge_evaluate := edge_evaluate attrs0; edge_hash_graph := edge_hash_graph attrs0;
         compute_hash_of := ConstantEdge_compute_hash a; make_hash_of := make_hash_of attrs0;
         evaluate_of := ConstantEdge_evaluate a |}
  | EIdent => static_graph (with_arity attrs0 1) IdentityEdge_make_hash IdentityEdge_evaluate
  | EProduct n => static_graph (with_arity attrs0 n) ProductEdge_make_hash ProductEdge_evaluate
  | ECache c =>
      static_graph {| arity := 1; kw_names := []; silent := []; function := ""; value := VNone; cache := c;
                      id_to_index := []; index := 0; to_key := ""; graph_hash := hnone; left_hash := hnone;
                      right_hash := hnone; algorithm := VNone; return_value := VNone;
                      edge_evaluate := edge_evaluate attrs0; edge_hash_graph := edge_hash_graph attrs0;
                      compute_hash_of := compute_hash_of attrs0; make_hash_of := make_hash_of attrs0;
                      evaluate_of := evaluate_of attrs0 |} CacheEdge_make_hash no_eval
  | EBarrier => with_arity attrs0 1
  | EByValue i | EImpure i =>
      (* ComputableHashBase.__init__: arity of the wrapped edge, self.edge = edge *)
      {| arity := edge_arity i; kw_names := []; silent := []; function := ""; value := VNone; cache := 0;
         id_to_index := []; index := 0; to_key := ""; graph_hash := hnone; left_hash := hnone;
         right_hash := hnone; algorithm := VNone; return_value := VNone;
         edge_evaluate := eval_gen_aux i (self_of i);
         edge_hash_graph := hash_graph_aux i (self_of i);
         compute_hash_of := compute_hash_of attrs0; make_hash_of := make_hash_of attrs0;
         evaluate_of := evaluate_of attrs0 |}
  | ESwitch t n =>
      {| arity := S n; kw_names := []; silent := []; function := ""; value := VNone; cache := 0;
         id_to_index := t; index := 0; to_key := ""; graph_hash := hnone; left_hash := hnone;
         right_hash := hnone; algorithm := VNone; return_value := VNone;
         edge_evaluate := edge_evaluate attrs0; edge_hash_graph := edge_hash_graph attrs0;
         compute_hash_of := compute_hash_of attrs0; make_hash_of := make_hash_of attrs0;
         evaluate_of := evaluate_of attrs0 |}
  | ECheckIds => static_graph (with_arity attrs0 2) CheckIdsEdge_make_hash CheckIdsEdge_evaluate
  end.
Definition eval_gen (e : edge) : gen := eval_gen_aux e (self_of e).

Definition hash_gen (e : edge) : gen :=
  match e with
  | EFunc _ _ _ _ | EConst _ | EIdent | EProduct _ | ECache _ | ECheckIds => StaticHash_compute_hash (self_of e)
  | EBarrier => HashBarrier_compute_hash (self_of e)
  | EByValue _ | EImpure _ => ComputableHashBase_compute_hash (self_of e)
  | ESwitch _ _ => SwitchEdge_compute_hash (self_of e)
  end.

(* Edge.hash_graph: `assert len(inputs) == self.arity`, then _hash_graph *)
Definition edge_hash_graph_of (e : edge) (inputs : list nhash) : option nhash :=
  if Nat.eqb (List.length inputs) (edge_arity e) then hash_graph_aux e (self_of e) inputs else None.

Definition gen_of (w : which) (e : edge) : gen := match w with WH => hash_gen e | WC => eval_gen e end.

(* ---------- graphs with edges ---------- *)
Inductive ndef := Leaf | Inner (e : edge) (ps : list nat).
Definition graph := list ndef.
Definition shape (g : graph) : pgraph := map (fun d => match d with Leaf => None | Inner _ ps => Some ps end) g.
Definition edge_of (g : graph) (n : nat) : option edge :=
  match nth n g Leaf with Inner e _ => Some e | Leaf => None end.
Definition gens_of (g : graph) (w : which) (n : nat) : option gen := option_map (gen_of w) (edge_of g n).
