(* A call through a column of CacheColumns, over the regenerated body of CachedColumn.evaluate (Gen/ColumnsGen.v):
   the calling VM first computes the hash of the column node - which is the hash of the entry it caches
   (CachedColumn.compute_hash propagates input 0), i.e. the same hash pass graph.get_hash(key) makes - and then runs
   evaluate.  Hand-written glue; compared with the real layer on request sequences (tools/props/colmodel.py). *)
From Connectome Require Import Values ShardGen ColStore ColumnsGen.

Section Request.
Variables req deq : nhash -> nhash -> bool.
Variable keq : val -> val -> bool.
Variable sorted : list val -> list val.
Variable get_hash : nat -> val -> option nhash.
Variable get_value : nat -> val -> option val.

Definition column_request (col : nat) (size : option nat) (key : val) (keys : list val) (st : colstore)
  : cres * colstore * list cevent :=
  match get_hash col key with
  | None => (CErr (EUser "get_hash"), st, [CHash col key])
  | Some out =>
      let '(r, st', ev) := column_evaluate req deq keq sorted get_hash get_value col size out key keys st in
      (r, st', CHash col key :: ev)
  end.

(* operations of a history: a request through column col; a new process over the same folders; an entry written into
   the same folders by a CacheToDisk layer (its node hash and value) *)
Inductive colop :=
| QRequest (col : nat) (key : val) (keys : list val)
| QNewProcess
| QForeign (h : nhash) (v : val).

Definition col_step (size : option nat) (st : colstore) (o : colop) : colstore * option (cres * list cevent) :=
  match o with
  | QRequest col key keys => let '(r, st', ev) := column_request col size key keys st in (st', Some (r, ev))
  | QNewProcess => (new_process st, None)
  | QForeign h v => (match disk_get deq st h with Some _ => st | None => disk_set st h v end, None)
  end.

Fixpoint col_run (size : option nat) (st : colstore) (ops : list colop) : list (option (cres * list cevent)) * colstore :=
  match ops with
  | [] => ([], st)
  | o :: t => let (st', out) := col_step size st o in
              let (outs, stf) := col_run size st' t in (out :: outs, stf)
  end.
End Request.

(* the same request while other threads use the two stores: [env n] acts before the n-th store access of this call *)
Section Concurrent.
Variables req deq : nhash -> nhash -> bool.
Variable keq : val -> val -> bool.
Variable sorted : list val -> list val.
Variable get_hash : nat -> val -> option nhash.
Variable get_value : nat -> val -> option val.
Variable env : nat -> colstore -> colstore.
Definition column_request_i (col : nat) (size : option nat) (key : val) (keys : list val) (st : colstore)
  : cres * colstore * list cevent :=
  match get_hash col key with
  | None => (CErr (EUser "get_hash"), st, [CHash col key])
  | Some out =>
      let '(r, st', ev) := column_evaluate_i req deq keq sorted get_hash get_value env col size out key keys st in
      (r, st', CHash col key :: ev)
  end.
End Concurrent.
