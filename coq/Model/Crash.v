(* C12: the two-level content-addressed store behind DiskCache / CacheColumns (tarn PickleKeyStorage over two
   DiskDicts) at the granularity of single file-system mutations, the read path that deletes a corrupted entry, the
   cache edge that reads, computes on a miss, writes and answers from memory, process death at any step and file
   loss afterwards.  Hand-written from tarn/location/disk_dict/location.py (write: exists? / temp file / rename),
   tarn/pool/pickle_key.py (write: blobs first, then the index; _read_for_digest: StorageCorruption deletes the
   entry), connectome/cache/disk.py and CacheEdge / CachedColumn.evaluate; tied to the code by the correspondence of
   C12 (every snapshot of the real directory tree between two mutations, abstracted, against [sstep]). *)
From Coq Require Import List Arith Bool.
Import ListNotations.

Definition blob := nat.                     (* content addressed: a blob file is named by the digest of its content *)
Definition key := nat.                      (* an index entry: the digest of the pickled node hash (one value, or one shard) *)
Inductive idx := IAbsent | IGood (m : list blob) | ITorn.          (* the index file of an entry: missing, a json mapping, truncated *)
Record fs := { blobs : list blob; index : key -> idx; tmps : nat }.

Definition has (l : list blob) (b : blob) : bool := existsb (Nat.eqb b) l.
Definition upd (f : key -> idx) (k : key) (i : idx) : key -> idx := fun k' => if Nat.eqb k' k then i else f k'.
Definition with_blobs (s : fs) (l : list blob) : fs := {| blobs := l; index := index s; tmps := tmps s |}.
Definition with_index (s : fs) (k : key) (i : idx) : fs := {| blobs := blobs s; index := upd (index s) k i; tmps := tmps s |}.
Definition with_tmps (s : fs) (n : nat) : fs := {| blobs := blobs s; index := index s; tmps := n |}.

Fixpoint list_eqb_nat (a b : list nat) : bool :=
  match a, b with
  | [], [] => true
  | x :: a', y :: b' => Nat.eqb x y && list_eqb_nat a' b'
  | _, _ => false
  end.

Fixpoint ninsert (x : nat) (l : list nat) : list nat :=
  match l with [] => [x] | y :: t => if Nat.leb x y then x :: l else y :: ninsert x t end.
Definition nsort (l : list nat) : list nat := fold_right ninsert [] l.
Fixpoint nnodup (l : list nat) : list nat :=
  match l with [] => [] | x :: t => if has t x then nnodup t else x :: nnodup t end.
(* the index json is written with sort_keys: a mapping is compared as a set of (name, digest) pairs *)
Definition same_mapping (m v : list blob) : bool := list_eqb_nat (nsort m) (nsort v).

(* one write of entry k with blobs v: a program counter over the blobs, then the index file.  Per file:
   phase 0  file.exists()? (an existing file is matched against the new content and kept)
   phase 1  the parent folder is made and a temp file is opened in .tmp        (tmps + 1)
   phase 2  content written, permissions set, the temp file is renamed in place (tmps - 1, the file appears)
   phase 3  size / usage / labels metadata                                      (no change of the modelled state) *)
Inductive pc := PBlob (todo : list blob) (phase : nat) | PIndex (phase : nat) | PDone | PFail.

Definition micro (k : key) (v : list blob) (s : fs) (p : pc) : fs * pc :=
  match p with
  | PBlob [] _ => (s, PIndex 0)
  | PBlob (b :: rest) 0 => if has (blobs s) b then (s, PBlob rest 0) else (s, PBlob (b :: rest) 1)
  | PBlob (b :: rest) 1 => (with_tmps s (S (tmps s)), PBlob (b :: rest) 2)
  | PBlob (b :: rest) 2 => (with_tmps (with_blobs s (b :: blobs s)) (pred (tmps s)), PBlob (b :: rest) 3)
  | PBlob (b :: rest) _ => (s, PBlob rest 0)
  | PIndex 0 =>
      match index s k with
      | IAbsent => (s, PIndex 1)
      | IGood m => if same_mapping m v then (s, PDone) else (s, PFail)        (* _match: CollisionError on a different mapping *)
      | ITorn => (s, PFail)
      end
  | PIndex 1 => (with_tmps s (S (tmps s)), PIndex 2)
  | PIndex 2 => (with_tmps (with_index s k (IGood v)) (pred (tmps s)), PIndex 3)
  | PIndex _ => (s, PDone)
  | PDone => (s, PDone)
  | PFail => (s, PFail)
  end.

(* what a read of entry k sees (PickleKeyStorage._read_for_digest with HashKeyStorage(error=True)): a truncated index
   or a missing blob is StorageCorruption, and DiskDict.read then deletes the index entry *)
Inductive outcome := Hit (m : list blob) | Miss.
Definition read (k : key) (s : fs) : outcome * fs :=
  match index s k with
  | IAbsent => (Miss, s)
  | ITorn => (Miss, with_index s k IAbsent)
  | IGood m => if forallb (has (blobs s)) m then (Hit m, s) else (Miss, with_index s k IAbsent)
  end.

(* one process: the entries its calls ask the disk for.  A cache edge reads (DiskCache.get); on a hit it answers with what
   it read; on a miss it computes the value - which may ask the disk for the entries D k of the caches below it -
   writes it (DiskCache.set) and answers from memory. *)
Inductive item := IGet (k : key) | IWrite (k : key).
Record cfg := { c_fs : fs; c_cur : option (key * pc); c_todo : list item }.
Inductive ans := Answer (k : key) (m : list blob) (hit : bool) | Collision (k : key).

Section Session.
  Variable V : key -> list blob.          (* the blobs of the value of an entry: a function of the entry (pure upstream) *)
  Variable D : key -> list key.           (* the disk entries read while the value of an entry is computed *)

  Definition sstep (c : cfg) : cfg * list ans :=
    match c_cur c with
    | Some (k, p) =>
        let (s', p') := micro k (V k) (c_fs c) p in
        match p' with
        | PDone => ({| c_fs := s'; c_cur := None; c_todo := c_todo c |}, [Answer k (V k) false])
        | PFail => ({| c_fs := s'; c_cur := None; c_todo := c_todo c |}, [Collision k])
        | _ => ({| c_fs := s'; c_cur := Some (k, p'); c_todo := c_todo c |}, [])
        end
    | None =>
        match c_todo c with
        | [] => (c, [])
        | IGet k :: rest =>
            let (o, s') := read k (c_fs c) in
            match o with
            | Hit m => ({| c_fs := s'; c_cur := None; c_todo := rest |}, [Answer k m true])
            | Miss => ({| c_fs := s'; c_cur := None; c_todo := map IGet (D k) ++ IWrite k :: rest |}, [])
            end
        | IWrite k :: rest => ({| c_fs := c_fs c; c_cur := Some (k, PBlob (V k) 0); c_todo := rest |}, [])
        end
    end.

  Fixpoint srun (n : nat) (c : cfg) : cfg * list ans :=
    match n with
    | 0 => (c, [])
    | S n' => let (c', a) := sstep c in let (c'', a') := srun n' c' in (c'', a ++ a')
    end.

  Definition finished (c : cfg) : bool := match c_cur c, c_todo c with None, [] => true | _, _ => false end.

  (* the states a run passes through; fuel bounded, [None] when it does not finish *)
  Fixpoint strace (n : nat) (c : cfg) (acc : list fs) (out : list ans) : option (list fs * list ans) :=
    if finished c then Some (rev acc, out)
    else match n with
         | 0 => None
         | S n' => let (c', a) := sstep c in strace n' c' (c_fs c' :: acc) (out ++ a)
         end.
End Session.

(* what can happen to the files between two processes: any blobs vanish; an index file survives, vanishes or is
   truncated; the temp folder holds anything *)
Definition lost (s s' : fs) : Prop :=
  (forall b, has (blobs s') b = true -> has (blobs s) b = true) /\
  (forall k, index s' k = index s k \/ index s' k = IAbsent \/ index s' k = ITorn).

(* ---------- comparison with the real store (case shards of C12) ---------- *)

(* an observed directory tree, abstracted: blob ids present, the index file of every entry, the number of temp files *)
Record ofs := { o_blobs : list nat; o_index : list (nat * idx); o_tmps : nat }.
Fixpoint olookup (t : list (nat * idx)) (k : nat) : idx :=
  match t with [] => IAbsent | (k', i) :: r => if Nat.eqb k k' then i else olookup r k end.
Definition fs_of (o : ofs) : fs := {| blobs := o_blobs o; index := olookup (o_index o); tmps := o_tmps o |}.
Definition idx_eqb (a b : idx) : bool :=
  match a, b with
  | IAbsent, IAbsent => true | ITorn, ITorn => true
  | IGood m, IGood m' => list_eqb_nat (nsort m) (nsort m')
  | _, _ => false
  end.
Definition fs_matches (keys : list nat) (s : fs) (o : ofs) : bool :=
  list_eqb_nat (nsort (nnodup (blobs s))) (nsort (nnodup (o_blobs o)))
  && forallb (fun k => idx_eqb (index s k) (olookup (o_index o) k)) keys
  && Nat.eqb (tmps s) (o_tmps o).

Fixpoint dedup_fs (keys : list nat) (prev : fs) (l : list fs) : list fs :=
  match l with
  | [] => []
  | s :: t =>
      let same := list_eqb_nat (nsort (nnodup (blobs s))) (nsort (nnodup (blobs prev)))
                  && forallb (fun k => idx_eqb (index s k) (index prev k)) keys && Nat.eqb (tmps s) (tmps prev) in
      if same then dedup_fs keys prev t else s :: dedup_fs keys s t
  end.
Fixpoint all2 {A B} (f : A -> B -> bool) (a : list A) (b : list B) : bool :=
  match a, b with [] , [] => true | x :: a', y :: b' => f x y && all2 f a' b' | _, _ => false end.

Record crash_case := {
  cc_values : list (nat * list nat);        (* entry -> the blobs of its value, in the order they are written *)
  cc_start : ofs;                           (* the tree the process starts on *)
  cc_deps : list (nat * list nat);          (* entry -> the entries read while its value is computed *)
  cc_gets : list nat;                       (* the entries its calls read from the disk at top level, in order *)
  cc_states : list ofs;                     (* every distinct tree seen between two mutations, in order *)
  cc_answers : list (nat * bool)            (* per answered get, in order of completion: the entry and whether it was served from the disk *)
}.
Fixpoint vlookup (t : list (nat * list nat)) (k : nat) : list nat :=
  match t with [] => [] | (k', v) :: r => if Nat.eqb k k' then v else vlookup r k end.
Definition ans_matches (a : ans) (o : nat * bool) : bool :=
  match a with Answer k _ hit => Nat.eqb k (fst o) && Bool.eqb hit (snd o) | Collision _ => false end.

Definition check_crash (c : crash_case) : nat :=
  let V := vlookup (cc_values c) in
  let keys := map fst (cc_values c) in
  let s0 := fs_of (cc_start c) in
  match strace V (vlookup (cc_deps c)) 4000 {| c_fs := s0; c_cur := None; c_todo := map IGet (cc_gets c) |} [] [] with
  | None => 1
  | Some (states, answers) =>
      if negb (all2 ans_matches answers (cc_answers c)) then 2
      else if negb (all2 (fs_matches keys) (dedup_fs keys s0 states) (cc_states c)) then 3
      else 0
  end.
