(* Command-level model of connectome/engine/vm.py (execute), engine/utils.py (EvictionCache) and
   engine/graph.py (Graph.__call__, _prepare_cache, count_entries).
   One match arm of [step] per `elif cmd == ...` branch of vm.py; the line numbers quoted are those of the
   pinned file.  Every `assert`, KeyError and IndexError of those files is a [Stuck] outcome, so that
   "no internal assertion ever surfaces" is the statement  run ... <> Stuck _ _. *)
From Connectome Require Import Values.

(* ---------- EvictionCache (engine/utils.py) ---------- *)
Record ecache := { counts : list (nat * nat); memo : list (nat * sval) }.

Definition evict (c : ecache) (k : nat) : option ecache :=
  match aget (counts c) k with
  | None => None                                     (* KeyError: self.counts[key] *)
  | Some 0 => None                                   (* assert count > 0 *)
  | Some 1 => Some {| counts := adel (counts c) k; memo := adel (memo c) k |}
  | Some (S n) => Some {| counts := aset (counts c) k n; memo := memo c |}
  end.

Fixpoint evict_all (h c : ecache) (ps : list nat) : option (ecache * ecache) :=
  match ps with
  | [] => Some (h, c)
  | p :: t => match evict h p with None => None | Some h' =>
              match evict c p with None => None | Some c' => evict_all h' c' t end end
  end.

(* ---------- graphs: node i is [nth i g]; parents are indices ---------- *)
Definition pgraph := list (option (list nat)).     (* None: leaf (input); Some ps: inner node with parents ps *)
Definition parents (g : pgraph) (n : nat) : list nat :=
  match nth n g None with Some ps => ps | None => [] end.

Inductive cmd :=
| CReturn
| CSend (node : nat) (it : sval -> gen)
| CComputeHash | CEvaluate
| CReq (r : req)
| CStore (w : which) (key : nat)
| CItem (i : nat)
| CTuple (node : nat) (n : nat) (rs : list req).

Definition call_rec := (string * list val * list (string * val))%type.

Section Machine.
Variable g : pgraph.
(* the two generators (compute_hash, evaluate) of every inner node: arbitrary resumption trees *)
Variable gens : which -> nat -> option gen.
(* user functions: any interpretation; the harness uses apply := VApp *)
Variable apply : string -> list val -> list (string * val) -> val.
Variable raises : string -> list val -> list (string * val) -> bool.
(* caches shared between calls (and threads): any store *)
Variable cstore : Type.
Variable cget : cstore -> nat -> sval -> option sval * cstore.     (* a read may reorder an LRU table *)
Variable cset : cstore -> nat -> sval -> sval -> cstore.
(* what other threads may have done to the shared store before each cache access of this call *)
Variable interfere : cstore -> cstore.

Record st := { stack : list sval; cmds : list cmd; H : ecache; C : ecache; log : list call_rec; sto : cstore }.

Inductive outcome := Running (s : st) | Finished (v : sval) (s : st) | Raised (e : exn) (s : st) | Stuck (why : string) (s : st).

(* run the cache accesses a generator performs before its next yield / return / raise *)
Fixpoint settle (gn : gen) (σ : cstore) : gen * cstore :=
  match gn with
  | GGet c key k => let (hit, σ') := cget (interfere σ) c key in settle (k hit) σ'
  | GSet c key v k => settle k (cset (interfere σ) c key v)
  | other => (other, σ)
  end.

Definition step (s : st) : outcome :=
  match cmds s with
  | [] => Stuck "no commands" s
  | c :: K =>
    let S0 := stack s in
    let upd stk ks := {| stack := stk; cmds := ks; H := H s; C := C s; log := log s; sto := sto s |} in
    match c with
    (* vm.py:16-18 *)
    | CReturn => match S0 with [v] => Finished v s | _ => Stuck "assert len(stack) == 1" s end
    (* vm.py:21-39 *)
    | CSend node it =>
        match S0 with
        | v :: S1 =>
          let (gn, σ) := settle (it v) (sto s) in
          let s0 := {| stack := S0; cmds := cmds s; H := H s; C := C s; log := log s; sto := σ |} in
          match gn with
          | GRet r =>
              match evict_all (H s) (C s) (parents g node) with
              | None => Stuck "evict" s0
              | Some (h', c') => Running {| stack := r :: S1; cmds := K; H := h'; C := c'; log := log s; sto := σ |}
              end
          | GYield r k => Running {| stack := SNode node :: S1; cmds := CReq r :: CSend node k :: K;
                                     H := H s; C := C s; log := log s; sto := σ |}
          | GRaise e => Raised e s0
          | _ => Stuck "settle" s0
          end
        | [] => Stuck "pop" s
        end
    (* vm.py:42-50 *)
    | CComputeHash =>
        match S0 with
        | SNode n :: S1 =>
          match aget (memo (H s)) n with
          | Some v => Running (upd (v :: S1) K)
          | None => match gens WH n with
                    | Some e => Running (upd (SNoneS :: S1) (CSend n (fun _ => e) :: CStore WH n :: K))
                    | None => Stuck "leaf without hash" s end
          end
        | _ => Stuck "ComputeHash pop" s
        end
    (* vm.py:53-61 *)
    | CEvaluate =>
        match S0 with
        | SNode n :: S1 =>
          match aget (memo (C s)) n with
          | Some v => Running (upd (v :: S1) K)
          | None => match gens WC n with
                    | Some e => Running (upd (SNoneS :: S1) (CSend n (fun _ => e) :: CStore WC n :: K))
                    | None => Stuck "leaf without value" s end
          end
        | _ => Stuck "Evaluate pop" s
        end
    (* vm.py:64-70 *)
    | CReq (RParentHash i) =>
        match S0 with
        | SNode n :: S1 => match nth_error (parents g n) i with
                           | Some p => Running (upd (SNode p :: S1) (CComputeHash :: CItem 0 :: K))
                           | None => Stuck "parents[idx]" s end
        | _ => Stuck "ParentHash pop" s end
    (* vm.py:72-77 *)
    | CReq (RParentValue i) =>
        match S0 with
        | SNode n :: S1 => match nth_error (parents g n) i with
                           | Some p => Running (upd (SNode p :: S1) (CEvaluate :: K))
                           | None => Stuck "parents[idx]" s end
        | _ => Stuck "ParentValue pop" s end
    (* vm.py:79-82 *)
    | CReq RCurrentHash => Running (upd S0 (CComputeHash :: CItem 0 :: K))
    (* vm.py:84-87 *)
    | CReq RPayload => Running (upd S0 (CComputeHash :: CItem 1 :: K))
    (* vm.py:89-91 *)
    | CReq (RAwait rs) =>
        match S0 with SNode n :: S1 => Running (upd S1 (CTuple n (List.length rs) rs :: K)) | _ => Stuck "Await pop" s end
    (* vm.py:93-96 *)
    | CReq (RCall f pos kw) =>
        match S0 with
        | _ :: S1 =>
          let s' := {| stack := SVal (apply f pos kw) :: S1; cmds := K; H := H s; C := C s;
                       log := (f, pos, kw) :: log s; sto := sto s |} in
          if raises f pos kw then Raised (EUser f) s' else Running s'
        | [] => Stuck "Call pop" s end
    (* vm.py:99-102 *)
    | CStore w key =>
        match S0 with
        | top :: _ =>
          let ec := match w with WH => H s | WC => C s end in
          match aget (memo ec) key, aget (counts ec) key with
          | None, Some _ =>
              let ec' := {| counts := counts ec; memo := (key, top) :: memo ec |} in
              Running (match w with
                       | WH => {| stack := S0; cmds := K; H := ec'; C := C s; log := log s; sto := sto s |}
                       | WC => {| stack := S0; cmds := K; H := H s; C := ec'; log := log s; sto := sto s |} end)
          | Some _, _ => Stuck "assert key not in storage" s
          | _, None => Stuck "assert key in self.counts" s
          end
        | [] => Stuck "peek" s end
    (* vm.py:104-106 *)
    | CItem i =>
        match S0 with
        | SHashOut h p :: S1 => Running (upd ((match i with 0 => SHash h | _ => p end) :: S1) K)
        | _ => Stuck "Item" s end
    (* vm.py:108-116: requests.pop() takes from the END; results are popped from the stack top-first *)
    | CTuple node n rs =>
        match rev rs with
        | [] => if Nat.leb n (List.length S0) then Running (upd (STup (firstn n S0) :: skipn n S0) K)
                else Stuck "Tuple pop" s
        | r :: rest => Running (upd (SNode node :: S0) (CReq r :: CTuple node n (rev rest) :: K))
        end
    end
  end.

Fixpoint run (fuel : nat) (s : st) : outcome :=
  match fuel with
  | 0 => Running s
  | S f => match step s with Running s' => run f s' | o => o end
  end.

(* ---------- mechanism-level trace: a function of the states the verified machine goes through ---------- *)
Inductive tev :=
| THas (w : which) (n : nat) (present : bool)       (* `node in hashes` / `node in cache` *)
| TStart (w : which) (n : nat)                      (* node.edge.compute_hash() / evaluate() created *)
| TStore (w : which) (n : nat)                      (* storage[key] = peek() *)
| TEvict (w : which) (n : nat) (left : nat)         (* hashes.evict(n) / cache.evict(n): the count that is left *)
| TCall (f : string).

Definition cnt_of (c : ecache) (p : nat) : nat := match aget (counts c) p with Some k => k | None => 0 end.

Fixpoint evict_events (h c : ecache) (ps : list nat) : list tev :=
  match ps with
  | [] => []
  | p :: t => match evict h p, evict c p with
              | Some h', Some c' => TEvict WH p (cnt_of h' p) :: TEvict WC p (cnt_of c' p) :: evict_events h' c' t
              | _, _ => [] end
  end.

Definition events (s : st) : list tev :=
  match cmds s, stack s with
  | CComputeHash :: _, SNode n :: _ =>
      match aget (memo (H s)) n with Some _ => [THas WH n true] | None => [THas WH n false; TStart WH n] end
  | CEvaluate :: _, SNode n :: _ =>
      match aget (memo (C s)) n with Some _ => [THas WC n true] | None => [THas WC n false; TStart WC n] end
  | CSend node it :: _, v :: _ =>
      match fst (settle (it v) (sto s)) with GRet _ => evict_events (H s) (C s) (parents g node) | _ => [] end
  | CStore w key :: _, _ =>
      (* `assert key not in storage` is a membership test too *)
      match aget (memo (match w with WH => H s | WC => C s end)) key with
      | Some _ => [THas w key true]
      | None => [THas w key false; TStore w key] end
  | CReq (RCall f _ _) :: _, _ => [TCall f]
  | _, _ => []
  end.

Fixpoint run_tr (fuel : nat) (s : st) (acc : list tev) : outcome * list tev :=
  match fuel with
  | 0 => (Running s, acc)
  | S f => let acc' := rev_append (events s) acc in
           match step s with Running s' => run_tr f s' acc' | o => (o, acc') end
  end.

End Machine.

(* ---------- count_entries (engine/graph.py): number of paths from the output, times the multiplier ----------
   The pinned code enumerated the paths; the repaired code accumulates the same numbers in topological
   order.  The model states *what* is computed (path counts); that Graph.counts has these values is checked
   by the correspondence of C01/C20 on every generated graph. *)
Fixpoint add_count (l : list (nat * nat)) (k m : nat) : list (nat * nat) :=
  match l with
  | [] => [(k, m)]
  | (k', c) :: t => if Nat.eqb k k' then (k', c + m) :: t else (k', c) :: add_count t k m
  end.

Fixpoint visit (fuel : nat) (g : pgraph) (inputs : list nat) (m n : nat) (acc : list (nat * nat)) : list (nat * nat) :=
  match fuel with
  | 0 => acc
  | S f =>
    let acc := add_count acc n m in
    if existsb (Nat.eqb n) inputs then acc
    else fold_left (fun a p => visit f g inputs m p a) (parents g n) acc
  end.

Definition count_entries (g : pgraph) (inputs : list nat) (out m : nat) := visit (S (List.length g)) g inputs m out [].

(* ---------- Graph.__call__: _prepare_cache, then execute(Evaluate, output) ---------- *)
Section Call.
Variable g : pgraph.
Variable gens : which -> nat -> option gen.
Variable apply : string -> list val -> list (string * val) -> val.
Variable raises : string -> list val -> list (string * val) -> bool.
Variable cstore : Type.
Variable cget : cstore -> nat -> sval -> option sval * cstore.
Variable cset : cstore -> nat -> sval -> sval -> cstore.
Variable interfere : cstore -> cstore.

Definition leafv (w : which) (v : val) : sval := match w with WH => SHashOut (HLeaf v) SNoneS | WC => SVal v end.

(* Graph.__init__ keeps the inputs with a positive count; _prepare_cache seeds both tables with them *)
Definition init_state (inputs : list (nat * val)) (out : nat) (first : cmd) (σ : cstore) : st cstore :=
  let cnt := count_entries g (map fst inputs) out 2 in
  let used := filter (fun iv => match aget cnt (fst iv) with Some (S _) => true | _ => false end) inputs in
  {| stack := [SNode out]; cmds := [first; CReturn];
     H := {| counts := cnt; memo := map (fun iv => (fst iv, leafv WH (snd iv))) used |};
     C := {| counts := cnt; memo := map (fun iv => (fst iv, leafv WC (snd iv))) used |};
     log := []; sto := σ |}.

Definition call (inputs : list (nat * val)) (out : nat) (σ : cstore) (fuel : nat) : outcome cstore :=
  run g gens apply raises cstore cget cset interfere fuel (init_state inputs out CEvaluate σ).

Definition call_tr (inputs : list (nat * val)) (out : nat) (σ : cstore) (fuel : nat) : outcome cstore * list tev :=
  run_tr g gens apply raises cstore cget cset interfere fuel (init_state inputs out CEvaluate σ) [].

(* Graph.get_hash *)
Definition get_hash (inputs : list (nat * val)) (out : nat) (σ : cstore) (fuel : nat) : outcome cstore :=
  run g gens apply raises cstore cget cset interfere fuel (init_state inputs out CComputeHash σ).
End Call.
