(* Decidable comparisons used by the generated case shards (coq/Run): each case carries the inputs AND the
   observables the real code produced; [check_*] runs the model on the inputs and compares.  Trusted to
   state the comparison correctly (DESIGN.md, trusted base). *)
From Connectome Require Import Values Attrs VM Edges Store NameSet MemGen MemPickleGen ShardGen ColStore ColumnsGen Columns.
From Connectome Require Import GraphHashModel.
From Connectome Require Lru.

Definition which_eqb (a b : which) : bool := match a, b with WH, WH | WC, WC => true | _, _ => false end.

Definition tev_eqb (a b : tev) : bool :=
  match a, b with
  | THas w n p, THas w' n' p' => which_eqb w w' && Nat.eqb n n' && Bool.eqb p p'
  | TStart w n, TStart w' n' => which_eqb w w' && Nat.eqb n n'
  | TStore w n, TStore w' n' => which_eqb w w' && Nat.eqb n n'
  | TEvict w n l, TEvict w' n' l' => which_eqb w w' && Nat.eqb n n' && Nat.eqb l l'
  | TCall f, TCall g => String.eqb f g
  | _, _ => false
  end.

Definition call_eqb (a b : call_rec) : bool :=
  match a, b with
  | (f, p, k), (g, q, l) =>
      String.eqb f g && list_eqb veqb p q
      && list_eqb (fun x y => String.eqb (fst x) (fst y) && veqb (snd x) (snd y)) k l
  end.

(* the result of a call as the harness records it *)
Inductive xres := XVal (v : val) | XExc (s : string).
Definition xres_eqb (a b : xres) : bool :=
  match a, b with XVal v, XVal w => veqb v w | XExc s, XExc t => String.eqb s t | _, _ => false end.

Definition exn_name (e : exn) : string :=
  match e with
  | EUser f => "User:" ++ f
  | EKey _ => "KeyError"
  | EValue _ => "ValueError"
  | EInternal _ => "Internal"
  end.

Definition xres_of {S} (o : outcome S) : xres :=
  match o with
  | Finished _ (SVal v) _ => XVal v
  | Finished _ _ _ => XExc "Internal"
  | Raised _ e _ => XExc (exn_name e)
  | Stuck _ _ _ => XExc "Internal"
  | Running _ _ => XExc "FUEL"
  end.
Definition log_of {S} (o : outcome S) : list call_rec :=
  rev (match o with Finished _ _ s | Raised _ _ s | Stuck _ _ s | Running _ s => log S s end).
Definition sto_of {S} (o : outcome S) : S :=
  match o with Finished _ _ s | Raised _ _ s | Stuck _ _ s | Running _ s => sto S s end.

Definition raises_in (l : list string) (f : string) (_ : list val) (_ : list (string * val)) : bool := lmem f l.
Definition vapp (f : string) (pos : list val) (kw : list (string * val)) : val := VApp f pos kw.

Definition graph_fuel (g : graph) : nat :=
  60 * (List.length g + list_sum (map (fun d => match d with Leaf => 0 | Inner _ ps => List.length ps end) g)) + 60.

(* TStart is implied by a THas miss; the harness does not record it *)
Definition visible (e : tev) : bool := match e with TStart _ _ => false | _ => true end.

(* Graph.get_hash right after the call, on the same caches (a barrier or hash-by-value node evaluates its parents) *)
Definition hash_step (g : graph) (σ : cstore) (ins : list (nat * val)) (out : nat) (exp : option (option nhash)) : bool * cstore :=
  match exp with
  | None => (true, σ)
  | Some e =>
      let o := get_hash (shape g) (gens_of g) vapp (fun _ _ _ => false) cstore cget cset (fun σ => σ) ins out σ (graph_fuel g) in
      (match o, e with
       | Finished _ (SHashOut h' _) _, Some h => heqb h h'
       | Finished _ _ _, _ => false
       | Running _ _, _ => false
       | _, None => true
       | _, Some _ => false
       end, sto_of o)
  end.

Definition run_call (g : graph) (σ : cstore) (ins : list (nat * val)) (out : nat) (bad : list string)
  : outcome cstore * list tev :=
  let (o, tr) := call_tr (shape g) (gens_of g) vapp (raises_in bad) cstore cget cset (fun σ => σ) ins out σ (graph_fuel g) in
  (o, filter visible (rev tr)).

Record xcall := {
  xc_ins : list (nat * val);        (* node index of each input with the argument passed *)
  xc_bad : list string;             (* user functions that raise during this call *)
  xc_res : xres;                    (* observed: value or exception class *)
  xc_log : list call_rec;           (* observed: user-function calls in order *)
  xc_trace : list tev;              (* observed: EvictionCache / call events in order *)
  xc_hash : option (option nhash)   (* observed right after the call: Graph.get_hash(inputs)[0].value as a term; Some None: it raised *)
}.

Record xcase := {
  xg : graph; xout : nat;
  xcaches : list (nat * ckind);
  xcounts : list (nat * nat);       (* observed Graph.counts, sorted by node index *)
  xghash : option (option nhash);   (* observed Graph.hash().value as a term; Some None: HashError *)
  xcalls : list xcall
}.

Fixpoint insert_cnt (x : nat * nat) (l : list (nat * nat)) : list (nat * nat) :=
  match l with [] => [x] | y :: t => if Nat.leb (fst x) (fst y) then x :: l else y :: insert_cnt x t end.
Definition sort_cnt (l : list (nat * nat)) := fold_right insert_cnt [] l.
Definition cnt_eqb (a b : list (nat * nat)) : bool :=
  list_eqb (fun x y => Nat.eqb (fst x) (fst y) && Nat.eqb (snd x) (snd y)) (sort_cnt a) (sort_cnt b).

(* 0 = agreement; otherwise 10*k + what: 1 result, 2 call log, 3 trace for call k (from 1); 4 = counts *)
Fixpoint check_calls (g : graph) (out : nat) (σ : cstore) (k : nat) (cs : list xcall) : nat :=
  match cs with
  | [] => 0
  | c :: rest =>
      let (o, tr) := run_call g σ (xc_ins c) out (xc_bad c) in
      if negb (xres_eqb (xres_of o) (xc_res c)) then 10 * k + 1
      else if negb (list_eqb call_eqb (log_of o) (xc_log c)) then 10 * k + 2
      else if negb (list_eqb tev_eqb tr (xc_trace c)) then 10 * k + 3
      else let (okh, σ2) := hash_step g (sto_of o) (xc_ins c) out (xc_hash c) in
           if negb okh then 10 * k + 5 else check_calls g out σ2 (S k) rest
  end.

Definition leaves_of (g : graph) : list nat :=
  map fst (filter (fun x => match snd x with Leaf => true | _ => false end) (combine (seq 0 (List.length g)) g)).

Definition check_engine (c : xcase) : nat :=
  let cnt := count_entries (shape (xg c)) (leaves_of (xg c)) (xout c) 2 in
  if negb (cnt_eqb cnt (xcounts c)) then 4
  else if negb (match xghash c with
                | None => true
                | Some e => match hash_graph (xg c) (leaves_of (xg c)) (S (List.length (xg c))) (xout c), e with
                            | Some h, Some h' => heqb h h'
                            | None, None => true
                            | _, _ => false end
                end) then 6
  else check_calls (xg c) (xout c) (map (fun ck => (fst ck, new_cache (snd ck))) (xcaches c)) 1 (xcalls c).

Definition bad_cases {A} (check : A -> nat) (cases : list A) : list (nat * nat) :=
  filter (fun ic => negb (Nat.eqb (snd ic) 0)) (combine (seq 0 (List.length cases)) (map check cases)).

(* ---------- histories over several compiled graphs sharing caches (C04, C08, C11) ---------- *)
Inductive hop := HCall (gi : nat) (c : xcall) | HClear (cs : list nat).
Record hgraph := { hg : graph; hout : nat; hcounts : list (nat * nat) }.
Record hcase := { hgraphs : list hgraph; hcaches : list (nat * ckind); hops : list hop }.

Definition hg0 : hgraph := {| hg := []; hout := 0; hcounts := [] |}.

(* 0 = agreement; otherwise 10*k + what for operation k (from 1): 1 result, 2 call log, 3 trace; 4 = counts of a graph *)
Fixpoint check_hops (gs : list hgraph) (σ : cstore) (k : nat) (ops : list hop) : nat :=
  match ops with
  | [] => 0
  | HClear cs :: rest => check_hops gs (fold_left cclear cs σ) (S k) rest
  | HCall gi c :: rest =>
      let G := nth gi gs hg0 in
      let (o, tr) := run_call (hg G) σ (xc_ins c) (hout G) (xc_bad c) in
      if negb (xres_eqb (xres_of o) (xc_res c)) then 10 * k + 1
      else if negb (list_eqb call_eqb (log_of o) (xc_log c)) then 10 * k + 2
      else if negb (list_eqb tev_eqb tr (xc_trace c)) then 10 * k + 3
      else let (okh, σ2) := hash_step (hg G) (sto_of o) (xc_ins c) (hout G) (xc_hash c) in
           if negb okh then 10 * k + 5 else check_hops gs σ2 (S k) rest
  end.

Definition check_history (c : hcase) : nat :=
  if negb (forallb (fun G => cnt_eqb (count_entries (shape (hg G)) (leaves_of (hg G)) (hout G) 2) (hcounts G)) (hgraphs c)) then 4
  else check_hops (hgraphs c) (map (fun ck => (fst ck, new_cache (snd ck))) (hcaches c)) 1 (hops c).

(* ---------- MemoryCache operation lists against Model/Store.v (C08): expected = (hit value, len) per op ---------- *)
Inductive mcop := OGet (k : nat) | OSet (k v : nat) | OClear | OPickle.       (* OPickle: the cache is replaced by its pickle round trip *)
Definition mkey (k : nat) : sval := SHash (HLeaf (VInt (Z.of_nat k))).
Fixpoint check_mops (c : cache_state) (i : nat) (ops : list (mcop * (option nat * nat))) : nat :=
  match ops with
  | [] => 0
  | (o, (hit, len)) :: rest =>
      let '(r, c') := match o with
                      | OGet k => c_get c (mkey k)
                      | OSet k v => (None, c_set c (mkey k) (SVal (VNat v)))
                      | OClear => (None, c_clear c)
                      | OPickle => (None, if list_eqb String.eqb MemPickleGen.mc_reduce_keeps ["size"%string] then new_cache (ck c) else c) end in
      let ok_hit := match o, r, hit with
                    | OGet _, Some (SVal (VNat v)), Some w => Nat.eqb v w
                    | OGet _, None, None => true
                    | OGet _, _, _ => false
                    | _, _, _ => true end in
      if ok_hit && Nat.eqb (List.length (entries c')) len then check_mops c' (S i) rest else S i
  end.
(* the same operation lists against the abstract LRU table of Proofs/Lru.v (the one C08_lru_recency and
   C08_lru_hit_returns_latest_value are stated over), for bounded caches: hit values and table sizes *)
Fixpoint check_mops_abs (cap : nat) (t : list (nat * nat)) (i : nat) (ops : list (mcop * (option nat * nat))) : nat :=
  match ops with
  | [] => 0
  | (o, (hit, len)) :: rest =>
      let '(r, t') := match o with
                      | OGet k => (snd (Lru.mc_get nat nat Nat.eqb t k), Lru.step nat nat Nat.eqb cap t (Lru.Get nat nat k))
                      | OSet k v => (None, Lru.step nat nat Nat.eqb cap t (Lru.Set_ nat nat k v))
                      | OClear | OPickle => (None, Lru.step nat nat Nat.eqb cap t (Lru.Clear nat nat)) end in
      let ok_hit := match o, r, hit with
                    | OGet _, Some v, Some w => Nat.eqb v w
                    | OGet _, None, None => true
                    | OGet _, _, _ => false
                    | _, _, _ => true end in
      if ok_hit && Nat.eqb (List.length t') len then check_mops_abs cap t' (S i) rest else S i
  end.
Definition check_memcache (c : option nat * list (mcop * (option nat * nat))) : nat :=
  match check_mops (new_cache (KRam (fst c))) 0 (snd c) with
  | 0 => match fst c with
         | Some (S n) => match check_mops_abs (S n) [] 0 (snd c) with 0 => 0 | S j => 2000 + j end
         | _ => 0
         end
  | r => r
  end.

(* ---------- shards (C08): regenerated arithmetic against CachedColumn._get_shard; keys are given sorted ---------- *)
Record shcase := { sh_keys : list string; sh_size : nat; sh_pos : nat;
                   sh_exp_keys : list string; sh_exp_count : nat; sh_exp_idx : nat }.
Definition check_shard (c : shcase) : nat :=
  if list_eqb String.eqb (ShardGen.shard_keys (sh_keys c) (sh_size c) (ShardGen.shard_idx (sh_pos c) (sh_size c))) (sh_exp_keys c)
     && Nat.eqb (ShardGen.shard_count (List.length (sh_keys c)) (sh_size c)) (sh_exp_count c)
     && Nat.eqb (ShardGen.shard_idx (sh_pos c) (sh_size c)) (sh_exp_idx c)
  then 0 else 1.

(* ---------- column caches (C03, C04, C07, C08): Model/Columns.v against CacheColumns on request sequences ----------
   The harness gives the keys sorted (sorted() on ASCII strings), the integer shard size, which user functions raise
   during the request, and what it observed: the outcome (0 the value of the uncached field, 1 a user exception,
   2 ValueError, 3 anything else), the calls of the user functions in order and the number of disk entries afterwards. *)
Record colreq := { cq_new : bool; cq_col : nat; cq_key : string; cq_keys : list string; cq_size : option nat;
                   cq_fail_h : list string; cq_fail_v : list (nat * string);
                   cq_exp : nat; cq_log : list string; cq_disk : nat }.

Definition col_name (names : list string) (c : nat) : string := nth c names "?".
Definition key_str (k : val) : string := match k with VStr s => s | _ => "?" end.
Definition col_h (names : list string) (c : nat) (k : val) : nhash := HApply (col_name names c) [HApply "x" [HLeaf k] []] [].
Definition col_v (names : list string) (c : nat) (k : val) : val := VApp (col_name names c) [k] [].
Definition col_token (names : list string) (e : cevent) : list string :=
  match e with
  | CHash _ k => ["x:" ++ key_str k]
  | CValue c k => [col_name names c ++ ":" ++ key_str k]
  | CKeyReq => []
  | CKeysReq => ["ids"]
  end.
Definition res_code (names : list string) (col : nat) (key : val) (r : cres) : nat :=
  match r with
  | COk x => if veqb x (col_v names col key) then 0 else 3
  | CErr (EUser _) => 1
  | CErr (EValue _) => 2
  | CErr _ => 3
  end.

(* what is compared depends on the property the sequence is run for: 0 everything (C03: the calls in order), 1 the outcome and
   the number of disk entries (C04, C07), 2 the outcome and whether the request was a hit, i.e. ran the hash pass of its entry only (C08) *)
Definition is_hit (l : list string) : bool := match l with [_] => true | _ => false end.
Fixpoint check_colreqs (mode : nat) (names : list string) (st : colstore) (i : nat) (rs : list colreq) : nat :=
  match rs with
  | [] => 0
  | q :: t =>
      let st := if cq_new q then new_process st else st in
      let key := VStr (cq_key q) in
      let gh := fun c k => if lmem (key_str k) (cq_fail_h q) then None else Some (col_h names c k) in
      let gv := fun c k => if existsb (fun p => Nat.eqb (fst p) c && String.eqb (snd p) (key_str k)) (cq_fail_v q) then None
                           else Some (col_v names c k) in
      let '(r, st', ev) := column_request hpyeq heqb pyeq (fun l => l) gh gv (cq_col q) (cq_size q) key (map VStr (cq_keys q)) st in
      let toks := flat_map (col_token names) ev in
      if Nat.eqb (res_code names (cq_col q) key r) (cq_exp q)
         && match mode with
            | 0 => list_eqb String.eqb toks (cq_log q) && Nat.eqb (List.length (disk st')) (cq_disk q)
            | 1 => Nat.eqb (List.length (disk st')) (cq_disk q)
            | _ => Bool.eqb (is_hit toks) (is_hit (cq_log q))
            end
      then check_colreqs mode names st' (S i) t else S i
  end.
Definition check_columns (c : nat * list string * list colreq) : nat := check_colreqs (fst (fst c)) (snd (fst c)) colstore0 0 (snd c).
