(* layers/cache.py CacheLayer._detect_impure over the engine graph, and its relation to the static graph hash. *)
From Connectome Require Import Values Attrs VM Edges GraphHashModel.
Local Open Scope list_scope.

Definition is_impure (e : edge) : bool := match e with EImpure _ => true | _ => false end.

(* the regenerated rule: "raise on ImpureEdge; visit every parent"; leaves end the walk *)
Fixpoint detect_impure (fuel : nat) (g : graph) (n : nat) : bool :=
  match fuel with
  | 0 => false
  | S f => match nth n g Leaf with
           | Leaf => false
           | Inner e ps => is_impure e || existsb (detect_impure f g) ps
           end
  end.

Record imp_case := { im_graphs : list (graph * nat); im_flag : bool; im_keyed : bool; im_raised : bool }.
(* caching layers (im_keyed = false): rejected iff impure = False and some touched field has an impure edge upstream;
   keyed layers (Filter, GroupBy: im_keyed = true): rejected iff the static hash of some touched field does not exist *)
Definition check_impure (c : imp_case) : nat :=
  let bad := if im_keyed c
             then existsb (fun go => match hash_graph (fst go) [0] (S (List.length (fst go))) (snd go) with None => true | Some _ => false end) (im_graphs c)
             else negb (im_flag c) && existsb (fun go => detect_impure (S (List.length (fst go))) (fst go) (snd go)) (im_graphs c) in
  if Bool.eqb bad (im_raised c) then 0 else 1.
