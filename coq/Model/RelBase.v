(* Helpers of the relational model: sorted(...) / set(...) on strings, association tables.  Hand-written. *)
From Connectome Require Import Values NameSet.
Local Open Scope list_scope.

(* ---------- sorted(...) on strings ---------- *)
Definition sleb (a b : string) : bool := match String.compare a b with Gt => false | _ => true end.
Fixpoint sinsert (x : string) (l : list string) : list string :=
  match l with [] => [x] | y :: t => if sleb x y then x :: l else y :: sinsert x t end.
Definition ssort (l : list string) : list string := fold_right sinsert [] l.
Fixpoint snodup (l : list string) : list string :=
  match l with [] => [] | x :: t => if lmem x t then snodup t else x :: snodup t end.
Definition sset (l : list string) : list string := ssort (snodup l).      (* tuple(sorted(set(l))) *)

Fixpoint slookup {V} (t : list (string * V)) (k : string) : option V :=
  match t with [] => None | (k', v) :: r => if String.eqb k k' then Some v else slookup r k end.

Definition sl_eqb := list_eqb String.eqb.
Definition tab_fun {V} (d : V) (t : list (string * V)) (k : string) : V := match slookup t k with Some v => v | None => d end.
