(* Name-level semantics of layer stacks: what `>>` does to field names (containers/base.py normalize_bag rule 3 and
   connect_bags, containers/reversible.py normalize_inherit and detect_optionals, engine/compiler.py
   _validate_optionals), with the finite / co-finite name sets of the REGENERATED AntiSet operators.
   Hand-written from the code and validated against it (correspondence of C02, C09, C18). *)
From Connectome Require Import Values NameSet AntiSetGen.
Local Open Scope list_scope.

(* the expression a field denotes over the raw input names of the pipeline *)
Inductive expr :=
| XIn (x : string)                          (* the raw input x *)
| XMiss (x : string) (optin : bool)         (* an input nothing upstream provides; optin: only optional fields of the asking layer need it *)
| XFn (f : string) (args : list expr).

(* a layer as written: name -> (function symbol, argument names); an argument starting with "_" is a parameter *)
Record nlayer := {
  l_defs : list (string * (string * list string));
  l_params : list (string * (string * list string));     (* parameters take public names only *)
  l_inherit : nameset;                                    (* __inherit__ list: Fin; True: Co []; __exclude__ ex: Co ex *)
  l_optional : list string;
  l_persistent : list string;                             (* Source: id, ids and other meta fields *)
  l_cache : bool                                          (* a cache layer: every field it touches is optional *)
}.

Fixpoint alookup {V} (t : list (string * V)) (k : string) : option V :=
  match t with [] => None | (k', v) :: r => if String.eqb k k' then Some v else alookup r k end.
Definition akeys {V} (t : list (string * V)) : list string := map fst t.

Record nbag := {
  b_outs : list (string * expr);
  b_virt : nameset;
  b_pers : list string;
  b_optout : list (string * bool);          (* is the output optional *)
  b_optin : list (string * bool)            (* is the dangling input optional (asked for by optional fields only) *)
}.

Fixpoint ins_of (e : expr) : list string :=
  match e with
  | XIn x => [x]
  | XMiss _ _ => []
  | XFn _ args => flat_map ins_of args
  end.
Fixpoint snodup_ (l : list string) : list string :=
  match l with [] => [] | x :: t => if lmem x t then snodup_ t else x :: snodup_ t end.

Definition ns_minus_fin (s : nameset) (f : list string) : nameset :=
  match s with Fin l => Fin (ldiff l f) | Co e => as_sub e (Fin f) end.
Definition ns_inter (a b : nameset) : nameset :=
  match a with Fin l => (match b with Fin m => Fin (linter l m) | Co e => as_and e (Fin l) end) | Co e => as_and e b end.

(* one layer as a bag (GraphFactory.build + ReversibleContainer: normalize_inherit, normalize_bag rule 3, detect_optionals) *)
Definition layer_bag (L : nlayer) : nbag :=
  let parg a := match alookup (l_params L) a with
                | Some (f, args) => XFn f (map XIn args)
                | None => XIn a end in
  let outs0 := map (fun d => (fst d, XFn (fst (snd d)) (map parg (snd (snd d))))) (l_defs L) in
  let used_params := filter (fun p => existsb (fun d => lmem p (snd (snd d))) (l_defs L)) (akeys (l_params L)) in
  (* the inputs of the layer: what the outputs read, and what ANY parameter reads (also an unused one) *)
  let inputs := flat_map (fun o => ins_of (snd o)) outs0 ++ flat_map (fun p => snd (snd p)) (l_params L) in
  (* normalize_inherit: AntiSet(excluded) - set(outputs); a list stays as it is *)
  let virt0 := match l_inherit L with Fin l => Fin l | Co e => as_sub e (Fin (akeys outs0)) end in
  (* rule 3: an inherited or persistent name that is also an input becomes an identity output *)
  let add := snodup_ (filter (fun n => (ns_mem n virt0 || lmem n (l_persistent L)) && negb (lmem n (akeys outs0))) inputs) in
  let outs := outs0 ++ map (fun n => (n, XIn n)) add in
  let virt := ns_minus_fin virt0 add in
  (* detect_optionals, one pass: users of an input = outputs (incl. rule-3 identities) and USED parameters depending on it *)
  let optout := map (fun o => (fst o, l_cache L || lmem (fst o) (l_optional L) && negb (lmem (fst o) add))) outs in
  let users x := filter (fun o => lmem x (ins_of (snd o))) outs in
  let optin := map (fun x => (x, l_cache L ||
                     (negb (Nat.eqb (List.length (users x)) 0)
                      && forallb (fun o => match alookup optout (fst o) with Some b => b | None => false end) (users x)
                      && negb (existsb (fun p => match alookup (l_params L) p with Some (_, args) => lmem x args | None => false end) used_params))))
                   (snodup_ inputs) in
  {| b_outs := outs; b_virt := virt; b_pers := l_persistent L; b_optout := optout; b_optin := optin |}.

(* a cache layer is built against the previous bag (CacheToStorage._prepare_container): one transparent, optional
   field per cached name that the previous layer exposes; everything else is inherited *)
Definition cache_bag (names : option (list string)) (prev : nbag) : nbag :=
  let ns := filter (fun n => match names with None => true | Some l => lmem n l end) (akeys (b_outs prev)) in
  {| b_outs := map (fun n => (n, XIn n)) ns; b_virt := Co ns; b_pers := [];
     b_optout := map (fun n => (n, true)) ns; b_optin := map (fun n => (n, true)) ns |}.

(* substitution of the left bag's outputs for the inputs of a right expression *)
Fixpoint xsubst (env : string -> expr) (e : expr) : expr :=
  match e with
  | XIn x => env x
  | XMiss x o => XMiss x o
  | XFn f args => XFn f (map (xsubst env) args)
  end.

(* connect_bags, at name level *)
Definition compose (l r : nbag) : nbag :=
  let env x := match alookup (b_outs l) x with
               | Some e => e
               | None => if ns_mem x (b_virt l) then XIn x
                         else XMiss x (match alookup (b_optin r) x with Some b => b | None => false end)
               end in
  let outs_r := map (fun o => (fst o, xsubst env (snd o))) (b_outs r) in
  (* right virtuals, or persistent but unused *)
  let pass := filter (fun o => negb (lmem (fst o) (akeys (b_outs r))) && (ns_mem (fst o) (b_virt r) || lmem (fst o) (b_pers l))) (b_outs l) in
  {| b_outs := outs_r ++ pass;
     b_virt := ns_inter (b_virt l) (b_virt r);
     b_pers := b_pers l ++ b_pers r;
     b_optout := b_optout r ++ filter (fun o => existsb (String.eqb (fst o)) (akeys pass)) (b_optout l);
     (* dangling inputs of the composition: the left ones, and right inputs let through by the left virtual set *)
     b_optin := b_optin l ++ filter (fun o => negb (lmem (fst o) (akeys (b_outs l))) && ns_mem (fst o) (b_virt l)) (b_optin r) |}.

Inductive stack_item := SLayer (L : nlayer) | SCache (names : option (list string)).
Definition item_bag (prev : nbag) (it : stack_item) : nbag :=
  match it with SLayer L => layer_bag L | SCache names => cache_bag names prev end.
Definition empty_bag : nbag := {| b_outs := []; b_virt := Co []; b_pers := []; b_optout := []; b_optin := [] |}.
(* the head of a chain is a layer on its own; every further item is connected to what is there *)
Definition stack_bag (items : list stack_item) : nbag :=
  match items with
  | [] => empty_bag
  | it :: rest => fold_left (fun acc x => compose acc (item_bag acc x)) rest (item_bag empty_bag it)
  end.

(* GraphCompiler._validate_optionals *)
Fixpoint misses (e : expr) : list (string * bool) :=
  match e with
  | XIn _ => []
  | XMiss x o => [(x, o)]
  | XFn _ args => flat_map misses args
  end.
Inductive outcome := Fields (listed : list string) | DepError (field : string) (missing : list string).
Definition field_state (b : nbag) (o : string * expr) : nat :=     (* 0 available, 1 dropped quietly, 2 error *)
  match misses (snd o) with
  | [] => 0
  | ms => if (match alookup (b_optout b) (fst o) with Some x => x | None => false end) && forallb snd ms then 1 else 2
  end.
Definition bag_outcome (b : nbag) : outcome :=
  match filter (fun o => Nat.eqb (field_state b o) 2) (b_outs b) with
  | o :: _ => DepError (fst o) (snodup_ (map fst (misses (snd o))))
  | [] => Fields (map fst (filter (fun o => Nat.eqb (field_state b o) 0) (b_outs b)))
  end.

(* ---------- comparison with what the real layers expose (case shards of C02, C09, C18) ---------- *)
From Connectome Require Import RelBase.

Fixpoint xval (e : expr) : val :=
  match e with
  | XIn x => VStr ("IN:" ++ x)
  | XMiss x _ => VStr ("MISSING:" ++ x)
  | XFn f args => VApp f (map xval args) []
  end.

Inductive probe := PField (sig : list string) (v : val) | PVirtual | PAbsent.
Inductive nobs := OFields (listed : list string) (rows : list (string * probe)) | ODep (field : string) (missing : list string).
Record ncase := { nc_items : list stack_item; nc_obs : nobs }.

Definition check_stack (c : ncase) : nat :=
  let b := stack_bag (nc_items c) in
  match nc_obs c, bag_outcome b with
  | ODep f ms, DepError _ _ =>
      match alookup (b_outs b) f with
      | Some e => if Nat.eqb (field_state b (f, e)) 2 && sl_eqb (sset (map fst (misses e))) (ssort ms) then 0 else 2
      | None => 2
      end
  | OFields listed rows, Fields l =>
      if negb (sl_eqb (ssort l) (ssort listed)) then 3
      else if forallb (fun row =>
                match snd row, alookup (b_outs b) (fst row) with
                | PField sig v, Some e => lmem (fst row) l && sl_eqb (sset (ins_of e)) sig && veqb (xval e) v
                | PVirtual, None => ns_mem (fst row) (b_virt b)
                | PVirtual, Some e => negb (lmem (fst row) l) && false
                | PAbsent, None => negb (ns_mem (fst row) (b_virt b))
                | PAbsent, Some e => negb (lmem (fst row) l)
                | _, _ => false
                end) rows then 0 else 4
  | ODep _ _, Fields _ => 1
  | OFields _ _, DepError _ _ => 1
  end.
