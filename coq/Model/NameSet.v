(* Finite and co-finite sets of names: the `set` / `AntiSet` pair of connectome/utils.py.
   Lists stand for Python sets; every law below is stated through membership, so that it does not depend on
   iteration order or on duplicates. *)
From Coq Require Export List Bool String.
Export ListNotations.
Open Scope string_scope.

Definition lmem (x : string) (l : list string) : bool := existsb (String.eqb x) l.
Definition lunion (a b : list string) : list string := a ++ b.
Definition linter (a b : list string) : list string := filter (fun x => lmem x b) a.
Definition ldiff (a b : list string) : list string := filter (fun x => negb (lmem x b)) a.

Lemma lmem_In x l : lmem x l = true <-> In x l.
Proof.
  unfold lmem. rewrite existsb_exists. split.
  - intros [y [Hy E]]. apply String.eqb_eq in E. subst. exact Hy.
  - intros H. exists x. split; [exact H|apply String.eqb_refl].
Qed.
Lemma lmem_false x l : lmem x l = false <-> ~ In x l.
Proof. rewrite <- lmem_In. destruct (lmem x l); split; congruence. Qed.
Lemma in_lunion x a b : In x (lunion a b) <-> In x a \/ In x b.
Proof. apply in_app_iff. Qed.
Lemma in_linter x a b : In x (linter a b) <-> In x a /\ In x b.
Proof. unfold linter. rewrite filter_In, lmem_In. tauto. Qed.
Lemma in_ldiff x a b : In x (ldiff a b) <-> In x a /\ ~ In x b.
Proof. unfold ldiff. rewrite filter_In, negb_true_iff, lmem_false. tauto. Qed.

(* a Python name set: an ordinary set, or AntiSet(excluded) *)
Inductive nameset := Fin (s : list string) | Co (excluded : list string).

Definition ns_in (x : string) (s : nameset) : Prop :=
  match s with Fin s => In x s | Co e => ~ In x e end.
Definition ns_mem (x : string) (s : nameset) : bool :=
  match s with Fin s => lmem x s | Co e => negb (lmem x e) end.
Lemma ns_mem_in x s : ns_mem x s = true <-> ns_in x s.
Proof. destruct s; cbn; [apply lmem_In|rewrite negb_true_iff; apply lmem_false]. Qed.
