(* Concrete shared caches: MemoryCache (dict or pylru.lrucache) and the digest-keyed disk store.
   cache/memory.py, cache/disk.py; pylru is third-party and modelled by hand (MRU-first list, evict the last). *)
From Connectome Require Import Values MemGen.

Inductive ckind :=
| KRam (size : option nat)        (* MemoryCache(size): keys compared with Python == on NodeHash.value *)
| KDisk.                          (* DiskCache: keys compared by digest of the pickled value *)

Record cache_state := { ck : ckind; is_lru : bool; entries : list (sval * sval) }.   (* most recently used first *)
Definition cstore := list (nat * cache_state).

Definition new_cache (k : ckind) : cache_state :=
  {| ck := k; is_lru := match k with KRam (Some _) => true | _ => false end; entries := [] |}.

Definition key_eqb (k : ckind) (a b : sval) : bool :=
  match a, b with
  | SHash x, SHash y => match k with KRam _ => hpyeq x y | KDisk => heqb x y end
  | _, _ => false
  end.

Fixpoint e_find (k : ckind) (l : list (sval * sval)) (key : sval) : option sval :=
  match l with [] => None | (k', v) :: t => if key_eqb k key k' then Some v else e_find k t key end.
Fixpoint e_del (k : ckind) (l : list (sval * sval)) (key : sval) : list (sval * sval) :=
  match l with [] => [] | (k', v) :: t => if key_eqb k key k' then e_del k t key else (k', v) :: e_del k t key end.
Definition cap_of (c : cache_state) : option nat := match ck c with KRam s => if is_lru c then s else None | KDisk => None end.

Definition c_get (c : cache_state) (key : sval) : option sval * cache_state :=
  match e_find (ck c) (entries c) key with
  | None => (None, c)
  | Some v =>
      if is_lru c
      then (Some v, {| ck := ck c; is_lru := true; entries := (key, v) :: e_del (ck c) (entries c) key |})
      else (Some v, c)
  end.

Definition c_set (c : cache_state) (key v : sval) : cache_state :=
  let l := (key, v) :: e_del (ck c) (entries c) key in
  {| ck := ck c; is_lru := is_lru c; entries := match cap_of c with Some n => firstn n l | None => l end |}.

(* MemoryCache.clear(), as translated: the repaired code recreates a table of the same kind, the pinned one
   replaced an lrucache by a plain dict *)
Definition c_clear (c : cache_state) : cache_state :=
  match ck c with
  | KRam _ => {| ck := ck c;
                 is_lru := match mc_clear with ResetSameKind => is_lru c | ResetToDict => false end;
                 entries := [] |}
  | KDisk => c
  end.

Fixpoint s_find (σ : cstore) (c : nat) : option cache_state :=
  match σ with [] => None | (c', st) :: t => if Nat.eqb c c' then Some st else s_find t c end.
Fixpoint s_put (σ : cstore) (c : nat) (st : cache_state) : cstore :=
  match σ with
  | [] => [(c, st)]
  | (c', st') :: t => if Nat.eqb c c' then (c, st) :: t else (c', st') :: s_put t c st
  end.

Definition cget (σ : cstore) (c : nat) (key : sval) : option sval * cstore :=
  match s_find σ c with
  | None => (None, σ)
  | Some st => let (r, st') := c_get st key in (r, s_put σ c st')
  end.
Definition cset (σ : cstore) (c : nat) (key v : sval) : cstore :=
  match s_find σ c with
  | None => σ
  | Some st => s_put σ c (c_set st key v)
  end.
Definition cclear (σ : cstore) (c : nat) : cstore :=
  match s_find σ c with None => σ | Some st => s_put σ c (c_clear st) end.
Definition csize (σ : cstore) (c : nat) : nat :=
  match s_find σ c with None => 0 | Some st => List.length (entries st) end.
