(* Prelude of the regenerated kernels (Gen/*.v): the attributes an edge object may carry, and the few
   Python library functions the translated bodies call.  Hand-written. *)
From Connectome Require Import Values.

(* `self` of any Edge subclass.  Virtual methods are fields, so that a translated method body can call
   `self._compute_hash(inputs)` without knowing the subclass; Model/Edges.v ties the knots per class
   following the method resolution order (which the correspondence check compares with the real MRO). *)
Record attrs := {
  arity : nat;
  kw_names : list string;
  silent : list nat;
  function : string;                     (* FunctionEdge.function: a symbol *)
  value : val;                           (* ConstantEdge.value *)
  cache : nat;                           (* CacheEdge.cache: the identity of a storage *)
  id_to_index : list (val * nat);        (* SwitchEdge.id_to_index *)
  index : nat;                           (* SwitchMissing.index *)
  to_key : string;                       (* JoinMapping.to_key: a symbol *)
  graph_hash : nhash;                    (* self.graph.hash() of Filter/Group/Split edges *)
  left_hash : nhash; right_hash : nhash; (* JoinMapping._hashes *)
  algorithm : val; return_value : val;   (* HashDigestEdge *)
  edge_evaluate : gen;                   (* self.edge.evaluate() of ComputableHashBase *)
  edge_hash_graph : list nhash -> option nhash;    (* self.edge.hash_graph *)
  compute_hash_of : list nhash -> sval;  (* self._compute_hash *)
  make_hash_of : list nhash -> nhash;    (* self._make_hash *)
  evaluate_of : list sval -> gen         (* self._evaluate: may raise *)
}.

Definition hnone : nhash := HLeaf VNone.
Definition nonempty {A} (l : list A) : bool := match l with [] => false | _ => true end.

(* ComputableHashBase.compute_hash: `while True: value = yield iterator.send(value)` inside
   `try ... except StopIteration as e: return LeafHash(e.value), e.value` *)
Fixpoint relay (g : gen) : gen :=
  match g with
  | GRet r => GRet (SHashOut (HLeaf (unval r)) r)
  | GYield r k => GYield r (fun x => relay (k x))
  | GRaise e => GRaise e
  | GGet c key k => GGet c key (fun x => relay (k x))
  | GSet c key v k => GSet c key v (relay k)
  end.

(* dict lookup with Python `==` on the key *)
Fixpoint lookup (t : list (val * nat)) (k : val) : option nat :=
  match t with [] => None | (k', i) :: t' => if pyeq k k' then Some i else lookup t' k end.

(* `x in seq` for a tuple / list value *)
Definition val_in (x : val) (s : val) : bool :=
  match s with VTuple xs => existsb (pyeq x) xs | _ => false end.

(* sorted(d.items()) for string keys *)
Definition key_leb (a b : val * nat) : bool :=
  match fst a, fst b with
  | VStr s, VStr t => match String.compare s t with Gt => false | _ => true end
  | VInt x, VInt y => Z.leb x y
  | _, _ => true
  end.
Fixpoint insert_item (x : val * nat) (l : list (val * nat)) : list (val * nat) :=
  match l with [] => [x] | y :: t => if key_leb x y then x :: l else y :: insert_item x t end.
Definition sorted_items (t : list (val * nat)) : list (val * nat) := fold_right insert_item [] t.
Definition items_leaf (t : list (val * nat)) : val :=
  VTuple (map (fun kv => VTuple [fst kv; VInt (Z.of_nat (snd kv))]) (sorted_items t)).
