(* C19: what pickling does to a compiled function.  The graph (TreeNodes, edges, entry counts, signature) is copied
   structurally (default pickling: no __reduce__ / __getstate__ on Graph, TreeNode or the edges - checked by the
   translator); a MemoryCache travels as MemoryCache.__reduce__ says (REGENERATED: [mc_reduce_keeps]); a DiskCache
   travels as its storage locations; a function travels by qualified name, so a library-owned lambda or closure cannot. *)
From Connectome Require Import Values MemGen MemPickleGen PickleGen Store.
Local Open Scope list_scope.

Definition pickle_cache (c : cache_state) : cache_state :=
  match ck c with
  | KRam s => if list_eqb String.eqb mc_reduce_keeps ["size"%string] then new_cache (KRam s) else c
  | KDisk => c
  end.
Definition pickle_store (σ : cstore) : cstore := map (fun e => (fst e, pickle_cache (snd e))) σ.

Definition picklable (k : callable_kind) : bool := match k with Global | User => true | Lambda | Closure => false end.

(* the layer kinds C19 lists: Merge, Filter, GroupBy, CheckIds, Apply, the cache layers *)
Definition listed_files : list string :=
  ["layers/group.py"; "layers/filter.py"; "layers/merge.py"; "layers/apply.py"; "layers/cache.py"; "layers/columns.py"; "layers/check_ids.py"]%string.
Definition listed_callables : list (string * nat * callable_kind) :=
  filter (fun e => existsb (String.eqb (fst (fst e))) listed_files) lib_callables.

(* ---------- comparison with real round trips (case shards of C19) ---------- *)
Record pk_cache := { pc_kind : ckind; pc_lru : bool; pc_entries : nat }.
Definition state_of (c : pk_cache) : cache_state :=
  {| ck := pc_kind c; is_lru := pc_lru c; entries := repeat (SNoneS, SNoneS) (pc_entries c) |}.
Definition ckind_eqb (a b : ckind) : bool :=
  match a, b with
  | KDisk, KDisk => true
  | KRam None, KRam None => true
  | KRam (Some x), KRam (Some y) => Nat.eqb x y
  | _, _ => false
  end.
Definition cache_matches (st : cache_state) (o : pk_cache) : bool :=
  ckind_eqb (ck st) (pc_kind o) && Bool.eqb (is_lru st) (pc_lru o) && Nat.eqb (List.length (entries st)) (pc_entries o).
Fixpoint all2b {A B} (f : A -> B -> bool) (a : list A) (b : list B) : bool :=
  match a, b with [], [] => true | x :: a', y :: b' => f x y && all2b f a' b' | _, _ => false end.

Record pk_case := {
  pk_callables : list callable_kind;      (* every function object stored in the edges *)
  pk_succeeded : bool;
  pk_before : list pk_cache;              (* the caches of the original when it is pickled *)
  pk_original_after : list pk_cache;
  pk_copy : list pk_cache
}.
Definition check_pickle (c : pk_case) : nat :=
  if negb (Bool.eqb (forallb picklable (pk_callables c)) (pk_succeeded c)) then 1
  else if negb (pk_succeeded c) then 0
  else if negb (all2b cache_matches (map (fun x => pickle_cache (state_of x)) (pk_before c)) (pk_copy c)) then 2
  else if negb (all2b cache_matches (map state_of (pk_before c)) (pk_original_after c)) then 3
  else 0.
