(* engine/graph.py hash_graph over the regenerated _hash_graph bodies (executable model). *)
From Connectome Require Import Values Attrs VM Edges.
Local Open Scope list_scope.

Section GraphHash.
Variable g : graph.
Variable inputs : list nat.         (* the input nodes: dict.fromkeys(inputs, _PLACEHOLDER) *)

(* engine/graph.py hash_graph: memoised bottom-up; None = HashError (an impure edge) or a malformed graph *)
Fixpoint hash_graph (fuel n : nat) : option nhash :=
  match fuel with
  | 0 => None
  | S f =>
    if existsb (Nat.eqb n) inputs then Some HPlaceholder
    else match nth n g Leaf with
         | Leaf => None
         | Inner e ps =>
             let rs := map (hash_graph f) ps in
             if forallb (fun r => match r with Some _ => true | None => false end) rs
             then edge_hash_graph_of e (map (fun r => match r with Some h => h | None => hnone end) rs)
             else None
         end
  end.
End GraphHash.
