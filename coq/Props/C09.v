(* C09 placeholder *)
From Connectome Require Import Values NameSet NameLevel.
Theorem C09_placeholder : True.
Proof. exact I. Qed.
Print Assumptions C09_placeholder.
