(* C09 — chaining is associative and never mutates or couples its operands. *)
From Connectome Require Import Values NameSet NameLevel NameFacts.
From Connectome Require BagGen.
From Connectome Require Bag.
Local Open Scope list_scope.

(* Why every bracketing gives the same pipeline: a nested Chain (and a LazyChain) in tail position does not connect
   its own pre-built container, it re-applies its layers one by one to what precedes it (Chain._connect flattens).
   Hence connecting any tree of nested chains equals connecting the flat sequence of its layers, whatever the layers
   are (also layers built against the previous one, like cache layers). *)
Theorem C09_nested_chains_flatten :
  forall t prev, connect_tree prev t = fold_left connect_item (flatten t) prev.
Proof. exact connect_tree_flat. Qed.
Print Assumptions C09_nested_chains_flatten.
Theorem C09_bracketing_irrelevant :
  forall t1 t2 prev, flatten t1 = flatten t2 -> connect_tree prev t1 = connect_tree prev t2.
Proof. exact bracketing_irrelevant. Qed.
Print Assumptions C09_bracketing_irrelevant.

(* Operands are never coupled: connect_bags works on frozen copies, i.e. on node sets that are disjoint from each other
   and from everything else; under exactly this condition the connection denotes the substitution of the left outputs
   into the right operand, the left operand's own denotation is untouched, and the result does not depend on the order
   of the edges.  (Sharing a layer object between pipelines, or using it twice in one, gives each use its own copy.) *)
Theorem C09_frozen_operands_independent :
  forall (c1 c2 : Bag.nd -> Bag.nd) (l r : Bag.bag),
  (forall n, List.In n (Bag.nodes l) -> List.In n (Bag.nodes r) -> False) ->
  (forall n, ~ List.In (c1 n) (Bag.nodes l) /\ ~ List.In (c1 n) (Bag.nodes r)) ->
  (forall n, ~ List.In (c2 n) (Bag.nodes l) /\ ~ List.In (c2 n) (Bag.nodes r)) ->
  (forall n, snd (c1 n) = snd n) ->
  (forall e, List.In e (Bag.edges r) -> ~ List.In (Bag.bout e) (Bag.inputs r)) ->
  forall envl : String.string -> Bag.expr,
  (forall lo, List.In lo (Bag.outputs l) -> Bag.Den l lo (envl (snd lo))) ->
  (forall ro e, List.In ro (Bag.outputs r) -> Bag.Den r ro e ->
     Bag.Den (Bag.connect c1 c2 l r) ro (Bag.subst (Bag.env l envl) e)) /\
  (forall lo, List.In lo (Bag.pass l r) -> Bag.Den (Bag.connect c1 c2 l r) (c2 lo) (envl (snd lo))).
Proof. exact Bag.connect_is_substitution. Qed.
Print Assumptions C09_frozen_operands_independent.

Example C09_example :
  let a := SLayer {| l_defs := [("x", ("fa", ["x"]))]; l_params := []; l_inherit := Co []; l_optional := []; l_persistent := []; l_cache := false |} in
  let b := SCache None in
  let c := SLayer {| l_defs := [("y", ("fc", ["x"]))]; l_params := []; l_inherit := Co []; l_optional := []; l_persistent := []; l_cache := false |} in
  connect_tree (item_bag empty_bag a) (TChain [TItem b; TChain [TItem c; TLazy [TItem a]]])
  = connect_tree (item_bag empty_bag a) (TChain [TChain [TItem b; TItem c]; TItem a]).
Proof. apply bracketing_irrelevant. reflexivity. Qed.
Print Assumptions C09_example.

(* The name-level model (Model/NameLevel.v) mirrors connect_bags, normalize_bag and EdgesBag.freeze of containers/base.py and is compared with real layer stacks.
   The fingerprints (sha256 of the normalised body) are regenerated on every run; an edit of one of these functions re-opens this property
   even if no sampled case shows a difference. *)
Theorem C09_mirrored_functions_are_the_pinned_ones :
  BagGen.shape_connect_bags = "330bc8a991173b73" /\
  BagGen.shape_normalize_bag = "7cd93bd3cd2ed163" /\
  BagGen.shape_EdgesBag_freeze = "6e09dc87af0979b4" /\
  BagGen.shape_EdgesBag_init = "19042133648c6d76".
Proof. repeat split; reflexivity. Qed.
Print Assumptions C09_mirrored_functions_are_the_pinned_ones.
