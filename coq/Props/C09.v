(* C09 — chaining is associative and never mutates or couples its operands. *)
From Connectome Require Import Values NameSet NameLevel NameFacts.
From Connectome Require Bag.
Local Open Scope list_scope.

(* Why every bracketing gives the same pipeline: a nested Chain (and a LazyChain) in tail position does not connect
   its own pre-built container, it re-applies its layers one by one to what precedes it (Chain._connect flattens).
   Hence connecting any tree of nested chains equals connecting the flat sequence of its layers, whatever the layers
   are (also layers built against the previous one, like cache layers). *)
Theorem C09_nested_chains_flatten :
  forall t prev, connect_tree prev t = fold_left connect_item (flatten t) prev.
Proof. exact connect_tree_flat. Qed.
Print Assumptions C09_nested_chains_flatten.
Theorem C09_bracketing_irrelevant :
  forall t1 t2 prev, flatten t1 = flatten t2 -> connect_tree prev t1 = connect_tree prev t2.
Proof. exact bracketing_irrelevant. Qed.
Print Assumptions C09_bracketing_irrelevant.

(* Operands are never coupled: connect_bags works on frozen copies, i.e. on node sets that are disjoint from each other
   and from everything else; under exactly this condition the connection denotes the substitution of the left outputs
   into the right operand, the left operand's own denotation is untouched, and the result does not depend on the order
   of the edges.  (Sharing a layer object between pipelines, or using it twice in one, gives each use its own copy.) *)
Theorem C09_frozen_operands_independent :
  forall (c1 c2 : Bag.nd -> Bag.nd) (l r : Bag.bag),
  (forall n, List.In n (Bag.nodes l) -> List.In n (Bag.nodes r) -> False) ->
  (forall n, ~ List.In (c1 n) (Bag.nodes l) /\ ~ List.In (c1 n) (Bag.nodes r)) ->
  (forall n, ~ List.In (c2 n) (Bag.nodes l) /\ ~ List.In (c2 n) (Bag.nodes r)) ->
  (forall n, snd (c1 n) = snd n) ->
  (forall e, List.In e (Bag.edges r) -> ~ List.In (Bag.bout e) (Bag.inputs r)) ->
  forall envl : String.string -> Bag.expr,
  (forall lo, List.In lo (Bag.outputs l) -> Bag.Den l lo (envl (snd lo))) ->
  (forall ro e, List.In ro (Bag.outputs r) -> Bag.Den r ro e ->
     Bag.Den (Bag.connect c1 c2 l r) ro (Bag.subst (Bag.env l envl) e)) /\
  (forall lo, List.In lo (Bag.pass l r) -> Bag.Den (Bag.connect c1 c2 l r) (c2 lo) (envl (snd lo))).
Proof. exact Bag.connect_is_substitution. Qed.
Print Assumptions C09_frozen_operands_independent.

Example C09_example :
  let a := SLayer {| l_defs := [("x", ("fa", ["x"]))]; l_params := []; l_inherit := Co []; l_optional := []; l_persistent := []; l_cache := false |} in
  let b := SCache None in
  let c := SLayer {| l_defs := [("y", ("fc", ["x"]))]; l_params := []; l_inherit := Co []; l_optional := []; l_persistent := []; l_cache := false |} in
  connect_tree (item_bag empty_bag a) (TChain [TItem b; TChain [TItem c; TLazy [TItem a]]])
  = connect_tree (item_bag empty_bag a) (TChain [TChain [TItem b; TItem c]; TItem a]).
Proof. apply bracketing_irrelevant. reflexivity. Qed.
Print Assumptions C09_example.

(* BEGIN PINNED FINGERPRINTS (tools/pin_shapes.py) *)
(* The functions and classes of /repo that hand-written parts of the model mirror (Model/VM.v, NameLevel.v, Loopback.v) and the glue around the modelled core
   this property is anchored in: the fingerprints (sha256 of the normalised source, comments and docstrings dropped) are regenerated on every run; an edit of one
   of them re-opens this property even if no sampled case shows a difference.  Rewritten by tools/pin_shapes.py on a tree on which every check passes. *)
From Connectome Require BagGen GlueChainGen GlueFactoryGen.
Theorem C09_mirrored_functions_are_the_pinned_ones :
  BagGen.shape_connect_bags = "330bc8a991173b73"%string /\
  BagGen.shape_normalize_bag = "7cd93bd3cd2ed163"%string /\
  BagGen.shape_EdgesBag_freeze = "6e09dc87af0979b4"%string /\
  BagGen.shape_EdgesBag_init = "19042133648c6d76"%string /\
  GlueChainGen.shape_class_CallableLayer = "c80fc9ed956106f0"%string /\
  GlueChainGen.shape_class_Instance = "e7a645f498b26984"%string /\
  GlueChainGen.shape_class_Chain = "9d9b18d30947136d"%string /\
  GlueChainGen.shape_class_LazyChain = "a1c1f777b7f04bfb"%string /\
  GlueChainGen.shape_connect = "32cfcae91c959073"%string /\
  GlueFactoryGen.shape_class_GraphFactory = "81497759c0671ad7"%string /\
  GlueFactoryGen.shape_class_SourceFactory = "1808b21b3bce3951"%string /\
  GlueFactoryGen.shape_class_TransformFactory = "c44de91624ae4321"%string /\
  GlueFactoryGen.shape_add_from_mixins = "75970a13392501ac"%string /\
  GlueFactoryGen.shape_is_detectable = "01389bb1efb83cb2"%string /\
  GlueFactoryGen.shape_items_to_container = "f7b238bfe3e856c6"%string /\
  GlueFactoryGen.shape_class_FunctionBase = "2a1e9fd23a29f19d"%string /\
  GlueFactoryGen.shape_class_Function = "727356a49c35f2ce"%string /\
  GlueFactoryGen.shape_class_FunctionWrapper = "20f303f31715c14d"%string /\
  GlueFactoryGen.shape_class_Inverse = "d803d7d513cd3b06"%string /\
  GlueFactoryGen.shape_class_Positional = "ff7f4bccfea673aa"%string /\
  GlueFactoryGen.shape_class_Impure = "f33a1c51c28660a4"%string /\
  GlueFactoryGen.shape_class_APIMeta = "d04e35766e894328"%string /\
  GlueFactoryGen.shape_class_HashByValue = "16222fab9891d910"%string /\
  GlueFactoryGen.shape_class_CombinedHashByValue = "a5203dcb1319f438"%string /\
  GlueFactoryGen.shape_hash_by_value = "8a4ba5e0fdeb3b7c"%string /\
  GlueFactoryGen.shape_class_NodeStorage = "6d3e8d03e5bc0ef6"%string /\
  GlueFactoryGen.shape_replace_annotation = "1793c6c05b9f2740"%string.
Proof. repeat split; reflexivity. Qed.
Print Assumptions C09_mirrored_functions_are_the_pinned_ones.
(* END PINNED FINGERPRINTS *)
