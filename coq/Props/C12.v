(* C12 — a crash during a disk-cache write never corrupts what later runs read. *)
From Coq Require Import List Arith Bool String.
From Connectome Require Import DiskGen Crash CrashFacts.
Import ListNotations. Local Open Scope list_scope.

(* For every assignment V of blob lists to entries and every dependency table D: start on any store whose index files
   are missing, truncated or complete; let processes take single steps (one file-system mutation of a write, one read)
   and let, at any point and any number of times, the process die, any blobs vanish, any index file vanish or be
   truncated, the temp folder hold anything, and a new process start with any list of calls.  Then every call that is
   answered is answered with the value of its entry, and no write ever meets a conflicting index file. *)
Theorem C12_crash_safe : forall V D c0 out c1,
  CInv V c0 -> hsteps V D c0 out c1 -> Forall (ok_ans V) out /\ CInv V c1.
Proof. exact crash_safe. Qed.
Print Assumptions C12_crash_safe.

(* the premise holds for a fresh store and, after any history, for whatever a later process starts on *)
Theorem C12_start : forall V gets,
  CInv V {| c_fs := empty_fs; c_cur := None; c_todo := map IGet gets |} /\
  (forall s, Inv V s -> CInv V {| c_fs := s; c_cur := None; c_todo := map IGet gets |}) /\
  (forall s s', Inv V s -> lost s s' -> Inv V s').
Proof. intros V gets. split; [apply start_cinv, empty_inv|split; [intros s; apply start_cinv|apply lost_inv]]. Qed.
Print Assumptions C12_start.

(* never partially read: a hit is the complete mapping of the entry, every blob it names is present, nothing changes *)
Theorem C12_hit_is_complete : forall V k s m,
  Inv V s -> fst (read k s) = Hit m -> m = V k /\ (forall b, In b m -> has (blobs s) b = true) /\ snd (read k s) = s.
Proof. exact hit_is_complete. Qed.
Print Assumptions C12_hit_is_complete.

(* never permanently unusable: from any such store an uninterrupted call for an entry (whose computation reads no other
   disk entry) finishes within 4 * |blobs| + 8 steps with the value, and leaves the entry readable *)
Theorem C12_recovers : forall V D k s, D k = [] -> Inv V s ->
  exists n c' hit, n <= 4 * List.length (V k) + 8 /\
    srun V D n {| c_fs := s; c_cur := None; c_todo := [IGet k] |} = (c', [Answer k (V k) hit]) /\
    finished c' = true /\ fst (read k (c_fs c')) = Hit (V k).
Proof. exact get_completes. Qed.
Print Assumptions C12_recovers.

(* ... and with any acyclic nesting of disk caches (the computation of an entry reads the entries D k, which rank
   below it): from any such store an uninterrupted call for k finishes, every answer on the way is the value of its
   entry, and k is readable afterwards *)
Theorem C12_recovers_nested : forall V D (rank : key -> nat),
  (forall k d, In d (D k) -> rank d < rank k) ->
  forall k s, Inv V s ->
  exists n c' outs, srun V D n {| c_fs := s; c_cur := None; c_todo := [IGet k] |} = (c', outs) /\
    finished c' = true /\ Forall (ok_ans V) outs /\ fst (read k (c_fs c')) = Hit (V k).
Proof. exact get_completes_nested. Qed.
Print Assumptions C12_recovers_nested.

(* regenerated from cache/disk.py and layers/cache.py: a miss is a value, and the blob store raises on a missing blob
   (which is what turns a lost blob into a deleted entry instead of a wrong or failing read) *)
Theorem C12_store_is_translated :
  disk_get_raises_on_miss = false /\ disk_set_raises = false /\
  simple_store = "index: DiskDict sha256 [1,31]; storage: HashKeyStorage(DiskDict sha256 [1,31]), error=True"%string.
Proof. repeat split; reflexivity. Qed.
Print Assumptions C12_store_is_translated.

(* the premises are met, and the steps do something: a writer dies after the blob of entry 0 is in place and its index
   is not; the blob is then lost and a stale truncated index of entry 1 appears; a new process recovers both *)
Example C12_example :
  let V := fun k => match k with 0 => [10; 11] | _ => [11; 12] end in
  let D := fun _ : key => @nil key in
  let c := fst (srun V D 9 {| c_fs := empty_fs; c_cur := None; c_todo := [IGet 0; IGet 1] |}) in
  blobs (c_fs c) = [11; 10] /\ index (c_fs c) 0 = IAbsent /\
  let s' := {| blobs := [11]; index := fun k => if Nat.eqb k 1 then ITorn else IAbsent; tmps := 3 |} in
  lost (c_fs c) s' /\
  snd (srun V D 40 {| c_fs := s'; c_cur := None; c_todo := [IGet 0; IGet 1; IGet 0] |})
  = [Answer 0 [10; 11] false; Answer 1 [11; 12] false; Answer 0 [10; 11] true].
Proof.
  cbv zeta.
  match goal with |- blobs (c_fs ?c) = _ /\ _ => set (cc := c) end.
  assert (Hb : blobs (c_fs cc) = [11; 10]) by (vm_compute; reflexivity).
  assert (Hi : forall k, index (c_fs cc) k = IAbsent) by (intros k; vm_compute; reflexivity).
  split; [exact Hb|]. split; [apply Hi|]. split.
  - split.
    + intros b. rewrite Hb. unfold has. cbn. rewrite orb_false_r. intros ->. reflexivity.
    + intros k. rewrite Hi. cbn. destruct (Nat.eqb k 1); auto.
  - vm_compute. reflexivity.
Qed.
Print Assumptions C12_example.

(* BEGIN PINNED FINGERPRINTS (tools/pin_shapes.py) *)
(* The functions and classes of /repo that hand-written parts of the model mirror (Model/VM.v, NameLevel.v, Loopback.v) and the glue around the modelled core
   this property is anchored in: the fingerprints (sha256 of the normalised source, comments and docstrings dropped) are regenerated on every run; an edit of one
   of them re-opens this property even if no sampled case shows a difference.  Rewritten by tools/pin_shapes.py on a tree on which every check passes. *)
From Connectome Require GlueCacheGen.
Theorem C12_mirrored_functions_are_the_pinned_ones :
  GlueCacheGen.shape_class_CacheToStorage = "bb02462476ebf5a3"%string /\
  GlueCacheGen.shape_class_CacheToRam = "671471faaea3be32"%string /\
  GlueCacheGen.shape_class_CacheToDisk = "ab13d5028a9842ed"%string /\
  GlueCacheGen.shape_priv_normalize_disk_arguments = "8b4510643237a667"%string /\
  GlueCacheGen.shape_priv_resolve_serializer = "37e132734e002621"%string /\
  GlueCacheGen.shape_class_DynamicConnectLayer = "7ece76ebf623a344"%string /\
  GlueCacheGen.shape_class_MemoryCache = "cfe8167a538c6fe4"%string /\
  GlueCacheGen.shape_class_DiskCache = "71fb3386aa709b95"%string.
Proof. repeat split; reflexivity. Qed.
Print Assumptions C12_mirrored_functions_are_the_pinned_ones.
(* END PINNED FINGERPRINTS *)
