(* C20 — building, compiling and calling a pipeline cost time polynomial in its size. *)
From Connectome Require Import Values VM GraphGen TravGen Cost.
From Connectome Require EvictGen GraphGen.
Local Open Scope list_scope.

(* every graph traversal of the library remembers the nodes it has visited (regenerated shapes) ... *)
Theorem C20_all_traversals_memoised :
  trav_validate_graph = Memo /\ trav_count_entries = Memo /\ trav_hash_graph = Memo /\ trav_find_dependencies = Memo /\
  trav_detect_cycles = Memo /\ trav_detect_impure = Memo /\ trav_to_edges = Memo.
Proof. repeat split. Qed.
Print Assumptions C20_all_traversals_memoised.

(* ... and such a traversal calls its visitor at most 1 + |E| times, on every graph, from every node *)
Theorem C20_memo_traversal_linear :
  forall (g : pgraph) fuel n, snd (dfs_memo g fuel n []) <= 1 + total_edges g.
Proof. exact memo_traversal_linear. Qed.
Print Assumptions C20_memo_traversal_linear.

(* finding F4a, pinned tree: without the visited set the Crop pattern image_i(image_{i-1}, box_i), box_i(image_{i-1})
   costs 2^k visitor calls for k layers, on every graph containing it *)
Theorem C20_perpath_refuted :
  forall (g : pgraph) (img box : nat -> nat) k,
  (forall i, 1 <= i <= k -> parents g (img i) = [img (i - 1); box i] /\ parents g (box i) = [img (i - 1)]) ->
  forall fuel, 2 * k < fuel -> 2 ^ k <= dfs_paths g fuel (img k).
Proof. exact perpath_exponential. Qed.
Print Assumptions C20_perpath_refuted.

(* known finding F4b: the key of a RAM cache (NodeHash.value, a tuple tree without sharing) is exponential in the
   number of Crop layers *)
Theorem C20_key_tree_refuted : forall k, 2 ^ k <= hsize (crop_hash k).
Proof. exact crop_hash_exponential. Qed.
Print Assumptions C20_key_tree_refuted.

Example C20_example :
  snd (dfs_memo (diamond 10) 30 20 []) = 31 /\ Nat.ltb 3000 (dfs_paths (diamond 10) 30 20) = true /\ total_edges (diamond 10) = 30.
Proof. exact diamond_10. Qed.
Print Assumptions C20_example.

(* The per-call tables of the machine model (Model/VM.v: evict, the counted-key assertion, two fresh tables per call over
   counts doubled by Graph.__init__) are the ones engine/utils.py and engine/graph.py define (regenerated facts). *)
Theorem C20_eviction_tables_are_translated :
  EvictGen.evict_rule = "pop-at-one-else-decrement" /\ EvictGen.setitem_asserts_counted = true
  /\ GraphGen.graph_multiplier = 2 /\ GraphGen.fresh_counts_per_call = true /\ GraphGen.count_rule = "path-count-dp".
Proof. repeat split; reflexivity. Qed.
Print Assumptions C20_eviction_tables_are_translated.

(* BEGIN PINNED FINGERPRINTS (tools/pin_shapes.py) *)
(* The functions and classes of /repo that hand-written parts of the model mirror (Model/VM.v, NameLevel.v, Loopback.v) and the glue around the modelled core
   this property is anchored in: the fingerprints (sha256 of the normalised source, comments and docstrings dropped) are regenerated on every run; an edit of one
   of them re-opens this property even if no sampled case shows a difference.  Rewritten by tools/pin_shapes.py on a tree on which every check passes. *)
From Connectome Require VmGen GlueGraphGen.
Theorem C20_mirrored_functions_are_the_pinned_ones :
  VmGen.shape_execute = "3390af1da9648cc9"%string /\
  GlueGraphGen.shape_class_Graph = "9b10ec592949c6f4"%string /\
  GlueGraphGen.shape_evaluate = "2cfd3509723284f1"%string /\
  GlueGraphGen.shape_compute_hash = "e8fe66bcf0ec3ecc"%string /\
  GlueGraphGen.shape_class_GraphCompiler = "b1003ba6d768dee1"%string /\
  GlueGraphGen.shape_find_dependencies = "98effd5d1564b846"%string /\
  GlueGraphGen.shape_class_TreeNode = "f3a44e95e44d05b5"%string.
Proof. repeat split; reflexivity. Qed.
Print Assumptions C20_mirrored_functions_are_the_pinned_ones.
(* END PINNED FINGERPRINTS *)
