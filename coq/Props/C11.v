(* C11 — concurrent calls on one pipeline behave like sequential calls.
   Rely/guarantee per thread: a call reads and writes the shared caches only through get / set; between any two of
   its accesses the other threads may have done ANYTHING to the caches that keeps every entry Good ([env t] is what
   they did before this call's t-th access; it may differ at every access, so every schedule of every number of
   threads is covered), and every write of this call is Good, so it is itself admissible interference for the others.
   The eviction tables H, C of a call are created by the call and never shared (translated: fresh_counts_per_call). *)
From Connectome Require Import Values Attrs VM Edges EdgesGen Store GraphGen MemGen Evaluator L2 HashSound SpecEq EqFacts C01Inst C04Main Total RaiseDir C01Raise Examples.
From Connectome Require ColStore ColumnsGen Columns ColumnsFacts EqFacts.
Local Open Scope list_scope.

Theorem C11_any_schedule :
  forall apply raises (g : graph) (ins : list (nat * val)),
  wf g ->
  (forall n v e ps, aget ins n = Some v -> nth n g Leaf = Inner e ps -> False) ->
  (forall n e ps, nth n g Leaf = Inner e ps -> node_ok e ps) ->
  (forall n e ps, nth n g Leaf = Inner e ps -> edge_ok e (List.length ps) = true) ->
  (forall n c ps, nth n g Leaf = Inner (ECache c) ps ->
     exists F h v, sem apply raises g ins F n = Some (h, v) /\ nonum_h h = true) ->
  forall o F h v (σ : cstore) (env : nat -> cstore -> cstore),
  (forall t s, CInvS apply s -> CInvS apply (env t s)) ->
  o <= List.length g -> sem apply raises g ins F o = Some (h, v) -> CInvS apply σ ->
  exists k s', (forall k', k <= k' ->
      call (shape g) (gens_of g) apply raises tstore tget tset (tenv env) ins o (0, σ) k' = Finished tstore (SVal v) s')
    /\ CInvS apply (snd (sto tstore s')).
Proof. exact call_transparent_env. Qed.
Print Assumptions C11_any_schedule.

(* ... and when user functions fail: under any schedule and any behaviour of the user functions the call is, at every
   step, still running, or has returned the cache-free value, or has stopped with the exception of a user function that
   raised - never with an internal error caused by what the other threads did to the caches *)
Theorem C11_failures_are_user_exceptions :
  forall apply (g : graph) (ins : list (nat * val)) raises,
  wf g ->
  (forall n v e ps, aget ins n = Some v -> nth n g Leaf = Inner e ps -> False) ->
  (forall n e ps, nth n g Leaf = Inner e ps -> node_ok e ps) ->
  (forall n e ps, nth n g Leaf = Inner e ps -> edge_ok e (List.length ps) = true) ->
  (forall n c ps, nth n g Leaf = Inner (ECache c) ps ->
     exists F h v, sem apply quiet g ins F n = Some (h, v) /\ nonum_h h = true) ->
  forall o F h v (σ : cstore) (env : nat -> cstore -> cstore),
  (forall t s, CInvS apply s -> CInvS apply (env t s)) ->
  o <= List.length g -> sem apply quiet g ins F o = Some (h, v) -> CInvS apply σ ->
  exists k s', forall k',
    let out := call (shape g) (gens_of g) apply raises tstore tget tset (tenv env) ins o (0, σ) k' in
    (exists s1, out = Running tstore s1 /\ k' < k) \/ out = Finished tstore (SVal v) s' \/ user_raise raises tstore out.
Proof. exact scheduled_only_user_exceptions. Qed.
Print Assumptions C11_failures_are_user_exceptions.

(* guarantee half, stated on its own: get, set and clear of the concrete caches keep every entry Good, and a cache
   never returns a value stored under another key (the returned value is Good for the key that was asked) *)
Theorem C11_get_keeps_and_no_cross_key :
  forall apply σ c k r σ', CInvS apply σ -> cget σ c k = (r, σ') ->
  CInvS apply σ' /\ (forall v, r = Some v -> Good apply c k v).
Proof. exact cinv_get. Qed.
Print Assumptions C11_get_keeps_and_no_cross_key.
Theorem C11_set_keeps : forall apply σ c k v, CInvS apply σ -> Good apply c k v -> CInvS apply (cset σ c k v).
Proof. exact cinv_set. Qed.
Print Assumptions C11_set_keeps.
Theorem C11_clear_keeps : forall apply σ c, CInvS apply σ -> CInvS apply (cclear σ c).
Proof. exact cinv_clear. Qed.
Print Assumptions C11_clear_keeps.

(* the memory cache table is read and written only while its lock is held: every use of self._cache in
   MemoryCache.get / set / clear is lexically inside `with self._lock` (regenerated facts), so the atomic
   actions of the model are atomic in the code; each call builds its own EvictionCaches *)
Theorem C11_lock_scopes : mc_locked_get = true /\ mc_locked_set = true /\ mc_locked_clear = true /\ fresh_counts_per_call = true.
Proof. repeat split. Qed.
Print Assumptions C11_lock_scopes.

(* Non-vacuity: the cached pipeline of C04's example under an environment that clears the RAM cache before every
   second access and inserts a Good foreign entry into the disk cache still returns the cache-free value *)
Definition c11_env (t : nat) (σ : cstore) : cstore :=
  if Nat.even t then cclear σ 0
  else cset σ 1 (SHash (HLeaf (VStr "other"))) (SVal (VStr "other")).
Example C11_example :
  match call (shape (c04_g "g")) (gens_of (c04_g "g")) ex_apply (fun _ _ _ => false) tstore tget tset (tenv c11_env)
             [(0, VStr "a")] 4 (0, [(0, new_cache (KRam (Some 1))); (1, new_cache KDisk)]) 400 with
  | Finished _ (SVal v) s => v = c04_val "g" "a" /\ fst (sto tstore s) = 4
  | _ => False end.
Proof. vm_compute. auto. Qed.
Print Assumptions C11_example.

(* ---------- column caches under concurrency ----------
   A request through a column of CacheColumns while other threads use the layer's two stores: [env n] is whatever they
   do before the n-th store access of this request (RAM lookup, disk lookup, disk write, every RAM write) - other
   requests through any column of the layer at any stage, clears, writes of CacheToDisk layers over the same folders:
   anything that keeps the stores right.  The request still returns the value of the uncached field or the exception of
   a user function, and leaves the stores right - so the same holds for the other threads, whose requests are of the same
   kind.  Granularity: one access of MemoryCache (under its lock) or of the disk store (one tarn operation) is atomic;
   that the real accesses are is what the thread harness and C12 check.  Over the REGENERATED CachedColumn.evaluate;
   with nobody else around this is the sequential body (ColumnsFacts.column_evaluate_i_id).  Assumptions as in
   C04_column_caches_are_transparent. *)
Theorem C11_column_request_under_interference :
  forall (sorted : list val -> list val) (get_hash : nat -> val -> option nhash) (get_value : nat -> val -> option val)
         (h : nat -> val -> nhash) (v : nat -> val -> val),
  (forall l, Permutation.Permutation (sorted l) l) ->
  (forall c k x, get_hash c k = Some x -> x = h c k) ->
  (forall c k x, get_value c k = Some x -> x = v c k) ->
  (forall c k c' k', hpyeq (h c k) (h c' k') = true -> v c k = v c' k') ->
  (forall c k c' ks, h c k <> ColumnsFacts.compound (map (h c') ks)) ->
  forall env : nat -> ColStore.colstore -> ColStore.colstore,
  (forall n st, ColumnsFacts.Inv h v st -> ColumnsFacts.Inv h v (env n st)) ->
  forall col size key keys st r st' ev,
  ColumnsFacts.Inv h v st -> ColumnsFacts.exact_key pyeq key -> In key keys -> size <> Some 0 ->
  Columns.column_request_i hpyeq heqb pyeq sorted get_hash get_value env col size key keys st = (r, st', ev) ->
  (r = ColStore.COk (v col key) \/ exists f, r = ColStore.CErr (EUser f)) /\ ColumnsFacts.Inv h v st'.
Proof.
  intros sorted get_hash get_value h v H1 H2 H3 H4 H5 env Henv.
  exact (ColumnsFacts.column_request_concurrent hpyeq heqb pyeq sorted get_hash get_value h v EqFacts.hpyeq_refl EqFacts.heqb_eq EqFacts.pyeq_refl
           H1 H2 H3 H4 H5 env Henv).
Qed.
Print Assumptions C11_column_request_under_interference.

Theorem C11_column_sequential_is_the_idle_case :
  forall sorted get_hash get_value col size output key keys st,
  ColumnsGen.column_evaluate_i hpyeq heqb pyeq sorted get_hash get_value (fun _ s => s) col size output key keys st
  = ColumnsGen.column_evaluate hpyeq heqb pyeq sorted get_hash get_value col size output key keys st.
Proof. intros. apply ColumnsFacts.column_evaluate_i_id. Qed.
Print Assumptions C11_column_sequential_is_the_idle_case.

(* BEGIN PINNED FINGERPRINTS (tools/pin_shapes.py) *)
(* The functions and classes of /repo that hand-written parts of the model mirror (Model/VM.v, NameLevel.v, Loopback.v) and the glue around the modelled core
   this property is anchored in: the fingerprints (sha256 of the normalised source, comments and docstrings dropped) are regenerated on every run; an edit of one
   of them re-opens this property even if no sampled case shows a difference.  Rewritten by tools/pin_shapes.py on a tree on which every check passes. *)
From Connectome Require GlueCacheGen GlueGraphGen.
Theorem C11_mirrored_functions_are_the_pinned_ones :
  GlueCacheGen.shape_class_CacheToStorage = "bb02462476ebf5a3"%string /\
  GlueCacheGen.shape_class_CacheToRam = "671471faaea3be32"%string /\
  GlueCacheGen.shape_class_CacheToDisk = "ab13d5028a9842ed"%string /\
  GlueCacheGen.shape_priv_normalize_disk_arguments = "8b4510643237a667"%string /\
  GlueCacheGen.shape_priv_resolve_serializer = "37e132734e002621"%string /\
  GlueCacheGen.shape_class_DynamicConnectLayer = "7ece76ebf623a344"%string /\
  GlueCacheGen.shape_class_MemoryCache = "cfe8167a538c6fe4"%string /\
  GlueCacheGen.shape_class_DiskCache = "71fb3386aa709b95"%string /\
  GlueGraphGen.shape_class_Graph = "9b10ec592949c6f4"%string /\
  GlueGraphGen.shape_evaluate = "2cfd3509723284f1"%string /\
  GlueGraphGen.shape_compute_hash = "e8fe66bcf0ec3ecc"%string /\
  GlueGraphGen.shape_class_GraphCompiler = "b1003ba6d768dee1"%string /\
  GlueGraphGen.shape_find_dependencies = "98effd5d1564b846"%string /\
  GlueGraphGen.shape_class_TreeNode = "f3a44e95e44d05b5"%string.
Proof. repeat split; reflexivity. Qed.
Print Assumptions C11_mirrored_functions_are_the_pinned_ones.
(* END PINNED FINGERPRINTS *)
