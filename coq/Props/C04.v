(* C04 — caches are transparent for every history of calls, failures and rebuilds. *)
From Connectome Require Import Values Attrs VM Edges EdgesGen Store Evaluator L2 HashSound SpecEq EqFacts C01Inst C04Main Total RaiseDir C01Raise FailClean Examples.
From Connectome Require NodeHashGen.
From Connectome Require ColStore ColumnsGen Columns ColumnsFacts.
Local Open Scope list_scope.

(* Every history of calls and clears, on any sequence of graphs sharing the caches (rebuilds, pipeline variants
   on the same storage), RAM caches bounded or not and digest-keyed disk stores, with arbitrary Good-preserving
   interference: each call returns the value of the plain recursive semantics [sem] of its own graph, i.e. what
   the pipeline without cache layers returns.  [call_ok]: the graph is acyclic and well-formed, no Silent
   arguments, the semantics of every cache node and of the output is defined (no user function raises) and the
   hashes of cache nodes have no numeric leaves (keys are strings: otherwise finding F3 applies to RAM caches). *)
Theorem C04_history_transparent :
  forall (apply : string -> list val -> list (string * val) -> val) (interfere : cstore -> cstore),
  (forall s, CInvS apply s -> CInvS apply (interfere s)) ->
  forall (ops : list hop2) (σ : cstore), CInvS apply σ -> Forall (op_ok apply) ops -> hist apply interfere σ ops.
Proof. exact history_transparent. Qed.
Print Assumptions C04_history_transparent.

(* "... or propagates the user exception": a call on a pipeline with RAM and disk caches whose failure-free value is v,
   from any store meeting the invariant and under any behaviour of the user functions, is at every step still
   running, or has returned v, or has stopped with the exception of a user function that raised - never an internal
   error of the engine or the caches. *)
Theorem C04_failures_are_user_exceptions :
  forall apply (c : hcall) v σ (interfere : cstore -> cstore) raises,
  (forall s, CInvS apply s -> CInvS apply (interfere s)) ->
  call_ok apply {| hc_g := hc_g c; hc_ins := hc_ins c; hc_o := hc_o c; hc_raises := quiet |} v -> CInvS apply σ ->
  exists k s', forall k',
    let out := call (shape (hc_g c)) (gens_of (hc_g c)) apply raises cstore cget cset interfere (hc_ins c) (hc_o c) σ k' in
    (exists s1, out = Running cstore s1 /\ k' < k) \/ out = Finished cstore (SVal v) s' \/ user_raise raises cstore out.
Proof. exact cached_only_user_exceptions. Qed.
Print Assumptions C04_failures_are_user_exceptions.

(* "A failed computation leaves nothing behind that a later call could read."  Whatever the user functions do and
   however far a call got - finished, failed, or still running after k steps - the shared store meets the invariant
   of C04.  (The store carries a ghost log of its writes: the failure-free run ends with all logged writes Good, logs
   only grow, and the store of a failing run is one the failure-free run passes through.) *)
Theorem C04_store_good_at_every_step :
  forall apply (interfere : cstore -> cstore), (forall s, CInvS apply s -> CInvS apply (interfere s)) ->
  forall g ins o v, call_ok apply {| hc_g := g; hc_ins := ins; hc_o := o; hc_raises := quiet |} v ->
  forall raises σ k, CInvS apply σ ->
  CInvS apply (sto cstore (ostate cstore (call (shape g) (gens_of g) apply raises cstore cget cset interfere ins o σ k))).
Proof. exact store_good_at_every_step. Qed.
Print Assumptions C04_store_good_at_every_step.

(* The property in full: every history of calls - each with ANY behaviour of the user functions - and clears, on any
   sequence of graphs sharing the caches: every call ends with the cache-free value or with the exception of a user
   function that raised, and the history goes on from whatever store that call left behind. *)
Theorem C04_history_with_failures :
  forall apply (interfere : cstore -> cstore), (forall s, CInvS apply s -> CInvS apply (interfere s)) ->
  forall ops σ, CInvS apply σ -> Forall (opf_ok apply) ops -> histf apply interfere σ ops.
Proof. exact history_with_failures. Qed.
Print Assumptions C04_history_with_failures.

(* the empty store of any cache configuration satisfies the invariant, and clear keeps it *)
Theorem C04_fresh_store_ok :
  forall apply (ks : list (nat * ckind)), CInvS apply (map (fun ck => (fst ck, new_cache (snd ck))) ks).
Proof. exact cinv_new. Qed.
Print Assumptions C04_fresh_store_ok.

(* a failed computation leaves nothing behind: the regenerated CacheEdge.evaluate performs its only write after
   the parent's value has been received *)
Theorem C04_write_follows_parent :
  forall c, exists k1, eval_gen (ECache c) = GYield RCurrentHash k1 /\
    forall key, exists k2, k1 key = GGet c key k2 /\
      exists k3, k2 None = GYield (RParentValue 0) k3 /\ forall v, k3 v = GSet c key v (GRet v).
Proof.
  intros c. eexists. split; [reflexivity|]. intros key. eexists. split; [reflexivity|]. eexists. split; [reflexivity|]. reflexivity.
Qed.
Print Assumptions C04_write_follows_parent.

(* Non-vacuity: a pipeline  x -> f -> [RAM cache 0, size 1] -> g -> [disk cache 1]  and its variant with g' instead
   of g sharing both caches meet [call_ok]; the history call(a); call(b); call(a) of the first, then call(a) of
   the variant, returns the four cache-free values when actually run on the concrete store (the third call
   misses the evicted RAM entry and hits the disk). *)
Definition c04_call (gname key : string) : hcall :=
  {| hc_g := c04_g gname; hc_ins := [(0, VStr key)]; hc_o := 4; hc_raises := fun _ _ _ => false |}.
Example C04_example_call_ok : forall gname key, String.eqb gname "builtins.tuple" = false ->
  call_ok ex_apply (c04_call gname key) (c04_val gname key).
Proof.
  intros gname key Hname. unfold call_ok.
  assert (Hok : graph_okb (c04_g gname) = true) by (cbn; rewrite Hname; reflexivity).
  destruct (graph_okb_sound _ Hok) as [Hn He].
  split; [apply wfb_sound; reflexivity|]. split.
  { intros n x e ps Hi Hnth. cbn in Hi. destruct n; [discriminate|]. discriminate. }
  split; [exact Hn|]. split; [exact He|]. split.
  { intros n k ps Hnth. destruct n as [|[|[|[|[|n]]]]]; cbn in Hnth; try discriminate.
    - exists 5. eexists. eexists. split; [cbn; reflexivity|reflexivity].
    - exists 5. eexists. eexists. split; [cbn; reflexivity|reflexivity].
    - destruct n; discriminate. }
  split; [cbn; lia|]. exists 5. eexists. cbn. reflexivity.
Qed.
Print Assumptions C04_example_call_ok.

Definition run1 (gname key : string) (σ : cstore) : option val * cstore :=
  match call (shape (c04_g gname)) (gens_of (c04_g gname)) ex_apply (fun _ _ _ => false) cstore cget cset (fun s => s)
             [(0, VStr key)] 4 σ 400 with
  | Finished _ (SVal v) s => (Some v, sto cstore s)
  | Finished _ _ s | Raised _ _ s | Stuck _ _ s | Running _ s => (None, sto cstore s)
  end.
Example C04_example_history :
  let σ0 := [(0, new_cache (KRam (Some 1))); (1, new_cache KDisk)] in
  let '(r1, σ1) := run1 "g" "a" σ0 in let '(r2, σ2) := run1 "g" "b" σ1 in
  let '(r3, σ3) := run1 "g" "a" σ2 in let '(r4, σ4) := run1 "g2" "a" σ3 in
  [r1; r2; r3; r4] = [Some (c04_val "g" "a"); Some (c04_val "g" "b"); Some (c04_val "g" "a"); Some (c04_val "g2" "a")]
  /\ csize σ4 0 = 1 /\ csize σ4 1 = 3.
Proof. vm_compute. auto. Qed.
Print Assumptions C04_example_history.

(* ---------- column caches (CacheColumns) ----------
   Every history of requests through the columns of a CacheColumns layer, new processes over the same folders and
   entries written into the same folders by CacheToDisk layers: each request of a known key returns what the
   pipeline without the layer returns, or the exception of a user function - and then the stores are left as they
   were.  Over the REGENERATED body of CachedColumn.evaluate (Gen/ColumnsGen.v), with the equalities of the real
   stores (== on hash values for the RAM table, digests on disk, == on keys).  Assumed: sorted() returns a
   permutation; the graph of a column computes the hash and the value of the uncached field (C01/C05 for the
   pipeline below the layer); entries with ==-equal hashes have equal values (C05; fails for keys 1 / True:
   finding F3); the requested key is == to nothing but itself; and no entry of another layer has the node hash
   ApplyHash(tuple, hashes of a shard) - without this last assumption the statement is false (C05.v: finding F11). *)
Theorem C04_column_caches_are_transparent :
  forall (sorted : list val -> list val) (get_hash : nat -> val -> option nhash) (get_value : nat -> val -> option val)
         (h : nat -> val -> nhash) (v : nat -> val -> val),
  (forall l, Permutation.Permutation (sorted l) l) ->
  (forall c k x, get_hash c k = Some x -> x = h c k) ->
  (forall c k x, get_value c k = Some x -> x = v c k) ->
  (forall c k c' k', hpyeq (h c k) (h c' k') = true -> v c k = v c' k') ->
  (forall c k c' ks, h c k <> ColumnsFacts.compound (map (h c') ks)) ->
  forall size ops, size <> Some 0 -> Forall (ColumnsFacts.op_ok pyeq h v) ops ->
  forall st, ColumnsFacts.Inv h v st ->
  let (outs, st') := Columns.col_run hpyeq heqb pyeq sorted get_hash get_value size st ops in
  Forall2 (ColumnsFacts.out_ok v) ops outs /\ ColumnsFacts.Inv h v st'.
Proof.
  intros sorted get_hash get_value h v H1 H2 H3 H4 H5.
  exact (ColumnsFacts.column_history hpyeq heqb pyeq sorted get_hash get_value h v hpyeq_refl heqb_eq pyeq_refl H1 H2 H3 H4 H5).
Qed.
Print Assumptions C04_column_caches_are_transparent.

(* one request: the right value and right stores, or a user exception and untouched stores *)
Theorem C04_column_request_sound :
  forall (sorted : list val -> list val) (get_hash : nat -> val -> option nhash) (get_value : nat -> val -> option val)
         (h : nat -> val -> nhash) (v : nat -> val -> val),
  (forall l, Permutation.Permutation (sorted l) l) ->
  (forall c k x, get_hash c k = Some x -> x = h c k) ->
  (forall c k x, get_value c k = Some x -> x = v c k) ->
  (forall c k c' k', hpyeq (h c k) (h c' k') = true -> v c k = v c' k') ->
  (forall c k c' ks, h c k <> ColumnsFacts.compound (map (h c') ks)) ->
  forall col size key keys st r st' ev,
  ColumnsFacts.Inv h v st -> ColumnsFacts.exact_key pyeq key -> In key keys -> size <> Some 0 ->
  Columns.column_request hpyeq heqb pyeq sorted get_hash get_value col size key keys st = (r, st', ev) ->
  (r = ColStore.COk (v col key) /\ ColumnsFacts.Inv h v st') \/ (exists f, r = ColStore.CErr (EUser f) /\ st' = st).
Proof.
  intros sorted get_hash get_value h v H1 H2 H3 H4 H5.
  exact (ColumnsFacts.column_request_sound hpyeq heqb pyeq sorted get_hash get_value h v hpyeq_refl heqb_eq pyeq_refl H1 H2 H3 H4 H5).
Qed.
Print Assumptions C04_column_request_sound.

(* a key that is not among the ids is refused by library code (ValueError) before anything is computed or stored *)
Theorem C04_column_unknown_key :
  forall (sorted : list val -> list val) (get_hash : nat -> val -> option nhash) (get_value : nat -> val -> option val),
  (forall l, Permutation.Permutation (sorted l) l) ->
  forall col size key keys st out,
  get_hash col key = Some out -> ColStore.ram_get hpyeq st out = None -> ColumnsFacts.exact_key pyeq key -> ~ In key keys ->
  exists e, Columns.column_request hpyeq heqb pyeq sorted get_hash get_value col size key keys st
            = (ColStore.CErr (EValue e), st, [ColStore.CHash col key; ColStore.CKeyReq; ColStore.CKeysReq]).
Proof. intros sorted get_hash get_value H1. exact (ColumnsFacts.column_unknown_key hpyeq heqb pyeq sorted get_hash get_value H1). Qed.
Print Assumptions C04_column_unknown_key.

(* the premises are satisfiable: two columns over string keys, a cold request, a hit, a new process reading the shard *)
Example C04_example_columns :
  let h := fun c k => HApply (if Nat.eqb c 0 then "a" else "b") [HLeaf k] [] in
  let v := fun c k => VApp (if Nat.eqb c 0 then "a" else "b") [k] [] in
  let keys := [VStr "p"; VStr "q"; VStr "r"] in
  let ops := [Columns.QRequest 0 (VStr "q") keys; Columns.QRequest 0 (VStr "p") keys; Columns.QNewProcess;
              Columns.QRequest 0 (VStr "p") keys; Columns.QRequest 1 (VStr "r") keys] in
  let (outs, st) := Columns.col_run hpyeq heqb pyeq (fun l => l) (fun c k => Some (h c k)) (fun c k => Some (v c k)) (Some 2) ColStore.colstore0 ops in
  map (option_map fst) outs = [Some (ColStore.COk (v 0 (VStr "q"))); Some (ColStore.COk (v 0 (VStr "p"))); None;
                               Some (ColStore.COk (v 0 (VStr "p"))); Some (ColStore.COk (v 1 (VStr "r")))]
  /\ map (option_map (fun x => List.length (snd x))) outs = [Some 7; Some 1; None; Some 5; Some 5]
  /\ List.length (ColStore.disk st) = 2.
Proof. vm_compute. auto. Qed.
Print Assumptions C04_example_columns.

(* The node-hash values this file reasons about are the ones engine/node_hash.py builds (regenerated, Gen/NodeHashGen.v):
   tags 0-3 for leaf / apply / graph / custom, the components of each `value` tuple in order, and == on `value`. *)
Theorem C04_node_hash_values_are_translated :
  NodeHashGen.hash_tags = [0; 1; 2; 3] /\ NodeHashGen.LeafHash_value = ["tag"; "data"]
  /\ NodeHashGen.ApplyHash_value = ["tag"; "func"; "args.value"; "kw_names"] /\ NodeHashGen.GraphHash_value = ["tag"; "output.value"]
  /\ NodeHashGen.CustomHash_value = ["tag"; "marker"; "*children.value"] /\ NodeHashGen.nodehash_eq_compares = "value".
Proof. repeat split; reflexivity. Qed.
Print Assumptions C04_node_hash_values_are_translated.

(* BEGIN PINNED FINGERPRINTS (tools/pin_shapes.py) *)
(* The functions and classes of /repo that hand-written parts of the model mirror (Model/VM.v, NameLevel.v, Loopback.v) and the glue around the modelled core
   this property is anchored in: the fingerprints (sha256 of the normalised source, comments and docstrings dropped) are regenerated on every run; an edit of one
   of them re-opens this property even if no sampled case shows a difference.  Rewritten by tools/pin_shapes.py on a tree on which every check passes. *)
From Connectome Require GlueCacheGen GlueColumnsGen.
Theorem C04_mirrored_functions_are_the_pinned_ones :
  GlueCacheGen.shape_class_CacheToStorage = "bb02462476ebf5a3"%string /\
  GlueCacheGen.shape_class_CacheToRam = "671471faaea3be32"%string /\
  GlueCacheGen.shape_class_CacheToDisk = "ab13d5028a9842ed"%string /\
  GlueCacheGen.shape_priv_normalize_disk_arguments = "8b4510643237a667"%string /\
  GlueCacheGen.shape_priv_resolve_serializer = "37e132734e002621"%string /\
  GlueCacheGen.shape_class_DynamicConnectLayer = "7ece76ebf623a344"%string /\
  GlueCacheGen.shape_class_MemoryCache = "cfe8167a538c6fe4"%string /\
  GlueCacheGen.shape_class_DiskCache = "71fb3386aa709b95"%string /\
  GlueColumnsGen.shape_class_CacheColumns = "50ebcb3d340e0894"%string.
Proof. repeat split; reflexivity. Qed.
Print Assumptions C04_mirrored_functions_are_the_pinned_ones.
(* END PINNED FINGERPRINTS *)
