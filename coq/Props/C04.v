(* C04 — caches are transparent for every history (placeholder until the store invariant is instantiated). *)
From Connectome Require Import Values VM Store StoreFacts.
Theorem C04_placeholder : True. Proof. exact I. Qed.
Print Assumptions C04_placeholder.
