(* C17 — GroupBy and Split re-key a dataset as an exact partition / expansion. *)
From Connectome Require Import Values NameSet RelBase GroupGen SplitGen SortFacts GroupFacts SplitFacts.
From Coq Require Import Sorting.Sorted.
Local Open Scope list_scope.

(* every old id lies in exactly one group, the one of its key; whatever the key function (no injectivity needed) *)
Theorem C17_group_partition : forall ids key i, In i ids ->
  In (key i) (group_keys ids key) /\ In i (group_members ids key (key i)) /\ forall k, In i (group_members ids key k) -> k = key i.
Proof. exact group_partition. Qed.
Print Assumptions C17_group_partition.
Theorem C17_group_members : forall ids key k i, In i (group_members ids key k) <-> In i ids /\ key i = k.
Proof. exact group_members_spec. Qed.
Print Assumptions C17_group_members.
Theorem C17_group_ids : forall ids key k, In k (group_keys ids key) <-> exists i, In i ids /\ key i = k.
Proof. exact group_keys_spec. Qed.
Print Assumptions C17_group_ids.
Theorem C17_group_sorted : forall ids key k, Sorted sle (group_keys ids key) /\ Sorted sle (group_members ids key k).
Proof. exact group_sorted. Qed.
Print Assumptions C17_group_sorted.

(* Split: new ids are exactly those produced by the split function over the old ids, each with one (old id, part) *)
Theorem C17_split_ids : forall ids parts new, In new (split_ids ids parts) <-> exists old part, In old ids /\ In (new, part) (parts old).
Proof. exact split_ids_spec. Qed.
Print Assumptions C17_split_ids.
Theorem C17_split_mapping : forall ids parts new old part,
  In (new, (old, part)) (split_pairs ids parts) <-> In old ids /\ In (new, part) (parts old).
Proof. exact split_pairs_spec. Qed.
Print Assumptions C17_split_mapping.
Theorem C17_split_unique : forall ids parts new a b, split_collides ids parts = false ->
  In (new, a) (split_pairs ids parts) -> In (new, b) (split_pairs ids parts) -> a = b.
Proof. exact split_unique. Qed.
Print Assumptions C17_split_unique.

Example C17_example :
  group_keys ["a"; "b"; "c"] (fun i => if String.eqb i "b" then "y" else "x") = ["x"; "y"] /\
  group_members ["c"; "b"; "a"] (fun i => if String.eqb i "b" then "y" else "x") "x" = ["a"; "c"] /\
  split_collides ["a"; "b"] (fun i => [("n", "p")]) = true.
Proof. vm_compute. auto. Qed.
Print Assumptions C17_example.

(* BEGIN PINNED FINGERPRINTS (tools/pin_shapes.py) *)
(* The functions and classes of /repo that hand-written parts of the model mirror (Model/VM.v, NameLevel.v, Loopback.v) and the glue around the modelled core
   this property is anchored in: the fingerprints (sha256 of the normalised source, comments and docstrings dropped) are regenerated on every run; an edit of one
   of them re-opens this property even if no sampled case shows a difference.  Rewritten by tools/pin_shapes.py on a tree on which every check passes. *)
From Connectome Require GlueGroupGen GlueSplitGen.
Theorem C17_mirrored_functions_are_the_pinned_ones :
  GlueGroupGen.shape_class_GroupBy = "18ea6a3578454a07"%string /\
  GlueGroupGen.shape_to_key = "25665e00459eba8d"%string /\
  GlueSplitGen.shape_class_SplitBase = "fa17dad5b6a42226"%string /\
  GlueSplitGen.shape_chain_edges = "f009adada3e3a857"%string /\
  GlueSplitGen.shape_class_SplitFactory = "39f156adf6b10ab1"%string.
Proof. repeat split; reflexivity. Qed.
Print Assumptions C17_mirrored_functions_are_the_pinned_ones.
(* END PINNED FINGERPRINTS *)
