(* C08 — caches actually memoise: hits run nothing upstream, LRU stays bounded, shards partition. *)
From Connectome Require Import Values Attrs VM Edges EdgesGen Store MemGen ShardGen StoreFacts Lru.
From Connectome Require NodeHashGen.
From Connectome Require ColStore ColumnsGen Columns ColumnsFacts EqFacts.
Local Open Scope list_scope.

(* A size-bounded RAM cache never holds more than `size` entries, after ANY list of get / set / clear operations.
   [c_clear] is the regenerated MemoryCache.clear(): with the pinned `self._cache = {}` this theorem does not check
   (StoreFacts.lru_bound_pinned_refuted is the 8-operation witness). *)
Theorem C08_lru_bound :
  forall (n : nat) (ops : list mop),
  List.length (entries (fold_left mstep ops (new_cache (KRam (Some n))))) <= n.
Proof. exact lru_bound_all. Qed.
Print Assumptions C08_lru_bound.

(* Recency, on the LRU table abstractly (any key type with decidable equality, MRU-first list, evict last):
   after any operation list the table holds exactly the `cap` most recently touched keys, hence every one of
   them hits.  Tied to pylru / MemoryCache by the operation-list correspondence of this check. *)
Theorem C08_lru_recency :
  forall (K V : Type) (eqb : K -> K -> bool), (forall a b, reflect (a = b) (eqb a b)) ->
  forall (cap : nat) (ops : list (op K V)) (k : K), cap >= 1 ->
  In k (firstn cap (fold_left (rstep K V eqb cap) ops [])) ->
  exists v, lookup K V eqb (fold_left (step K V eqb cap) ops []) k = Some v.
Proof. exact lru_recency. Qed.
Print Assumptions C08_lru_recency.

Theorem C08_lru_bound_abstract :
  forall (K V : Type) (eqb : K -> K -> bool), (forall a b, reflect (a = b) (eqb a b)) ->
  forall (cap : nat) (ops : list (op K V)), cap >= 1 ->
  List.length (fold_left (step K V eqb cap) ops []) <= cap.
Proof. exact lru_bound. Qed.
Print Assumptions C08_lru_bound_abstract.

(* The functional half of "memoise": the LRU table refines a plain map.  [sstep] is the specification – the value of
   the last Set_ of a key since the last Clear.  Whatever the table answers after ANY operation list (recency moves and
   evictions in between) is that value, never an older one and never another key's; and every key among the `cap` most
   recently touched ones does answer.  Tied to pylru / MemoryCache by the operation-list correspondence. *)
Theorem C08_lru_hit_returns_latest_value :
  forall (K V : Type) (eqb : K -> K -> bool), (forall a b, reflect (a = b) (eqb a b)) ->
  forall (cap : nat) (ops : list (op K V)) (k : K) (v : V),
  lookup K V eqb (fold_left (step K V eqb cap) ops []) k = Some v ->
  fold_left (sstep K V eqb) ops (fun _ => None) k = Some v.
Proof. exact lru_reads_last_write. Qed.
Print Assumptions C08_lru_hit_returns_latest_value.

Theorem C08_lru_recent_key_returns_latest_value :
  forall (K V : Type) (eqb : K -> K -> bool), (forall a b, reflect (a = b) (eqb a b)) ->
  forall (cap : nat) (ops : list (op K V)) (k : K), cap >= 1 ->
  In k (firstn cap (fold_left (rstep K V eqb cap) ops [])) ->
  exists v, lookup K V eqb (fold_left (step K V eqb cap) ops []) k = Some v
            /\ fold_left (sstep K V eqb) ops (fun _ => None) k = Some v.
Proof. exact lru_recent_reads_latest. Qed.
Print Assumptions C08_lru_recent_key_returns_latest_value.

(* a read (hit or miss) reorders the table and changes no answer *)
Theorem C08_lru_get_changes_no_answer :
  forall (K V : Type) (eqb : K -> K -> bool), (forall a b, reflect (a = b) (eqb a b)) ->
  forall (cap : nat) (t : list (K * V)) (k x : K),
  lookup K V eqb (step K V eqb cap t (Get K V k)) x = lookup K V eqb t x.
Proof. exact get_changes_no_answer. Qed.
Print Assumptions C08_lru_get_changes_no_answer.

(* non-vacuity: bound 2; key 1 is overwritten and touched, key 2 is evicted by key 3: the table answers 11 for key 1
   (the later value), nothing for key 2, 30 for key 3 – and the specification agrees wherever the table answers *)
Example C08_example_latest_value :
  let ops := [Set_ nat nat 1 10; Set_ nat nat 2 20; Set_ nat nat 1 11; Get nat nat 1; Set_ nat nat 3 30] in
  let t := fold_left (step nat nat Nat.eqb 2) ops [] in
  let m := fold_left (sstep nat nat Nat.eqb) ops (fun _ => None) in
  (lookup nat nat Nat.eqb t 1, lookup nat nat Nat.eqb t 2, lookup nat nat Nat.eqb t 3) = (Some 11, None, Some 30)
  /\ (m 1, m 2, m 3) = (Some 11, Some 20, Some 30).
Proof. vm_compute. split; reflexivity. Qed.
Print Assumptions C08_example_latest_value.

(* The shards of a column cache partition the sorted keys, for every positive integer shard size (a float
   fraction f is first turned into ceil(f * len(keys)), assumed positive for f > 0), and the shard computed for
   a key contains that key. Over the regenerated arithmetic of CachedColumn._get_shard. *)
Theorem C08_shards_partition :
  forall (A : Type) (keys : list A) (size : nat), size > 0 ->
  List.concat (map (shard_keys keys size) (seq 0 (shard_count (List.length keys) size))) = keys.
Proof. intros A. exact (@shards_partition A). Qed.
Print Assumptions C08_shards_partition.

Theorem C08_shard_contains :
  forall (A : Type) (keys : list A) (size pos : nat), size > 0 -> pos < List.length keys ->
  nth_error (shard_keys keys size (shard_idx pos size)) (pos mod size) = nth_error keys pos
  /\ shard_idx pos size < shard_count (List.length keys) size.
Proof. intros A keys size pos Hs Hp. split; [apply shard_contains|apply shard_idx_lt]; assumption. Qed.
Print Assumptions C08_shard_contains.

(* A hit asks for nothing upstream: the regenerated CacheEdge.evaluate, answered by a stored value, requests only
   its own hash and returns the stored value. *)
Theorem C08_hit_requests_nothing :
  forall (c : nat) (h : sval) (x : sval),
  exists k, eval_gen (ECache c) = GYield RCurrentHash k /\
            forall hit, k h = GGet c h hit -> hit (Some x) = GRet x.
Proof.
  intros c h x. eexists. split; [reflexivity|]. intros hit H. injection H as <-. reflexivity.
Qed.
Print Assumptions C08_hit_requests_nothing.

Example C08_example_shards :
  List.concat (map (shard_keys ["a"; "b"; "c"; "d"; "e"; "f"; "g"] 3) (seq 0 (shard_count 7 3)))
    = ["a"; "b"; "c"; "d"; "e"; "f"; "g"]
  /\ shard_keys ["a"; "b"; "c"; "d"; "e"; "f"; "g"] 3 (shard_idx 4 3) = ["d"; "e"; "f"] /\ shard_count 7 3 = 3.
Proof. vm_compute. auto. Qed.
Print Assumptions C08_example_shards.

(* ---------- column caches: after a request, every key of its shard is a hit that runs nothing ----------
   After a successful request that missed the RAM table, a request of ANY key of the same shard on the same layer
   object returns from the RAM table: it runs the hash pass of its own entry (the calling VM needs the hash to look
   the entry up) and nothing else - not the ids, not the key, no value of any entry, whatever `ids` has become.
   Over the REGENERATED body of CachedColumn.evaluate; assumptions as in C04_column_caches_are_transparent. *)
Theorem C08_column_shard_hits :
  forall (sorted : list val -> list val) (get_hash : nat -> val -> option nhash) (get_value : nat -> val -> option val)
         (h : nat -> val -> nhash) (v : nat -> val -> val),
  (forall c k x, get_hash c k = Some x -> x = h c k) ->
  (forall c k x, get_value c k = Some x -> x = v c k) ->
  (forall c k c' k', hpyeq (h c k) (h c' k') = true -> v c k = v c' k') ->
  (forall c k c' ks, h c k <> ColumnsFacts.compound (map (h c') ks)) ->
  forall col size key keys st v0 st' ev ks c i,
  ColumnsFacts.exact_key pyeq key ->
  ColumnsGen.get_shard pyeq sorted size key keys = inr (ks, c, i) ->
  ColStore.ram_get hpyeq st (h col key) = None ->
  Columns.column_request hpyeq heqb pyeq sorted get_hash get_value col size key keys st = (ColStore.COk v0, st', ev) ->
  ColumnsFacts.Inv h v st ->
  forall key' keys', In key' ks -> get_hash col key' = Some (h col key') ->
  exists x, Columns.column_request hpyeq heqb pyeq sorted get_hash get_value col size key' keys' st' = (ColStore.COk x, st', [ColStore.CHash col key']).
Proof.
  intros sorted get_hash get_value h v H1 H2 H3 H4.
  exact (ColumnsFacts.column_shard_hits hpyeq heqb pyeq sorted get_hash get_value h v EqFacts.hpyeq_refl EqFacts.heqb_eq H1 H2 H3 H4).
Qed.
Print Assumptions C08_column_shard_hits.

(* The node-hash values this file reasons about are the ones engine/node_hash.py builds (regenerated, Gen/NodeHashGen.v):
   tags 0-3 for leaf / apply / graph / custom, the components of each `value` tuple in order, and == on `value`. *)
Theorem C08_node_hash_values_are_translated :
  NodeHashGen.hash_tags = [0; 1; 2; 3] /\ NodeHashGen.LeafHash_value = ["tag"; "data"]
  /\ NodeHashGen.ApplyHash_value = ["tag"; "func"; "args.value"; "kw_names"] /\ NodeHashGen.GraphHash_value = ["tag"; "output.value"]
  /\ NodeHashGen.CustomHash_value = ["tag"; "marker"; "*children.value"] /\ NodeHashGen.nodehash_eq_compares = "value".
Proof. repeat split; reflexivity. Qed.
Print Assumptions C08_node_hash_values_are_translated.

(* ---------- column caches across processes ----------
   After a request that generated or loaded a shard, a NEW process over the same folders (empty RAM table) that asks for any key of that
   shard reads the shard from disk: it runs the hash pass of the shard's entries (to form the disk key) and NO value pass, returns the value
   of the uncached field and adds nothing to the disk store.  Over the REGENERATED CachedColumn.evaluate. *)
Theorem C08_column_restart_reads_shard :
  forall (sorted : list val -> list val) (get_hash : nat -> val -> option nhash) (get_value : nat -> val -> option val)
         (h : nat -> val -> nhash) (v : nat -> val -> val),
  (forall c k x, get_hash c k = Some x -> x = h c k) ->
  (forall c k x, get_value c k = Some x -> x = v c k) ->
  (forall c k c' k', hpyeq (h c k) (h c' k') = true -> v c k = v c' k') ->
  (forall c k c' ks, h c k <> ColumnsFacts.compound (map (h c') ks)) ->
  forall col size key keys st v0 st' ev ks c i,
  ColumnsFacts.exact_key pyeq key -> ColumnsGen.get_shard pyeq sorted size key keys = inr (ks, c, i) ->
  ColStore.ram_get hpyeq st (h col key) = None ->
  Columns.column_request hpyeq heqb pyeq sorted get_hash get_value col size key keys st = (ColStore.COk v0, st', ev) ->
  ColumnsFacts.Inv h v st ->
  forall key' keys' c' i', ColumnsFacts.exact_key pyeq key' -> In key' ks -> ColumnsGen.get_shard pyeq sorted size key' keys' = inr (ks, c', i') ->
  (forall k, get_hash col k = Some (h col k)) ->
  exists st'', Columns.column_request hpyeq heqb pyeq sorted get_hash get_value col size key' keys' (ColStore.new_process st')
               = (ColStore.COk (v col key'), st'', ColStore.CHash col key' :: ColStore.CKeyReq :: ColStore.CKeysReq :: map (ColStore.CHash col) ks)
            /\ ColStore.disk st'' = ColStore.disk st'.
Proof.
  intros sorted get_hash get_value h v H1 H2 H3 H4.
  exact (ColumnsFacts.column_restart_reads_shard hpyeq heqb pyeq sorted get_hash get_value h v EqFacts.hpyeq_refl EqFacts.heqb_eq EqFacts.pyeq_refl H1 H2 H3 H4 EqFacts.heqb_refl).
Qed.
Print Assumptions C08_column_restart_reads_shard.

(* BEGIN PINNED FINGERPRINTS (tools/pin_shapes.py) *)
(* The functions and classes of /repo that hand-written parts of the model mirror (Model/VM.v, NameLevel.v, Loopback.v) and the glue around the modelled core
   this property is anchored in: the fingerprints (sha256 of the normalised source, comments and docstrings dropped) are regenerated on every run; an edit of one
   of them re-opens this property even if no sampled case shows a difference.  Rewritten by tools/pin_shapes.py on a tree on which every check passes. *)
From Connectome Require GlueCacheGen GlueColumnsGen.
Theorem C08_mirrored_functions_are_the_pinned_ones :
  GlueCacheGen.shape_class_CacheToStorage = "bb02462476ebf5a3"%string /\
  GlueCacheGen.shape_class_CacheToRam = "671471faaea3be32"%string /\
  GlueCacheGen.shape_class_CacheToDisk = "ab13d5028a9842ed"%string /\
  GlueCacheGen.shape_priv_normalize_disk_arguments = "8b4510643237a667"%string /\
  GlueCacheGen.shape_priv_resolve_serializer = "37e132734e002621"%string /\
  GlueCacheGen.shape_class_DynamicConnectLayer = "7ece76ebf623a344"%string /\
  GlueCacheGen.shape_class_MemoryCache = "cfe8167a538c6fe4"%string /\
  GlueCacheGen.shape_class_DiskCache = "71fb3386aa709b95"%string /\
  GlueColumnsGen.shape_class_CacheColumns = "50ebcb3d340e0894"%string.
Proof. repeat split; reflexivity. Qed.
Print Assumptions C08_mirrored_functions_are_the_pinned_ones.
(* END PINNED FINGERPRINTS *)
