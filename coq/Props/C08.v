(* C08 — caches actually memoise: hits run nothing upstream, LRU stays bounded, shards partition. *)
From Connectome Require Import Values Attrs VM Edges EdgesGen Store MiscGen StoreFacts Lru.
Local Open Scope list_scope.

(* A size-bounded RAM cache never holds more than `size` entries, after ANY list of get / set / clear operations.
   [c_clear] is the regenerated MemoryCache.clear(): with the pinned `self._cache = {}` this theorem does not check
   (StoreFacts.lru_bound_pinned_refuted is the 8-operation witness). *)
Theorem C08_lru_bound :
  forall (n : nat) (ops : list mop),
  List.length (entries (fold_left mstep ops (new_cache (KRam (Some n))))) <= n.
Proof. exact lru_bound_all. Qed.
Print Assumptions C08_lru_bound.

(* Recency, on the LRU table abstractly (any key type with decidable equality, MRU-first list, evict last):
   after any operation list the table holds exactly the `cap` most recently touched keys, hence every one of
   them hits.  Tied to pylru / MemoryCache by the operation-list correspondence of this check. *)
Theorem C08_lru_recency :
  forall (K V : Type) (eqb : K -> K -> bool), (forall a b, reflect (a = b) (eqb a b)) ->
  forall (cap : nat) (ops : list (op K V)) (k : K), cap >= 1 ->
  In k (firstn cap (fold_left (rstep K V eqb cap) ops [])) ->
  exists v, lookup K V eqb (fold_left (step K V eqb cap) ops []) k = Some v.
Proof. exact lru_recency. Qed.
Print Assumptions C08_lru_recency.

Theorem C08_lru_bound_abstract :
  forall (K V : Type) (eqb : K -> K -> bool), (forall a b, reflect (a = b) (eqb a b)) ->
  forall (cap : nat) (ops : list (op K V)), cap >= 1 ->
  List.length (fold_left (step K V eqb cap) ops []) <= cap.
Proof. exact lru_bound. Qed.
Print Assumptions C08_lru_bound_abstract.

(* The shards of a column cache partition the sorted keys, for every positive integer shard size (a float
   fraction f is first turned into ceil(f * len(keys)), assumed positive for f > 0), and the shard computed for
   a key contains that key. Over the regenerated arithmetic of CachedColumn._get_shard. *)
Theorem C08_shards_partition :
  forall (A : Type) (keys : list A) (size : nat), size > 0 ->
  List.concat (map (shard_keys keys size) (seq 0 (shard_count (List.length keys) size))) = keys.
Proof. intros A. exact (@shards_partition A). Qed.
Print Assumptions C08_shards_partition.

Theorem C08_shard_contains :
  forall (A : Type) (keys : list A) (size pos : nat), size > 0 -> pos < List.length keys ->
  nth_error (shard_keys keys size (shard_idx pos size)) (pos mod size) = nth_error keys pos
  /\ shard_idx pos size < shard_count (List.length keys) size.
Proof. intros A keys size pos Hs Hp. split; [apply shard_contains|apply shard_idx_lt]; assumption. Qed.
Print Assumptions C08_shard_contains.

(* A hit asks for nothing upstream: the regenerated CacheEdge.evaluate, answered by a stored value, requests only
   its own hash and returns the stored value. *)
Theorem C08_hit_requests_nothing :
  forall (c : nat) (h : sval) (x : sval),
  exists k, eval_gen (ECache c) = GYield RCurrentHash k /\
            forall hit, k h = GGet c h hit -> hit (Some x) = GRet x.
Proof.
  intros c h x. eexists. split; [reflexivity|]. intros hit H. injection H as <-. reflexivity.
Qed.
Print Assumptions C08_hit_requests_nothing.

Example C08_example_shards :
  List.concat (map (shard_keys ["a"; "b"; "c"; "d"; "e"; "f"; "g"] 3) (seq 0 (shard_count 7 3)))
    = ["a"; "b"; "c"; "d"; "e"; "f"; "g"]
  /\ shard_keys ["a"; "b"; "c"; "d"; "e"; "f"; "g"] 3 (shard_idx 4 3) = ["d"; "e"; "f"] /\ shard_count 7 3 = 3.
Proof. vm_compute. auto. Qed.
Print Assumptions C08_example_shards.
