(* C13 — impure functions are never cached or keyed unless explicitly allowed. *)
From Connectome Require Import Values Attrs VM Edges EdgesGen TravGen GraphHashModel Impure ImpureFacts C01Inst.
From Connectome Require GraphGen.
Local Open Scope list_scope.

(* the walk of CacheLayer._detect_impure (regenerated rule: raise on ImpureEdge, visit every parent) answers "yes"
   exactly when an impure edge lies upstream -- through any number of layers, Merge switches (all branches are
   parents of the switch) and nested chains (connect_bags only adds identity edges) *)
Theorem C13_detect_sound :
  forall g fuel n, detect_impure fuel g n = true ->
  exists m e ps, upstream g n m /\ nth m g Leaf = Inner e ps /\ is_impure e = true.
Proof. exact detect_sound. Qed.
Print Assumptions C13_detect_sound.
Theorem C13_detect_complete :
  forall g, wf g -> forall n m, upstream g n m -> forall e ps, nth m g Leaf = Inner e ps -> is_impure e = true ->
  forall fuel, n < fuel -> detect_impure fuel g n = true.
Proof. exact detect_complete. Qed.
Print Assumptions C13_detect_complete.

(* layers that key a result by a static graph hash cannot be built over an impure edge: Graph.hash() fails *)
Theorem C13_no_graph_hash_over_impure :
  forall g inputs n m, upstream g n m -> forall i ps, nth m g Leaf = Inner (EImpure i) ps ->
  (forall x, upstream g n x -> upstream g x m -> existsb (Nat.eqb x) inputs = false) ->
  forall fuel, hash_graph g inputs fuel n = None.
Proof. exact impure_blocks_graph_hash. Qed.
Print Assumptions C13_no_graph_hash_over_impure.

Theorem C13_rule_is_translated : detect_impure_rule = "raise on ImpureEdge; visit every parent" /\ trav_detect_impure = Memo.
Proof. split; reflexivity. Qed.
Print Assumptions C13_rule_is_translated.

Example C13_example :
  let g := [Leaf; Inner (EImpure (EFunc "noise" 1 [] [])) [0]; Inner (EFunc "f" 1 [] []) [1]; Inner (ESwitch [(VStr "a", 0)] 2) [0; 2; 0];
            Inner (EFunc "pure" 1 [] []) [0]] in
  detect_impure 6 g 3 = true /\ hash_graph g [0] 6 3 = None /\ detect_impure 6 g 4 = false /\ hash_graph g [0] 6 4 <> None.
Proof. vm_compute. repeat split; discriminate. Qed.
Print Assumptions C13_example.

(* The dataset-wide layers (Filter, GroupBy, Join, Split, and CacheColumns through Graph.hash of its columns) reject an impure
   dependency because engine/graph.py hash_graph walks every parent of every node of the keyed sub-graph and ImpureEdge._hash_graph
   raises: the walk is the regenerated traversal (memoised, every parent visited, a fresh placeholder for the input). *)
Theorem C13_hash_graph_is_translated : GraphGen.trav_hash_graph = Memo /\ GraphGen.placeholder_is_fresh_object = true.
Proof. split; reflexivity. Qed.
Print Assumptions C13_hash_graph_is_translated.
