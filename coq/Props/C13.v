(* C13 — impure functions are never cached or keyed unless explicitly allowed. *)
From Connectome Require Import Values Attrs VM Edges EdgesGen TravGen GraphHashModel Impure ImpureFacts C01Inst.
From Connectome Require GraphGen.
Local Open Scope list_scope.

(* the walk of CacheLayer._detect_impure (regenerated rule: raise on ImpureEdge, visit every parent) answers "yes"
   exactly when an impure edge lies upstream -- through any number of layers, Merge switches (all branches are
   parents of the switch) and nested chains (connect_bags only adds identity edges) *)
Theorem C13_detect_sound :
  forall g fuel n, detect_impure fuel g n = true ->
  exists m e ps, upstream g n m /\ nth m g Leaf = Inner e ps /\ is_impure e = true.
Proof. exact detect_sound. Qed.
Print Assumptions C13_detect_sound.
Theorem C13_detect_complete :
  forall g, wf g -> forall n m, upstream g n m -> forall e ps, nth m g Leaf = Inner e ps -> is_impure e = true ->
  forall fuel, n < fuel -> detect_impure fuel g n = true.
Proof. exact detect_complete. Qed.
Print Assumptions C13_detect_complete.

(* layers that key a result by a static graph hash cannot be built over an impure edge: Graph.hash() fails *)
Theorem C13_no_graph_hash_over_impure :
  forall g inputs n m, upstream g n m -> forall i ps, nth m g Leaf = Inner (EImpure i) ps ->
  (forall x, upstream g n x -> upstream g x m -> existsb (Nat.eqb x) inputs = false) ->
  forall fuel, hash_graph g inputs fuel n = None.
Proof. exact impure_blocks_graph_hash. Qed.
Print Assumptions C13_no_graph_hash_over_impure.

Theorem C13_rule_is_translated : detect_impure_rule = "raise on ImpureEdge; visit every parent" /\ trav_detect_impure = Memo.
Proof. split; reflexivity. Qed.
Print Assumptions C13_rule_is_translated.

Example C13_example :
  let g := [Leaf; Inner (EImpure (EFunc "noise" 1 [] [])) [0]; Inner (EFunc "f" 1 [] []) [1]; Inner (ESwitch [(VStr "a", 0)] 2) [0; 2; 0];
            Inner (EFunc "pure" 1 [] []) [0]] in
  detect_impure 6 g 3 = true /\ hash_graph g [0] 6 3 = None /\ detect_impure 6 g 4 = false /\ hash_graph g [0] 6 4 <> None.
Proof. vm_compute. repeat split; discriminate. Qed.
Print Assumptions C13_example.

(* The dataset-wide layers (Filter, GroupBy, Join, Split, and CacheColumns through Graph.hash of its columns) reject an impure
   dependency because engine/graph.py hash_graph walks every parent of every node of the keyed sub-graph and ImpureEdge._hash_graph
   raises: the walk is the regenerated traversal (memoised, every parent visited, a fresh placeholder for the input). *)
Theorem C13_hash_graph_is_translated : GraphGen.trav_hash_graph = Memo /\ GraphGen.placeholder_is_fresh_object = true.
Proof. split; reflexivity. Qed.
Print Assumptions C13_hash_graph_is_translated.

(* BEGIN PINNED FINGERPRINTS (tools/pin_shapes.py) *)
(* The functions and classes of /repo that hand-written parts of the model mirror (Model/VM.v, NameLevel.v, Loopback.v) and the glue around the modelled core
   this property is anchored in: the fingerprints (sha256 of the normalised source, comments and docstrings dropped) are regenerated on every run; an edit of one
   of them re-opens this property even if no sampled case shows a difference.  Rewritten by tools/pin_shapes.py on a tree on which every check passes. *)
From Connectome Require GlueCacheGen GlueFactoryGen.
Theorem C13_mirrored_functions_are_the_pinned_ones :
  GlueCacheGen.shape_class_CacheToStorage = "bb02462476ebf5a3"%string /\
  GlueCacheGen.shape_class_CacheToRam = "671471faaea3be32"%string /\
  GlueCacheGen.shape_class_CacheToDisk = "ab13d5028a9842ed"%string /\
  GlueCacheGen.shape_priv_normalize_disk_arguments = "8b4510643237a667"%string /\
  GlueCacheGen.shape_priv_resolve_serializer = "37e132734e002621"%string /\
  GlueCacheGen.shape_class_DynamicConnectLayer = "7ece76ebf623a344"%string /\
  GlueCacheGen.shape_class_MemoryCache = "cfe8167a538c6fe4"%string /\
  GlueCacheGen.shape_class_DiskCache = "71fb3386aa709b95"%string /\
  GlueFactoryGen.shape_class_GraphFactory = "81497759c0671ad7"%string /\
  GlueFactoryGen.shape_class_SourceFactory = "1808b21b3bce3951"%string /\
  GlueFactoryGen.shape_class_TransformFactory = "c44de91624ae4321"%string /\
  GlueFactoryGen.shape_add_from_mixins = "75970a13392501ac"%string /\
  GlueFactoryGen.shape_is_detectable = "01389bb1efb83cb2"%string /\
  GlueFactoryGen.shape_items_to_container = "f7b238bfe3e856c6"%string /\
  GlueFactoryGen.shape_class_FunctionBase = "2a1e9fd23a29f19d"%string /\
  GlueFactoryGen.shape_class_Function = "727356a49c35f2ce"%string /\
  GlueFactoryGen.shape_class_FunctionWrapper = "20f303f31715c14d"%string /\
  GlueFactoryGen.shape_class_Inverse = "d803d7d513cd3b06"%string /\
  GlueFactoryGen.shape_class_Positional = "ff7f4bccfea673aa"%string /\
  GlueFactoryGen.shape_class_Impure = "f33a1c51c28660a4"%string /\
  GlueFactoryGen.shape_class_APIMeta = "d04e35766e894328"%string /\
  GlueFactoryGen.shape_class_HashByValue = "16222fab9891d910"%string /\
  GlueFactoryGen.shape_class_CombinedHashByValue = "a5203dcb1319f438"%string /\
  GlueFactoryGen.shape_hash_by_value = "8a4ba5e0fdeb3b7c"%string /\
  GlueFactoryGen.shape_class_NodeStorage = "6d3e8d03e5bc0ef6"%string /\
  GlueFactoryGen.shape_replace_annotation = "1793c6c05b9f2740"%string.
Proof. repeat split; reflexivity. Qed.
Print Assumptions C13_mirrored_functions_are_the_pinned_ones.
(* END PINNED FINGERPRINTS *)
