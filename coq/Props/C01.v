(* C01 — a compiled field returns exactly what composing the user functions returns.
   Property theorems only; proofs live in Proofs/{Sim,L2,Counts,C01Main,C01Inst}.v. *)
From Connectome Require Import Values Attrs VM Edges Evaluator L2 HashSound SpecEq C01Main C01Inst C01Readable EdgeFacts RaiseDir C01Raise Examples.
From Connectome Require EvictGen GraphGen.
Local Open Scope list_scope.

(* The generic statement: ANY graph shape whose parents precede their children, ARBITRARY generator trees for
   the two generators of every node (so every present and future edge kind), any interpretation of the user
   functions, any shared store with an invariant kept by Good writes, arbitrary invariant-preserving
   interference.  If composing the generators recursively (every cache lookup a miss) gives v, then
   Graph.__call__ returns v after finitely many machine steps, whatever the eviction counters do, and the
   store invariant still holds. *)
Theorem C01_refines_generic :
  forall (g : pgraph) (gens : which -> nat -> option gen)
    (apply : string -> list val -> list (string * val) -> val)
    (raises : string -> list val -> list (string * val) -> bool)
    (ins : list (nat * val)) (cstore : Type)
    (cget : cstore -> nat -> sval -> option sval * cstore) (cset : cstore -> nat -> sval -> sval -> cstore)
    (Good : nat -> sval -> sval -> Prop) (CInv : cstore -> Prop),
  (forall st c k r st', CInv st -> cget st c k = (r, st') -> CInv st' /\ (forall v, r = Some v -> Good c k v)) ->
  (forall st c k v, CInv st -> Good c k v -> CInv (cset st c k v)) ->
  forall interfere : cstore -> cstore, (forall st, CInv st -> CInv (interfere st)) ->
  forall o : nat, (forall n p, In p (parents g n) -> p < n) -> o < S (List.length g) ->
  (forall f w n e, gens w n = Some e -> GOK g gens apply raises ins Good f w n e) ->
  forall (f : nat) (v : sval) (σ : cstore),
  spnode gens ins (spq g gens apply raises ins f) WC o = Some v -> CInv σ ->
  exists k s', (forall k', k <= k' ->
      run g gens apply raises cstore cget cset interfere k' (init_state g cstore ins o CEvaluate σ)
      = Finished cstore v s') /\ CInv (sto cstore s').
Proof. exact call_refines. Qed.
Print Assumptions C01_refines_generic.

(* Concrete graphs over the regenerated edge generators of /repo (functions with keyword split and Silent
   positions, constants, identities, products, barriers, hash-by-value and impure wrappers, switches,
   CheckIds), no cache edges: no hypothesis on the generators is left. *)
Theorem C01_refines :
  forall (g : graph) apply raises ins (cstore : Type) cget cset interfere o fuel v (σ : cstore),
  wf g -> no_cache g -> o <= List.length g ->
  spec g apply raises ins WC fuel o = Some v ->
  exists k s', forall k', k <= k' ->
    call (shape g) (gens_of g) apply raises cstore cget cset interfere ins o σ k' = Finished cstore v s'.
Proof. exact refines_cachefree. Qed.
Print Assumptions C01_refines.

(* In the words of the property: if evaluating the user functions recursively in dependency order ([sem]: positional
   arguments in declared order, keyword arguments split from the right, products as tuples in request order) gives
   v, then calling the compiled function returns v. *)
Theorem C01_returns_composition :
  forall (g : graph) apply raises ins (cstore : Type) cget cset interfere o F h v (σ : cstore),
  wf g -> no_cache g -> (forall n e ps, nth n g Leaf = Inner e ps -> node_ok e ps) -> o <= List.length g ->
  sem apply raises g ins F o = Some (h, v) ->
  exists k s', forall k', k <= k' ->
    call (shape g) (gens_of g) apply raises cstore cget cset interfere ins o σ k' = Finished cstore (SVal v) s'.
Proof. exact composes_cachefree. Qed.
Print Assumptions C01_returns_composition.

(* no internal assertion, eviction or stack-discipline error ever surfaces *)
Theorem C01_never_stuck :
  forall (g : graph) apply raises ins (cstore : Type) cget cset interfere o fuel v (σ : cstore),
  wf g -> no_cache g -> o <= List.length g ->
  spec g apply raises ins WC fuel o = Some v ->
  forall k why s, call (shape g) (gens_of g) apply raises cstore cget cset interfere ins o σ k <> Stuck cstore why s.
Proof. exact never_stuck_cachefree. Qed.
Print Assumptions C01_never_stuck.

(* "It raises only what a user function raises": [quiet] is the behaviour in which no user function raises.  If the
   composition is defined then, under ANY behaviour [raises] of the user functions, the call - observed after any
   number of machine steps - is still running (only before step k), or has returned that composition, or has
   stopped with the exception of a user function that did raise at a call the machine executed
   ([user_raise]: outcome Raised (EUser f) with raises f pos kw = true).  It is never stuck and never stops with
   anything else.  The machine consults [raises] in one place only, so a run is the failure-free run up to the
   first call that raises (RaiseDir.v). *)
Theorem C01_raises_only_user_exceptions :
  forall (g : graph) apply raises ins (cstore : Type) cget cset interfere o fuel v (σ : cstore),
  wf g -> no_cache g -> o <= List.length g ->
  spec g apply quiet ins WC fuel o = Some v ->
  exists k s', forall k',
    let out := call (shape g) (gens_of g) apply raises cstore cget cset interfere ins o σ k' in
    (exists s1, out = Running cstore s1 /\ k' < k) \/ out = Finished cstore v s' \/ user_raise raises cstore out.
Proof. exact cachefree_only_user_exceptions. Qed.
Print Assumptions C01_raises_only_user_exceptions.

(* Non-vacuity: a diamond with a repeated parent, keyword binding, a switch, a by-value node and a barrier
   meets every hypothesis, and its specification value is the expected composition. *)
Example C01_example_hypotheses :
  wf ex_g /\ no_cache ex_g /\ 7 <= List.length ex_g /\
  spec ex_g ex_apply (fun _ _ _ => false) ex_ins WC 20 7 =
    Some (SVal (VTuple [VApp "bv" [VApp "h" [VApp "g" [VApp "f" [VStr "k2"] []; VApp "f" [VStr "k2"] []] []; VApp "f" [VStr "k2"] []] [("y", VStr "k2")]] [];
                        VApp "h" [VApp "g" [VApp "f" [VStr "k2"] []; VApp "f" [VStr "k2"] []] []; VApp "f" [VStr "k2"] []] [("y", VStr "k2")]])).
Proof.
  split; [apply wfb_sound; vm_compute; reflexivity|].
  split; [apply no_cacheb_sound; vm_compute; reflexivity|].
  split; [vm_compute; lia|]. vm_compute. reflexivity.
Qed.
Print Assumptions C01_example_hypotheses.

(* The per-call tables of the machine model (Model/VM.v: evict, the counted-key assertion, two fresh tables per call over
   counts doubled by Graph.__init__) are the ones engine/utils.py and engine/graph.py define (regenerated facts). *)
Theorem C01_eviction_tables_are_translated :
  EvictGen.evict_rule = "pop-at-one-else-decrement" /\ EvictGen.setitem_asserts_counted = true
  /\ GraphGen.graph_multiplier = 2 /\ GraphGen.fresh_counts_per_call = true /\ GraphGen.count_rule = "path-count-dp".
Proof. repeat split; reflexivity. Qed.
Print Assumptions C01_eviction_tables_are_translated.

(* BEGIN PINNED FINGERPRINTS (tools/pin_shapes.py) *)
(* The functions and classes of /repo that hand-written parts of the model mirror (Model/VM.v, NameLevel.v, Loopback.v) and the glue around the modelled core
   this property is anchored in: the fingerprints (sha256 of the normalised source, comments and docstrings dropped) are regenerated on every run; an edit of one
   of them re-opens this property even if no sampled case shows a difference.  Rewritten by tools/pin_shapes.py on a tree on which every check passes. *)
From Connectome Require VmGen GlueGraphGen.
Theorem C01_mirrored_functions_are_the_pinned_ones :
  VmGen.shape_execute = "3390af1da9648cc9"%string /\
  GlueGraphGen.shape_class_Graph = "9b10ec592949c6f4"%string /\
  GlueGraphGen.shape_evaluate = "2cfd3509723284f1"%string /\
  GlueGraphGen.shape_compute_hash = "e8fe66bcf0ec3ecc"%string /\
  GlueGraphGen.shape_class_GraphCompiler = "b1003ba6d768dee1"%string /\
  GlueGraphGen.shape_find_dependencies = "98effd5d1564b846"%string /\
  GlueGraphGen.shape_class_TreeNode = "f3a44e95e44d05b5"%string.
Proof. repeat split; reflexivity. Qed.
Print Assumptions C01_mirrored_functions_are_the_pinned_ones.
(* END PINNED FINGERPRINTS *)
