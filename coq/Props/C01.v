(* C01 — a compiled field returns exactly what composing the user functions returns. *)
From Connectome Require Import Values VM.

Theorem C01_placeholder : True.
Proof. exact I. Qed.
Print Assumptions C01_placeholder.
