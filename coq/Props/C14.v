(* C14 — Merge routes every id to the one dataset that owns it. *)
From Connectome Require Import Values Attrs VM Edges EdgesGen NameSet RelBase MergeGen SortFacts MergeFacts HashSound.
From Coq Require Import Sorting.Sorted.
Local Open Scope list_scope.

(* the routing table built by Merge.__init__: an id maps to k exactly when dataset k is the (first) one containing it *)
Theorem C14_table_routes :
  forall dss t, merge_table dss = Some t -> forall i, slookup t i = owner_of dss 0 i.
Proof. exact merge_table_routes. Qed.
Print Assumptions C14_table_routes.

(* overlapping ids are rejected, whichever two datasets they occur in (also non-adjacent ones) *)
Theorem C14_overlap_rejected :
  forall dss k acc i, In i (map fst acc) -> (exists ds, In ds dss /\ In i ds) -> merge_table_from k dss acc = None.
Proof. exact merge_overlap_rejected. Qed.
Print Assumptions C14_overlap_rejected.
Theorem C14_overlap_of_first_two_rejected : forall a b rest i, In i a -> In i b -> merge_table (a :: b :: rest) = None.
Proof. exact merge_two_overlap_rejected. Qed.
Print Assumptions C14_overlap_of_first_two_rejected.

(* ids: the sorted union *)
Theorem C14_ids :
  forall t, Sorted sle (merged_ids t) /\ forall i, In i (merged_ids t) <-> In i (map fst t).
Proof. intros t. split; [apply merged_ids_sorted|intros i; apply merged_ids_spec]. Qed.
Print Assumptions C14_ids.

(* the regenerated SwitchEdge: the value is the selected branch's value, the hash the selected branch's hash, an
   unknown id is a ValueError; only the key and the selected branch are requested (the +1 skips the key parent) *)
Theorem C14_switch_value_and_hash :
  forall apply raises t n pv ph v i, lookup t (nth 0 pv VNone) = Some i ->
  edge_val apply raises (ESwitch t n) pv = Some (nth (i + 1) pv VNone) /\ edge_hash (ESwitch t n) ph pv v = nth (i + 1) ph hnone.
Proof. intros apply raises t n pv ph v i H. cbn. rewrite H. auto. Qed.
Print Assumptions C14_switch_value_and_hash.
Theorem C14_switch_requests :
  forall t n, exists k, hash_gen (ESwitch t n) = GYield (RParentValue 0) k /\
    forall key, match lookup t (unval key) with
                | None => k key = GRaise (EValue "Identifier not found")
                | Some i => exists k2, k key = GYield (RParentHash (i + 1)) k2
                end.
Proof.
  intros t n. eexists. split; [reflexivity|]. intros key. cbn. destruct (lookup t (unval key)); [eexists; reflexivity|reflexivity].
Qed.
Print Assumptions C14_switch_requests.

Example C14_example :
  merge_table [["b"; "a"]; ["c"]] = Some [("b", 0); ("a", 0); ("c", 1)] /\
  merged_ids [("b", 0); ("a", 0); ("c", 1)] = ["a"; "b"; "c"] /\ merge_table [["a"]; ["c"]; ["a"]] = None.
Proof. vm_compute. auto. Qed.
Print Assumptions C14_example.

(* BEGIN PINNED FINGERPRINTS (tools/pin_shapes.py) *)
(* The functions and classes of /repo that hand-written parts of the model mirror (Model/VM.v, NameLevel.v, Loopback.v) and the glue around the modelled core
   this property is anchored in: the fingerprints (sha256 of the normalised source, comments and docstrings dropped) are regenerated on every run; an edit of one
   of them re-opens this property even if no sampled case shows a difference.  Rewritten by tools/pin_shapes.py on a tree on which every check passes. *)
From Connectome Require GlueMergeGen.
Theorem C14_mirrored_functions_are_the_pinned_ones :
  GlueMergeGen.shape_class_Merge = "249844d0ee74d228"%string.
Proof. repeat split; reflexivity. Qed.
Print Assumptions C14_mirrored_functions_are_the_pinned_ones.
(* END PINNED FINGERPRINTS *)
