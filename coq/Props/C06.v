(* C06 — static graph hashes of dataset-wide layers identify the function they key. *)
From Connectome Require Import Values Attrs VM Edges EdgesGen GraphGen HashSound GraphHashModel GraphHash StaticHash Examples.
From Connectome Require NodeHashGen.
Local Open Scope list_scope.

(* The static hash of a Merge switch pins the id-to-dataset routing (the repaired SwitchEdge._hash_graph; with the
   pinned body, which omitted the routing, this theorem does not check -- GraphHash.switch_graph_hash_pinned_refuted
   is the witness of finding F1) and the static hashes of all branches. *)
Theorem C06_switch_hash_determines_routing :
  forall t n t' n' inputs inputs',
  SwitchEdge_hash_graph (self_of (ESwitch t n)) inputs = SwitchEdge_hash_graph (self_of (ESwitch t' n')) inputs' ->
  sorted_items t = sorted_items t' /\ inputs = inputs'.
Proof. exact switch_graph_hash_routing. Qed.
Print Assumptions C06_switch_hash_determines_routing.

(* function edges: the static hash pins the function, the keyword names and the ordered input hashes;
   products the ordered inputs; constants the value *)
Theorem C06_function_hash_injective :
  forall f ar kw f' ar' kw' ph ph',
  FunctionEdge_make_hash (self_of (EFunc f ar kw [])) ph = FunctionEdge_make_hash (self_of (EFunc f' ar' kw' [])) ph' ->
  f = f' /\ kw = kw' /\ ph = ph'.
Proof. exact func_graph_hash_inj. Qed.
Print Assumptions C06_function_hash_injective.
Theorem C06_product_hash_injective :
  forall k k' ph ph', ProductEdge_make_hash (self_of (EProduct k)) ph = ProductEdge_make_hash (self_of (EProduct k')) ph' -> ph = ph'.
Proof. exact product_graph_hash_inj. Qed.
Print Assumptions C06_product_hash_injective.
Theorem C06_constant_hash_injective :
  forall v v' i i', ConstantEdge_hash_graph (self_of (EConst v)) i = ConstantEdge_hash_graph (self_of (EConst v')) i' -> v = v'.
Proof. exact const_graph_hash_inj. Qed.
Print Assumptions C06_constant_hash_injective.

(* the entry id is represented by a placeholder that is the hash of no constant (regenerated: LeafHash(object())) *)
Theorem C06_placeholder_fresh : placeholder_is_fresh_object = true /\ forall v, HPlaceholder <> HLeaf v.
Proof. split; [reflexivity|exact placeholder_fresh]. Qed.
Print Assumptions C06_placeholder_fresh.

(* F1, kept as a refutation of the pinned body *)
Theorem C06_pinned_switch_refuted :
  exists t t' inputs, sorted_items t <> sorted_items t' /\
    SwitchEdge_hash_graph_pinned inputs = SwitchEdge_hash_graph_pinned inputs /\
    lookup t (VStr "2") <> lookup t' (VStr "2").
Proof. exact switch_graph_hash_pinned_refuted. Qed.
Print Assumptions C06_pinned_switch_refuted.

(* Whole sub-pipelines.  [sden apply id hs] reads a static hash back as a value depending on the entry id (the
   placeholder stands for the id, a SwitchEdge node for "look the id up in the stored routing table and take that
   branch").  For every graph of function, constant, identity, product, cache, barrier, hash-by-value, switch and
   CheckIds edges with one input: if the static hash of a node is hs, then on every id for which the sub-pipeline's
   value is defined that value is [sden apply id hs].  (An impure edge has no static hash.) *)
Theorem C06_static_hash_sound :
  forall apply id raises g i0,
  (forall n e ps, nth n g Leaf = Inner e ps -> edge_ok e (List.length ps) = true /\ tables_ok e) ->
  forall F F' n hs hd v,
  hash_graph g [i0] F n = Some hs -> sem apply raises g [(i0, id)] F' n = Some (hd, v) -> sden apply id hs = Some v.
Proof. exact static_sound. Qed.
Print Assumptions C06_static_hash_sound.

(* ... hence equal static hashes, of any two sub-pipelines, give the same function of the entry id *)
Theorem C06_equal_static_hash_same_function :
  forall apply id r1 r2 g1 i1 g2 i2 F1 F2 F1' F2' n1 n2 hs h1 h2 v1 v2,
  (forall n e ps, nth n g1 Leaf = Inner e ps -> edge_ok e (List.length ps) = true /\ tables_ok e) ->
  (forall n e ps, nth n g2 Leaf = Inner e ps -> edge_ok e (List.length ps) = true /\ tables_ok e) ->
  hash_graph g1 [i1] F1 n1 = Some hs -> hash_graph g2 [i2] F2 n2 = Some hs ->
  sem apply r1 g1 [(i1, id)] F1' n1 = Some (h1, v1) -> sem apply r2 g2 [(i2, id)] F2' n2 = Some (h2, v2) -> v1 = v2.
Proof. exact static_hash_identifies. Qed.
Print Assumptions C06_equal_static_hash_same_function.

(* the reading, computed: a Merge of A and B routes id "2" to A under the first table and to B under the second *)
Example C06_example_reading :
  let g t := [Leaf; Inner (EFunc "A" 1 [] []) [0]; Inner (EFunc "B" 1 [] []) [0]; Inner (ESwitch t 2) [0; 1; 2]] in
  let rd t := match hash_graph (g t) [0] 5 3 with Some hs => sden ex_apply (VStr "2") hs | None => None end in
  rd [(VStr "1", 0); (VStr "2", 0); (VStr "3", 1)] = Some (VApp "A" [VStr "2"] [])
  /\ rd [(VStr "3", 1); (VStr "2", 1); (VStr "1", 0)] = Some (VApp "B" [VStr "2"] [])
  /\ option_map snd (sem ex_apply (fun _ _ _ => false) (g [(VStr "3", 1); (VStr "2", 1); (VStr "1", 0)]) [(0, VStr "2")] 5 3)
     = Some (VApp "B" [VStr "2"] []).
Proof. vm_compute. auto. Qed.
Print Assumptions C06_example_reading.

(* Non-vacuity: the two routings of the property text over the same two branches now get different static hashes *)
Example C06_example_routings :
  let g t := [Leaf; Inner (EFunc "A" 1 [] []) [0]; Inner (EFunc "B" 1 [] []) [0]; Inner (ESwitch t 2) [0; 1; 2]] in
  hash_graph (g [(VStr "1", 0); (VStr "2", 0); (VStr "3", 1)]) [0] 5 3
  <> hash_graph (g [(VStr "1", 0); (VStr "2", 1); (VStr "3", 1)]) [0] 5 3
  /\ hash_graph (g [(VStr "1", 0); (VStr "2", 0); (VStr "3", 1)]) [0] 5 3
     = hash_graph (g [(VStr "3", 1); (VStr "2", 0); (VStr "1", 0)]) [0] 5 3.
Proof. split; [vm_compute; discriminate|vm_compute; reflexivity]. Qed.
Print Assumptions C06_example_routings.

(* The node-hash values this file reasons about are the ones engine/node_hash.py builds (regenerated, Gen/NodeHashGen.v):
   tags 0-3 for leaf / apply / graph / custom, the components of each `value` tuple in order, and == on `value`. *)
Theorem C06_node_hash_values_are_translated :
  NodeHashGen.hash_tags = [0; 1; 2; 3] /\ NodeHashGen.LeafHash_value = ["tag"; "data"]
  /\ NodeHashGen.ApplyHash_value = ["tag"; "func"; "args.value"; "kw_names"] /\ NodeHashGen.GraphHash_value = ["tag"; "output.value"]
  /\ NodeHashGen.CustomHash_value = ["tag"; "marker"; "*children.value"] /\ NodeHashGen.nodehash_eq_compares = "value".
Proof. repeat split; reflexivity. Qed.
Print Assumptions C06_node_hash_values_are_translated.

(* BEGIN PINNED FINGERPRINTS (tools/pin_shapes.py) *)
(* The functions and classes of /repo that hand-written parts of the model mirror (Model/VM.v, NameLevel.v, Loopback.v) and the glue around the modelled core
   this property is anchored in: the fingerprints (sha256 of the normalised source, comments and docstrings dropped) are regenerated on every run; an edit of one
   of them re-opens this property even if no sampled case shows a difference.  Rewritten by tools/pin_shapes.py on a tree on which every check passes. *)
From Connectome Require GlueHashGen.
Theorem C06_mirrored_functions_are_the_pinned_ones :
  GlueHashGen.shape_class_NodeHash = "f0232c87f36bf159"%string /\
  GlueHashGen.shape_class_LeafHash = "05e80c5ad9a214f0"%string /\
  GlueHashGen.shape_class_ApplyHash = "556e2ab8595eb443"%string /\
  GlueHashGen.shape_class_GraphHash = "5654d0d1756d0a5c"%string /\
  GlueHashGen.shape_class_CustomHash = "434a91b548cd8bbc"%string /\
  GlueHashGen.shape_class_FunctionEdge = "17dc98d2e9afb7b6"%string /\
  GlueHashGen.shape_class_ConstantEdge = "a5d6e9a227ce6207"%string /\
  GlueHashGen.shape_class_ComputableHashBase = "70f75f27dd8924c3"%string /\
  GlueHashGen.shape_class_External = "8a3fbf83cd7fba25"%string /\
  GlueHashGen.shape_class_SimpleHash = "2e24eea69dec1725"%string /\
  GlueHashGen.shape_class_SimpleHashEdge = "049321af3dcf3bc6"%string /\
  GlueHashGen.shape_marker_getter = "6e1709ddfaa2cbe4"%string.
Proof. repeat split; reflexivity. Qed.
Print Assumptions C06_mirrored_functions_are_the_pinned_ones.
(* END PINNED FINGERPRINTS *)
