(* C06 — static graph hashes of dataset-wide layers identify the function they key. *)
From Connectome Require Import Values Attrs VM Edges EdgesGen MiscGen HashSound GraphHashModel GraphHash Examples.
Local Open Scope list_scope.

(* The static hash of a Merge switch pins the id-to-dataset routing (the repaired SwitchEdge._hash_graph; with the
   pinned body, which omitted the routing, this theorem does not check -- GraphHash.switch_graph_hash_pinned_refuted
   is the witness of finding F1) and the static hashes of all branches. *)
Theorem C06_switch_hash_determines_routing :
  forall t n t' n' inputs inputs',
  SwitchEdge_hash_graph (self_of (ESwitch t n)) inputs = SwitchEdge_hash_graph (self_of (ESwitch t' n')) inputs' ->
  sorted_items t = sorted_items t' /\ inputs = inputs'.
Proof. exact switch_graph_hash_routing. Qed.
Print Assumptions C06_switch_hash_determines_routing.

(* function edges: the static hash pins the function, the keyword names and the ordered input hashes;
   products the ordered inputs; constants the value *)
Theorem C06_function_hash_injective :
  forall f ar kw f' ar' kw' ph ph',
  FunctionEdge_make_hash (self_of (EFunc f ar kw [])) ph = FunctionEdge_make_hash (self_of (EFunc f' ar' kw' [])) ph' ->
  f = f' /\ kw = kw' /\ ph = ph'.
Proof. exact func_graph_hash_inj. Qed.
Print Assumptions C06_function_hash_injective.
Theorem C06_product_hash_injective :
  forall k k' ph ph', ProductEdge_make_hash (self_of (EProduct k)) ph = ProductEdge_make_hash (self_of (EProduct k')) ph' -> ph = ph'.
Proof. exact product_graph_hash_inj. Qed.
Print Assumptions C06_product_hash_injective.
Theorem C06_constant_hash_injective :
  forall v v' i i', ConstantEdge_hash_graph (self_of (EConst v)) i = ConstantEdge_hash_graph (self_of (EConst v')) i' -> v = v'.
Proof. exact const_graph_hash_inj. Qed.
Print Assumptions C06_constant_hash_injective.

(* the entry id is represented by a placeholder that is the hash of no constant (regenerated: LeafHash(object())) *)
Theorem C06_placeholder_fresh : placeholder_is_fresh_object = true /\ forall v, HPlaceholder <> HLeaf v.
Proof. split; [reflexivity|exact placeholder_fresh]. Qed.
Print Assumptions C06_placeholder_fresh.

(* F1, kept as a refutation of the pinned body *)
Theorem C06_pinned_switch_refuted :
  exists t t' inputs, sorted_items t <> sorted_items t' /\
    SwitchEdge_hash_graph_pinned inputs = SwitchEdge_hash_graph_pinned inputs /\
    lookup t (VStr "2") <> lookup t' (VStr "2").
Proof. exact switch_graph_hash_pinned_refuted. Qed.
Print Assumptions C06_pinned_switch_refuted.

(* Non-vacuity: the two routings of the property text over the same two branches now get different static hashes *)
Example C06_example_routings :
  let g t := [Leaf; Inner (EFunc "A" 1 [] []) [0]; Inner (EFunc "B" 1 [] []) [0]; Inner (ESwitch t 2) [0; 1; 2]] in
  hash_graph (g [(VStr "1", 0); (VStr "2", 0); (VStr "3", 1)]) [0] 5 3
  <> hash_graph (g [(VStr "1", 0); (VStr "2", 1); (VStr "3", 1)]) [0] 5 3
  /\ hash_graph (g [(VStr "1", 0); (VStr "2", 0); (VStr "3", 1)]) [0] 5 3
     = hash_graph (g [(VStr "3", 1); (VStr "2", 0); (VStr "1", 0)]) [0] 5 3.
Proof. split; [vm_compute; discriminate|vm_compute; reflexivity]. Qed.
Print Assumptions C06_example_routings.
