(* C03 — one call evaluates each needed function exactly once and nothing else.
   Proved here: the generic half "no generator of a node runs to completion twice within one call", for any
   graph, any generator trees, shared caches and interference (ghost list of completed generators carried by
   the evaluator that the machine provably simulates).  The exact call log (which functions, in which order)
   is tied to the code by the correspondence check: model and implementation agree on the full call log and on
   the full EvictionCache trace of every generated case. *)
From Connectome Require Import Values Attrs VM Edges Evaluator Sim L2 C01Main C01Inst EdgeFacts Examples.
From Connectome Require EvictGen GraphGen.
From Connectome Require ColStore ColumnsGen Columns ColumnsFacts EqFacts.
Local Open Scope list_scope.

Theorem C03_generators_once :
  forall (g : pgraph) (gens : which -> nat -> option gen)
    (apply : string -> list val -> list (string * val) -> val)
    (raises : string -> list val -> list (string * val) -> bool)
    (ins : list (nat * val)) (cstore : Type)
    (cget : cstore -> nat -> sval -> option sval * cstore) (cset : cstore -> nat -> sval -> sval -> cstore)
    (Good : nat -> sval -> sval -> Prop) (CInv : cstore -> Prop),
  (forall st c k r st', CInv st -> cget st c k = (r, st') -> CInv st' /\ (forall v, r = Some v -> Good c k v)) ->
  (forall st c k v, CInv st -> Good c k v -> CInv (cset st c k v)) ->
  forall interfere : cstore -> cstore, (forall st, CInv st -> CInv (interfere st)) ->
  forall o : nat, (forall n p, In p (parents g n) -> p < n) -> o < S (List.length g) ->
  (forall f w n e, gens w n = Some e -> GOK g gens apply raises ins Good f w n e) ->
  forall (f : nat) (v : sval) (σ : cstore),
  spnode gens ins (spq g gens apply raises ins f) WC o = Some v -> CInv σ ->
  exists k (s' : rst cstore),
    (forall k', k <= k' ->
       run g gens apply raises cstore cget cset interfere k' (init_state g cstore ins o CEvaluate σ)
       = Finished cstore v (mk cstore [v] [CReturn] s'))
    /\ NoDup (rdone s')                       (* every (hash|value, node) generator completed at most once *)
    /\ log cstore (mk cstore [v] [CReturn] s') = rlog s'.
Proof.
  intros g gens apply raises ins cstore cget cset Good CInv Hget Hset interfere Hint o Hwf Ho Hok f v σ Hs Hc.
  destruct (call_refines_ghost g gens apply raises ins cstore cget cset Good CInv Hget Hset interfere Hint o Hwf Ho Hok f v σ Hs Hc)
    as (k & s' & Hk & Hinv).
  exists k, s'. split; [exact Hk|]. split; [exact (i_nodup _ _ _ _ _ _ _ _ _ Hinv)|reflexivity].
Qed.
Print Assumptions C03_generators_once.

(* Non-vacuity and the shape of a call log: on the example graph of C01 with key "k2" the machine calls
   f, g, h, bv once each, in dependency order, and never the switch branch that was not selected; with key
   "k1" it calls only f, g, bv. *)
Definition names {S} (o : outcome S) : list string :=
  rev (map (fun c => fst (fst c)) (match o with Finished _ _ s | Raised _ _ s | Stuck _ _ s | Running _ s => log S s end)).

Example C03_example_log :
  names (call (shape ex_g) (gens_of ex_g) ex_apply (fun _ _ _ => false) unit (fun s _ _ => (None, s)) (fun s _ _ _ => s) (fun s => s)
           ex_ins 7 tt 400) = ["f"; "g"; "h"; "bv"]
  /\ names (call (shape ex_g) (gens_of ex_g) ex_apply (fun _ _ _ => false) unit (fun s _ _ => (None, s)) (fun s _ _ _ => s) (fun s => s)
           [(0, VStr "k1")] 4 tt 400) = ["f"; "g"].
Proof. split; vm_compute; reflexivity. Qed.
Print Assumptions C03_example_log.

(* ---------- column caches: "exactly once" does NOT hold (finding F9) ----------
   Whenever a request through a column of CacheColumns misses the RAM table, the hash pass of the requested entry -
   with every @hash_by_value / impure function in it - runs twice: once by the calling VM (to obtain the hash the
   column is looked up with) and once more inside the loop over the shard (graph.get_hash(k) for every k of the
   shard, the requested key among them).  Over the REGENERATED body of CachedColumn.evaluate, for every shard size,
   every set of ids, every state of the stores.  The check reports this as a KNOWN-FINDING with a concrete pipeline. *)
Theorem C03_column_miss_hashes_requested_entry_twice :
  forall (sorted : list val -> list val) (get_hash : nat -> val -> option nhash) (get_value : nat -> val -> option val)
         (h : nat -> val -> nhash),
  (forall l, Permutation.Permutation (sorted l) l) ->
  (forall c k x, get_hash c k = Some x -> x = h c k) ->
  forall col size key keys st r st' ev,
  ColumnsFacts.exact_key pyeq key -> In key keys -> size <> Some 0 ->
  get_hash col key = Some (h col key) -> (forall k, get_hash col k <> None) ->
  ColStore.ram_get hpyeq st (h col key) = None ->
  Columns.column_request hpyeq heqb pyeq sorted get_hash get_value col size key keys st = (r, st', ev) ->
  exists ev', ev = ColStore.CHash col key :: ColStore.CKeyReq :: ColStore.CKeysReq :: ev' /\ In (ColStore.CHash col key) ev'.
Proof.
  intros sorted get_hash get_value h H1 H2.
  exact (ColumnsFacts.column_miss_hashes_entry_twice hpyeq heqb pyeq sorted get_hash get_value h EqFacts.hpyeq_refl EqFacts.pyeq_refl H1 H2).
Qed.
Print Assumptions C03_column_miss_hashes_requested_entry_twice.

(* the smallest instance: one id, one column, empty stores *)
Example C03_example_column_miss :
  exists st', ColumnsFacts.py_request (fun l => l) (fun c k => Some (ColumnsFacts.f11_h c k)) (fun c k => Some (ColumnsFacts.f11_v c k))
                0 None ColumnsFacts.f11_key [ColumnsFacts.f11_key] ColStore.colstore0
  = (ColStore.COk (ColumnsFacts.f11_v 0 ColumnsFacts.f11_key), st',
     [ColStore.CHash 0 ColumnsFacts.f11_key; ColStore.CKeyReq; ColStore.CKeysReq; ColStore.CHash 0 ColumnsFacts.f11_key;
      ColStore.CValue 0 ColumnsFacts.f11_key]).
Proof. exact ColumnsFacts.f9_example. Qed.
Print Assumptions C03_example_column_miss.

(* The per-call tables of the machine model (Model/VM.v: evict, the counted-key assertion, two fresh tables per call over
   counts doubled by Graph.__init__) are the ones engine/utils.py and engine/graph.py define (regenerated facts). *)
Theorem C03_eviction_tables_are_translated :
  EvictGen.evict_rule = "pop-at-one-else-decrement" /\ EvictGen.setitem_asserts_counted = true
  /\ GraphGen.graph_multiplier = 2 /\ GraphGen.fresh_counts_per_call = true /\ GraphGen.count_rule = "path-count-dp".
Proof. repeat split; reflexivity. Qed.
Print Assumptions C03_eviction_tables_are_translated.

(* ---------- two cached columns that share an upstream function (finding F10) ----------
   A request that finds its shard neither in the RAM table nor on disk runs the value pass of EVERY entry of the shard through the
   compiled graph of its own column.  Hence, in a call that asks for two columns c1, c2 of one CacheColumns layer (both cold), a user
   function that both columns compute from runs once per column for every entry of the shard - not once per call.  [uses c] are the
   functions the value pass of column c executes; [executed] reads them off the events. *)
Definition executed (uses : nat -> list string) (ev : list ColStore.cevent) : list (string * val) :=
  flat_map (fun e => match e with ColStore.CValue c k => map (fun f => (f, k)) (uses c) | _ => [] end) ev.

Theorem C03_column_cold_miss_runs_whole_shard :
  forall (sorted : list val -> list val) (get_hash : nat -> val -> option nhash) (get_value : nat -> val -> option val)
         (h : nat -> val -> nhash),
  (forall c k x, get_hash c k = Some x -> x = h c k) ->
  forall col size key keys st r st' ev ks c i,
  ColumnsFacts.exact_key pyeq key -> ColumnsGen.get_shard pyeq sorted size key keys = inr (ks, c, i) ->
  get_hash col key = Some (h col key) -> (forall k, get_hash col k <> None) -> (forall k, get_value col k <> None) ->
  ColStore.ram_get hpyeq st (h col key) = None -> ColStore.disk_get heqb st (ColumnsFacts.compound (map (h col) ks)) = None ->
  Columns.column_request hpyeq heqb pyeq sorted get_hash get_value col size key keys st = (r, st', ev) ->
  forall k, In k ks -> In (ColStore.CValue col k) ev.
Proof.
  intros sorted get_hash get_value h H1.
  refine (ColumnsFacts.column_cold_miss_runs_whole_shard hpyeq heqb pyeq sorted get_hash get_value h
            (fun c k => match get_value c k with Some x => x | None => VNone end) EqFacts.hpyeq_refl H1 _).
  intros c k x E. rewrite E. reflexivity.
Qed.
Print Assumptions C03_column_cold_miss_runs_whole_shard.

Theorem C03_two_columns_run_a_shared_function_twice :
  forall (uses : nat -> list string) (f : string) (c1 c2 : nat) (k : val) (ev1 ev2 : list ColStore.cevent),
  In f (uses c1) -> In f (uses c2) -> In (ColStore.CValue c1 k) ev1 -> In (ColStore.CValue c2 k) ev2 ->
  exists a b c, executed uses (ev1 ++ ev2) = a ++ (f, k) :: b ++ (f, k) :: c.
Proof.
  intros uses f c1 c2 k ev1 ev2 H1 H2 E1 E2. unfold executed. rewrite flat_map_app.
  assert (forall c ev, In f (uses c) -> In (ColStore.CValue c k) ev ->
            exists a b, flat_map (fun e => match e with ColStore.CValue c k => map (fun f => (f, k)) (uses c) | _ => [] end) ev = a ++ (f, k) :: b) as Hone.
  { intros c ev Hf He. apply in_split. apply in_flat_map. exists (ColStore.CValue c k). split; [exact He|]. apply in_map_iff. exists f. split; [reflexivity|exact Hf]. }
  destruct (Hone _ _ H1 E1) as (a1 & b1 & ->). destruct (Hone _ _ H2 E2) as (a2 & b2 & ->).
  exists a1, (b1 ++ a2), b2. rewrite <- app_assoc. cbn. rewrite <- app_assoc. reflexivity.
Qed.
Print Assumptions C03_two_columns_run_a_shared_function_twice.

(* BEGIN PINNED FINGERPRINTS (tools/pin_shapes.py) *)
(* The functions and classes of /repo that hand-written parts of the model mirror (Model/VM.v, NameLevel.v, Loopback.v) and the glue around the modelled core
   this property is anchored in: the fingerprints (sha256 of the normalised source, comments and docstrings dropped) are regenerated on every run; an edit of one
   of them re-opens this property even if no sampled case shows a difference.  Rewritten by tools/pin_shapes.py on a tree on which every check passes. *)
From Connectome Require VmGen GlueGraphGen GlueChainGen GlueColumnsGen.
Theorem C03_mirrored_functions_are_the_pinned_ones :
  VmGen.shape_execute = "3390af1da9648cc9"%string /\
  GlueGraphGen.shape_class_Graph = "9b10ec592949c6f4"%string /\
  GlueGraphGen.shape_evaluate = "2cfd3509723284f1"%string /\
  GlueGraphGen.shape_compute_hash = "e8fe66bcf0ec3ecc"%string /\
  GlueGraphGen.shape_class_GraphCompiler = "b1003ba6d768dee1"%string /\
  GlueGraphGen.shape_find_dependencies = "98effd5d1564b846"%string /\
  GlueGraphGen.shape_class_TreeNode = "f3a44e95e44d05b5"%string /\
  GlueChainGen.shape_class_CallableLayer = "c80fc9ed956106f0"%string /\
  GlueChainGen.shape_class_Instance = "e7a645f498b26984"%string /\
  GlueChainGen.shape_class_Chain = "9d9b18d30947136d"%string /\
  GlueChainGen.shape_class_LazyChain = "a1c1f777b7f04bfb"%string /\
  GlueChainGen.shape_connect = "32cfcae91c959073"%string /\
  GlueColumnsGen.shape_class_CacheColumns = "50ebcb3d340e0894"%string.
Proof. repeat split; reflexivity. Qed.
Print Assumptions C03_mirrored_functions_are_the_pinned_ones.
(* END PINNED FINGERPRINTS *)
