(* C03 — one call evaluates each needed function exactly once and nothing else.
   Proved here: the generic half "no generator of a node runs to completion twice within one call", for any
   graph, any generator trees, shared caches and interference (ghost list of completed generators carried by
   the evaluator that the machine provably simulates).  The exact call log (which functions, in which order)
   is tied to the code by the correspondence check: model and implementation agree on the full call log and on
   the full EvictionCache trace of every generated case. *)
From Connectome Require Import Values Attrs VM Edges Evaluator Sim L2 C01Main C01Inst EdgeFacts Examples.
Local Open Scope list_scope.

Theorem C03_generators_once :
  forall (g : pgraph) (gens : which -> nat -> option gen)
    (apply : string -> list val -> list (string * val) -> val)
    (raises : string -> list val -> list (string * val) -> bool)
    (ins : list (nat * val)) (cstore : Type)
    (cget : cstore -> nat -> sval -> option sval * cstore) (cset : cstore -> nat -> sval -> sval -> cstore)
    (Good : nat -> sval -> sval -> Prop) (CInv : cstore -> Prop),
  (forall st c k r st', CInv st -> cget st c k = (r, st') -> CInv st' /\ (forall v, r = Some v -> Good c k v)) ->
  (forall st c k v, CInv st -> Good c k v -> CInv (cset st c k v)) ->
  forall interfere : cstore -> cstore, (forall st, CInv st -> CInv (interfere st)) ->
  forall o : nat, (forall n p, In p (parents g n) -> p < n) -> o < S (List.length g) ->
  (forall f w n e, gens w n = Some e -> GOK g gens apply raises ins Good f w n e) ->
  forall (f : nat) (v : sval) (σ : cstore),
  spnode gens ins (spq g gens apply raises ins f) WC o = Some v -> CInv σ ->
  exists k (s' : rst cstore),
    (forall k', k <= k' ->
       run g gens apply raises cstore cget cset interfere k' (init_state g cstore ins o CEvaluate σ)
       = Finished cstore v (mk cstore [v] [CReturn] s'))
    /\ NoDup (rdone s')                       (* every (hash|value, node) generator completed at most once *)
    /\ log cstore (mk cstore [v] [CReturn] s') = rlog s'.
Proof.
  intros g gens apply raises ins cstore cget cset Good CInv Hget Hset interfere Hint o Hwf Ho Hok f v σ Hs Hc.
  destruct (call_refines_ghost g gens apply raises ins cstore cget cset Good CInv Hget Hset interfere Hint o Hwf Ho Hok f v σ Hs Hc)
    as (k & s' & Hk & Hinv).
  exists k, s'. split; [exact Hk|]. split; [exact (i_nodup _ _ _ _ _ _ _ _ _ Hinv)|reflexivity].
Qed.
Print Assumptions C03_generators_once.

(* Non-vacuity and the shape of a call log: on the example graph of C01 with key "k2" the machine calls
   f, g, h, bv once each, in dependency order, and never the switch branch that was not selected; with key
   "k1" it calls only f, g, bv. *)
Definition names {S} (o : outcome S) : list string :=
  rev (map (fun c => fst (fst c)) (match o with Finished _ _ s | Raised _ _ s | Stuck _ _ s | Running _ s => log S s end)).

Example C03_example_log :
  names (call (shape ex_g) (gens_of ex_g) ex_apply (fun _ _ _ => false) unit (fun s _ _ => (None, s)) (fun s _ _ _ => s) (fun s => s)
           ex_ins 7 tt 400) = ["f"; "g"; "h"; "bv"]
  /\ names (call (shape ex_g) (gens_of ex_g) ex_apply (fun _ _ _ => false) unit (fun s _ _ => (None, s)) (fun s _ _ _ => s) (fun s => s)
           [(0, VStr "k1")] 4 tt 400) = ["f"; "g"].
Proof. split; vm_compute; reflexivity. Qed.
Print Assumptions C03_example_log.
