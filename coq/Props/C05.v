(* C05 — equal node hash implies equal computation (no false cache hit). *)
From Connectome Require Import Values Attrs VM Edges EdgesGen HashSound HashFacts SpecEq EqFacts Total GraphHashModel StaticHash MakerFacts Examples.
From Connectome Require NodeHashGen.
From Connectome Require ColStore ColumnsGen Columns ColumnsFacts EqFacts.
Local Open Scope list_scope.

(* The value of a node is the inverse reading of its node hash: for every graph without Silent arguments, every
   input and every interpretation of the user functions.  The hashes are built by the REGENERATED _make_hash bodies
   (function edge: function, ordered input hashes, keyword names; product: tuple of the input hashes; identity,
   cache, CheckIds: the first input; constants, hash-by-value, barrier: leaf of the value; switch: the selected
   branch). *)
Theorem C05_hash_sound :
  forall apply raises (g : graph) (ins : list (nat * val)),
  (forall n e ps, nth n g Leaf = Inner e ps -> edge_ok e (List.length ps) = true) ->
  forall fuel n h v, sem apply raises g ins fuel n = Some (h, v) -> denote apply h = Some v.
Proof. exact hash_sound. Qed.
Print Assumptions C05_hash_sound.

(* Equal hashes, across graphs, inputs and failure sets, give equal values.  With Herbrand functions (apply :=
   VApp) the contrapositive reads: another function, constant, wiring, argument order, keyword binding or input
   changes the hash. *)
Theorem C05_no_false_hit :
  forall apply r1 r2 (g1 : graph) i1 (g2 : graph) i2 f1 f2 n1 n2 h v1 v2,
  (forall n e ps, nth n g1 Leaf = Inner e ps -> edge_ok e (List.length ps) = true) ->
  (forall n e ps, nth n g2 Leaf = Inner e ps -> edge_ok e (List.length ps) = true) ->
  sem apply r1 g1 i1 f1 n1 = Some (h, v1) -> sem apply r2 g2 i2 f2 n2 = Some (h, v2) -> v1 = v2.
Proof. exact no_false_hit. Qed.
Print Assumptions C05_no_false_hit.

(* the same for the generator-level specification that the machine provably computes (C01): whatever hash the
   specification assigns to a node, its inverse reading is the specification's value *)
Theorem C05_spec_level :
  forall (g : graph) apply raises ins,
  (forall n e ps, nth n g Leaf = Inner e ps -> node_ok e ps) ->
  forall f n h v, sem apply raises g ins f n = Some (h, v) ->
  exists pl, SpecG g apply raises ins WH n (SHashOut h pl) /\ SpecG g apply raises ins WC n (SVal v).
Proof. exact sem_spec. Qed.
Print Assumptions C05_spec_level.

(* The dataset-wide edges (Filter, GroupBy, Join, Split, HashDigest; the Join switches): the static hash of the nested
   sub-pipeline, the key function and EVERY input hash are components of the node hash - two such nodes with equal
   hashes agree on all of them (regenerated _make_hash / _hash_graph bodies). *)
Theorem C05_dataset_edges_hash_every_ingredient :
  (forall s s' i i', GroupEdge_make_hash s i = GroupEdge_make_hash s' i' -> graph_hash s = graph_hash s' /\ i = i') /\
  (forall s s' i i', GroupMapping_make_hash s i = GroupMapping_make_hash s' i' -> graph_hash s = graph_hash s' /\ i = i') /\
  (forall s s' i i', SplitMapping_make_hash s i = SplitMapping_make_hash s' i' -> graph_hash s = graph_hash s' /\ i = i') /\
  (forall s s' i i', JoinMapping_make_hash s i = JoinMapping_make_hash s' i' ->
     to_key s = to_key s' /\ left_hash s = left_hash s' /\ right_hash s = right_hash s' /\ i = i') /\
  (forall s s' i i', FilterEdge_make_hash s i = FilterEdge_make_hash s' i' -> graph_hash s = graph_hash s' /\ nth 0 i hnone = nth 0 i' hnone) /\
  (forall s s' i i', HashDigestEdge_make_hash s i = HashDigestEdge_make_hash s' i' -> algorithm s = algorithm s' /\ return_value s = return_value s' /\ i = i') /\
  (forall s s' i i', SwitchBranch_hash_graph s i = SwitchBranch_hash_graph s' i' -> i = i') /\
  (forall s s' i i', SwitchMissing_hash_graph s i = SwitchMissing_hash_graph s' i' -> index s = index s' /\ i = i').
Proof.
  split; [exact group_edge_hash_inj|]. split; [exact group_mapping_hash_inj|]. split; [exact split_mapping_hash_inj|].
  split; [exact join_mapping_hash_inj|]. split; [exact filter_edge_hash_inj|]. split; [exact hash_digest_hash_inj|].
  split; [exact switch_branch_hash_inj|exact switch_missing_hash_inj].
Qed.
Print Assumptions C05_dataset_edges_hash_every_ingredient.

(* ... and the static hash of the nested sub-pipeline (what [graph_hash] above holds) stands for the function of the
   entry id that the sub-pipeline computes, hash-by-value wrappers included (they contribute the static hash of the
   function they wrap) *)
Theorem C05_nested_static_hash_sound :
  forall apply id raises g i0,
  (forall n e ps, nth n g Leaf = Inner e ps -> edge_ok e (List.length ps) = true /\ tables_ok e) ->
  forall F F' n hs hd v,
  hash_graph g [i0] F n = Some hs -> sem apply raises g [(i0, id)] F' n = Some (hd, v) -> sden apply id hs = Some v.
Proof. exact static_sound. Qed.
Print Assumptions C05_nested_static_hash_sound.

(* The exemption, exactly: the hash of a function edge is independent of the hashes at Silent positions -- and of
   nothing else (C05_hash_sound covers the edges without Silent positions). *)
Theorem C05_silent_only :
  forall f ar kw sil ph ph', List.length ph = List.length ph' ->
  (forall i, existsb (Nat.eqb i) sil = false -> nth i ph hnone = nth i ph' hnone) ->
  FunctionEdge_make_hash (self_of (EFunc f ar kw sil)) ph = FunctionEdge_make_hash (self_of (EFunc f ar kw sil)) ph'.
Proof. exact silent_independent. Qed.
Print Assumptions C05_silent_only.

(* digests are exact: equal digest (structural equality of NodeHash.value) only for equal hash terms; Python == on
   hash values is exact when no numeric leaf is involved *)
Theorem C05_digest_exact : forall a b, heqb a b = true -> a = b.
Proof. exact heqb_eq. Qed.
Print Assumptions C05_digest_exact.
Theorem C05_pyeq_exact_without_numbers : forall a b, nonum_h b = true -> hpyeq a b = true -> a = b.
Proof. exact hpyeq_exact. Qed.
Print Assumptions C05_pyeq_exact_without_numbers.

(* known finding F3: in-process equality identifies the hashes of the inputs 1, 1.0 and True *)
Theorem C05_pyeq_refuted :
  hpyeq (HLeaf (VInt 1)) (HLeaf (VFlt 1)) = true /\ hpyeq (HLeaf (VInt 1)) (HLeaf (VBool true)) = true /\
  HLeaf (VInt 1) <> HLeaf (VFlt 1) /\ heqb (HLeaf (VInt 1)) (HLeaf (VFlt 1)) = false.
Proof. exact pyeq_not_exact. Qed.
Print Assumptions C05_pyeq_refuted.

(* Non-vacuity: the example graph of C01 is covered, and swapping two arguments / renaming a keyword changes the hash *)
Example C05_example :
  graph_okb ex_g = true /\
  (exists h v, sem ex_apply (fun _ _ _ => false) ex_g ex_ins 20 7 = Some (h, v) /\ denote ex_apply h = Some v) /\
  FunctionEdge_make_hash (self_of (EFunc "h" 3 ["y"] [])) [HLeaf (VStr "a"); HLeaf (VStr "b"); HLeaf (VStr "c")]
    <> FunctionEdge_make_hash (self_of (EFunc "h" 3 ["y"] [])) [HLeaf (VStr "b"); HLeaf (VStr "a"); HLeaf (VStr "c")] /\
  FunctionEdge_make_hash (self_of (EFunc "h" 3 ["y"] [])) [HLeaf (VStr "a"); HLeaf (VStr "b"); HLeaf (VStr "c")]
    <> FunctionEdge_make_hash (self_of (EFunc "h" 3 ["z"] [])) [HLeaf (VStr "a"); HLeaf (VStr "b"); HLeaf (VStr "c")].
Proof.
  split; [reflexivity|]. split; [eexists; eexists; split; vm_compute; reflexivity|]. split; cbn; discriminate.
Qed.
Print Assumptions C05_example.

(* ---------- a shard of CacheColumns is keyed like a function application (finding F11) ----------
   CachedColumn.evaluate keys a shard by ApplyHash(tuple, hashes of its entries) - the node hash of the field
   `tuple(entry)` when the shard has one entry.  Witness (over the REGENERATED evaluate): a field b = tuple(a) cached
   by CacheToDisk and the field a cached by CacheColumns over the same folders, a dataset with one id.  Whichever layer
   writes first, the other one reads the wrong entry: equal node hashes, different computations.  The stores satisfy
   the invariant of C04_column_caches_are_transparent and all its other assumptions hold (f11_sound): only the
   disjointness assumption fails.  The check reports this as a KNOWN-FINDING, replayed on the real layers. *)
Theorem C05_shard_key_collides_with_entry_key_refuted :
  ColumnsFacts.Inv ColumnsFacts.f11_h ColumnsFacts.f11_v ColumnsFacts.f11_disk_first /\ ColumnsFacts.exact_key pyeq ColumnsFacts.f11_key /\
  (exists e st' ev, ColumnsFacts.py_request (fun l => l) (fun c k => Some (ColumnsFacts.f11_h c k)) (fun c k => Some (ColumnsFacts.f11_v c k))
                      0 None ColumnsFacts.f11_key [ColumnsFacts.f11_key] ColumnsFacts.f11_disk_first = (ColStore.CErr (EInternal e), st', ev)) /\
  (exists r st' ev x, ColumnsFacts.py_request (fun l => l) (fun c k => Some (ColumnsFacts.f11_h c k)) (fun c k => Some (ColumnsFacts.f11_v c k))
                        0 None ColumnsFacts.f11_key [ColumnsFacts.f11_key] ColStore.colstore0 = (r, st', ev)
                      /\ ColStore.disk_get heqb st' (ColumnsFacts.f11_h 1 ColumnsFacts.f11_key) = Some x /\ x <> ColumnsFacts.f11_v 1 ColumnsFacts.f11_key).
Proof. exact ColumnsFacts.shard_key_collides_with_entry_key. Qed.
Print Assumptions C05_shard_key_collides_with_entry_key_refuted.

Theorem C05_f11_witness_meets_the_other_assumptions :
  forall c k c' k', hpyeq (ColumnsFacts.f11_h c k) (ColumnsFacts.f11_h c' k') = true -> EqFacts.nonum k' = true ->
  ColumnsFacts.f11_v c k = ColumnsFacts.f11_v c' k'.
Proof. exact ColumnsFacts.f11_sound. Qed.
Print Assumptions C05_f11_witness_meets_the_other_assumptions.

(* The node-hash values this file reasons about are the ones engine/node_hash.py builds (regenerated, Gen/NodeHashGen.v):
   tags 0-3 for leaf / apply / graph / custom, the components of each `value` tuple in order, and == on `value`. *)
Theorem C05_node_hash_values_are_translated :
  NodeHashGen.hash_tags = [0; 1; 2; 3] /\ NodeHashGen.LeafHash_value = ["tag"; "data"]
  /\ NodeHashGen.ApplyHash_value = ["tag"; "func"; "args.value"; "kw_names"] /\ NodeHashGen.GraphHash_value = ["tag"; "output.value"]
  /\ NodeHashGen.CustomHash_value = ["tag"; "marker"; "*children.value"] /\ NodeHashGen.nodehash_eq_compares = "value".
Proof. repeat split; reflexivity. Qed.
Print Assumptions C05_node_hash_values_are_translated.

(* BEGIN PINNED FINGERPRINTS (tools/pin_shapes.py) *)
(* The functions and classes of /repo that hand-written parts of the model mirror (Model/VM.v, NameLevel.v, Loopback.v) and the glue around the modelled core
   this property is anchored in: the fingerprints (sha256 of the normalised source, comments and docstrings dropped) are regenerated on every run; an edit of one
   of them re-opens this property even if no sampled case shows a difference.  Rewritten by tools/pin_shapes.py on a tree on which every check passes. *)
From Connectome Require GlueHashGen GlueFactoryGen.
Theorem C05_mirrored_functions_are_the_pinned_ones :
  GlueHashGen.shape_class_NodeHash = "f0232c87f36bf159"%string /\
  GlueHashGen.shape_class_LeafHash = "05e80c5ad9a214f0"%string /\
  GlueHashGen.shape_class_ApplyHash = "556e2ab8595eb443"%string /\
  GlueHashGen.shape_class_GraphHash = "5654d0d1756d0a5c"%string /\
  GlueHashGen.shape_class_CustomHash = "434a91b548cd8bbc"%string /\
  GlueHashGen.shape_class_FunctionEdge = "17dc98d2e9afb7b6"%string /\
  GlueHashGen.shape_class_ConstantEdge = "a5d6e9a227ce6207"%string /\
  GlueHashGen.shape_class_ComputableHashBase = "70f75f27dd8924c3"%string /\
  GlueHashGen.shape_class_External = "8a3fbf83cd7fba25"%string /\
  GlueHashGen.shape_class_SimpleHash = "2e24eea69dec1725"%string /\
  GlueHashGen.shape_class_SimpleHashEdge = "049321af3dcf3bc6"%string /\
  GlueHashGen.shape_marker_getter = "6e1709ddfaa2cbe4"%string /\
  GlueFactoryGen.shape_class_GraphFactory = "81497759c0671ad7"%string /\
  GlueFactoryGen.shape_class_SourceFactory = "1808b21b3bce3951"%string /\
  GlueFactoryGen.shape_class_TransformFactory = "c44de91624ae4321"%string /\
  GlueFactoryGen.shape_add_from_mixins = "75970a13392501ac"%string /\
  GlueFactoryGen.shape_is_detectable = "01389bb1efb83cb2"%string /\
  GlueFactoryGen.shape_items_to_container = "f7b238bfe3e856c6"%string /\
  GlueFactoryGen.shape_class_FunctionBase = "2a1e9fd23a29f19d"%string /\
  GlueFactoryGen.shape_class_Function = "727356a49c35f2ce"%string /\
  GlueFactoryGen.shape_class_FunctionWrapper = "20f303f31715c14d"%string /\
  GlueFactoryGen.shape_class_Inverse = "d803d7d513cd3b06"%string /\
  GlueFactoryGen.shape_class_Positional = "ff7f4bccfea673aa"%string /\
  GlueFactoryGen.shape_class_Impure = "f33a1c51c28660a4"%string /\
  GlueFactoryGen.shape_class_APIMeta = "d04e35766e894328"%string /\
  GlueFactoryGen.shape_class_HashByValue = "16222fab9891d910"%string /\
  GlueFactoryGen.shape_class_CombinedHashByValue = "a5203dcb1319f438"%string /\
  GlueFactoryGen.shape_hash_by_value = "8a4ba5e0fdeb3b7c"%string /\
  GlueFactoryGen.shape_class_NodeStorage = "6d3e8d03e5bc0ef6"%string /\
  GlueFactoryGen.shape_replace_annotation = "1793c6c05b9f2740"%string.
Proof. repeat split; reflexivity. Qed.
Print Assumptions C05_mirrored_functions_are_the_pinned_ones.
(* END PINNED FINGERPRINTS *)
