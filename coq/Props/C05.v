(* C05 — equal node hash implies equal computation (no false cache hit). *)
From Connectome Require Import Values Attrs VM Edges EdgesGen HashSound HashFacts SpecEq EqFacts Total Examples.
Local Open Scope list_scope.

(* The value of a node is the inverse reading of its node hash: for every graph without Silent arguments, every
   input and every interpretation of the user functions.  The hashes are built by the REGENERATED _make_hash bodies
   (function edge: function, ordered input hashes, keyword names; product: tuple of the input hashes; identity,
   cache, CheckIds: the first input; constants, hash-by-value, barrier: leaf of the value; switch: the selected
   branch). *)
Theorem C05_hash_sound :
  forall apply raises (g : graph) (ins : list (nat * val)),
  (forall n e ps, nth n g Leaf = Inner e ps -> edge_ok e (List.length ps) = true) ->
  forall fuel n h v, sem apply raises g ins fuel n = Some (h, v) -> denote apply h = Some v.
Proof. exact hash_sound. Qed.
Print Assumptions C05_hash_sound.

(* Equal hashes, across graphs, inputs and failure sets, give equal values.  With Herbrand functions (apply :=
   VApp) the contrapositive reads: another function, constant, wiring, argument order, keyword binding or input
   changes the hash. *)
Theorem C05_no_false_hit :
  forall apply r1 r2 (g1 : graph) i1 (g2 : graph) i2 f1 f2 n1 n2 h v1 v2,
  (forall n e ps, nth n g1 Leaf = Inner e ps -> edge_ok e (List.length ps) = true) ->
  (forall n e ps, nth n g2 Leaf = Inner e ps -> edge_ok e (List.length ps) = true) ->
  sem apply r1 g1 i1 f1 n1 = Some (h, v1) -> sem apply r2 g2 i2 f2 n2 = Some (h, v2) -> v1 = v2.
Proof. exact no_false_hit. Qed.
Print Assumptions C05_no_false_hit.

(* the same for the generator-level specification that the machine provably computes (C01): whatever hash the
   specification assigns to a node, its inverse reading is the specification's value *)
Theorem C05_spec_level :
  forall (g : graph) apply raises ins,
  (forall n e ps, nth n g Leaf = Inner e ps -> node_ok e ps) ->
  forall f n h v, sem apply raises g ins f n = Some (h, v) ->
  exists pl, SpecG g apply raises ins WH n (SHashOut h pl) /\ SpecG g apply raises ins WC n (SVal v).
Proof. exact sem_spec. Qed.
Print Assumptions C05_spec_level.

(* The exemption, exactly: the hash of a function edge is independent of the hashes at Silent positions -- and of
   nothing else (C05_hash_sound covers the edges without Silent positions). *)
Theorem C05_silent_only :
  forall f ar kw sil ph ph', List.length ph = List.length ph' ->
  (forall i, existsb (Nat.eqb i) sil = false -> nth i ph hnone = nth i ph' hnone) ->
  FunctionEdge_make_hash (self_of (EFunc f ar kw sil)) ph = FunctionEdge_make_hash (self_of (EFunc f ar kw sil)) ph'.
Proof. exact silent_independent. Qed.
Print Assumptions C05_silent_only.

(* digests are exact: equal digest (structural equality of NodeHash.value) only for equal hash terms; Python == on
   hash values is exact when no numeric leaf is involved *)
Theorem C05_digest_exact : forall a b, heqb a b = true -> a = b.
Proof. exact heqb_eq. Qed.
Print Assumptions C05_digest_exact.
Theorem C05_pyeq_exact_without_numbers : forall a b, nonum_h b = true -> hpyeq a b = true -> a = b.
Proof. exact hpyeq_exact. Qed.
Print Assumptions C05_pyeq_exact_without_numbers.

(* known finding F3: in-process equality identifies the hashes of the inputs 1, 1.0 and True *)
Theorem C05_pyeq_refuted :
  hpyeq (HLeaf (VInt 1)) (HLeaf (VFlt 1)) = true /\ hpyeq (HLeaf (VInt 1)) (HLeaf (VBool true)) = true /\
  HLeaf (VInt 1) <> HLeaf (VFlt 1) /\ heqb (HLeaf (VInt 1)) (HLeaf (VFlt 1)) = false.
Proof. exact pyeq_not_exact. Qed.
Print Assumptions C05_pyeq_refuted.

(* Non-vacuity: the example graph of C01 is covered, and swapping two arguments / renaming a keyword changes the hash *)
Example C05_example :
  graph_okb ex_g = true /\
  (exists h v, sem ex_apply (fun _ _ _ => false) ex_g ex_ins 20 7 = Some (h, v) /\ denote ex_apply h = Some v) /\
  FunctionEdge_make_hash (self_of (EFunc "h" 3 ["y"] [])) [HLeaf (VStr "a"); HLeaf (VStr "b"); HLeaf (VStr "c")]
    <> FunctionEdge_make_hash (self_of (EFunc "h" 3 ["y"] [])) [HLeaf (VStr "b"); HLeaf (VStr "a"); HLeaf (VStr "c")] /\
  FunctionEdge_make_hash (self_of (EFunc "h" 3 ["y"] [])) [HLeaf (VStr "a"); HLeaf (VStr "b"); HLeaf (VStr "c")]
    <> FunctionEdge_make_hash (self_of (EFunc "h" 3 ["z"] [])) [HLeaf (VStr "a"); HLeaf (VStr "b"); HLeaf (VStr "c")].
Proof.
  split; [reflexivity|]. split; [eexists; eexists; split; vm_compute; reflexivity|]. split; cbn; discriminate.
Qed.
Print Assumptions C05_example.
