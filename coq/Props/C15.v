(* C15 — Filter changes only ids; CheckIds only rejects foreign ids. *)
From Connectome Require Import Values Attrs VM Edges EdgesGen NameSet RelBase FilterGen SortFacts FilterFacts HashSound.
Local Open Scope list_scope.

Theorem C15_filter_ids : forall p ids i, In i (filter_ids p ids) <-> In i ids /\ p i = true.
Proof. exact filter_ids_spec. Qed.
Print Assumptions C15_filter_ids.
Theorem C15_filter_keeps_order : forall p a b, filter_ids p (a ++ b) = filter_ids p a ++ filter_ids p b.
Proof. exact filter_keeps_order. Qed.
Print Assumptions C15_filter_keeps_order.
Theorem C15_stacked_filters : forall p q ids, filter_ids q (filter_ids p ids) = filter_ids (fun i => p i && q i) ids.
Proof. exact filter_stacked. Qed.
Print Assumptions C15_stacked_filters.
Theorem C15_keep_drop : forall sel ids i,
  (In i (filter_ids (keep_pred sel) ids) <-> In i ids /\ In i sel) /\ (In i (filter_ids (drop_pred sel) ids) <-> In i ids /\ ~ In i sel).
Proof. exact keep_drop_spec. Qed.
Print Assumptions C15_keep_drop.

(* the regenerated CheckIdsEdge: the id itself when it is among the ids, KeyError otherwise; hash = the id's hash *)
Theorem C15_checkids :
  forall apply raises pv ph v,
  edge_val apply raises ECheckIds pv = (if val_in (nth 0 pv VNone) (nth 1 pv VNone) then Some (nth 0 pv VNone) else None) /\
  edge_hash ECheckIds ph pv v = nth 0 ph hnone /\
  (forall id_ ids, CheckIdsEdge_evaluate attrs0 [SVal id_; SVal ids] = if val_in id_ ids then GRet (SVal id_) else GRaise (EKey "is not in ids")).
Proof. intros. repeat split. Qed.
Print Assumptions C15_checkids.

Example C15_example :
  filter_ids (fun i => negb (String.eqb i "b")) ["c"; "b"; "a"] = ["c"; "a"] /\ check_id ["c"; "a"] "b" = false.
Proof. vm_compute. auto. Qed.
Print Assumptions C15_example.

(* BEGIN PINNED FINGERPRINTS (tools/pin_shapes.py) *)
(* The functions and classes of /repo that hand-written parts of the model mirror (Model/VM.v, NameLevel.v, Loopback.v) and the glue around the modelled core
   this property is anchored in: the fingerprints (sha256 of the normalised source, comments and docstrings dropped) are regenerated on every run; an edit of one
   of them re-opens this property even if no sampled case shows a difference.  Rewritten by tools/pin_shapes.py on a tree on which every check passes. *)
From Connectome Require GlueFilterGen.
Theorem C15_mirrored_functions_are_the_pinned_ones :
  GlueFilterGen.shape_class_Filter = "e202343ff78dfd1d"%string /\
  GlueFilterGen.shape_class_CheckIds = "a921031238182021"%string.
Proof. repeat split; reflexivity. Qed.
Print Assumptions C15_mirrored_functions_are_the_pinned_ones.
(* END PINNED FINGERPRINTS *)
