(* C19 — pickling a compiled function preserves its behaviour and its hashes. *)
From Connectome Require Import Values Attrs VM Edges EdgesGen Store MemGen MemPickleGen PickleGen Evaluator L2 HashSound SpecEq EqFacts C01Inst C04Main Total Examples Pickle PickleFacts.
Local Open Scope list_scope.

(* The copy is the same graph over the pickled store: RAM caches empty, disk caches the same stores.  For every graph
   and call meeting [call_ok] (C04), every store meeting the cache invariant and every invariant-respecting
   interference (the original writing to the shared disk stores meanwhile): the call on the copy's store and the
   call on the original's store both finish with the cache-free value. *)
Theorem C19_pickle_transparent :
  forall apply (c : hcall) v σ (interfere : cstore -> cstore),
  (forall s, CInvS apply s -> CInvS apply (interfere s)) -> call_ok apply c v -> CInvS apply σ ->
  exists k s1 s2, forall k', k <= k' ->
    call (shape (hc_g c)) (gens_of (hc_g c)) apply (hc_raises c) cstore cget cset interfere (hc_ins c) (hc_o c) σ k'
      = Finished cstore (SVal v) s1 /\
    call (shape (hc_g c)) (gens_of (hc_g c)) apply (hc_raises c) cstore cget cset interfere (hc_ins c) (hc_o c) (pickle_store σ) k'
      = Finished cstore (SVal v) s2.
Proof. exact pickle_transparent. Qed.
Print Assumptions C19_pickle_transparent.

(* ... and Graph.get_hash gives the same node hash (hence the same persistent digest) on both *)
Theorem C19_same_hash :
  forall apply (c : hcall) v σ (interfere : cstore -> cstore),
  (forall s, CInvS apply s -> CInvS apply (interfere s)) -> call_ok apply c v -> CInvS apply σ ->
  exists h pl k s1 s2, forall k', k <= k' ->
    get_hash (shape (hc_g c)) (gens_of (hc_g c)) apply (hc_raises c) cstore cget cset interfere (hc_ins c) (hc_o c) σ k'
      = Finished cstore (SHashOut h pl) s1 /\
    get_hash (shape (hc_g c)) (gens_of (hc_g c)) apply (hc_raises c) cstore cget cset interfere (hc_ins c) (hc_o c) (pickle_store σ) k'
      = Finished cstore (SHashOut h pl) s2.
Proof. exact pickle_same_hash. Qed.
Print Assumptions C19_same_hash.

(* RAM caches start empty with the same bound (by the regenerated MemoryCache.__reduce__), disk caches are the same
   stores, and the pickled store meets the invariant whenever the original does *)
Theorem C19_caches_of_the_copy :
  (forall st s, ck st = KRam s -> pickle_cache st = new_cache (KRam s)) /\
  (forall st, ck st = KDisk -> pickle_cache st = st) /\
  (forall apply σ, CInvS apply σ -> CInvS apply (pickle_store σ)).
Proof. split; [exact pickle_ram_empty|split; [exact pickle_disk_same|exact cinv_pickle]]. Qed.
Print Assumptions C19_caches_of_the_copy.

(* regenerated: no edge built by Merge, Filter, GroupBy, CheckIds, Apply or the cache layers holds a library-owned
   lambda or closure, and MemoryCache is the only class with a pickling hook of its own *)
Theorem C19_listed_layers_hold_no_local_callable :
  forallb (fun e => picklable (snd e)) listed_callables = true /\
  pickling_hooks = ["cache/memory.py:MemoryCache.__reduce__"%string] /\ mc_reduce_keeps = ["size"%string].
Proof. split; [vm_compute; reflexivity|split; reflexivity]. Qed.
Print Assumptions C19_listed_layers_hold_no_local_callable.

(* Non-vacuity: the pipeline of C04's example (a bounded RAM cache and a disk cache), after two calls; the copy made
   then recomputes through its empty RAM cache, hits the shared disk, and returns the same value *)
Definition c19_run (key : string) (σ : cstore) : option val * cstore :=
  match call (shape (c04_g "g")) (gens_of (c04_g "g")) ex_apply (fun _ _ _ => false) cstore cget cset (fun s => s)
             [(0, VStr key)] 4 σ 400 with
  | Finished _ (SVal v) s => (Some v, sto cstore s)
  | Finished _ _ s | Raised _ _ s | Stuck _ _ s | Running _ s => (None, sto cstore s)
  end.
Example C19_example :
  let σ0 := [(0, new_cache (KRam (Some 1))); (1, new_cache KDisk)] in
  let '(_, σ1) := c19_run "a" σ0 in let '(_, σ2) := c19_run "b" σ1 in
  csize σ2 0 = 1 /\ csize (pickle_store σ2) 0 = 0 /\ csize (pickle_store σ2) 1 = csize σ2 1 /\
  fst (c19_run "b" (pickle_store σ2)) = fst (c19_run "b" σ2) /\ fst (c19_run "b" σ2) = Some (c04_val "g" "b").
Proof. vm_compute. auto. Qed.
Print Assumptions C19_example.

(* BEGIN PINNED FINGERPRINTS (tools/pin_shapes.py) *)
(* The functions and classes of /repo that hand-written parts of the model mirror (Model/VM.v, NameLevel.v, Loopback.v) and the glue around the modelled core
   this property is anchored in: the fingerprints (sha256 of the normalised source, comments and docstrings dropped) are regenerated on every run; an edit of one
   of them re-opens this property even if no sampled case shows a difference.  Rewritten by tools/pin_shapes.py on a tree on which every check passes. *)
From Connectome Require GlueFactoryGen GlueCacheGen.
Theorem C19_mirrored_functions_are_the_pinned_ones :
  GlueFactoryGen.shape_class_GraphFactory = "81497759c0671ad7"%string /\
  GlueFactoryGen.shape_class_SourceFactory = "1808b21b3bce3951"%string /\
  GlueFactoryGen.shape_class_TransformFactory = "c44de91624ae4321"%string /\
  GlueFactoryGen.shape_add_from_mixins = "75970a13392501ac"%string /\
  GlueFactoryGen.shape_is_detectable = "01389bb1efb83cb2"%string /\
  GlueFactoryGen.shape_items_to_container = "f7b238bfe3e856c6"%string /\
  GlueFactoryGen.shape_class_FunctionBase = "2a1e9fd23a29f19d"%string /\
  GlueFactoryGen.shape_class_Function = "727356a49c35f2ce"%string /\
  GlueFactoryGen.shape_class_FunctionWrapper = "20f303f31715c14d"%string /\
  GlueFactoryGen.shape_class_Inverse = "d803d7d513cd3b06"%string /\
  GlueFactoryGen.shape_class_Positional = "ff7f4bccfea673aa"%string /\
  GlueFactoryGen.shape_class_Impure = "f33a1c51c28660a4"%string /\
  GlueFactoryGen.shape_class_APIMeta = "d04e35766e894328"%string /\
  GlueFactoryGen.shape_class_HashByValue = "16222fab9891d910"%string /\
  GlueFactoryGen.shape_class_CombinedHashByValue = "a5203dcb1319f438"%string /\
  GlueFactoryGen.shape_hash_by_value = "8a4ba5e0fdeb3b7c"%string /\
  GlueFactoryGen.shape_class_NodeStorage = "6d3e8d03e5bc0ef6"%string /\
  GlueFactoryGen.shape_replace_annotation = "1793c6c05b9f2740"%string /\
  GlueCacheGen.shape_class_CacheToStorage = "bb02462476ebf5a3"%string /\
  GlueCacheGen.shape_class_CacheToRam = "671471faaea3be32"%string /\
  GlueCacheGen.shape_class_CacheToDisk = "ab13d5028a9842ed"%string /\
  GlueCacheGen.shape_priv_normalize_disk_arguments = "8b4510643237a667"%string /\
  GlueCacheGen.shape_priv_resolve_serializer = "37e132734e002621"%string /\
  GlueCacheGen.shape_class_DynamicConnectLayer = "7ece76ebf623a344"%string /\
  GlueCacheGen.shape_class_MemoryCache = "cfe8167a538c6fe4"%string /\
  GlueCacheGen.shape_class_DiskCache = "71fb3386aa709b95"%string.
Proof. repeat split; reflexivity. Qed.
Print Assumptions C19_mirrored_functions_are_the_pinned_ones.
(* END PINNED FINGERPRINTS *)
