(* C16 — Join implements inner / left / right / outer relational joins on key fields. *)
From Connectome Require Import Values NameSet JoinGen RelBase JoinMapGen SortFacts JoinFacts.
From Coq Require Import Sorting.Sorted.
Local Open Scope list_scope.

(* the three dictionaries of JoinMapping partition the key sets *)
Theorem C16_partition : forall l r k,
  (In k (join_inner l r) <-> In k (map snd l) /\ In k (map snd r)) /\
  (In k (join_left_only l r) <-> In k (map snd l) /\ ~ In k (map snd r)) /\
  (In k (join_right_only l r) <-> In k (map snd r) /\ ~ In k (map snd l)).
Proof. exact join_partition. Qed.
Print Assumptions C16_partition.

(* ids per mode, over the regenerated ids_maker: intersection, left, right, union -- sorted *)
Theorem C16_ids_per_mode :
  (forall l r k, In k (join_ids JInner l r) <-> In k (map snd l) /\ In k (map snd r)) /\
  (forall l r k, In k (join_ids JLeft l r) <-> In k (map snd l)) /\
  (forall l r k, In k (join_ids JRight l r) <-> In k (map snd r)) /\
  (forall l r k, In k (join_ids JOuter l r) <-> In k (map snd l) \/ In k (map snd r)).
Proof. exact join_modes. Qed.
Print Assumptions C16_ids_per_mode.
Theorem C16_ids_sorted : forall how l r, Sorted sle (join_ids how l r).
Proof. exact join_ids_sorted. Qed.
Print Assumptions C16_ids_sorted.

(* fields: the entry of a side with that key, or nothing when the side has no such entry *)
Theorem C16_entry : forall side k,
  (forall i, join_entry side k = Some i -> In (i, k) side) /\ (join_entry side k = None <-> ~ In k (map snd side)).
Proof. intros. split; [intros i; apply join_entry_spec|apply join_entry_none]. Qed.
Print Assumptions C16_entry.
Theorem C16_duplicates : forall side, dup_keys side = false <-> forall k, List.length (ids_with side k) <= 1.
Proof. exact dup_keys_spec. Qed.
Print Assumptions C16_duplicates.

Example C16_example :
  let l := [("L0", "k1"); ("L1", "k2")] in let r := [("R0", "k2"); ("R1", "k3")] in
  join_ids JInner l r = ["k2"] /\ join_ids JLeft l r = ["k1"; "k2"] /\ join_ids JOuter l r = ["k1"; "k2"; "k3"] /\
  join_entry l "k2" = Some "L1" /\ join_entry r "k1" = None /\ dup_keys [("a", "k"); ("b", "k")] = true.
Proof. vm_compute. repeat split. Qed.
Print Assumptions C16_example.

(* BEGIN PINNED FINGERPRINTS (tools/pin_shapes.py) *)
(* The functions and classes of /repo that hand-written parts of the model mirror (Model/VM.v, NameLevel.v, Loopback.v) and the glue around the modelled core
   this property is anchored in: the fingerprints (sha256 of the normalised source, comments and docstrings dropped) are regenerated on every run; an edit of one
   of them re-opens this property even if no sampled case shows a difference.  Rewritten by tools/pin_shapes.py on a tree on which every check passes. *)
From Connectome Require GlueJoinGen.
Theorem C16_mirrored_functions_are_the_pinned_ones :
  GlueJoinGen.shape_class_Join = "c2f4cf07b56e234c"%string /\
  GlueJoinGen.shape_class_JoinContainer = "dc09c49ad7a5ba2d"%string /\
  GlueJoinGen.shape_class_SwitchBranch = "202ea87a164ad799"%string /\
  GlueJoinGen.shape_class_SwitchMissing = "09b9278b99ce6ff8"%string /\
  GlueJoinGen.shape_priv_maybe_to_hash_id = "80d34b70d13b1b9d"%string /\
  GlueJoinGen.shape_to_hash_id = "501cde71d807429e"%string /\
  GlueJoinGen.shape_priv_chain_edges = "f009adada3e3a857"%string.
Proof. repeat split; reflexivity. Qed.
Print Assumptions C16_mirrored_functions_are_the_pinned_ones.
(* END PINNED FINGERPRINTS *)
