(* C10 — decorated functions run forward, then f, then the inverses in reverse order. *)
From Connectome Require Import Values LoopGen Loopback LoopbackFacts.
Local Open Scope list_scope.

(* For every chain of layers - x defined (with or without a private parameter), inherited or absent; any @inverse
   fields, each with any backward arguments and possibly the parameter; any inherit set; cache layers - and any
   requested outputs: threading the contexts through the connections (ChainContext(previous, current)) and reversing
   them "current first, then previous" computes exactly forward fields in order ; f ; backward parts in reverse order,
   each with the parameter value of its own layer's forward pass; rejected exactly when x or a requested field is
   not reachable. *)
Theorem C10_loopback : forall x0 ls outs final, loopback x0 ls outs final = loopback_spec x0 ls outs final.
Proof. exact loopback_correct. Qed.
Print Assumptions C10_loopback.

(* an output without an inverse path through some layer is rejected, wherever that layer sits *)
Theorem C10_rejects_forward_only : forall x0 ks1 i ks2,
  loopback x0 (map layer_of (ks1 ++ KFwdOnly i :: ks2)) ["y"] ["y"] = None.
Proof. exact fwd_only_rejects. Qed.
Print Assumptions C10_rejects_forward_only.

(* an invertible layer applies its own inverse to what comes back, with the parameter of its own forward pass *)
Theorem C10_inverse_sees_its_own_parameter : forall i x v e, elookup e "y" = Some v ->
  elookup (reverse (ctx_layer (layer_of (KInv i)) (Some x)) e) "y" = Some (VApp (sym "I" i) [v; VApp (sym "P" i) [x] []] []).
Proof. exact inv_layer_step. Qed.
Print Assumptions C10_inverse_sees_its_own_parameter.

(* regenerated: every default-named argument of an @inverse function is a backward input (not only the first one), and a
   chain's context reverses the current layer before the previous ones *)
Theorem C10_rules_are_translated :
  inverse_wrap_rule = "default output -> InverseOutput; every default input -> InverseInput" /\ chain_reverse_order = "current first, then previous".
Proof. split; reflexivity. Qed.
Print Assumptions C10_rules_are_translated.

Example C10_example :
  loopback (VStr "x0") (map layer_of [KInv 0; KCache; KInhAll; KInvNoParam 3]) ["y"] ["y"]
  = Some [VApp "I0" [VApp "I3" [VApp "f_y" [VApp "F3" [VApp "F0" [VStr "x0"; VApp "P0" [VStr "x0"] []] []] []] []] [];
                     VApp "P0" [VStr "x0"] []] []]
  /\ loopback (VStr "x0") (map layer_of [KInv 0; KFwdOnly 1; KInv 2]) ["y"] ["y"] = None
  /\ (* an inverse with two backward arguments, and a layer that inherits w only *)
     loopback (VStr "x0")
       [{| bl_id := 0; bl_fwd := FDef false; bl_inh := InhList []; bl_cache := false;
           bl_defs := [{| bd_out := "y"; bd_fn := "Iy0"; bd_args := ["y"; "w"]; bd_param := false |};
                       {| bd_out := "w"; bd_fn := "Iw0"; bd_args := ["w"]; bd_param := false |}] |};
        {| bl_id := 1; bl_fwd := FInherit; bl_inh := InhList ["w"; "x"]; bl_cache := false;
           bl_defs := [{| bd_out := "y"; bd_fn := "Iy1"; bd_args := ["y"]; bd_param := false |}] |}] ["y"; "w"] ["y"]
     = Some [VApp "Iy0" [VApp "Iy1" [VApp "f_y" [VApp "F0" [VStr "x0"] []] []] []; VApp "f_w" [VApp "F0" [VStr "x0"] []] []] []].
Proof. vm_compute. auto. Qed.
Print Assumptions C10_example.

(* BEGIN PINNED FINGERPRINTS (tools/pin_shapes.py) *)
(* The functions and classes of /repo that hand-written parts of the model mirror (Model/VM.v, NameLevel.v, Loopback.v) and the glue around the modelled core
   this property is anchored in: the fingerprints (sha256 of the normalised source, comments and docstrings dropped) are regenerated on every run; an edit of one
   of them re-opens this property even if no sampled case shows a difference.  Rewritten by tools/pin_shapes.py on a tree on which every check passes. *)
From Connectome Require CtxGen GlueChainGen GlueFactoryGen.
Theorem C10_mirrored_functions_are_the_pinned_ones :
  CtxGen.shape_BagContext_reverse = "d6af94e996b28a3b"%string /\
  CtxGen.shape_ChainContext_reverse = "caed8193735534fa"%string /\
  CtxGen.shape_IdentityContext_reverse = "b8adcce862536491"%string /\
  CtxGen.shape_EdgesBag_loopback = "c1346cadc81cbd04"%string /\
  CtxGen.shape_function_to_bag = "6497a5d8344921da"%string /\
  GlueChainGen.shape_class_CallableLayer = "c80fc9ed956106f0"%string /\
  GlueChainGen.shape_class_Instance = "e7a645f498b26984"%string /\
  GlueChainGen.shape_class_Chain = "9d9b18d30947136d"%string /\
  GlueChainGen.shape_class_LazyChain = "a1c1f777b7f04bfb"%string /\
  GlueChainGen.shape_connect = "32cfcae91c959073"%string /\
  GlueFactoryGen.shape_class_GraphFactory = "81497759c0671ad7"%string /\
  GlueFactoryGen.shape_class_SourceFactory = "1808b21b3bce3951"%string /\
  GlueFactoryGen.shape_class_TransformFactory = "c44de91624ae4321"%string /\
  GlueFactoryGen.shape_add_from_mixins = "75970a13392501ac"%string /\
  GlueFactoryGen.shape_is_detectable = "01389bb1efb83cb2"%string /\
  GlueFactoryGen.shape_items_to_container = "f7b238bfe3e856c6"%string /\
  GlueFactoryGen.shape_class_FunctionBase = "2a1e9fd23a29f19d"%string /\
  GlueFactoryGen.shape_class_Function = "727356a49c35f2ce"%string /\
  GlueFactoryGen.shape_class_FunctionWrapper = "20f303f31715c14d"%string /\
  GlueFactoryGen.shape_class_Inverse = "d803d7d513cd3b06"%string /\
  GlueFactoryGen.shape_class_Positional = "ff7f4bccfea673aa"%string /\
  GlueFactoryGen.shape_class_Impure = "f33a1c51c28660a4"%string /\
  GlueFactoryGen.shape_class_APIMeta = "d04e35766e894328"%string /\
  GlueFactoryGen.shape_class_HashByValue = "16222fab9891d910"%string /\
  GlueFactoryGen.shape_class_CombinedHashByValue = "a5203dcb1319f438"%string /\
  GlueFactoryGen.shape_hash_by_value = "8a4ba5e0fdeb3b7c"%string /\
  GlueFactoryGen.shape_class_NodeStorage = "6d3e8d03e5bc0ef6"%string /\
  GlueFactoryGen.shape_replace_annotation = "1793c6c05b9f2740"%string.
Proof. repeat split; reflexivity. Qed.
Print Assumptions C10_mirrored_functions_are_the_pinned_ones.
(* END PINNED FINGERPRINTS *)
