(* C10 — decorated functions run forward, then f, then the inverses in reverse order. *)
From Connectome Require Import Values MiscGen Loopback LoopbackFacts.
Local Open Scope list_scope.

(* For every chain of invertible, inheriting, forward-only and cache layers: threading the contexts through the
   connections (ChainContext(previous, current)) and reversing them "current first, then previous" computes exactly
   forward fields in order ; f ; inverse fields in reverse order, each inverse with the parameter value of its own
   layer's forward pass. *)
Theorem C10_loopback : forall x0 ks, loopback x0 ks = loopback_spec x0 ks.
Proof. exact loopback_correct. Qed.
Print Assumptions C10_loopback.

(* an output without an inverse path through some layer is rejected, wherever that layer sits *)
Theorem C10_rejects_forward_only : forall x0 ks1 i ks2, loopback x0 (ks1 ++ KFwdOnly i :: ks2) = None.
Proof. exact fwd_only_rejects. Qed.
Print Assumptions C10_rejects_forward_only.

(* regenerated: every default-named argument of an @inverse function is a backward input (not only the first one), and a
   chain's context reverses the current layer before the previous ones *)
Theorem C10_rules_are_translated :
  inverse_wrap_rule = "default output -> InverseOutput; every default input -> InverseInput" /\ chain_reverse_order = "current first, then previous".
Proof. split; reflexivity. Qed.
Print Assumptions C10_rules_are_translated.

Example C10_example :
  loopback (VStr "x0") [KInv 0; KCache; KInhAll; KInvNoParam 3]
  = Some (VApp "I0" [VApp "I3" [VApp "f" [VApp "F3" [VApp "F0" [VStr "x0"; VApp "P0" [VStr "x0"] []] []] []] []] [];
                     VApp "P0" [VStr "x0"] []] [])
  /\ loopback (VStr "x0") [KInv 0; KFwdOnly 1; KInv 2] = None.
Proof. vm_compute. auto. Qed.
Print Assumptions C10_example.
