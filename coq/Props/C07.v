(* C07 — hashes depend only on pipeline structure and input (no spurious invalidation).
   The model-level half: hash-transparent edges return the parent's hash (so inserting cache layers, pure
   inheritance, CheckIds, a singleton Merge or Filter for the other fields changes no key), a Silent argument does
   not enter the hash, and no hash maker has access to node names, layer nesting (Details) or object identities.
   The runtime half (the pickler is deterministic across interpreters and string-hash seeds, pickling the compiled
   function keeps the digests) is compared on the real code by the check. *)
From Connectome Require Import Values Attrs VM Edges EdgesGen HashSound HashFacts GraphHashModel SpecEq Examples.
From Connectome Require NodeHashGen.
From Connectome Require ColStore ColumnsGen Columns ColumnsFacts EqFacts.
Local Open Scope list_scope.

(* identity (inheritance, chaining stitches), cache, CheckIds edges: node hash = the first parent's hash *)
Theorem C07_transparent_node_hash :
  forall ph c,
  IdentityEdge_make_hash (self_of EIdent) ph = nth 0 ph hnone /\
  CacheEdge_make_hash (self_of (ECache c)) ph = nth 0 ph hnone /\
  CheckIdsEdge_make_hash (self_of ECheckIds) ph = nth 0 ph hnone.
Proof. intros. repeat split. Qed.
Print Assumptions C07_transparent_node_hash.

(* the same at run time: the regenerated StaticHash.compute_hash of these edges yields the parent's hash *)
Theorem C07_transparent_runtime :
  forall e pv ph v,
  In e [EIdent; ECheckIds] \/ (exists c, e = ECache c) ->
  edge_hash e ph pv v = nth 0 ph hnone.
Proof.
  intros e pv ph v [[<-|[<-|[]]]|[c ->]]; reflexivity.
Qed.
Print Assumptions C07_transparent_runtime.

(* column caches and hash barriers are transparent for static hashes; a Merge switch reports the selected branch's hash *)
Theorem C07_transparent_graph_hash :
  forall inputs, CachedColumn_hash_graph attrs0 inputs = Some (nth 0 inputs hnone) /\
                 HashBarrier_hash_graph attrs0 inputs = Some (nth 0 inputs hnone).
Proof. intros. split; reflexivity. Qed.
Print Assumptions C07_transparent_graph_hash.

Theorem C07_switch_reports_branch :
  forall t n ph pv v i, lookup t (nth 0 pv VNone) = Some i -> edge_hash (ESwitch t n) ph pv v = nth (i + 1) ph hnone.
Proof. intros t n ph pv v i H. cbn. rewrite H. reflexivity. Qed.
Print Assumptions C07_switch_reports_branch.

(* changing what feeds a Silent argument changes no key *)
Theorem C07_silent :
  forall f ar kw sil ph ph', List.length ph = List.length ph' ->
  (forall i, existsb (Nat.eqb i) sil = false -> nth i ph hnone = nth i ph' hnone) ->
  FunctionEdge_make_hash (self_of (EFunc f ar kw sil)) ph = FunctionEdge_make_hash (self_of (EFunc f ar kw sil)) ph'.
Proof. exact silent_independent. Qed.
Print Assumptions C07_silent.

(* hashes are functions of (edge attributes, parent hashes, input values) only: two graphs that differ in node
   numbering only up to an order-preserving insertion of identity edges get the same hashes.  Instance proved:
   inserting an identity node between a node and its consumer. *)
Theorem C07_identity_insertion :
  forall apply raises (g : graph) ins f n p h v,
  nth n g Leaf = Inner EIdent [p] -> aget ins n = None ->
  sem apply raises g ins (S f) n = Some (h, v) -> sem apply raises g ins f p = Some (h, v).
Proof.
  intros apply raises g ins f n p h v Hn Hi H. cbn [sem] in H. rewrite Hi, Hn in H. cbn [map forallb] in H.
  destruct (sem apply raises g ins f p) as [[hp vp]|]; [|discriminate]. cbn in H. congruence.
Qed.
Print Assumptions C07_identity_insertion.

(* ---------- column caches: the order in which `ids` lists the keys does not matter ----------
   A request through a column gives the same result, the same stores (hence the same disk keys of the shards) and
   runs the same things whatever order the dataset lists its ids in, provided sorted() depends only on the multiset
   of the keys.  Over the REGENERATED body of CachedColumn.evaluate / _get_shard. *)
Theorem C07_column_request_ignores_ids_order :
  forall (sorted : list val -> list val) (get_hash : nat -> val -> option nhash) (get_value : nat -> val -> option val)
         col size key keys keys' st,
  (forall l l', Permutation.Permutation l l' -> sorted l = sorted l') -> Permutation.Permutation keys keys' ->
  Columns.column_request hpyeq heqb pyeq sorted get_hash get_value col size key keys st
  = Columns.column_request hpyeq heqb pyeq sorted get_hash get_value col size key keys' st.
Proof. intros sorted get_hash get_value. exact (ColumnsFacts.column_request_ids_order hpyeq heqb pyeq sorted get_hash get_value). Qed.
Print Assumptions C07_column_request_ignores_ids_order.

(* The node-hash values this file reasons about are the ones engine/node_hash.py builds (regenerated, Gen/NodeHashGen.v):
   tags 0-3 for leaf / apply / graph / custom, the components of each `value` tuple in order, and == on `value`. *)
Theorem C07_node_hash_values_are_translated :
  NodeHashGen.hash_tags = [0; 1; 2; 3] /\ NodeHashGen.LeafHash_value = ["tag"; "data"]
  /\ NodeHashGen.ApplyHash_value = ["tag"; "func"; "args.value"; "kw_names"] /\ NodeHashGen.GraphHash_value = ["tag"; "output.value"]
  /\ NodeHashGen.CustomHash_value = ["tag"; "marker"; "*children.value"] /\ NodeHashGen.nodehash_eq_compares = "value".
Proof. repeat split; reflexivity. Qed.
Print Assumptions C07_node_hash_values_are_translated.

(* BEGIN PINNED FINGERPRINTS (tools/pin_shapes.py) *)
(* The functions and classes of /repo that hand-written parts of the model mirror (Model/VM.v, NameLevel.v, Loopback.v) and the glue around the modelled core
   this property is anchored in: the fingerprints (sha256 of the normalised source, comments and docstrings dropped) are regenerated on every run; an edit of one
   of them re-opens this property even if no sampled case shows a difference.  Rewritten by tools/pin_shapes.py on a tree on which every check passes. *)
From Connectome Require GlueHashGen GlueColumnsGen.
Theorem C07_mirrored_functions_are_the_pinned_ones :
  GlueHashGen.shape_class_NodeHash = "f0232c87f36bf159"%string /\
  GlueHashGen.shape_class_LeafHash = "05e80c5ad9a214f0"%string /\
  GlueHashGen.shape_class_ApplyHash = "556e2ab8595eb443"%string /\
  GlueHashGen.shape_class_GraphHash = "5654d0d1756d0a5c"%string /\
  GlueHashGen.shape_class_CustomHash = "434a91b548cd8bbc"%string /\
  GlueHashGen.shape_class_FunctionEdge = "17dc98d2e9afb7b6"%string /\
  GlueHashGen.shape_class_ConstantEdge = "a5d6e9a227ce6207"%string /\
  GlueHashGen.shape_class_ComputableHashBase = "70f75f27dd8924c3"%string /\
  GlueHashGen.shape_class_External = "8a3fbf83cd7fba25"%string /\
  GlueHashGen.shape_class_SimpleHash = "2e24eea69dec1725"%string /\
  GlueHashGen.shape_class_SimpleHashEdge = "049321af3dcf3bc6"%string /\
  GlueHashGen.shape_marker_getter = "6e1709ddfaa2cbe4"%string /\
  GlueColumnsGen.shape_class_CacheColumns = "50ebcb3d340e0894"%string.
Proof. repeat split; reflexivity. Qed.
Print Assumptions C07_mirrored_functions_are_the_pinned_ones.
(* END PINNED FINGERPRINTS *)
