(* C02 — field resolution across layers: define, inherit, drop - never a stale field. *)
From Connectome Require Import Values NameSet AntiSetGen GraphGen NameLevel NameFacts.
From Connectome Require Bag.
Local Open Scope list_scope.

(* The pipeline after `l >> r` exposes exactly: the fields r defines, with l's outputs substituted for r's inputs
   (a name l inherits from above stays a raw input, anything else is MISSING); plus the outputs of l that r does not
   define and either inherits (list, True, or everything but __exclude__: the regenerated AntiSet algebra) or that are
   persistent in l.  Any other earlier field is gone. *)
Theorem C02_define_inherit_drop :
  forall l r n,
  alookup (b_outs (compose l r)) n =
  match alookup (b_outs r) n with
  | Some e => Some (xsubst (env_of l r) e)
  | None => if ns_mem n (b_virt r) || lmem n (b_pers l) then alookup (b_outs l) n else None
  end.
Proof. exact compose_lookup. Qed.
Print Assumptions C02_define_inherit_drop.

(* never a stale field: a name the last layer neither defines nor inherits (and that is not persistent) is not served *)
Theorem C02_never_stale :
  forall l r n, alookup (b_outs r) n = None -> ns_mem n (b_virt r) = false -> lmem n (b_pers l) = false ->
  alookup (b_outs (compose l r)) n = None /\ ~ ns_in n (b_virt (compose l r)).
Proof. exact compose_stale. Qed.
Print Assumptions C02_never_stale.

(* a name inherited by every layer and defined by none is served as the raw input: the virtual sets intersect *)
Theorem C02_raw_input : forall l r x, ns_in x (b_virt (compose l r)) <-> ns_in x (b_virt l) /\ ns_in x (b_virt r).
Proof. exact compose_virtual. Qed.
Print Assumptions C02_raw_input.

(* the regenerated AntiSet operators are intersection, difference, union on co-finite sets (membership laws) *)
Theorem C02_antiset_laws :
  (forall e o x, ns_in x (as_and e o) <-> ns_in x (Co e) /\ ns_in x o) /\
  (forall e o x, ns_in x (as_sub e o) <-> ns_in x (Co e) /\ ~ ns_in x o) /\
  (forall e o x, ns_in x (as_or e o) <-> ns_in x (Co e) \/ ns_in x o) /\
  (forall e o x, ns_in x (as_rsub e o) <-> ns_in x o /\ ~ ns_in x (Co e)) /\
  (forall e x, as_contains e x = true <-> ns_in x (Co e)).
Proof.
  split; [exact as_and_spec|]. split; [exact as_sub_spec|]. split; [exact as_or_spec|]. split; [exact as_rsub_spec|exact as_contains_spec].
Qed.
Print Assumptions C02_antiset_laws.

(* at graph level (nodes with identities, labelled edges): connect_bags is substitution of the left outputs for the right
   inputs, for arbitrary fresh clone functions and independently of the order of the edges (Python set iteration) *)
Theorem C02_connect_is_substitution :
  forall (c1 c2 : Bag.nd -> Bag.nd) (l r : Bag.bag),
  (forall n, List.In n (Bag.nodes l) -> List.In n (Bag.nodes r) -> False) ->            (* freeze(): disjoint node sets *)
  (forall n, ~ List.In (c1 n) (Bag.nodes l) /\ ~ List.In (c1 n) (Bag.nodes r)) ->       (* clones are fresh nodes *)
  (forall n, ~ List.In (c2 n) (Bag.nodes l) /\ ~ List.In (c2 n) (Bag.nodes r)) ->
  (forall n, snd (c1 n) = snd n) ->                                                      (* a clone keeps the name *)
  (forall e, List.In e (Bag.edges r) -> ~ List.In (Bag.bout e) (Bag.inputs r)) ->       (* inputs are leaves (normalize_bag 1a) *)
  forall envl : String.string -> Bag.expr,
  (forall lo, List.In lo (Bag.outputs l) -> Bag.Den l lo (envl (snd lo))) ->
  (forall ro e, List.In ro (Bag.outputs r) -> Bag.Den r ro e ->
     Bag.Den (Bag.connect c1 c2 l r) ro (Bag.subst (Bag.env l envl) e)) /\
  (forall lo, List.In lo (Bag.pass l r) -> Bag.Den (Bag.connect c1 c2 l r) (c2 lo) (envl (snd lo))).
Proof. exact Bag.connect_is_substitution. Qed.
Print Assumptions C02_connect_is_substitution.

Theorem C02_signature_rule : signature_rule = "used inputs sorted by name".
Proof. reflexivity. Qed.
Print Assumptions C02_signature_rule.

Example C02_example :
  let src := SLayer {| l_defs := [("image", ("load", ["id"])); ("ids", ("ids", []))]; l_params := []; l_inherit := Fin [];
                       l_optional := []; l_persistent := ["id"; "ids"]; l_cache := false |} in
  let zoom := SLayer {| l_defs := [("image", ("zoom", ["image"; "_s"]))]; l_params := [("_s", ("scale", []))]; l_inherit := Fin ["mask"];
                        l_optional := []; l_persistent := []; l_cache := false |} in
  let b := stack_bag [src; zoom] in
  bag_outcome b = Fields ["image"; "ids"; "id"] /\
  alookup (b_outs b) "image" = Some (XFn "zoom" [XFn "load" [XIn "id"]; XFn "scale" []]).
Proof. vm_compute. auto. Qed.
Print Assumptions C02_example.

(* BEGIN PINNED FINGERPRINTS (tools/pin_shapes.py) *)
(* The functions and classes of /repo that hand-written parts of the model mirror (Model/VM.v, NameLevel.v, Loopback.v) and the glue around the modelled core
   this property is anchored in: the fingerprints (sha256 of the normalised source, comments and docstrings dropped) are regenerated on every run; an edit of one
   of them re-opens this property even if no sampled case shows a difference.  Rewritten by tools/pin_shapes.py on a tree on which every check passes. *)
From Connectome Require BagGen GlueChainGen GlueFactoryGen.
Theorem C02_mirrored_functions_are_the_pinned_ones :
  BagGen.shape_connect_bags = "330bc8a991173b73"%string /\
  BagGen.shape_normalize_bag = "7cd93bd3cd2ed163"%string /\
  BagGen.shape_EdgesBag_freeze = "6e09dc87af0979b4"%string /\
  BagGen.shape_EdgesBag_init = "19042133648c6d76"%string /\
  GlueChainGen.shape_class_CallableLayer = "c80fc9ed956106f0"%string /\
  GlueChainGen.shape_class_Instance = "e7a645f498b26984"%string /\
  GlueChainGen.shape_class_Chain = "9d9b18d30947136d"%string /\
  GlueChainGen.shape_class_LazyChain = "a1c1f777b7f04bfb"%string /\
  GlueChainGen.shape_connect = "32cfcae91c959073"%string /\
  GlueFactoryGen.shape_class_GraphFactory = "81497759c0671ad7"%string /\
  GlueFactoryGen.shape_class_SourceFactory = "1808b21b3bce3951"%string /\
  GlueFactoryGen.shape_class_TransformFactory = "c44de91624ae4321"%string /\
  GlueFactoryGen.shape_add_from_mixins = "75970a13392501ac"%string /\
  GlueFactoryGen.shape_is_detectable = "01389bb1efb83cb2"%string /\
  GlueFactoryGen.shape_items_to_container = "f7b238bfe3e856c6"%string /\
  GlueFactoryGen.shape_class_FunctionBase = "2a1e9fd23a29f19d"%string /\
  GlueFactoryGen.shape_class_Function = "727356a49c35f2ce"%string /\
  GlueFactoryGen.shape_class_FunctionWrapper = "20f303f31715c14d"%string /\
  GlueFactoryGen.shape_class_Inverse = "d803d7d513cd3b06"%string /\
  GlueFactoryGen.shape_class_Positional = "ff7f4bccfea673aa"%string /\
  GlueFactoryGen.shape_class_Impure = "f33a1c51c28660a4"%string /\
  GlueFactoryGen.shape_class_APIMeta = "d04e35766e894328"%string /\
  GlueFactoryGen.shape_class_HashByValue = "16222fab9891d910"%string /\
  GlueFactoryGen.shape_class_CombinedHashByValue = "a5203dcb1319f438"%string /\
  GlueFactoryGen.shape_hash_by_value = "8a4ba5e0fdeb3b7c"%string /\
  GlueFactoryGen.shape_class_NodeStorage = "6d3e8d03e5bc0ef6"%string /\
  GlueFactoryGen.shape_replace_annotation = "1793c6c05b9f2740"%string.
Proof. repeat split; reflexivity. Qed.
Print Assumptions C02_mirrored_functions_are_the_pinned_ones.
(* END PINNED FINGERPRINTS *)
