(* C02 placeholder *)
From Connectome Require Import Values NameSet NameLevel.
Theorem C02_placeholder : True.
Proof. exact I. Qed.
Print Assumptions C02_placeholder.
