(* C18 — optional fields vanish quietly; required ones fail loudly and by name. *)
From Connectome Require Import Values NameSet NameLevel NameFacts.
Local Open Scope list_scope.

(* the state of a field after compilation: available iff it reaches no missing input; dropped quietly iff it misses some
   input, is optional itself and every missing input is asked for by optional fields only; otherwise an error *)
Theorem C18_field_state :
  forall b o,
  (field_state b o = 0 <-> misses (snd o) = []) /\
  (field_state b o = 1 <-> misses (snd o) <> [] /\ alookup (b_optout b) (fst o) = Some true /\ forallb snd (misses (snd o)) = true).
Proof. exact field_state_spec. Qed.
Print Assumptions C18_field_state.

(* the pipeline is usable iff no field is in the error state; then it lists exactly the fields that miss nothing:
   leaving a field out changes no other field *)
Theorem C18_quiet_outcome :
  forall b l, bag_outcome b = Fields l ->
  (forall o, In o (b_outs b) -> field_state b o <> 2) /\
  (forall n, In n l <-> exists e, In (n, e) (b_outs b) /\ misses e = []).
Proof. exact outcome_fields. Qed.
Print Assumptions C18_quiet_outcome.

(* otherwise a DependencyError names a field with an unreachable input that is required: the field is not optional, or
   one of the missing inputs is needed by a required user; and it names exactly the missing inputs of that field *)
Theorem C18_loud_outcome :
  forall b f ms, bag_outcome b = DepError f ms ->
  exists e, In (f, e) (b_outs b) /\ misses e <> [] /\
    (alookup (b_optout b) f <> Some true \/ forallb snd (misses e) = false) /\ ms = snodup_ (map fst (misses e)).
Proof. exact outcome_error. Qed.
Print Assumptions C18_loud_outcome.

(* optional dependants of a dropped field are dropped in turn: substitution keeps MISSING leaves *)
Theorem C18_missing_propagates : forall env e x o, In (x, o) (misses e) -> In (x, o) (misses (xsubst env e)).
Proof.
  intros env. fix IH 1. intros e x o H. destruct e as [y|y b|f args]; cbn in *; [destruct H|exact H|].
  induction args as [|a args IHa]; cbn in *; [exact H|].
  apply in_app_or in H. apply in_or_app. destruct H as [H|H]; [left; apply IH; exact H|right; apply IHa; exact H].
Qed.
Print Assumptions C18_missing_propagates.

Example C18_example :
  let mk defs opt := SLayer {| l_defs := defs; l_params := [("_p", ("par", ["c"]))]; l_inherit := Fin []; l_optional := opt; l_persistent := []; l_cache := false |} in
  let first := SLayer {| l_defs := [("a", ("fa", []))]; l_params := []; l_inherit := Fin []; l_optional := []; l_persistent := []; l_cache := false |} in
  (* x(b) is optional and b is missing: dropped quietly, y(a) stays *)
  bag_outcome (stack_bag [first; mk [("x", ("fx", ["b"])); ("y", ("fy", ["a"]))] ["x"]]) = Fields ["y"] /\
  (* the same, but x reaches c only through the used parameter _p: a used parameter is a required user *)
  bag_outcome (stack_bag [first; mk [("x", ("fx", ["_p"])); ("y", ("fy", ["a"]))] ["x"]]) = DepError "x" ["c"].
Proof. vm_compute. auto. Qed.
Print Assumptions C18_example.

(* BEGIN PINNED FINGERPRINTS (tools/pin_shapes.py) *)
(* The functions and classes of /repo that hand-written parts of the model mirror (Model/VM.v, NameLevel.v, Loopback.v) and the glue around the modelled core
   this property is anchored in: the fingerprints (sha256 of the normalised source, comments and docstrings dropped) are regenerated on every run; an edit of one
   of them re-opens this property even if no sampled case shows a difference.  Rewritten by tools/pin_shapes.py on a tree on which every check passes. *)
From Connectome Require BagGen OptGen GlueFilterGen GlueJoinGen.
Theorem C18_mirrored_functions_are_the_pinned_ones :
  BagGen.shape_connect_bags = "330bc8a991173b73"%string /\
  BagGen.shape_normalize_bag = "7cd93bd3cd2ed163"%string /\
  BagGen.shape_EdgesBag_freeze = "6e09dc87af0979b4"%string /\
  BagGen.shape_EdgesBag_init = "19042133648c6d76"%string /\
  OptGen.shape_detect_optionals = "baf33a5e717b4311"%string /\
  OptGen.shape_ReversibleContainer_init = "ba8f9a40e072da46"%string /\
  OptGen.shape_GraphCompiler_priv_validate_optionals = "1241e86a2e7f8c0d"%string /\
  OptGen.shape_GraphCompiler_compile = "2efea2ce0a0eabd1"%string /\
  OptGen.shape_GraphCompiler_priv_compile = "6acf060d491e1349"%string /\
  GlueFilterGen.shape_class_Filter = "e202343ff78dfd1d"%string /\
  GlueFilterGen.shape_class_CheckIds = "a921031238182021"%string /\
  GlueJoinGen.shape_class_Join = "c2f4cf07b56e234c"%string /\
  GlueJoinGen.shape_class_JoinContainer = "dc09c49ad7a5ba2d"%string /\
  GlueJoinGen.shape_class_SwitchBranch = "202ea87a164ad799"%string /\
  GlueJoinGen.shape_class_SwitchMissing = "09b9278b99ce6ff8"%string /\
  GlueJoinGen.shape_priv_maybe_to_hash_id = "80d34b70d13b1b9d"%string /\
  GlueJoinGen.shape_to_hash_id = "501cde71d807429e"%string /\
  GlueJoinGen.shape_priv_chain_edges = "f009adada3e3a857"%string.
Proof. repeat split; reflexivity. Qed.
Print Assumptions C18_mirrored_functions_are_the_pinned_ones.
(* END PINNED FINGERPRINTS *)
