(* C18 placeholder *)
From Connectome Require Import Values NameSet NameLevel.
Theorem C18_placeholder : True.
Proof. exact I. Qed.
Print Assumptions C18_placeholder.
