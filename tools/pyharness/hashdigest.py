"""HashDigest on the real code (C03): a hash-only field executes exactly the user functions Graph.get_hash executes
(those whose VALUE enters a hash: hash-by-value and impure ones), a value-returning one exactly those of the field.

    hashdigest.py --seed S --n N --out FILE
"""
import argparse
import hashlib
import os
import random
import sys

sys.path.insert(0, os.path.dirname(__file__))
import pipelines as P  # noqa
import sympool  # noqa
import histories as H  # noqa
from common import dump, exc_name, to_json  # noqa
from connectome import HashDigest  # noqa
from tarn.pickler import dumps  # noqa


def ran():
    r = sorted(c[0] for c in sympool.CALLS)
    del sympool.CALLS[:]
    return r


def one(rnd):
    spec, ids, fields, nroots, sy = H.gen_spec(rnd, allow_disk=False, allow_columns=False)
    spec = H.strip_caches(spec)
    rv = rnd.random() < 0.4
    algo = rnd.choice([None, 'sha256', hashlib.blake2b])
    rec = {'spec': spec, 'return_value': rv, 'rows': []}
    names = rnd.sample(fields, rnd.randint(1, len(fields)))
    try:
        base, _ = P.build(spec, [])
        hd = base >> HashDigest(names, algo, return_value=rv)
    except BaseException as e:  # noqa
        rec['build_exc'] = exc_name(e)
        return rec
    for f in names:
        for key in rnd.sample(ids, min(2, len(ids))):
            row = {'field': f, 'key': key}
            del sympool.CALLS[:]
            try:
                r = hd._compile(f)(key)
                row['ran'] = ran()
                row['len'] = len(r)
                row['value'] = to_json(r[0]) if rv else None
                row['pickled_ok'] = None
                pick = r[2] if rv else r[1]
                h = r[1] if rv else r[0]
                row['pickled_ok'] = pick == dumps(h.value)
                if algo is not None:
                    a = getattr(hashlib, algo) if isinstance(algo, str) else algo
                    row['digest_ok'] = r[-1] == a(pick).digest()
                g = base._compile(f)
                h2 = g.get_hash(key)[0]
                row['ran_get_hash'] = ran()
                row['hash_equal'] = dumps(h2.value) == dumps(h.value)
                row['ref_value'] = to_json(g(key))
                row['ran_value'] = ran()
            except BaseException as e:  # noqa
                row['exc'] = exc_name(e)
            rec['rows'].append(row)
    return rec


def main():
    ap = argparse.ArgumentParser()
    ap.add_argument('--seed', type=int, default=0)
    ap.add_argument('--n', type=int, default=100)
    ap.add_argument('--out', required=True)
    a = ap.parse_args()
    rnd = random.Random(a.seed * 13 + 3)
    dump({'cases': [one(rnd) for _ in range(a.n)]}, a.out)


if __name__ == '__main__':
    main()
