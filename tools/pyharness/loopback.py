"""C10 on the real code: chains of invertible / inheriting / forward-only / cache layers; layer._decorate, _wrap and
_loopback applied to a symbolic f.      loopback.py --seed S --n N --out FILE"""
import argparse
import os
import random
import sys

sys.path.insert(0, os.path.dirname(__file__))
import pipelines as P  # noqa
import sympool  # noqa
from common import dump, to_json  # noqa
from connectome import CacheToRam, Chain, Parameter, Transform, inverse  # noqa
from connectome.exceptions import DependencyError, FieldError  # noqa
from connectome.interface.edges import Function  # noqa

KINDS = ['inv', 'inv', 'inv', 'inherit_all', 'inherit_list', 'fwd_only', 'cache', 'inv_noparam']
NAMES = {}


def named(name):
    """a symbolic function with a readable name (module-level function objects are not needed here: no disk cache)"""
    if name not in NAMES:
        def f(*a, **k):
            return sympool._call(name, a, k)
        f.__name__ = f.__qualname__ = name
        f._symbolic = True
        NAMES[name] = f
    return NAMES[name]


def make(kind, i):
    if kind == 'inv':
        return Transform(_p=Function(named(f'P{i}'), 'x'), x=Function(named(f'F{i}'), 'x', '_p'),
                         y=inverse(Function(named(f'I{i}'), 'y', Parameter('_p'))))
    if kind == 'inv_noparam':
        return Transform(x=Function(named(f'F{i}'), 'x'), y=inverse(Function(named(f'I{i}'), 'y')))
    if kind == 'inherit_all':
        return Transform(__inherit__=True)
    if kind == 'inherit_list':
        return Transform(__inherit__=['x', 'y'])
    if kind == 'fwd_only':
        return Transform(x=Function(named(f'F{i}'), 'x'))
    return CacheToRam()


def attempt(fn):
    del sympool.CALLS[:]
    try:
        v = fn()
        return {'val': to_json(v), 'calls': [c[0] for c in sympool.CALLS]}
    except (FieldError, DependencyError, ValueError) as e:
        return {'rejected': type(e).__name__}
    except BaseException as e:  # noqa
        return {'error': f'{type(e).__name__}: {e}'[:150]}


def main():
    ap = argparse.ArgumentParser()
    ap.add_argument('--seed', type=int, default=0)
    ap.add_argument('--n', type=int, default=300)
    ap.add_argument('--out', required=True)
    a = ap.parse_args()
    rnd = random.Random(a.seed)
    cases = []
    for _ in range(a.n):
        n = rnd.randint(1, 6)
        kinds = [rnd.choice(KINDS) for _ in range(n)]
        if kinds[0] == 'cache':
            kinds[0] = 'inv'
        objs = [make(k, i) for i, k in enumerate(kinds)]
        ds = objs[0] if n == 1 else Chain(*objs)
        f = named('f')
        rec = {'kinds': kinds}
        rec['decorate'] = attempt(lambda: ds._decorate('x', 'y')(f)('x0'))
        rec['wrap'] = attempt(lambda: ds._wrap(f, 'x', 'y')('x0'))
        rec['loopback'] = attempt(lambda: ds._loopback(f, 'x', 'y').y('x0'))
        cases.append(rec)
    dump({'cases': cases}, a.out)


if __name__ == '__main__':
    main()
