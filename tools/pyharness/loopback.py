"""C10 on the real code: chains of invertible / inheriting / forward-only / cache layers; layer._decorate, _wrap and
_loopback applied to a symbolic f.      loopback.py --seed S --n N --out FILE"""
import argparse
import os
import random
import sys

sys.path.insert(0, os.path.dirname(__file__))
import pipelines as P  # noqa
import sympool  # noqa
from common import dump, to_json  # noqa
from connectome import CacheToRam, Chain, Parameter, Transform, inverse  # noqa
from connectome.exceptions import DependencyError, FieldError  # noqa
from connectome.interface.edges import Function  # noqa

KINDS = ['inv', 'inv', 'inv', 'inherit_all', 'inherit_list', 'fwd_only', 'cache', 'inv_noparam']
NAMES = {}
BACK = ['y', 'w']


def named(name):
    """a symbolic function with a readable name (module-level function objects are not needed here: no disk cache)"""
    if name not in NAMES:
        def f(*a, **k):
            return sympool._call(name, a, k)
        f.__name__ = f.__qualname__ = name
        f._symbolic = True
        NAMES[name] = f
    return NAMES[name]


def simple(kind, i):
    """the six layer kinds of the first version, as generic descriptions"""
    d = {'id': i, 'fwd': 'none', 'defs': [], 'inh': [], 'cache': False, 'kind': kind}
    if kind == 'inv':
        d.update(fwd='def_p', defs=[{'out': 'y', 'fn': f'I{i}', 'args': ['y'], 'param': True}])
    elif kind == 'inv_noparam':
        d.update(fwd='def', defs=[{'out': 'y', 'fn': f'I{i}', 'args': ['y'], 'param': False}])
    elif kind == 'inherit_all':
        d.update(fwd='inherit', inh='all')
    elif kind == 'inherit_list':
        d.update(fwd='inherit', inh=['x', 'y'])
    elif kind == 'fwd_only':
        d.update(fwd='def')
    else:
        d.update(cache=True, inh='all')
    return d


def generic(rnd, i, back=None):
    BACK = back or ['y', 'w']
    """any forward part, @inverse fields over y and w with one or two backward arguments, any inherit set"""
    d = {'id': i, 'cache': False, 'kind': 'generic'}
    d['fwd'] = rnd.choice(['def_p', 'def', 'def', 'inherit', 'inherit', 'none'] if rnd.random() < 0.15 else ['def_p', 'def', 'inherit'])
    outs = rnd.sample(BACK, min(len(BACK), rnd.choice([0, 1, 1, 2, 2])))
    d['defs'] = []
    for o in outs:
        args = [o] if len(BACK) == 1 else rnd.choice([[o], [o], ['y', 'w'], ['w', 'y'], [BACK[1 - BACK.index(o)]]])
        d['defs'].append({'out': o, 'fn': f'I{o}{i}', 'args': args, 'param': rnd.random() < 0.5})
    if rnd.random() < 0.3:
        d['inh'] = 'all'
    else:
        pool = [n for n in BACK if n != 'x'] + ([] if d['fwd'] in ('def', 'def_p') else ['x'])
        d['inh'] = sorted(n for n in pool if rnd.random() < 0.55)
        if d['fwd'] == 'inherit' and 'x' not in d['inh'] and rnd.random() < 0.85:
            d['inh'] = sorted(d['inh'] + ['x'])
    # a FORWARD field named like a backward one, without an inverse: going back the name is still inherited, not overridden
    free = [n for n in BACK if n != 'x' and n not in outs and (d['inh'] == 'all' or n not in d['inh'])]
    d['fwd_extra'] = [n for n in free if rnd.random() < 0.4]
    # the same layer may be written as a class body, with the positional-only form for an inverse's own field
    d['class_syntax'] = rnd.random() < 0.3 and (d['inh'] == 'all' or not set(d['inh']) & ({'x'} if d['fwd'] in ('def', 'def_p') else set()))
    return d


def make_class(d):
    """the same layer written as a class body; an @inverse whose first argument is its own field uses the positional-only form `def y(value, /, ...)`"""
    i = d['id']
    fns = {}
    lines = [f'class L{i}(Transform):', f'    __inherit__ = {True if d["inh"] == "all" else tuple(d["inh"])!r}']
    if d['fwd'] == 'def_p' or any(x['param'] for x in d['defs']):
        fns[f'P{i}'] = named(f'P{i}')
        lines += ['    def _p(x):', f'        return FN["P{i}"](x)']
    if d['fwd'] in ('def_p', 'def'):
        fns[f'F{i}'] = named(f'F{i}')
        a = 'x, _p' if d['fwd'] == 'def_p' else 'x'
        lines += [f'    def x({a}):', f'        return FN["F{i}"]({a})']
    for n in d.get('fwd_extra', []):
        fns[f'G{n}{i}'] = named(f'G{n}{i}')
        lines += [f'    def {n}(x):', f'        return FN["G{n}{i}"](x)']
    for x in d['defs']:
        fns[x['fn']] = named(x['fn'])
        rest = list(x['args'][1:]) + (['_p'] if x['param'] else [])
        if x['args'][0] == x['out']:
            sig = ', '.join(['value', '/'] + rest)
            call = ', '.join(['value'] + rest)
        else:
            sig = call = ', '.join(list(x['args']) + (['_p'] if x['param'] else []))
        lines += ['    @inverse', f'    def {x["out"]}({sig}):', f'        return FN["{x["fn"]}"]({call})']
    ns = {'Transform': Transform, 'inverse': inverse, 'FN': fns}
    exec('\n'.join(lines) + '\n', ns)
    return ns[f'L{i}']()


def make(d):
    if d['cache']:
        return CacheToRam()
    if d.get('class_syntax'):
        return make_class(d)
    i = d['id']
    items = []
    if d['fwd'] == 'def_p' or any(x['param'] for x in d['defs']):
        items.append(('_p', Function(named(f'P{i}'), 'x')))
    if d['fwd'] == 'def_p':
        items.append(('x', Function(named(f'F{i}'), 'x', '_p')))
    elif d['fwd'] == 'def':
        items.append(('x', Function(named(f'F{i}'), 'x')))
    for n in d.get('fwd_extra', []):
        items.append((n, Function(named(f'G{n}{i}'), 'x')))
    for x in d['defs']:
        items.append((x['out'], inverse(Function(named(x['fn']), *x['args'], *([Parameter('_p')] if x['param'] else [])))))
    from connectome.interface.metaclasses import TransformBase
    return TransformBase(items, inherit=True if d['inh'] == 'all' else tuple(d['inh']))


def attempt(fn):
    del sympool.CALLS[:]
    try:
        v = fn()
        return {'val': to_json(v), 'calls': [c[0] for c in sympool.CALLS]}
    except (FieldError, DependencyError, ValueError) as e:
        return {'rejected': type(e).__name__}
    except BaseException as e:  # noqa
        return {'error': f'{type(e).__name__}: {e}'[:150]}


def main():
    ap = argparse.ArgumentParser()
    ap.add_argument('--seed', type=int, default=0)
    ap.add_argument('--n', type=int, default=300)
    ap.add_argument('--out', required=True)
    a = ap.parse_args()
    rnd = random.Random(a.seed)
    cases = []
    for _ in range(a.n):
        n = rnd.randint(1, 6)
        if rnd.random() < 0.4:
            layers = [simple(rnd.choice(KINDS), i) for i in range(n)]
            if layers[0]['cache']:
                layers[0] = simple('inv', 0)
            outs, final = ['y'], ['y']
        else:
            layers = [generic(rnd, i) if rnd.random() < 0.85 else simple(rnd.choice(KINDS), i) for i in range(n)]
            if layers[0]['cache']:
                layers[0] = generic(rnd, 0)
            outs = rnd.choice([['y'], ['y', 'w'], ['y', 'w'], ['w', 'y'], ['w']])
            final = rnd.choice([outs, outs, [rnd.choice(outs)]])
        same = rnd.random() < 0.3
        if same:
            # the usual way to decorate: the output of f has the name of its input (`layer._decorate('x')`), outputs left to default
            layers = []
            for i in range(n):
                if rnd.random() < 0.25 and i > 0:
                    layers.append(simple('cache', i))
                else:
                    d = generic(rnd, i, back=['x'])
                    if d['fwd'] == 'none':
                        d['fwd'] = 'inherit'
                    layers.append(d)
            outs, final = ['x'], ['x']
        rec = {'layers': layers, 'outs': outs, 'final': final, 'same_name': same}
        try:
            objs = [make(d) for d in layers]
            ds = objs[0] if n == 1 else Chain(*objs)
        except BaseException as e:  # noqa
            rec['build_error'] = f'{type(e).__name__}: {e}'[:200]
            cases.append(rec)
            continue
        fs = [named('f_' + o) for o in outs]
        single_out = len(outs) == 1 and rnd.random() < 0.7
        single_final = len(final) == 1 and rnd.random() < 0.7
        o_arg = outs[0] if single_out else list(outs)
        f_arg = final[0] if single_final else list(final)
        rec['single'] = [single_out, single_final]

        def f(x, fs=fs, single_out=single_out):
            sympool.CALLS.append(('f', (x,), ()))          # the decorated function itself: once per call
            return fs[0](x) if single_out else tuple(g(x) for g in fs)
        f.__name__ = 'f'

        def norm(r, single_final=single_final):
            if 'val' in r:
                v = r['val']
                r = dict(r, val=[v] if single_final else v['t'])
            return r
        if same and rnd.random() < 0.6:
            # outputs and final left to their defaults
            single_out = single_final = True
            rec['single'] = [True, True]
            rec['defaults'] = True

            def f(x, fs=fs):      # noqa: F811
                sympool.CALLS.append(('f', (x,), ()))
                return fs[0](x)
            f.__name__ = 'f'

            def norm(r):          # noqa: F811
                return dict(r, val=[r['val']]) if 'val' in r else r
            rec['decorate'] = norm(attempt(lambda: ds._decorate('x')(f)('x0')))
            rec['wrap'] = norm(attempt(lambda: ds._wrap(f, 'x')('x0')))
            rec['loopback'] = norm(attempt(lambda: ds._loopback(f, 'x')._compile('x')('x0')))
        else:
            rec['decorate'] = norm(attempt(lambda: ds._decorate('x', o_arg, f_arg)(f)('x0')))
            rec['wrap'] = norm(attempt(lambda: ds._wrap(f, 'x', o_arg, f_arg)('x0')))
            rec['loopback'] = norm(attempt(lambda: ds._loopback(f, 'x', o_arg)._compile(f_arg)('x0')))
        cases.append(rec)
    dump({'cases': cases}, a.out)


if __name__ == '__main__':
    main()
