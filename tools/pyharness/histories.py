"""Histories of calls / clears / rebuilds / pipeline variants / injected failures over interface-level pipelines with
cache layers, run on the real code.

    histories.py --seed S --n N --out FILE --work DIR [--no-disk] [--columns]

Per case: the pipeline spec(s), the extracted compiled graphs, the operations and, for each operation, what the
implementation did (result or exception class, call log, EvictionCache trace, sizes of all RAM tables), plus the
result of the same call on the same pipeline WITHOUT cache layers (the oracle of C04).
"""
import argparse
import copy
import os
import random
import shutil
import sys

sys.path.insert(0, os.path.dirname(__file__))
import pipelines as P  # noqa
import sympool  # noqa
from common import dump, hash_json, to_json  # noqa

FIELDS = ['image', 'mask', 'spacing']
IDS = ['a', 'b', 'c', 'd', 'e']


class Symbols:
    def __init__(self, rnd):
        self.rnd, self.n = rnd, 0

    def fresh(self):
        s = f's{self.n:03d}'
        self.n += 1
        return s


def gen_spec(rnd, allow_disk=True, allow_columns=False):
    sy = Symbols(rnd)
    ids = sorted(rnd.sample(IDS, rnd.randint(2, 4)))
    fields = FIELDS[:rnd.randint(2, 3)]

    def source(ids_):
        d = {'t': 'source', 'ids': ids_, 'fields': {f: sy.fresh() for f in fields}}
        if allow_columns and rnd.random() < 0.4:
            # the dataset keeps its ids in a list, not sorted
            d['ids'] = rnd.sample(ids_, len(ids_))
            d['ids_as_list'] = True
        return d

    if rnd.random() < 0.25 and len(ids) >= 2:
        k = rnd.randint(1, len(ids) - 1)
        spec = [{'t': 'merge', 'parts': [[source(ids[:k])], [source(ids[k:])]]}]
    else:
        spec = [source(ids)]
    n_layers = rnd.randint(1, 3)
    cache_slots = set(rnd.sample(range(n_layers + 1), rnd.randint(1, min(3, n_layers + 1))))
    roots_used = 0

    def cache_layer():
        nonlocal roots_used
        kind = rnd.choice(['ram', 'ram', 'disk'] if allow_disk else ['ram'])
        if allow_columns and rnd.random() < 0.3:
            kind = 'columns'
        names = sorted(rnd.sample(fields, rnd.randint(1, len(fields))))
        if kind == 'ram':
            return {'t': 'ram', 'names': None if rnd.random() < 0.4 else names, 'size': rnd.choice([None, None, 1, 2, 3])}
        if kind == 'disk':
            r = rnd.randrange(2)
            roots_used = max(roots_used, r + 1)
            return {'t': 'disk', 'names': names, 'root': r}
        r = rnd.randrange(2)
        roots_used = max(roots_used, r + 1)
        return {'t': 'columns', 'names': names, 'root': r, 'shard': rnd.choice([None, 2, 3, 0.5])}

    for li in range(n_layers):
        if li in cache_slots:
            spec.append(cache_layer())
        t = {'t': 'transform', 'fields': {}, 'params': {}, 'inherit': True}
        changed = rnd.sample(fields, rnd.randint(1, len(fields)))
        if rnd.random() < 0.4:
            t['params']['_p'] = [sy.fresh(), [rnd.choice(fields)]]
        for f in changed:
            args = [f] if rnd.random() < 0.7 else [f, rnd.choice(fields)]
            if '_p' in t['params'] and rnd.random() < 0.6:
                args.append('_p')
            # the Crop pattern: field depends on itself twice
            if rnd.random() < 0.15:
                args.append(f)
            # a keyword binding (the keyword names are part of the node hash)
            if rnd.random() < 0.25:
                args.append(rnd.choice(['low', 'high']) + '=' + rnd.choice(fields))
            t['fields'][f] = [sy.fresh(), args]
        if rnd.random() < 0.12:
            t['byvalue'] = [rnd.choice(changed)]
        spec.append(t)
    if n_layers in cache_slots:
        spec.append(cache_layer())
    return spec, ids, fields, max(roots_used, 1), sy


def variant_of(spec, sy, rnd):
    """the same pipeline with one user function replaced by another one (a different computation)"""
    v = copy.deepcopy(spec)
    ts = [d for d in v if d['t'] == 'transform']
    # the same field cached per entry (CacheToDisk) instead of per shard (CacheColumns) on the SAME storage
    cols = [d for d in v if d['t'] == 'columns']
    if cols and rnd.random() < 0.3:
        d = rnd.choice(cols)
        i = v.index(d)
        v[i] = {'t': 'disk', 'names': d['names'], 'root': d['root']}
        return v
    # the same dataset listing its ids in another order (a column cache must not depend on it)
    srcs = [d for d in v if d['t'] == 'source' and len(d['ids']) >= 2]
    if srcs and any(d['t'] == 'columns' for d in v) and rnd.random() < 0.6:
        d = rnd.choice(srcs)
        d['ids'] = list(reversed(d['ids'])) if rnd.random() < 0.5 else rnd.sample(d['ids'], len(d['ids']))
        return v
    # the same function bound under another keyword name, when there is one; else another function
    kw = [(t, f) for t in ts for f in sorted(t['fields']) if any('=' in a for a in t['fields'][f][1])]
    if kw and rnd.random() < 0.6:
        t, f = rnd.choice(kw)
        name, args = t['fields'][f]
        t['fields'][f] = [name, [('high=' + a[4:] if a.startswith('low=') else 'low=' + a[5:]) if '=' in a else a for a in args]]
        return v
    # another function in ONE of the datasets (of a Merge: the entries of the other datasets keep their hashes)
    srcs_all = [d for d in v if d['t'] == 'source'] + [p_[0] for d in v if d['t'] == 'merge' for p_ in d['parts']]
    if srcs_all and rnd.random() < 0.35:
        d = rnd.choice(srcs_all[1:] or srcs_all)
        f = rnd.choice(sorted(d['fields']))
        d['fields'][f] = sy.fresh()
        return v
    t = rnd.choice(ts)
    f = rnd.choice(sorted(t['fields']))
    t['fields'][f] = [sy.fresh(), t['fields'][f][1]]
    return v


def strip_caches(spec):
    out = []
    for d in spec:
        if d['t'] in ('ram', 'disk', 'columns'):
            continue
        if d['t'] == 'merge':
            d = {'t': 'merge', 'parts': [strip_caches(p) for p in d['parts']]}
        out.append(d)
    return out


def gen_ops(rnd, ids, fields, n_variants, spec, n_ops, allow_typed=True):
    ops = []
    keys = ids + ['zz']
    # some histories use keys that Python == identifies although their types differ (1 == 1.0 == True)
    typed = allow_typed and rnd.random() < 0.2
    if typed:
        keys = [1, 1.0, True, ids[0], 'zz']
    elif allow_typed and rnd.random() < 0.15:
        # distinct integers with equal Python hashes (hash(-1) == hash(-2), hash(0) == hash(2**61 - 1)): distinct keys
        keys = [-1, -2, 0, 2 ** 61 - 1, 'zz']
    ram_layers = [i for i, d in enumerate(spec) if d['t'] == 'ram']
    syms = [d['fields'][f][0] for d in spec if d['t'] == 'transform' for f in d['fields']]
    for _ in range(n_ops):
        r = rnd.random()
        if r < 0.72:
            fs = rnd.choice(fields) if rnd.random() < 0.75 else sorted(rnd.sample(fields, 2))
            key = rnd.choice(keys[:-1]) if rnd.random() < 0.93 else 'zz'
            ops.append({'op': 'call', 'variant': rnd.randrange(n_variants), 'fields': fs, 'key': key})
            if rnd.random() < 0.35:
                ops.append(dict(ops[-1], repeat=True))
        elif r < 0.8 and ram_layers:
            ops.append({'op': 'clear', 'variant': rnd.randrange(n_variants), 'layer': rnd.choice(ram_layers)})
        elif r < 0.9:
            ops.append({'op': 'rebuild', 'variant': rnd.randrange(n_variants)})
        else:
            ops.append({'op': 'fail', 'sym': rnd.choice(syms)})
    return ops


def run_case(case, work, with_model=True):
    P.install_tracing()
    roots = [os.path.join(work, f'root{i}') for i in range(case['n_roots'])]
    for r in roots:
        shutil.rmtree(r, ignore_errors=True)
    variants = case['variants']
    built = [P.build(v, roots) for v in variants]
    refs = [P.build(strip_caches(v), roots)[0] for v in variants]
    ci = P.CacheIds()
    graphs, gindex = [], {}          # extracted graphs; (id(Graph)) -> index
    keep = []                        # keep Graph objects alive so ids are not reused
    obs = []
    pending_bad = None
    unsupported = None
    for op in case['ops']:
        o = {}
        if op['op'] == 'fail':
            pending_bad = op['sym']
        elif op['op'] == 'rebuild':
            built[op['variant']] = P.build(variants[op['variant']], roots)
        elif op['op'] == 'clear':
            layer = built[op['variant']][1][op['layer']]
            o['cleared'] = sorted(ci(c) for c in layer._cache_instances if ('ram', id(c)) in ci.ids)
            layer._clear()
        else:
            layer = built[op['variant']][0]
            fs = op['fields'] if isinstance(op['fields'], str) else tuple(op['fields'])
            g = layer._compile(fs)
            if id(g) not in gindex:
                try:
                    nodes, out, seen, inp, order = P.extract(g, ci)
                    keep.append((g, order))
                    graphs.append({'nodes': nodes, 'out': out, 'counts': sorted([seen[id(n)], c] for n, c in g.counts.items()),
                                   'signature': [seen[id(n)] for n in g.inputs], '_seen': seen})
                except P.Unsupported as e:
                    unsupported = str(e)
                    keep.append((g, None))
                    graphs.append(None)
                gindex[id(g)] = len(graphs) - 1
            gi = gindex[id(g)]
            o['graph'] = gi
            P.INDEX.clear()
            if graphs[gi] is not None:
                P.INDEX.update(graphs[gi]['_seen'])
            sympool.BAD.clear()
            if pending_bad:
                sympool.BAD[pending_bad] = 1
            del sympool.CALLS[:], P.TRACE[:], sympool.RAISED[:]
            try:
                o['res'] = {'val': to_json(g(op['key']))}
            except BaseException as e:  # noqa
                o['res'] = {'exc': 'User:' + str(e.args[0]) if (sympool.RAISED and e is sympool.RAISED[-1]) else _cls(e)}
                o['exc_detail'] = f'{type(e).__name__}: {e}'[:200]
                o['user_exc'] = type(sympool.RAISED[-1]).__name__ if sympool.RAISED else None
            o['log'] = [[n, [to_json(x) for x in a], [[kk, to_json(x)] for kk, x in k]] for n, a, k in sympool.CALLS]
            o['trace'] = [list(x) for x in P.TRACE]
            o['bad'] = [pending_bad] if pending_bad else []
            # the node hash of the output, right after the call, on the same caches
            sympool.BAD.clear()
            P.INDEX.clear()
            try:
                h, _ = g.get_hash(op['key'])
                o['hash'] = hash_json(h.value, P.fname)
                o['digest'] = _digest(h)
            except BaseException:  # noqa
                o['hash'] = {'exc': True}
            # the oracle: the same pipeline without cache layers, with and without the injected failure
            ref = refs[op['variant']]._compile(fs)
            P.INDEX.clear()
            del sympool.CALLS[:], sympool.RAISED[:]
            try:
                o['ref'] = {'val': to_json(ref(op['key']))}
            except BaseException as e:  # noqa
                o['ref'] = {'exc': 'User:' + str(e.args[0]) if (sympool.RAISED and e is sympool.RAISED[-1]) else _cls(e)}
            sympool.BAD.clear()
            del sympool.CALLS[:], sympool.RAISED[:]
            try:
                o['ref_nofail'] = {'val': to_json(ref(op['key']))}
            except BaseException as e:  # noqa
                o['ref_nofail'] = {'exc': _cls(e)}
            pending_bad = None
        if op['op'] == 'call':
            try:
                o['ids_now'] = list(built[op['variant']][0].ids)
            except BaseException as e:  # noqa
                o['ids_now'] = 'ERR:' + type(e).__name__
        o['ram_sizes'] = [[ci.ids[k], len(c._cache), c.size] for k, c in zip(list(ci.ids), ci.objs) if k[0] == 'ram']
        o['col_sizes'] = [[vi, li, len(l.ram._cache)] for vi, (_, ls) in enumerate(built) for li, l in enumerate(ls)
                          if type(l).__name__ == 'CacheColumns']
        obs.append(o)
    for gr in graphs:
        if gr is not None:
            gr.pop('_seen')
    case['graphs'] = graphs
    case['caches'] = ci.kinds
    case['obs'] = obs
    case['unsupported'] = unsupported
    for r in roots:
        shutil.rmtree(r, ignore_errors=True)
    return case


def _digest(h):
    import hashlib
    from tarn.pickler import dumps
    return hashlib.sha256(dumps(h.value)).hexdigest()


def _cls(e):
    for cls, name in ((KeyError, 'KeyError'), (ValueError, 'ValueError')):
        if type(e) is cls:
            return name
    return 'Internal'


def main():
    ap = argparse.ArgumentParser()
    ap.add_argument('--seed', type=int, default=0)
    ap.add_argument('--n', type=int, default=50)
    ap.add_argument('--ops', type=int, default=14)
    ap.add_argument('--out', required=True)
    ap.add_argument('--work', required=True)
    ap.add_argument('--no-disk', action='store_true')
    ap.add_argument('--columns', action='store_true')
    a = ap.parse_args()
    rnd = random.Random(a.seed)
    cases = []
    for i in range(a.n):
        spec, ids, fields, n_roots, sy = gen_spec(rnd, not a.no_disk, a.columns)
        variants = [spec]
        has_cols = any(d['t'] == 'columns' for d in spec)
        if rnd.random() < (0.7 if has_cols else 0.4):
            variants.append(variant_of(spec, sy, rnd))
        ops = gen_ops(rnd, ids, fields, len(variants), spec, rnd.randint(3, a.ops), allow_typed=not a.columns)
        if len(variants) == 2 and a.columns:
            swapped = [(x, y) for x, y in zip(variants[0], variants[1]) if x['t'] == 'columns' and y['t'] == 'disk']
            if swapped:
                # the last id may sit alone in its shard: ask both variants for it, in either order
                f = swapped[0][0]['names'][0]
                order = [0, 1] if rnd.random() < 0.5 else [1, 0]
                ops += [{'op': 'call', 'variant': vv, 'fields': f, 'key': sorted(ids)[-1]} for vv in order + order]
        cases.append({'variants': variants, 'ids': ids, 'fields': fields, 'n_roots': n_roots, 'ops': ops})
    os.makedirs(a.work, exist_ok=True)
    out = [run_case(c, a.work) for c in cases]
    dump({'cases': out}, a.out)


if __name__ == '__main__':
    main()
