"""Dataset-wide layers on the real code: Merge, Filter/CheckIds, Join, GroupBy, Split over generated id sets.

    relational.py --seed S --n N --out FILE
One record per case with the abstract input (id sets, key assignments, predicate tables ...) and what the
implementation exposes: ids, per-id field values or exception classes, which user functions ran, hash equalities.
"""
import argparse
import collections
import hashlib
import os
import random
import sys

sys.path.insert(0, os.path.dirname(__file__))
import pipelines as P  # noqa
import sympool  # noqa
from common import dump, to_json  # noqa
from connectome import CheckIds, Filter, GroupBy, Join, Merge, Source, Transform, meta  # noqa
from connectome.interface.edges import Function  # noqa
from connectome.interface.metaclasses import SourceBase  # noqa
from tarn.pickler import dumps  # noqa

ALL = ['a', 'b', 'c', 'd', 'e', 'f', 'g', 'h']


def cls_name(e):
    return type(e).__name__


def digest(h):
    return hashlib.sha256(dumps(h.value)).hexdigest()


def call(fn, *a):
    del sympool.CALLS[:]
    try:
        return {'val': to_json(fn(*a)), 'ran': sorted({c[0] for c in sympool.CALLS})}
    except BaseException as e:  # noqa
        return {'exc': cls_name(e), 'ran': sorted({c[0] for c in sympool.CALLS})}


def source(ids, fields, extra_meta=(), ids_name='ids', ids_as_str=False):
    """fields: {name: sym}"""
    return P.build_layer({'t': 'source', 'ids': list(ids), 'fields': fields, 'ids_name': ids_name, 'ids_as_str': ids_as_str}, [])


# ------------------------------------------------------------------------------------------------ Merge
def case_merge(rnd):
    n = rnd.randint(1, 4)
    kind = rnd.choice(['disjoint'] * 6 + ['overlap', 'overlap-nonadjacent', 'empty'])
    pool = ALL[:]
    rnd.shuffle(pool)
    sets = []
    for i in range(n):
        k = rnd.randint(0 if kind == 'empty' and i == rnd.randrange(n) else 1, 3)
        sets.append(sorted(pool[:k]))
        pool = pool[k:]
    if kind == 'overlap' and n >= 2 and sets[0]:
        sets[1] = sorted(set(sets[1]) | {sets[0][0]})
    if kind == 'overlap-nonadjacent' and n >= 3 and sets[0]:
        sets[2] = sorted(set(sets[2]) | {sets[0][-1]})
    if kind == 'empty':
        sets[rnd.randrange(n)] = []
    common = ['image', 'mask'][:rnd.randint(1, 2)]
    dsets = []
    for i, s in enumerate(sets):
        fields = {f: f's{(10 * i + j):03d}' for j, f in enumerate(common)}
        if rnd.random() < 0.3:
            fields['extra%d' % i] = f's{(10 * i + 9):03d}'
        dsets.append({'ids': s, 'fields': fields})
    # the key property need not be called `ids`; a dataset may give its ids as a string of one-character ids
    ids_name = 'keys' if rnd.random() < 0.15 else 'ids'
    as_str = [bool(d['ids']) and rnd.random() < 0.15 for d in dsets]
    rec = {'kind': 'merge', 'datasets': dsets, 'common': common, 'ids_name': ids_name, 'ids_as_str': as_str}
    layers = [source(d['ids'], d['fields'], ids_name=ids_name, ids_as_str=a) for d, a in zip(dsets, as_str)]
    # the dataset objects may have been used before, as the head of a pipeline whose tail has a meta field of its own
    rec['reused'] = []
    for k, l in enumerate(layers):
        if rnd.random() < 0.3:
            try:
                from connectome import Chain
                Chain(l, P.build_layer({'t': 'transform', 'fields': {'n_items': ['s099', []]}, 'params': {}, 'inherit': True, 'meta': ['n_items']}, []))
                rec['reused'].append(k)
            except BaseException:  # noqa
                pass
    try:
        m = Merge(*layers)
    except BaseException as e:  # noqa
        rec['build_exc'] = cls_name(e)
        return rec
    try:
        rec['ids'] = list(getattr(m, ids_name))
    except BaseException as e:  # noqa
        rec['ids_exc'] = cls_name(e)
        rec['ids'] = []
    rec['fields'] = sorted(x for x in dir(m))
    rows = []
    for i in sorted(set(sum(sets, [])) | {'zz'}):
        for f in common:
            r = call(getattr(m, f), i)
            owner = [k for k, s in enumerate(sets) if i in s]
            if 'val' in r and len(owner) == 1:
                g = m._compile(f)
                go = layers[owner[0]]._compile(f)
                r['hash_equals_owner'] = digest(g.get_hash(i)[0]) == digest(go.get_hash(i)[0])
            rows.append({'id': i, 'field': f, 'res': r})
    rec['rows'] = rows
    # the key field: the id itself for the ids of the merged dataset, rejected otherwise
    rec['id_rows'] = [{'id': i, 'res': {k: v for k, v in call(m.id, i).items() if k != 'ran'}} for i in sorted(set(sum(sets, [])) | {'zz'})]
    return rec


# ------------------------------------------------------------------------------------------------ Filter / CheckIds
def case_filter(rnd):
    ids = rnd.sample(ALL, rnd.randint(1, 6))          # deliberately not sorted
    fields = {'image': 's001', 'mask': 's002'}
    truth = {i: rnd.random() < 0.55 for i in ALL + ['zz']}
    truth2 = {i: rnd.random() < 0.6 for i in ALL + ['zz']}
    which = rnd.choice(['pred-one', 'pred-two', 'pred-id', 'keep', 'drop', 'stacked'])
    # predicates see field VALUES; the value of image for id i is the string $s001('i')
    truth_b = {i: rnd.random() < 0.5 for i in ALL + ['zz']}
    # the value of image in a second dataset (used below) is $s005('i'): the predicate then follows another table
    seen_results = [0]

    def as_result(b):
        # a predicate may return any object: what counts is its truth value
        seen_results[0] += 1
        return (TRUTHY if b else FALSY)[seen_results[0] % 5]
    TRUTHY, FALSY = [True, 1, 2, 'yes', [0]], [False, 0, '', None, []]
    sympool.TABLE['t001'] = lambda image: as_result((truth_b if image.startswith('$s005(') else truth)[image.split("'")[1]])
    def both(mask, image):
        # the predicate is bound to the fields by argument NAME: each argument must carry the value of its own field
        assert image.startswith('$s001(') and mask.startswith('$s002('), (mask, image)
        return truth[image.split("'")[1]] and truth2[mask.split("'")[1]]
    sympool.TABLE['t002'] = both
    sympool.TABLE['t003'] = lambda id: as_result(truth[id])
    sympool.TABLE['t004'] = lambda mask: truth2[mask.split("'")[1]]
    src = source(ids, fields)
    rec = {'kind': 'filter', 'ids': ids, 'which': which, 'truth': truth, 'truth2': truth2}
    if which == 'pred-one':
        layers = [{'t': 'filter', 'pred': ['t001', ['image']]}]
        rec['expect_pred'] = 'truth'
    elif which == 'pred-two':
        layers = [{'t': 'filter', 'pred': ['t002', ['mask', 'image']]}]
        rec['expect_pred'] = 'both'
    elif which == 'pred-id':
        layers = [{'t': 'filter', 'pred': ['t003', ['id']]}]
        rec['expect_pred'] = 'truth'
    elif which in ('keep', 'drop'):
        sel = rnd.sample(ALL, rnd.randint(0, 5))
        if rnd.random() < 0.4:
            sel = iter(sel) if rnd.random() < 0.5 else (x for x in list(sel))      # one-shot iterables are allowed by the signature
            rec['sel_iter'] = True
        sel_list = None
        layers = [{'t': which, 'ids': sel}]
    else:
        layers = [{'t': 'filter', 'pred': ['t001', ['image']]}, {'t': 'filter', 'pred': ['t004', ['mask']]}]
        rec['expect_pred'] = 'both'
    if which in ('keep', 'drop'):
        sel_seen = list(layers[0]['ids']) if not rec.get('sel_iter') else None
        if rec.get('sel_iter'):
            # materialise a copy for the record before handing the one-shot iterable to the library
            tmp = list(layers[0]['ids'])
            rec['sel'] = tmp
            layers[0]['ids'] = iter(tmp)
        else:
            rec['sel'] = sel_seen
    try:
        built = [P.build_layer(d, []) for d in layers]
        chain = src
        for b in built:
            chain = chain >> b
        rec['new_ids'] = list(chain.ids)
    except BaseException as e:  # noqa
        rec['build_exc'] = cls_name(e)
        return rec
    # the same layer OBJECTS connected to a second dataset afterwards: they must follow the dataset they are connected to
    if which in ('pred-one', 'keep', 'drop'):
        ids2 = rnd.sample(ALL, rnd.randint(1, 6))
        try:
            chain2 = source(ids2, {'image': 's005', 'mask': 's002'})
            for b in built:
                chain2 = chain2 >> b
            got2 = list(chain2.ids)
        except BaseException as e:  # noqa
            got2 = 'ERR:' + cls_name(e)
        if which == 'pred-one':
            want2 = [i for i in ids2 if truth_b[i]]
        elif which == 'keep':
            want2 = [i for i in ids2 if i in rec['sel']]
        else:
            want2 = [i for i in ids2 if i not in rec['sel']]
        rec['reuse'] = {'ids2': ids2, 'got': got2, 'want': want2}
    rows = []
    for i in ids:
        for f in fields:
            a, b = call(getattr(chain, f), i), call(getattr(src, f), i)
            same_hash = digest(chain._compile(f).get_hash(i)[0]) == digest(src._compile(f).get_hash(i)[0])
            rows.append({'id': i, 'field': f, 'same_value': a.get('val') == b.get('val') and 'val' in a, 'same_hash': same_hash})
    rec['rows'] = rows
    # CheckIds in front of the filter changes neither the kept ids nor their hash
    try:
        with_chk = src >> CheckIds()
        for b in [P.build_layer(d, []) for d in layers] if which not in ('keep', 'drop') else []:
            with_chk = with_chk >> b
        if which not in ('keep', 'drop'):
            rec['checkids_before_filter'] = {'same_ids': list(with_chk.ids) == rec['new_ids'],
                                             'same_hash': digest(with_chk._compile('ids').get_hash()[0]) == digest(chain._compile('ids').get_hash()[0])}
        if which not in ('keep', 'drop'):
            # ... and a second CheckIds after the filter checks against the FILTERED ids
            twice = with_chk >> CheckIds()
            rec['checkids_twice'] = [{'id': i, 'inside': i in rec['new_ids'], 'res': {k: v for k, v in call(twice.image, i).items() if k != 'ran'}}
                                     for i in ALL[:6] + ['zz']]
    except BaseException as e:  # noqa
        rec['checkids_before_filter'] = {'exc': cls_name(e)}
    # CheckIds on top: foreign ids are rejected, the others untouched
    chk = chain >> CheckIds()
    crow = []
    for i in ALL[:6] + ['zz']:
        r = call(chk.image, i)
        inside = i in rec['new_ids']
        item = {'id': i, 'inside': inside, 'res': {k: v for k, v in r.items() if k != 'ran'}}
        if inside and 'val' in r:
            item['same_value'] = r['val'] == call(src.image, i).get('val')
            item['same_hash'] = digest(chk._compile('image').get_hash(i)[0]) == digest(src._compile('image').get_hash(i)[0])
        crow.append(item)
    rec['checkids'] = crow
    return rec


# ------------------------------------------------------------------------------------------------ Join
def case_join(rnd):
    how = rnd.choice(['inner', 'left', 'right', 'outer'])
    nkeys = rnd.choice([1, 1, 2])
    kvals = ['k1', 'k2', 'k3', 'k4']
    dup = rnd.random() < 0.2
    int_keys = nkeys == 1 and not dup and rnd.random() < 0.2
    if int_keys:
        kvals = [2, 10, 33, 100, -5]          # keys whose order is not the order of their str()
    def side(prefix, n):
        ids = [f'{prefix}{i}' for i in range(n)]
        if ids and rnd.random() < 0.3:
            ids[rnd.randrange(n)] = ''          # a falsy id is an id like any other
        keys = {}
        pool = kvals[:]
        rnd.shuffle(pool)
        for j, i in enumerate(ids):
            keys[i] = [pool[j % len(pool)] if not (dup and j == n - 1 and n >= 2) else pool[0]] + (['x'] if nkeys == 2 else [])
        return ids, keys
    lids, lkeys = side('L', rnd.randint(0, 4))
    rids, rkeys = side('R', rnd.randint(0, 4))
    on = ['key'] + (['key2'] if nkeys == 2 else [])
    counts = collections.Counter()

    def counted(name, fn):
        def f(i):
            counts[(name, i)] += 1
            return fn(i)
        return f
    sympool.TABLE['t010'] = counted('t010', lambda i: lkeys[i][0])
    sympool.TABLE['t011'] = counted('t011', lambda i: rkeys[i][0])
    sympool.TABLE['t012'] = counted('t012', lambda i: lkeys[i][1])
    sympool.TABLE['t013'] = counted('t013', lambda i: rkeys[i][1])

    def mk(ids, ks, vsym, vname):
        items = [('ids', meta(Function(P._const_ids(tuple(ids))))), ('key', Function(sympool.t010 if ks == 0 else sympool.t011, 'i'))]
        if nkeys == 2:
            items.append(('key2', Function(sympool.t012 if ks == 0 else sympool.t013, 'i')))
        items.append((vname, Function(P.sym(vsym), 'i')))
        return SourceBase(items)
    left, right = mk(lids, 0, 's020', 'lval'), mk(rids, 1, 's021', 'rval')
    opt_left = how == 'inner' and rnd.random() < 0.4
    if opt_left:
        # the left pipeline has an optional field whose input nothing provides: it is left out quietly, with or without the Join
        from connectome import Transform, optional
        left = left >> Transform(mask=optional(Function(P.sym('s022'), 'mask')), __inherit__=True)
    custom = nkeys == 1 and not int_keys and rnd.random() < 0.25
    rec = {'kind': 'join', 'how': how, 'on': on, 'left': {'ids': lids, 'keys': lkeys}, 'right': {'ids': rids, 'keys': rkeys}, 'int_keys': int_keys, 'optional_left': opt_left,
           'custom_to_key': custom}
    try:
        # a user-supplied to_key applies to a single key field as well
        j = Join(left, right, on, how=how, to_key=_custom_key) if custom else Join(left, right, on, how=how)
        rec['ids'] = list(j.ids)
    except BaseException as e:  # noqa
        rec['build_exc'] = cls_name(e)
        return rec
    rows = []
    if int_keys:
        return rec          # compared with a direct computation of the ids (the model orders strings)
    probe = sorted(set(rec['ids']) | {'zz'} | {(('K:' + _k(v)) if custom else _k(v)) for v in list(lkeys.values()) + list(rkeys.values())})
    for i in probe:
        row = {'id': i}
        for f in ['lval', 'rval', 'key']:
            row[f] = {k: v for k, v in call(getattr(j, f), i).items()}
        rows.append(row)
    rec['rows'] = rows
    # the key mapping is computed once per pipeline object: ids again, every value field again
    before = dict(counts)
    list(j.ids)
    for i in rec['ids'][:3]:
        for f in ['lval', 'rval']:
            call(getattr(j, f), i)
    rec['mapping_recomputed'] = sorted(f'{k[0]}({k[1]!r}) x{v}' for k, v in counts.items() if v - before.get(k, 0) > 0)[:6]
    return rec


def _custom_key(values):
    return 'K:' + values[0]


def _k(vals):
    if len(vals) == 1:
        return vals[0]
    from connectome.layers.join import to_hash_id
    return to_hash_id(vals)


# ------------------------------------------------------------------------------------------------ GroupBy
def case_group(rnd):
    ids = sorted(rnd.sample(ALL, rnd.randint(1, 6)))
    mode = rnd.choice(['name', 'names', 'callable', 'name-tuple'])
    g1 = {i: rnd.choice(['x', 'y', 'z']) for i in ALL}
    if mode == 'name-tuple':
        # the field to group by may hold tuples / lists of strings: the group key is to_key(value), the field keeps its values
        g1 = {i: rnd.choice([('x',), ('x', 'y'), ['y'], ('z', 'x')]) for i in ALL}
    g2 = {i: rnd.choice(['p', 'q']) for i in ALL}
    counts = collections.Counter()

    def counted(name, fn):
        def f(i):
            counts[(name, i)] += 1
            return fn(i)
        return f
    sympool.TABLE['t020'] = counted('t020', lambda i: g1[i])
    sympool.TABLE['t021'] = counted('t021', lambda i: g2[i])
    src = SourceBase([('ids', meta(Function(P._const_ids(tuple(ids))))), ('g1', Function(sympool.t020, 'i')), ('g2', Function(sympool.t021, 'i')),
                      ('image', Function(sympool.s030, 'i'))])
    rec = {'kind': 'group', 'ids': ids, 'mode': mode, 'g1': g1, 'g2': g2}
    try:
        if mode in ('name', 'name-tuple'):
            layer = src >> GroupBy('g1')
        elif mode == 'names':
            layer = src >> GroupBy(['g1', 'g2'])
        else:
            def by(g2, g1):
                return g1 + '-' + g2
            layer = src >> GroupBy(by)
        rec['new_ids'] = list(layer.ids)
    except BaseException as e:  # noqa
        rec['build_exc'] = cls_name(e)
        return rec
    rows = []
    for k in rec['new_ids'] + ['zz']:
        rows.append({'key': k, 'image': call(layer.image, k)})
    rec['rows'] = rows
    if mode in ('name', 'name-tuple', 'names'):
        # the field the dataset is grouped by is a field like any other: {old id: old value} for the members of the group
        from connectome.layers.group import to_key as _to_key
        bad = []
        for k in rec['new_ids']:
            members = [i for i in ids if (_to_key(g1[i]) if mode != 'names' else _to_key(g1[i], g2[i])) == k]
            try:
                got = layer.g1(k)
            except BaseException as e:  # noqa
                got = 'ERR:' + cls_name(e)
            want = {i: g1[i] for i in members}
            if got != want:
                bad.append({'key': k, 'got': to_json(got) if not isinstance(got, str) else got, 'want': to_json(want)})
        rec['by_field_bad'] = bad[:3]
    rec['ids_after_unknown_key'] = list(layer.ids)        # asking for an unknown group changes nothing
    before = dict(counts)
    list(layer.ids)
    for k in rec['new_ids'][:3]:
        call(layer.image, k)
    rec['mapping_recomputed'] = sorted(f'{k[0]}({k[1]!r}) x{v}' for k, v in counts.items() if v - before.get(k, 0) > 0)[:6]
    if mode == 'names':
        from connectome.layers.group import to_key
        rec['expected_keys'] = {i: to_key(g1[i], g2[i]) for i in ids}
    if mode == 'name-tuple':
        from connectome.layers.group import to_key
        rec['expected_keys'] = {i: to_key(g1[i]) for i in ids}
        rec['g1'] = {i: list(v) for i, v in g1.items()}
    return rec


# ------------------------------------------------------------------------------------------------ Split
def case_split(rnd):
    from connectome import Split
    ids = rnd.sample(ALL, rnd.randint(1, 5))          # deliberately not sorted
    collide = rnd.random() < 0.2
    parts = {i: [(f'{i}-{j}' if not (collide and j == 0 and i == ids[-1] and len(ids) > 1) else f'{ids[0]}-0', f'part{j}') for j in range(rnd.randint(0, 3))] for i in ALL}
    for i in ALL:
        rnd.shuffle(parts[i])                         # __split__ may yield the parts in any order
    counts = collections.Counter()

    def split_fn(id):
        counts[('__split__', id)] += 1
        return parts[id]
    sympool.TABLE['t030'] = split_fn

    two = rnd.random() < 0.5
    rec_two = two
    if two:
        class Sp(Split):
            def __split__(image, id):          # the parameters are bound by NAME, whatever their order
                assert image.startswith('$s041(') and not id.startswith('$'), (image, id)
                return sympool.t030(id)

            def image(image, __part__):
                return sympool.s040(image, __part__)

            def origin(id, __part__):              # the fields of the Split see the entry they are a part of: its id, not the new one
                return sympool.s042(id, __part__)
    else:
        class Sp(Split):
            def __split__(id):
                return sympool.t030(id)

            def image(image, __part__):
                return sympool.s040(image, __part__)

            def origin(id, __part__):
                return sympool.s042(id, __part__)
    src = source(ids, {'image': 's041'})
    rec = {'kind': 'split', 'ids': ids, 'parts': {i: parts[i] for i in ids}, 'two_parameters': rec_two}
    try:
        layer = src >> Sp()
        rec['new_ids'] = list(layer.ids)
    except BaseException as e:  # noqa
        rec['build_exc'] = cls_name(e)
        return rec
    rows = []
    for k in rec['new_ids'] + ['zz']:
        rows.append({'key': k, 'image': call(layer.image, k)})
    rec['rows'] = rows
    where = {new: (old, part) for old in ids for new, part in parts[old]}
    bad = []
    for k in rec['new_ids']:
        try:
            got = layer.origin(k)
        except BaseException as e:  # noqa
            got = 'ERR:' + cls_name(e)
        want = sympool.render('s042', where[k], ())
        if got != want:
            bad.append({'key': k, 'got': got, 'want': want})
    rec['origin_bad'] = bad[:3]
    before = dict(counts)
    list(layer.ids)
    list(layer.ids)
    for k in rec['new_ids'][:3]:
        call(layer.image, k)
    rec['mapping_recomputed'] = sorted(f'{k[0]}({k[1]!r}) x{v}' for k, v in counts.items() if v - before.get(k, 0) > 0)[:6]
    return rec


GEN = {'merge': case_merge, 'filter': case_filter, 'join': case_join, 'group': case_group, 'split': case_split}


def main():
    ap = argparse.ArgumentParser()
    ap.add_argument('--seed', type=int, default=0)
    ap.add_argument('--n', type=int, default=100)
    ap.add_argument('--kinds', default='merge,filter,join,group,split')
    ap.add_argument('--out', required=True)
    a = ap.parse_args()
    rnd = random.Random(a.seed)
    out = []
    for kind in a.kinds.split(','):
        for _ in range(a.n):
            try:
                out.append(GEN[kind](rnd))
            except BaseException as e:  # noqa
                import traceback
                out.append({'kind': kind, 'harness_error': traceback.format_exc()[-600:]})
    dump({'cases': out}, a.out)


if __name__ == '__main__':
    main()
