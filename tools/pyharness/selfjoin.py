"""One graph that contains the SAME Merge twice, with different keys: the two sides of a Join are both built from one Merge object, and a cached
field downstream needs a field from each side, so the hashes of both sides are computed before their values (C03, C14).  Each entry must be
computed by the functions of the dataset that owns ITS id, each function once.

    selfjoin.py --seed S --n N --out FILE
"""
import argparse
import os
import random
import sys

sys.path.insert(0, os.path.dirname(__file__))
import pipelines as P  # noqa
import sympool  # noqa
from common import dump, exc_name  # noqa
from connectome import CacheToRam, Join, Merge, Transform  # noqa
from connectome.interface.edges import Function  # noqa


def one(rnd):
    na, nb = rnd.randint(1, 3), rnd.randint(1, 3)
    A = [f'a{i}' for i in range(na)]
    B = [f'b{i}' for i in range(nb)]
    m = Merge(P.build_layer({'t': 'source', 'ids': A, 'fields': {'image': 's125'}}, []), P.build_layer({'t': 'source', 'ids': B, 'fields': {'image': 's126'}}, []))
    n = min(na, nb)
    key_l = {**{A[i]: f'k{i}' for i in range(na)}, **{b: 'xl-' + b for b in B}}
    key_r = {**{B[i]: f'k{i}' for i in range(nb)}, **{a: 'xr-' + a for a in A}}
    sympool.TABLE['t036'] = lambda i: key_l[i]
    sympool.TABLE['t037'] = lambda i: key_r[i]
    left = m >> Transform(key=Function(P.sym('t036'), 'id'), lval=Function(P.sym('s127'), 'image'))
    right = m >> Transform(key=Function(P.sym('t037'), 'id'), rval=Function(P.sym('s128'), 'image'))
    cached = rnd.choice(['ram', 'ram', 'none'])
    rec = {'A': A, 'B': B, 'cache': cached, 'rows': []}
    try:
        j = Join(left, right, 'key') >> Transform(z=Function(P.sym('s129'), 'lval', 'rval'), __inherit__=True)
        if cached == 'ram':
            j = j >> CacheToRam('z')
        rec['ids'] = list(j.ids)
    except BaseException as e:  # noqa
        rec['build_exc'] = exc_name(e)
        return rec
    for i in range(n):
        k = f'k{i}'
        lv = sympool.render('s127', (sympool.render('s125', (A[i],), ()),), ())
        rv = sympool.render('s128', (sympool.render('s126', (B[i],), ()),), ())
        want = sympool.render('s129', (lv, rv), ())
        del sympool.CALLS[:]
        try:
            got = j.z(k)
        except BaseException as e:  # noqa
            got = 'ERR:' + exc_name(e)
        ran = sorted(c[0] for c in sympool.CALLS if c[0].startswith('s'))
        rec['rows'].append({'key': k, 'left_id': A[i], 'right_id': B[i], 'got': got, 'want': want, 'ran': ran,
                            'want_ran': ['s125', 's126', 's127', 's128', 's129']})
    return rec


def main():
    ap = argparse.ArgumentParser()
    ap.add_argument('--seed', type=int, default=0)
    ap.add_argument('--n', type=int, default=30)
    ap.add_argument('--out', required=True)
    a = ap.parse_args()
    rnd = random.Random(f'selfjoin/{a.seed}')
    dump({'cases': [one(rnd) for _ in range(a.n)]}, a.out)


if __name__ == '__main__':
    main()
