"""Multi-field requests on ONE pipeline object (C01 / C02): every tuple of fields, asked in several orders and more than
once, must return the single-field values in the order of the request.

    multifield.py --seed S --n N --out FILE
"""
import argparse
import json
import os
import random
import sys

sys.path.insert(0, os.path.dirname(__file__))
import pipelines as P  # noqa
import sympool  # noqa
import histories as H  # noqa
from common import dump, exc_name, to_json  # noqa
from connectome.engine.compiler import identity  # noqa


def one(rnd):
    spec, ids, fields, nroots, sy = H.gen_spec(rnd, allow_disk=False, allow_columns=False)
    if rnd.random() < 0.5:
        spec = H.strip_caches(spec)
    layer, _ = P.build(spec, [])
    names = fields + ['id'] if rnd.random() < 0.5 else list(fields)
    key = rnd.choice(ids)
    rec = {'spec': spec, 'key': key, 'requests': []}
    singles = {}
    for f in names:
        try:
            singles[f] = {'val': to_json(layer._compile(f)(key))}
        except BaseException as e:  # noqa
            singles[f] = {'exc': exc_name(e)}
    rec['singles'] = singles
    good = [f for f in names if 'val' in singles[f]]
    if len(good) < 2:
        return rec
    base = rnd.sample(good, rnd.randint(2, min(3, len(good))))
    orders = [list(base), list(reversed(base)), list(base)]
    extra = list(base)
    rnd.shuffle(extra)
    orders.append(extra)
    how = rnd.choice(['compile', 'call'])
    for o in orders:
        r = {'fields': o, 'how': how}
        del sympool.CALLS[:]
        try:
            if how == 'compile':
                v = layer._compile(o)(key)
            else:
                v = layer(key)[tuple(o)] if hasattr(layer(key), '__getitem__') else layer._compile(o)(key)
            r['val'] = to_json(v)
        except BaseException as e:  # noqa
            r['exc'] = exc_name(e)
        # one request is one call: no user function runs twice on the same arguments, however many fields are asked for
        log = [json.dumps([n, [to_json(x) for x in a_], [[kk, to_json(x)] for kk, x in kw]], sort_keys=True) for n, a_, kw in sympool.CALLS]
        r['repeated'] = sorted([x, log.count(x)] for x in set(log) if log.count(x) > 1)[:4]
        rec['requests'].append(r)
    return rec


def virtual_case(rnd):
    """a layer without a source: names it inherits but does not define are served as raw inputs (virtual fields); inputs
    may have any name (also `self`), and calls may pass them by keyword"""
    from connectome import Transform
    from connectome.interface.edges import Function
    names = rnd.sample(['a', 'b', 'self', 'args', 'key', 'value'], rnd.randint(2, 4))
    defined = rnd.sample(['y', 'z'], rnd.randint(1, 2))
    srcs = {d: rnd.sample(names, rnd.randint(1, 2)) for d in defined}
    layer = Transform(**{d: Function(P.sym(f's10{i}'), *srcs[d]) for i, d in enumerate(defined)}, __inherit__=True)
    env = {n: 'IN:' + n for n in names}
    rec = {'spec': [{'t': 'virtual', 'defined': srcs, 'inputs': names}], 'key': None, 'requests': [], 'singles': {}}
    for f in names + defined:
        try:
            g = layer._compile(f)
            if g is identity:          # a purely virtual name: the raw input itself
                rec['singles'][f] = {'val': to_json(env[f])}
                continue
            kw = {x: env[x] for x in g.__signature__.parameters}
            rec['singles'][f] = {'val': to_json(g(**kw))}
        except BaseException as e:  # noqa
            rec['singles'][f] = {'exc': exc_name(e)}
    rec['single_failures'] = sorted(f for f in names + defined if 'exc' in rec['singles'][f])
    good = [f for f in names + defined if 'val' in rec['singles'][f]]
    for _ in range(4):
        if len(good) < 2:
            break
        o = rnd.sample(good, rnd.randint(2, min(4, len(good))))
        r = {'fields': o, 'how': 'compile+keywords'}
        try:
            g = layer._compile(o)
            kw = {x: env[x] for x in g.__signature__.parameters}
            r['val'] = to_json(g(**kw))
        except BaseException as e:  # noqa
            r['exc'] = exc_name(e)
        rec['requests'].append(r)
    return rec


def main():
    ap = argparse.ArgumentParser()
    ap.add_argument('--seed', type=int, default=0)
    ap.add_argument('--n', type=int, default=100)
    ap.add_argument('--out', required=True)
    a = ap.parse_args()
    rnd = random.Random(a.seed * 31 + 7)
    dump({'cases': [one(rnd) if rnd.random() < 0.7 else virtual_case(rnd) for _ in range(a.n)]}, a.out)


if __name__ == '__main__':
    main()
