"""C13 on the real code: pipelines with an @impure function somewhere, followed by a caching or keying layer.

    impure.py --seed S --n N --out FILE --work DIR
Per case: the prefix pipeline (always builds), the compiled graphs of the fields the final layer touches (extracted
for the Coq model), the final layer, and whether connecting it raised.
"""
import argparse
import os
import random
import shutil
import sys

sys.path.insert(0, os.path.dirname(__file__))
import pipelines as P  # noqa
import sympool  # noqa
from common import dump  # noqa

FIELDS = ['image', 'mask', 'spacing']


def gen(rnd):
    n = 0

    def fresh():
        nonlocal n
        n += 1
        return f's{n:03d}'
    ids = ['a', 'b', 'c']
    def src(ids_):
        d = {'t': 'source', 'ids': ids_, 'fields': {f: fresh() for f in FIELDS}}
        return d
    where = rnd.choice(['none', 'source', 'field', 'param', 'field', 'param', 'merge-branch', 'zero-arg', 'zero-arg'])
    if where == 'merge-branch':
        parts = [[src(['a'])], [src(['b', 'c'])]]
        spec = [{'t': 'merge', 'parts': parts}]
    else:
        spec = [src(ids)]
    if where == 'source':
        # an impure source field: built as a transform right after the source
        spec.append({'t': 'transform', 'fields': {'image': [fresh(), ['image']]}, 'params': {}, 'inherit': True, 'impure': ['image']})
    nl = rnd.randint(1, 3)
    pos = rnd.randrange(nl)
    for li in range(nl):
        f = rnd.choice(FIELDS)
        args = [f] if rnd.random() < 0.5 else [f, rnd.choice(FIELDS)]
        t = {'t': 'transform', 'fields': {f: [fresh(), args]}, 'params': {}, 'inherit': True}
        if rnd.random() < 0.5:
            t['params']['_p'] = [fresh(), [rnd.choice(FIELDS)]]
            t['fields'][f][1] = t['fields'][f][1] + ['_p']
        if li == pos and where in ('field', 'merge-branch'):
            t['impure'] = [f]
        if li == pos and where == 'zero-arg':
            # an impure function without arguments (a clock, a counter, a seed) as a private parameter
            t['params']['_p'] = [fresh(), []]
            if '_p' not in t['fields'][f][1]:
                t['fields'][f][1] = t['fields'][f][1] + ['_p']
            t['impure'] = ['_p']
        if li == pos and where == 'param':
            if '_p' not in t['params']:
                t['params']['_p'] = [fresh(), [rnd.choice(FIELDS)]]
                t['fields'][f][1] = t['fields'][f][1] + ['_p']
            t['impure'] = ['_p']
        spec.append(t)
    # an upstream cache layer that was explicitly allowed to cache the impure value
    if where != 'none' and rnd.random() < 0.3:
        spec.append({'t': 'ram', 'names': None, 'size': None, 'impure': True})
        if rnd.random() < 0.5:
            g = rnd.choice(FIELDS)
            spec.append({'t': 'transform', 'fields': {g: [fresh(), [g]]}, 'params': {}, 'inherit': True})
    # a field that sees the (possibly impure) value only through a Silent argument
    if rnd.random() < 0.25:
        a, b = rnd.sample(FIELDS, 2)
        spec.append({'t': 'transform', 'fields': {a: [fresh(), [a, '~' + b]]}, 'params': {}, 'inherit': True})
    elif rnd.random() < 0.25:
        spec = [spec[0], {'t': 'chain', 'layers': spec[1:]}] if len(spec) > 2 else spec
    names = sorted(rnd.sample(FIELDS, rnd.randint(1, 3)))
    kind = rnd.choice(['ram', 'ram-all', 'disk', 'columns', 'filter', 'groupby', 'join'])
    flag = rnd.random() < 0.35
    silent_only = None
    if rnd.random() < 0.12:
        # the impure value reaches the keyed / cached field through a Silent argument ONLY: its hash is ignored, its value still takes part
        a, b = rnd.sample(FIELDS, 2)
        spec = [src(ids),
                {'t': 'transform', 'fields': {b: [fresh(), [b]]}, 'params': {}, 'inherit': True, 'impure': [b]},
                {'t': 'transform', 'fields': {a: [fresh(), [a, '~' + b]]}, 'params': {}, 'inherit': [x for x in FIELDS + ['id', 'ids'] if x not in (a, b)]}]
        where, silent_only = 'silent-only', a
        kind = rnd.choice(['ram', 'disk', 'columns', 'filter', 'groupby', 'join'])
        names = [a]
    bare = len(names) == 1 and rnd.random() < 0.6
    if kind == 'ram':
        final = {'t': 'ram', 'names': names, 'size': None, 'impure': flag, 'names_as_str': bare}
    elif kind == 'ram-all':
        final = {'t': 'ram', 'names': None, 'size': None, 'impure': flag}
        names = FIELDS + ['id', 'ids']
    elif kind == 'disk':
        final = {'t': 'disk', 'names': names, 'root': 0, 'impure': flag, 'names_as_str': bare}
    elif kind == 'columns':
        final = {'t': 'columns', 'names': names, 'root': 0, 'shard': None}
        flag = False
    elif kind == 'filter':
        names = names[:2]
        final = {'t': 'filter', 'pred': ['t000', names]}
        flag = False
    elif kind == 'join':
        on = silent_only or rnd.choice(FIELDS)
        final = {'t': 'join', 'on': on}
        names = [on]            # Join hashes the graph of the key field on both sides
        flag = False
    else:
        by = silent_only or rnd.choice(FIELDS)
        final = {'t': 'groupby', 'by': by}
        names = FIELDS if silent_only is None else [x for x in FIELDS if x != b]         # GroupBy hashes the graph of every field and of the key
        flag = False
    return {'spec': spec, 'final': final, 'touched': names, 'kind': kind, 'flag': flag, 'where': where}


class NotApplicable(Exception):
    pass


def run(case, work):
    root = os.path.join(work, 'r')
    shutil.rmtree(root, ignore_errors=True)
    sympool.TABLE['t000'] = lambda *a: True
    layer, _ = P.build(case['spec'], [root])
    ci = P.CacheIds()
    graphs = {}
    for f in case['touched']:
        try:
            g = layer._compile(f)
        except BaseException:  # noqa
            continue
        try:
            nodes, out, seen, inp, order = P.extract(g, ci)
            graphs[f] = {'nodes': nodes, 'out': out}
        except P.Unsupported as e:
            graphs[f] = {'unsupported': str(e)}
    case['graphs'] = graphs
    def other_side():
        return P.build([{'t': 'source', 'ids': ['a', 'b', 'c'], 'fields': {case['final']['on']: 's150', 'other_value': 's151'}}], [])[0]

    def attach_final(prefix):
        if case['final']['t'] == 'join':
            from connectome import Join
            return Join(prefix, other_side(), case['final']['on'])
        return prefix >> P.build_layer(case['final'], [root])
    try:
        if case['final']['t'] == 'join':
            full = attach_final(P.build(case['spec'], [root])[0])
        else:
            full, _ = P.build(case['spec'] + [case['final']], [root])
        dir(full)
        case['raised'] = None
    except BaseException as e:  # noqa
        case['raised'] = type(e).__name__
    # the same pipeline put together in other ways: the outcome must not depend on how the layer objects were combined
    from connectome import Chain
    forms = {}

    def attempt(name, make):
        try:
            dir(make())
            forms[name] = None
        except NotApplicable:
            pass
        except BaseException as e:  # noqa
            forms[name] = type(e).__name__

    def purified(spec):
        import copy
        sp = copy.deepcopy(spec)
        for d in sp:
            d.pop('impure', None) if d['t'] == 'transform' else None
            if d['t'] == 'merge':
                d['parts'] = [purified(p_) for p_ in d['parts']]
            if d['t'] == 'chain':
                d['layers'] = purified(d['layers'])
        return sp

    spec, final = case['spec'], case['final']
    attempt('prefix>>final', lambda: attach_final(layer))
    if final['t'] == 'join':
        case['forms'] = forms
        shutil.rmtree(root, ignore_errors=True)
        return case

    def has_impure(d):
        if d['t'] == 'merge':
            return any(has_impure(x) for p_ in d['parts'] for x in p_)
        if d['t'] == 'chain':
            return any(has_impure(x) for x in d['layers'])
        return bool(d.get('impure')) and d['t'] == 'transform'
    # the head holds every impure function, the tail (possibly empty) and the final layer are pure on their own
    k = max([i + 1 for i, d in enumerate(spec) if has_impure(d)] + [1])
    inherit_all = {'t': 'transform', 'fields': {}, 'params': {}, 'inherit': True}

    def parts():
        head, _ = P.build(spec[:k], [root])
        tail = [P.build_layer(d, [root]) for d in spec[k:]]
        if not tail or not hasattr(tail[0], '_compile'):
            tail = [P.build_layer(inherit_all, [root])] + tail
        return head, tail, P.build_layer(final, [root])

    def nested():
        head, tail, fin = parts()
        try:
            block = Chain(Chain(*tail, fin))
        except BaseException:  # noqa   (a dataset-wide layer cannot be put into a block without its dataset)
            raise NotApplicable()
        return Chain(head, block)
    attempt('head >> Chain(Chain(tail, final))', nested)

    def block_then_attach():
        head, tail, fin = parts()
        try:
            outer = Chain(Chain(*tail, fin), P.build_layer(inherit_all, [root]))
        except BaseException:  # noqa
            raise NotApplicable()
        return head >> outer
    attempt('head >> Chain(Chain(tail, final), inherit-all)', block_then_attach)

    def reuse_after_pure():
        # the same tail and final layer OBJECTS are first connected to the purified head, then to the real one
        pure_head, _ = P.build(purified(spec[:k]), [root])
        head, tail, fin = parts()
        try:
            dir(Chain(pure_head, *tail, fin))
        except BaseException:  # noqa
            pass
        return Chain(head, *tail, fin)
    attempt('tail and final layer objects used before over a pure head', reuse_after_pure)

    def reuse_block():
        pure_head, _ = P.build(purified(spec[:k]), [root])
        head, tail, fin = parts()
        try:
            block = Chain(*tail, fin)
            dir(pure_head >> block)
        except BaseException:  # noqa
            raise NotApplicable()
        return head >> block
    attempt('the block Chain(tail, final) used before over a pure head', reuse_block)
    case['forms'] = forms
    shutil.rmtree(root, ignore_errors=True)
    return case


def main():
    ap = argparse.ArgumentParser()
    ap.add_argument('--seed', type=int, default=0)
    ap.add_argument('--n', type=int, default=200)
    ap.add_argument('--out', required=True)
    ap.add_argument('--work', required=True)
    a = ap.parse_args()
    rnd = random.Random(a.seed)
    os.makedirs(a.work, exist_ok=True)
    dump({'cases': [run(gen(rnd), a.work) for _ in range(a.n)]}, a.out)


if __name__ == '__main__':
    main()
