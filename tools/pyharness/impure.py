"""C13 on the real code: pipelines with an @impure function somewhere, followed by a caching or keying layer.

    impure.py --seed S --n N --out FILE --work DIR
Per case: the prefix pipeline (always builds), the compiled graphs of the fields the final layer touches (extracted
for the Coq model), the final layer, and whether connecting it raised.
"""
import argparse
import os
import random
import shutil
import sys

sys.path.insert(0, os.path.dirname(__file__))
import pipelines as P  # noqa
import sympool  # noqa
from common import dump  # noqa

FIELDS = ['image', 'mask', 'spacing']


def gen(rnd):
    n = 0

    def fresh():
        nonlocal n
        n += 1
        return f's{n:03d}'
    ids = ['a', 'b', 'c']
    def src(ids_):
        d = {'t': 'source', 'ids': ids_, 'fields': {f: fresh() for f in FIELDS}}
        return d
    where = rnd.choice(['none', 'source', 'field', 'param', 'field', 'param', 'merge-branch'])
    if where == 'merge-branch':
        parts = [[src(['a'])], [src(['b', 'c'])]]
        spec = [{'t': 'merge', 'parts': parts}]
    else:
        spec = [src(ids)]
    if where == 'source':
        # an impure source field: built as a transform right after the source
        spec.append({'t': 'transform', 'fields': {'image': [fresh(), ['image']]}, 'params': {}, 'inherit': True, 'impure': ['image']})
    nl = rnd.randint(1, 3)
    pos = rnd.randrange(nl)
    for li in range(nl):
        f = rnd.choice(FIELDS)
        args = [f] if rnd.random() < 0.5 else [f, rnd.choice(FIELDS)]
        t = {'t': 'transform', 'fields': {f: [fresh(), args]}, 'params': {}, 'inherit': True}
        if rnd.random() < 0.5:
            t['params']['_p'] = [fresh(), [rnd.choice(FIELDS)]]
            t['fields'][f][1] = t['fields'][f][1] + ['_p']
        if li == pos and where in ('field', 'merge-branch'):
            t['impure'] = [f]
        if li == pos and where == 'param':
            if '_p' not in t['params']:
                t['params']['_p'] = [fresh(), [rnd.choice(FIELDS)]]
                t['fields'][f][1] = t['fields'][f][1] + ['_p']
            t['impure'] = ['_p']
        spec.append(t)
    # an upstream cache layer that was explicitly allowed to cache the impure value
    if where != 'none' and rnd.random() < 0.3:
        spec.append({'t': 'ram', 'names': None, 'size': None, 'impure': True})
        if rnd.random() < 0.5:
            g = rnd.choice(FIELDS)
            spec.append({'t': 'transform', 'fields': {g: [fresh(), [g]]}, 'params': {}, 'inherit': True})
    # a field that sees the (possibly impure) value only through a Silent argument
    if rnd.random() < 0.25:
        a, b = rnd.sample(FIELDS, 2)
        spec.append({'t': 'transform', 'fields': {a: [fresh(), [a, '~' + b]]}, 'params': {}, 'inherit': True})
    elif rnd.random() < 0.25:
        spec = [spec[0], {'t': 'chain', 'layers': spec[1:]}] if len(spec) > 2 else spec
    names = sorted(rnd.sample(FIELDS, rnd.randint(1, 3)))
    kind = rnd.choice(['ram', 'ram-all', 'disk', 'columns', 'filter', 'groupby'])
    flag = rnd.random() < 0.35
    if kind == 'ram':
        final = {'t': 'ram', 'names': names, 'size': None, 'impure': flag}
    elif kind == 'ram-all':
        final = {'t': 'ram', 'names': None, 'size': None, 'impure': flag}
        names = FIELDS + ['id', 'ids']
    elif kind == 'disk':
        final = {'t': 'disk', 'names': names, 'root': 0, 'impure': flag}
    elif kind == 'columns':
        final = {'t': 'columns', 'names': names, 'root': 0, 'shard': None}
        flag = False
    elif kind == 'filter':
        names = names[:2]
        final = {'t': 'filter', 'pred': ['t000', names]}
        flag = False
    else:
        by = rnd.choice(FIELDS)
        final = {'t': 'groupby', 'by': by}
        names = FIELDS          # GroupBy hashes the graph of every field and of the key
        flag = False
    return {'spec': spec, 'final': final, 'touched': names, 'kind': kind, 'flag': flag, 'where': where}


def run(case, work):
    root = os.path.join(work, 'r')
    shutil.rmtree(root, ignore_errors=True)
    sympool.TABLE['t000'] = lambda *a: True
    layer, _ = P.build(case['spec'], [root])
    ci = P.CacheIds()
    graphs = {}
    for f in case['touched']:
        try:
            g = layer._compile(f)
        except BaseException:  # noqa
            continue
        try:
            nodes, out, seen, inp, order = P.extract(g, ci)
            graphs[f] = {'nodes': nodes, 'out': out}
        except P.Unsupported as e:
            graphs[f] = {'unsupported': str(e)}
    case['graphs'] = graphs
    try:
        full, _ = P.build(case['spec'] + [case['final']], [root])
        dir(full)
        case['raised'] = None
    except BaseException as e:  # noqa
        case['raised'] = type(e).__name__
    shutil.rmtree(root, ignore_errors=True)
    return case


def main():
    ap = argparse.ArgumentParser()
    ap.add_argument('--seed', type=int, default=0)
    ap.add_argument('--n', type=int, default=200)
    ap.add_argument('--out', required=True)
    ap.add_argument('--work', required=True)
    a = ap.parse_args()
    rnd = random.Random(a.seed)
    os.makedirs(a.work, exist_ok=True)
    dump({'cases': [run(gen(rnd), a.work) for _ in range(a.n)]}, a.out)


if __name__ == '__main__':
    main()
