"""Importable user functions for the column-cache correspondence (tarn pickles module-level functions by reference, so the
hashes do not depend on LOG / FAIL / ORDERS)."""
LOG = []
FAIL = set()
INTERRUPT = set()          # (name, key): the function is interrupted there (KeyboardInterrupt: Ctrl-C, SIGINT)
ORDERS = {}


class UserError(Exception):
    pass


def _ids(name):
    LOG.append('ids')
    return ORDERS[name]


def ids_v0():
    return _ids('v0')


def ids_v1():
    return _ids('v1')


def ids_v2():
    return _ids('v2')


def fx(i):
    LOG.append(f'x:{i}')
    if ('x', i) in INTERRUPT:
        raise KeyboardInterrupt(f'x:{i}')
    if ('x', i) in FAIL:
        raise UserError(f'x:{i}')
    return f'$x({i})'


def _field(name, i, x):
    LOG.append(f'{name}:{i}')
    if (name, i) in INTERRUPT:
        raise KeyboardInterrupt(f'{name}:{i}')
    if (name, i) in FAIL:
        raise UserError(f'{name}:{i}')
    return f'${name}({i})'


def fa(i, x):
    return _field('a', i, x)


def fb(i, x):
    return _field('b', i, x)


def fc(i, x):
    return _field('c', i, x)
