"""C02 / C09 / C18 on the real code: stacks of layers with inherit / exclude / optional / persistent / cache layers;
what the pipeline lists, serves, rejects; signatures and symbolic values; the same for several bracketings and chain
flavours; and whether composing changed any operand.

    stacks.py --seed S --n N --out FILE [--brackets]
"""
import argparse
import os
import random
import re
import sys

sys.path.insert(0, os.path.dirname(__file__))
import pipelines as P  # noqa
import sympool  # noqa
from common import dump, to_json  # noqa
from connectome import Chain, LazyChain, Transform, meta, optional  # noqa
from connectome.engine.compiler import identity  # noqa
from connectome.exceptions import DependencyError, FieldError, GraphError  # noqa
from connectome.interface.edges import Function  # noqa
from connectome.interface.metaclasses import SourceBase, TransformBase  # noqa

PUB = list('abcde')
PRIV = ['_p', '_q']
PROBE = PUB + ['id', 'ids', 'zz']


def gen_layer(rnd, fresh, optional_marks):
    nparams = rnd.choice([0, 0, 1, 2])
    params = {p: [fresh(), rnd.sample(PUB, rnd.randint(0, 2))] for p in PRIV[:nparams]}
    defs = {}
    for o in rnd.sample(PUB, rnd.randint(0, 3)):
        defs[o] = [fresh(), rnd.sample(PUB + list(params), rnd.randint(0, 3))]
    kind = rnd.choice(['list', 'list', 'all', 'exclude'])
    if kind == 'list':
        inh = [n for n in rnd.sample(PUB + ['ids'], rnd.randint(0, 3)) if n not in defs]
    elif kind == 'all':
        inh = True
    else:
        inh = {'exclude': rnd.sample(PUB, rnd.randint(1, 2))}
    opt = sorted(o for o in defs if optional_marks and rnd.random() < 0.45)
    return {'t': 'transform', 'fields': defs, 'params': params, 'inherit': inh, 'optional': opt}


def gen_stack(rnd, optional_marks):
    n = [0]

    def fresh():
        n[0] += 1
        return f's{n[0]:03d}'
    items = []
    if rnd.random() < 0.35:
        items.append({'t': 'src', 'fields': {f: fresh() for f in rnd.sample(PUB, rnd.randint(1, 3))}, 'ids_sym': fresh()})
    for _ in range(rnd.randint(1, 4)):
        if items and rnd.random() < 0.15:
            items.append({'t': 'ram', 'names': None if rnd.random() < 0.5 else rnd.sample(PUB, rnd.randint(1, 3)), 'size': None})
        else:
            items.append(gen_layer(rnd, fresh, optional_marks))
    if items[0]['t'] == 'ram':
        items = items[1:] or [gen_layer(rnd, fresh, optional_marks)]
    return items


def build_item(d):
    if d['t'] == 'src':
        its = [('ids', meta(Function(P.sym(d['ids_sym']))))]
        for name, s in d['fields'].items():
            its.append((name, Function(P.sym(s), 'key')))
        return SourceBase(its)
    return P.build_layer(d, [])


def observe(layer):
    try:
        listed = sorted(dir(layer))
    except DependencyError as e:
        msg = str(e)
        m = re.match(r"The output '([^']+)'", msg)
        seg = msg.split('unreachable inputs:', 1)[1].split(', some of which', 1)[0]
        return {'deperr': {'field': m.group(1), 'missing': sorted(set(re.findall(r"'([^']+)'(?: \(layer|,|$)", seg)) or set(re.findall(r"'([^']+)'", seg)))}}
    rows = {}
    for name in PROBE:
        try:
            g = layer._compile(name)
        except FieldError:
            rows[name] = {'absent': True}
            continue
        if g is identity:
            rows[name] = {'virtual': True}
            continue
        sig = list(g.__signature__.parameters)
        try:
            val = to_json(g(**{x: 'IN:' + x for x in sig}))
        except BaseException as e:  # noqa
            val = {'s': 'ERR:' + type(e).__name__}
        if name not in listed and sig == [name] and val == {'s': 'IN:' + name}:
            rows[name] = {'virtual': True}
        else:
            rows[name] = {'sig': sig, 'val': val}
    return {'listed': listed, 'rows': rows}


def brackets(objs, rnd):
    """the same sequence of layer objects under several bracketings and chain flavours"""
    out = []
    def rshift(xs):
        r = xs[0]
        for x in xs[1:]:
            r = r >> x
        return r
    out.append(('rshift', lambda: rshift(objs)))
    out.append(('chain', lambda: Chain(*objs)))
    if len(objs) >= 3:
        k = rnd.randint(1, len(objs) - 2)
        out.append(('left-nested', lambda: Chain(Chain(*objs[:k + 1]), *objs[k + 1:])))
        out.append(('right-nested', lambda: Chain(*objs[:k], Chain(*objs[k:])) if k >= 1 and hasattr(objs[k], '_container') else Chain(*objs)))
        out.append(('lazy-tail', lambda: Chain(objs[0], LazyChain(*objs[1:]))))
        out.append(('lazy-middle', lambda: Chain(*objs[:k], LazyChain(*objs[k:]))))
    return out


def main():
    ap = argparse.ArgumentParser()
    ap.add_argument('--seed', type=int, default=0)
    ap.add_argument('--n', type=int, default=200)
    ap.add_argument('--optional', action='store_true')
    ap.add_argument('--brackets', action='store_true')
    ap.add_argument('--out', required=True)
    a = ap.parse_args()
    rnd = random.Random(a.seed)
    cases = []
    tries = 0
    while len(cases) < a.n and tries < 20 * a.n:
        tries += 1
        items = gen_stack(rnd, a.optional)
        try:
            objs = [build_item(d) for d in items]
        except (GraphError, TypeError, ValueError):
            continue            # e.g. a name both inherited and defined: rejected when the layer is built
        # reuse one layer object twice in a stack now and then (C09: it must behave as an independent copy)
        reuse = None
        if a.brackets and len(objs) >= 2 and rnd.random() < 0.2 and items[-1]['t'] == 'transform':
            objs.append(objs[-1])
            items.append(items[-1])
            reuse = len(objs) - 1
        try:
            layer = objs[0]
            for o in objs[1:]:
                layer = layer >> o
            obs = observe(layer)
        except BaseException as e:  # noqa
            obs = {'error': f'{type(e).__name__}: {e}'[:200]}
        case = {'items': items, 'obs': obs, 'reuse': reuse}
        if a.brackets:
            before = [observe(o) if hasattr(o, '_compile') else None for o in objs]
            vs = []
            for name, mk in brackets(objs, rnd):
                try:
                    vs.append({'name': name, 'obs': observe(mk())})
                except BaseException as e:  # noqa
                    vs.append({'name': name, 'obs': {'error': f'{type(e).__name__}: {e}'[:200]}})
            after = [observe(o) if hasattr(o, '_compile') else None for o in objs]
            case['variants'] = vs
            case['operands_unchanged'] = before == after
        cases.append(case)
    dump({'cases': cases}, a.out)


if __name__ == '__main__':
    main()
