"""C02 / C09 / C18 on the real code: stacks of layers with inherit / exclude / optional / persistent / cache layers;
what the pipeline lists, serves, rejects; signatures and symbolic values; the same for several bracketings and chain
flavours; and whether composing changed any operand.

    stacks.py --seed S --n N --out FILE [--brackets]
"""
import argparse
import os
import random
import re
import sys

sys.path.insert(0, os.path.dirname(__file__))
import pipelines as P  # noqa
import sympool  # noqa
from common import dump, to_json  # noqa
from connectome import Chain, LazyChain, Transform, meta, optional  # noqa
from connectome.engine.compiler import identity  # noqa
from connectome.exceptions import DependencyError, FieldError, GraphError  # noqa
from connectome.interface.edges import Function  # noqa
from connectome.interface.metaclasses import SourceBase, TransformBase  # noqa

PUB = list('abcde')
PRIV = ['_p', '_q']
PROBE = PUB + ['id', 'ids', 'zz']


def gen_layer(rnd, fresh, optional_marks, extra_args=()):
    nparams = rnd.choice([0, 0, 1, 2])
    params = {p: [fresh(), rnd.sample(PUB, rnd.randint(0, 2))] for p in PRIV[:nparams]}
    defs = {}
    for o in rnd.sample(PUB, rnd.randint(0, 3)):
        defs[o] = [fresh(), rnd.sample(PUB + list(params) + list(extra_args), rnd.randint(0, 3))]
    kind = rnd.choice(['list', 'list', 'all', 'exclude'])
    if kind == 'list':
        inh = [n for n in rnd.sample(PUB + ['ids'], rnd.randint(0, 3)) if n not in defs]
    elif kind == 'all':
        inh = True
    else:
        inh = {'exclude': rnd.sample(PUB, rnd.randint(1, 2))}
    opt = sorted(o for o in defs if optional_marks and rnd.random() < 0.45)
    # optional fields that reach the upstream only through a private parameter (a used parameter is a required user)
    for o in opt:
        if params and rnd.random() < 0.5:
            defs[o][1] = [rnd.choice(sorted(params))]
    metas = sorted(o for o in defs if not defs[o][1] and rnd.random() < 0.15)
    d = {'t': 'transform', 'fields': defs, 'params': params, 'inherit': inh, 'optional': opt, 'meta': metas}
    # the inherit / exclude declaration may come from a Mixin; a layer may define only the @inverse of a name it inherits
    if rnd.random() < 0.2 and not metas:
        d['via_mixin'] = True
    if kind != 'list' and rnd.random() < 0.25:
        free = [n for n in PUB if n not in defs and (inh is True or n not in inh['exclude'])]
        d['inverse_only'] = sorted(rnd.sample(free, min(len(free), rnd.randint(1, 2))))
    return d


def gen_stack(rnd, optional_marks):
    n = [0]

    def fresh():
        n[0] += 1
        return f's{n[0]:03d}'
    items = []
    if optional_marks and rnd.random() < 0.25:
        # a field whose only root is missing, handed down through optional and plain fields, caches in between (C18)
        x, y = rnd.sample(PUB, 2)
        items.append({'t': 'transform', 'fields': {x: [fresh(), []]}, 'params': {}, 'inherit': [], 'optional': [], 'meta': []})
        items.append({'t': 'transform', 'fields': {y: [fresh(), [y]]}, 'params': {}, 'inherit': [x] if rnd.random() < 0.8 else True,
                      'optional': [y] if rnd.random() < 0.85 else [], 'meta': []})
        for _ in range(rnd.randint(0, 3)):
            r = rnd.random()
            if r < 0.4:
                items.append({'t': 'ram', 'names': None if rnd.random() < 0.5 else rnd.sample([x, y], rnd.randint(1, 2)), 'size': None})
            else:
                args = [y] if rnd.random() < 0.7 else [y, x]
                items.append({'t': 'transform', 'fields': {y: [fresh(), args]}, 'params': {}, 'inherit': True if rnd.random() < 0.7 else [x],
                              'optional': [y] if rnd.random() < 0.3 else [], 'meta': []})
        tail = rnd.random()
        others = [n for n in PUB if n not in (x, y)]
        if tail < 0.3:
            # two fields reach the missing root through ONE shared field: both are left out (or both make the pipeline unusable)
            u, w = rnd.sample(others, 2)
            items.append({'t': 'transform', 'fields': {u: [fresh(), [y]], w: [fresh(), [y, x] if rnd.random() < 0.5 else [y]]}, 'params': {}, 'inherit': [x],
                          'optional': [u, w] if rnd.random() < 0.8 else [u], 'meta': []})
        elif tail < 0.55:
            # an optional field with two unreachable inputs of different standing: the optional y and a name nobody provides, which a private
            # parameter of the same layer also uses (a required user): the pipeline is unusable, loudly
            z, v = rnd.sample(others, 2)
            items.append({'t': 'transform', 'fields': {z: [fresh(), [y, '_p'] if rnd.random() < 0.5 else [y, v, '_p']]}, 'params': {'_p': [fresh(), [v]]},
                          'inherit': [x], 'optional': [z], 'meta': []})
        return items
    if rnd.random() < 0.35:
        items.append({'t': 'src', 'fields': {f: fresh() for f in rnd.sample(PUB, rnd.randint(1, 3))}, 'ids_sym': fresh()})
    p_cache = 0.3 if optional_marks else 0.15
    redefine_id_at = rnd.randint(1, 3) if items and rnd.random() < 0.3 else None
    for step in range(rnd.randint(1, 4)):
        if redefine_id_at == step + 1:
            # a layer may redefine the key field `id` (a persistent name): from there on `id` is what that layer computes
            items.append({'t': 'transform', 'fields': {'id': [fresh(), ['id']]}, 'params': {}, 'inherit': True, 'optional': [], 'meta': []})
            continue
        if items and rnd.random() < p_cache:
            items.append({'t': 'ram', 'names': None if rnd.random() < 0.5 else rnd.sample(PUB, rnd.randint(1, 3)), 'size': None})
        elif rnd.random() < 0.12:
            names = rnd.sample(PUB, rnd.randint(1, 3))          # keyword order as drawn, deliberately not sorted
            items.append({'t': 'apply', 'fields': {nm: fresh() for nm in names}})
        else:
            items.append(gen_layer(rnd, fresh, optional_marks, ('ids', 'id') if items and items[0]['t'] == 'src' else ()))
    if items[0]['t'] == 'ram':
        items = items[1:] or [gen_layer(rnd, fresh, optional_marks)]
    # a cache at the very end makes whatever it touches optional (C18)
    if optional_marks and items[-1]['t'] != 'ram' and rnd.random() < 0.3:
        items.append({'t': 'ram', 'names': None if rnd.random() < 0.6 else rnd.sample(PUB, rnd.randint(1, 3)), 'size': None})
    return items


def gen_dataset_stack(rnd):
    """a real dataset (iterable ids) with context-dependent layers: only the bracketings are compared, not the model"""
    n = [100]

    def fresh():
        n[0] += 1
        return f's{n[0] % 150:03d}'
    fields = rnd.sample(PUB, rnd.randint(2, 3))
    items = [{'t': 'source', 'ids': ['i1', 'i2', 'i3', 'i4'], 'fields': {f: fresh() for f in fields}}]
    import zlib
    # the predicate depends on the whole value it is given, not just on the id inside it
    sympool.TABLE['t005'] = lambda x: zlib.crc32(str(x).encode()) % 3 != 0
    for _ in range(rnd.randint(3, 5)):
        r = rnd.random()
        f = rnd.choice(fields)
        if r < 0.35:
            # mostly on the field the previous transform defines, so that (transform >> filter) also builds on its own
            prev = items[-1]
            if prev['t'] == 'transform' and rnd.random() < 0.8:
                f = sorted(prev['fields'])[0]
            items.append({'t': 'filter', 'pred': ['t005', [f]]})
        elif r < 0.4:
            items.append({'t': 'checkids'})
        elif r < 0.47 and sum(1 for x in items if x['t'] == 'split') < 2:
            items.append({'t': 'split'})
            if rnd.random() < 0.6:          # the same Split class twice in one flat sequence
                if rnd.random() < 0.5:
                    items.append({'t': 'transform', 'fields': {f: [fresh(), [f]]}, 'params': {}, 'inherit': True, 'optional': [], 'meta': []})
                items.append({'t': 'split'})
        elif r < 0.55:
            it = {'t': 'const', 'cls': rnd.choice(['Scale', 'Shift']), 'value': rnd.choice(CONSTS)}
            if it['cls'] == 'Shift' and rnd.random() < 0.5:
                it['flag'] = rnd.choice(CONSTS)
            items.append(it)
        elif r < 0.62:
            items.append({'t': 'ram', 'names': None, 'size': None})
        else:
            items.append({'t': 'transform', 'fields': {f: [fresh(), [f]]}, 'params': {}, 'inherit': True, 'optional': [], 'meta': []})
    return items


class Scale(Transform):
    """a class-based layer with a constructor argument: instances of one class must not influence each other"""
    __inherit__ = True
    _factor: object

    a = Function(P.sym('s140'), 'a', '_factor')


class Shift(Transform):
    __inherit__ = True
    _by: object
    _flag: object = False

    b = Function(P.sym('s141'), 'b', '_by', '_flag')


CONSTS = [2, 2.0, True, 1, 1.0, 0, False, 0.0, 'x']


def _halves(id):
    return [(f'{id}L', 'L'), (f'{id}R', 'R')]


def make_split():
    from connectome import Split

    class Halves(Split):
        __inherit__ = True

        def __split__(id):
            return _halves(id)
    return Halves


HALVES = []


def build_special_transform(d):
    """a Transform whose __inherit__ / __exclude__ comes from a Mixin, and / or with @inverse fields for names it only inherits"""
    import types
    from connectome import Mixin, inverse
    items = []
    for name, desc in d.get('params', {}).items():
        items.append((name, P.make_field(desc)))
    for name, desc in d['fields'].items():
        items.append((name, P.make_field(desc, name in d.get('optional', ()), False, False, name in d.get('meta', ()))))
    for name in d.get('inverse_only', []):
        items.append((name, inverse(Function(P.sym('s149'), name))))
    inh = d['inherit']

    def fill_inherit(ns):
        if isinstance(inh, dict):
            ns['__exclude__'] = tuple(inh['exclude'])
        else:
            ns['__inherit__'] = True if inh is True else tuple(inh)

    def fill_fields(ns):
        for k, v in items:
            ns[k] = v
    if d.get('via_mixin'):
        M = types.new_class('DeclMixin', (Mixin,), {}, fill_inherit)
        T = types.new_class('ViaMixin', (Transform, M), {}, fill_fields)
    else:
        T = types.new_class('Special', (Transform,), {}, lambda ns: (fill_inherit(ns), fill_fields(ns)))
    return T()


def build_item(d):
    if d['t'] == 'transform' and (d.get('via_mixin') or d.get('inverse_only')):
        return build_special_transform(d)
    if d['t'] == 'split':
        if not HALVES:
            HALVES.append(make_split())
        return HALVES[0]()
    if d['t'] == 'const':
        return Scale(factor=d['value']) if d['cls'] == 'Scale' else Shift(by=d['value'], **({'flag': d['flag']} if 'flag' in d else {}))
    if d['t'] == 'src':
        its = [('ids', meta(Function(P.sym(d['ids_sym']))))]
        for name, s in d['fields'].items():
            its.append((name, Function(P.sym(s), 'key')))
        return SourceBase(its)
    return P.build_layer(d, [])


def observe(layer):
    try:
        listed = sorted(dir(layer))
    except DependencyError as e:
        msg = str(e)
        m = re.match(r"The output '([^']+)'", msg)
        seg = msg.split('unreachable inputs:', 1)[1].split(', some of which', 1)[0]
        second = []
        for again in (lambda: dir(layer), lambda: layer._compile('a'), lambda: layer._compile('zz')):
            try:
                again()
                second.append('ok')
            except BaseException as e2:  # noqa
                second.append(type(e2).__name__)
        return {'deperr': {'field': m.group(1), 'missing': sorted(set(re.findall(r"'([^']+)'(?: \(layer|,|$)", seg)) or set(re.findall(r"'([^']+)'", seg)))},
                'second_look': second}
    rows = {}
    for name in PROBE:
        try:
            g = layer._compile(name)
        except FieldError:
            rows[name] = {'absent': True}
            continue
        if g is identity:
            rows[name] = {'virtual': True}
            continue
        sig = list(g.__signature__.parameters)
        try:
            val = to_json(g(**{x: 'IN:' + x for x in sig}))
        except BaseException as e:  # noqa
            val = {'s': 'ERR:' + type(e).__name__}
        if name not in listed and sig == [name] and val == {'s': 'IN:' + name}:
            rows[name] = {'virtual': True}
        else:
            rows[name] = {'sig': sig, 'val': val}
    return {'listed': listed, 'rows': rows, 'properties': sorted(getattr(layer, '_properties', ()))}


def brackets(objs, rnd):
    """the same sequence of layer objects under several bracketings and chain flavours"""
    out = []
    def rshift(xs):
        r = xs[0]
        for x in xs[1:]:
            r = r >> x
        return r
    out.append(('rshift', lambda: rshift(objs)))
    out.append(('chain', lambda: Chain(*objs)))
    def inner(mk):
        """a nested Chain has to be constructible on its own; if it is not, this is not a bracketing of the sequence"""
        try:
            return mk()
        except BaseException:  # noqa
            return None
    if len(objs) >= 3:
        k = rnd.randint(1, len(objs) - 2)
        out.append(('left-nested', lambda: Chain(Chain(*objs[:k + 1]), *objs[k + 1:])))
        if hasattr(objs[k], '_container'):
            sub = inner(lambda: Chain(*objs[k:]))
            if sub is not None:
                out.append(('right-nested', lambda sub=sub: Chain(*objs[:k], sub)))
        out.append(('lazy-tail', lambda: Chain(objs[0], LazyChain(*objs[1:]))))
        out.append(('lazy-middle', lambda: Chain(*objs[:k], LazyChain(*objs[k:]))))
        # ONE LazyChain object connected twice, and in the tail of a nested chain (connected by the inner chain, again by the outer one)
        lazy = LazyChain(*objs[k:])
        out.append(('lazy-object-first-use', lambda: Chain(*objs[:k], lazy)))
        out.append(('lazy-object-second-use', lambda: Chain(*objs[:k], lazy)))
        if k >= 2 and hasattr(objs[1], '_container'):
            lazy2 = LazyChain(*objs[k:])
            sub = inner(lambda: Chain(*objs[1:k], lazy2))
            if sub is not None:
                out.append(('lazy-in-nested-tail', lambda sub=sub: Chain(objs[0], sub)))
    if len(objs) >= 4 and hasattr(objs[1], '_container'):
        sub = inner(lambda: Chain(Chain(*objs[1:3]), *objs[3:]))
        if sub is not None:
            out.append(('deep-nested', lambda sub=sub: Chain(objs[0], sub)))
    return out


def const_sequences(rnd):
    """instances of one class created one after the other with ==-equal arguments of different types (2, 2.0, True, 1, ...): each computes with its own"""
    wrong = []
    for _ in range(6):
        seq = rnd.sample(CONSTS, len(CONSTS))
        for cls, f, sym in ((Scale, 'a', 's140'), (Shift, 'b', 's141')):
            objs = [cls(factor=v) if cls is Scale else cls(by=v) for v in seq]
            for v, o in zip(seq, objs):
                try:
                    got = o._compile(f)(**{f: 'IN'})
                except BaseException as e:  # noqa
                    got = 'ERR:' + type(e).__name__
                want = f"${sym}('IN',{v!r})" if cls is Scale else f"${sym}('IN',{v!r},False)"
                if got != want:
                    wrong.append({'item': {'t': 'const', 'cls': cls.__name__, 'value': v, 'created_in_sequence': [repr(x) for x in seq]}, 'got': got, 'want': want})
    return wrong[:4]


def shared_cache_layer(rnd):
    """ONE CacheToRam(size=1) object over two fields and in two pipelines: every field of every connection has a table of its own"""
    from connectome import CacheToRam
    bad = []
    cache = CacheToRam(size=1)
    k1, k2 = rnd.sample(['i1', 'i2', 'i3'], 2)
    p1 = P.build_layer({'t': 'source', 'ids': ['i1', 'i2', 'i3'], 'fields': {'a': 's142', 'b': 's143'}}, []) >> cache
    p2 = P.build_layer({'t': 'source', 'ids': ['i1', 'i2', 'i3'], 'fields': {'a': 's144', 'b': 's145'}}, []) >> cache

    def ask(p, f, k):
        del sympool.CALLS[:]
        v = getattr(p, f)(k)
        return v, [c[0] for c in sympool.CALLS]
    steps = [(p1, 'a', k1, 's142', True), (p1, 'b', k1, 's143', True), (p1, 'a', k1, 's142', False), (p2, 'a', k1, 's144', True), (p1, 'a', k1, 's142', False),
             (p2, 'b', k1, 's145', True), (p2, 'a', k1, 's144', False), (p1, 'b', k1, 's143', False), (p1, 'a', k2, 's142', True), (p1, 'b', k1, 's143', False)]
    for n, (p, f, k, sym, runs) in enumerate(steps):
        try:
            v, ran = ask(p, f, k)
        except BaseException as e:  # noqa
            bad.append({'step': n, 'exc': type(e).__name__})
            break
        if v != f"${sym}('{k}')" or ran != ([sym] if runs else []):
            bad.append({'step': n, 'pipeline': 1 if p is p1 else 2, 'field': f, 'key': k, 'value': v, 'ran': ran, 'expected_value': f"${sym}('{k}')", 'expected_to_run': runs})
            break
    return bad


def main():
    ap = argparse.ArgumentParser()
    ap.add_argument('--seed', type=int, default=0)
    ap.add_argument('--n', type=int, default=200)
    ap.add_argument('--optional', action='store_true')
    ap.add_argument('--brackets', action='store_true')
    ap.add_argument('--out', required=True)
    a = ap.parse_args()
    rnd = random.Random(a.seed)
    cases = []
    tries = 0
    while len(cases) < a.n and tries < 20 * a.n:
        tries += 1
        unmodelled = a.brackets and rnd.random() < 0.3
        items = gen_dataset_stack(rnd) if unmodelled else gen_stack(rnd, a.optional)
        try:
            objs = [build_item(d) for d in items]
        except (GraphError, TypeError, ValueError):
            continue            # e.g. a name both inherited and defined: rejected when the layer is built
        # reuse one layer object twice in a stack now and then (C09: it must behave as an independent copy)
        reuse = None
        if a.brackets and len(objs) >= 2 and rnd.random() < 0.2 and items[-1]['t'] == 'transform':
            objs.append(objs[-1])
            items.append(items[-1])
            reuse = len(objs) - 1
        # instances of one class with ==-equal arguments of different types keep their own argument
        wrong = []
        for d, o in zip(items, objs):
            if d['t'] == 'const':
                f = 'a' if d['cls'] == 'Scale' else 'b'
                try:
                    got = o._compile(f)(**{f: 'IN'})
                except BaseException as e:  # noqa
                    got = 'ERR:' + type(e).__name__
                want = (f"$s140('IN',{d['value']!r})" if d['cls'] == 'Scale' else f"$s141('IN',{d['value']!r},{d.get('flag', False)!r})")
                if got != want:
                    wrong.append({'item': d, 'got': got, 'want': want})
        # what every operand lists, serves, returns and treats as a property, BEFORE anything is composed; for a dataset also what it
        # hands to a layer that inherits nothing (its persistent fields)
        def snapshot():
            snap = [observe(o) if hasattr(o, '_compile') else None for o in objs]
            if items[0]['t'] in ('src', 'source'):
                try:
                    f0 = sorted(items[0]['fields'])[0]
                    snap.append(observe(objs[0] >> Transform(**{f0: Function(P.sym('s147'), f0)})))
                except BaseException as e:  # noqa
                    snap.append('ERR:' + type(e).__name__)
            return snap
        before = snapshot()
        try:
            layer = objs[0]
            for o in objs[1:]:
                layer = layer >> o
            obs = observe(layer)
        except BaseException as e:  # noqa
            obs = {'error': f'{type(e).__name__}: {e}'[:200]}
        case = {'items': items, 'obs': obs, 'reuse': reuse, 'unmodelled': bool(unmodelled), 'const_wrong': wrong}
        # a CheckIds() on top changes neither which fields the pipeline lists nor whether it is usable at all (it keeps the optional marks)
        if items[0]['t'] in ('src', 'source') and 'error' not in obs:
            try:
                from connectome import CheckIds
                with_chk = observe(layer >> CheckIds())
                a_, b_ = ('deperr' in obs, obs.get('listed')), ('deperr' in with_chk, with_chk.get('listed'))
                if a_ != b_:
                    case['checkids_differs'] = {'without': {'dependency_error': a_[0], 'listed': a_[1]}, 'with_checkids': {'dependency_error': b_[0], 'listed': b_[1]}}
            except BaseException as e:  # noqa
                case['checkids_differs'] = {'exc': f'{type(e).__name__}: {e}'[:200]}
        try:
            Chain(*objs)
        except BaseException:  # noqa
            pass
        # merging a dataset with another one (here: a Transform used as an inline dataset, which has no persistent fields) changes neither
        if items[0]['t'] in ('src', 'source'):
            try:
                from connectome import Merge
                inline = Transform(ids=meta(Function(P._const_ids(('zz1', 'zz2')))), **{f: Function(P.sym('s148'), 'id') for f in items[0]['fields']})
                Merge(objs[0], inline)
            except BaseException:  # noqa
                pass
        case['operands_unchanged'] = before == snapshot()
        if a.brackets:
            vs = []
            for name, mk in brackets(objs, rnd):
                try:
                    vs.append({'name': name, 'obs': observe(mk())})
                except BaseException as e:  # noqa
                    vs.append({'name': name, 'obs': {'error': f'{type(e).__name__}: {e}'[:200]}})
            after = snapshot()
            case['variants'] = vs
            case['operands_unchanged'] = case['operands_unchanged'] and before == after
        cases.append(case)
    if cases:
        cases[0]['const_wrong'] = cases[0].get('const_wrong', []) + const_sequences(rnd)
        cases[0]['shared_cache_layer'] = shared_cache_layer(rnd)
    dump({'cases': cases}, a.out)


if __name__ == '__main__':
    main()
