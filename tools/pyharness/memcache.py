"""Random get/set/clear sequences on the real MemoryCache (dict and pylru.lrucache) and shard computations of the
real CachedColumn._get_shard.   memcache.py --seed S --n N --out FILE"""
import argparse
import random
import sys
import os

sys.path.insert(0, os.path.dirname(__file__))
from common import check_import, dump  # noqa

check_import()
from connectome.cache import MemoryCache  # noqa
from connectome.engine import LeafHash  # noqa
from connectome.layers.columns import CachedColumn  # noqa


def one(rnd):
    size = rnd.choice([None, 1, 2, 3, 4])
    mc = MemoryCache(size)
    ops, obs = [], []
    for _ in range(rnd.randint(1, 30)):
        r = rnd.random()
        k = rnd.randint(0, 6)
        if r < 0.45:
            # the value 0 of the op list stands for a stored None (a user function may well return None)
            ops.append(['set', k, rnd.choice([0, 0, rnd.randint(1, 99), rnd.randint(1, 99), rnd.randint(1, 99)])])
            mc.set(LeafHash(k), ops[-1][2] or None, None)
            obs.append([None, len(mc._cache)])
        elif r < 0.92:
            ops.append(['get', k])
            v, hit = mc.get(LeafHash(k), None)
            obs.append([(0 if v is None else v) if hit else None, len(mc._cache)])
        elif r < 0.96:
            ops.append(['clear'])
            mc.clear()
            obs.append([None, len(mc._cache)])
        else:
            # the cache travels to another process and back: empty, same bound
            import pickle
            ops.append(['pickle'])
            mc = pickle.loads(pickle.dumps(mc))
            obs.append([None, len(mc._cache)])
    return {'size': size, 'ops': ops, 'obs': obs}


def shard(rnd):
    n = rnd.randint(1, 12)
    keys = rnd.sample(['k%02d' % i for i in range(20)], n)
    size = rnd.choice([None, 2, 3, 4, 5, 7, 0.2, 0.34, 0.5, 0.75, 1.0])
    e = CachedColumn(None, None, None, False, size)
    key = rnd.choice(keys + ['zz'])
    try:
        ks, count, idx = e._get_shard(key, list(keys))
        res = {'keys': list(ks), 'count': count, 'idx': idx}
    except ValueError:
        res = {'exc': 'ValueError'}
    return {'keys': keys, 'size': size, 'key': key, 'res': res}


def main():
    ap = argparse.ArgumentParser()
    ap.add_argument('--seed', type=int, default=0)
    ap.add_argument('--n', type=int, default=300)
    ap.add_argument('--out', required=True)
    a = ap.parse_args()
    rnd = random.Random(a.seed)
    dump({'mem': [one(rnd) for _ in range(a.n)], 'shards': [shard(rnd) for _ in range(a.n)]}, a.out)


if __name__ == '__main__':
    main()
