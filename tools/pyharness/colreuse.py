"""C07 / C08 for CacheColumns: what one pipeline wrote is found by a rebuilt pipeline over the same store whose dataset lists the
same ids in another order (or behind a hash-transparent single-dataset Merge / CheckIds): no user function runs again.

    colreuse.py --seed S --n N --out FILE --work DIR
"""
import argparse
import copy
import os
import random
import shutil
import sys

sys.path.insert(0, os.path.dirname(__file__))
import pipelines as P  # noqa
import sympool  # noqa
import histories as H  # noqa
from common import dump, exc_name, to_json  # noqa


def one(rnd, work, k):
    spec, ids, fields, nroots, sy = H.gen_spec(rnd, allow_disk=False, allow_columns=False)
    spec = [d for d in H.strip_caches(spec) if not d.get('byvalue')]
    for d in spec:
        d.pop('byvalue', None)
    if spec[0]['t'] != 'source':
        spec[0] = {'t': 'source', 'ids': ids, 'fields': spec[0]['parts'][0][0]['fields']}
    # ids that are not in lexicographic order to begin with
    pool = ['1', '2', '10', '12', '3', 'b', 'a', 'B']
    ids = rnd.sample(pool, rnd.randint(2, 5))
    spec[0]['ids'] = ids
    f = rnd.choice(fields)
    cols = {'t': 'columns', 'names': [f], 'root': 0, 'shard': rnd.choice([None, 2, 3])}
    root = os.path.join(work, f'c{k}')
    how = rnd.choice(['reversed', 'shuffled', 'single-merge', 'checkids', 'same'])
    spec2 = copy.deepcopy(spec)
    if how == 'reversed':
        spec2[0]['ids'] = list(reversed(ids))
    elif how == 'shuffled':
        spec2[0]['ids'] = rnd.sample(ids, len(ids))
    elif how == 'single-merge':
        spec2 = [{'t': 'merge', 'parts': [[spec2[0]]]}] + spec2[1:]
    elif how == 'checkids':
        spec2 = spec2 + [{'t': 'checkids'}]
    rec = {'spec': spec + [cols], 'second': spec2 + [cols], 'how': how, 'field': f, 'ids': ids}
    # a hit on the same pipeline object runs nothing at all - not even the functions `ids` is made of (a Filter above the cache)
    try:
        sympool.TABLE['t011'] = lambda *a: True
        flt = {'t': 'filter', 'pred': ['t011', [rnd.choice(fields)]]}
        hroot = root + '_h'
        third = P.build(spec + [flt, cols], [hroot])[0]
        key = rnd.choice(ids)
        getattr(third, f)(key)
        del sympool.CALLS[:]
        getattr(third, f)(key)
        rec['ran_on_hit'] = sorted({c[0] for c in sympool.CALLS})
        shutil.rmtree(hroot, ignore_errors=True)
    except BaseException as e:  # noqa
        rec['hit_exc'] = exc_name(e) + ': ' + str(e)[:100]
    try:
        first = P.build(spec + [cols], [root])[0]
        vals1 = {i: to_json(getattr(first, f)(i)) for i in ids}
        del sympool.CALLS[:]
        second = P.build(spec2 + [cols], [root])[0]
        vals2 = {i: to_json(getattr(second, f)(i)) for i in ids}
        rec['ran_again'] = sorted({c[0] for c in sympool.CALLS})
        rec['values_equal'] = vals1 == vals2
    except BaseException as e:  # noqa
        rec['exc'] = exc_name(e) + ': ' + str(e)[:100]
    shutil.rmtree(root, ignore_errors=True)
    return rec


def main():
    ap = argparse.ArgumentParser()
    ap.add_argument('--seed', type=int, default=0)
    ap.add_argument('--n', type=int, default=60)
    ap.add_argument('--out', required=True)
    ap.add_argument('--work', required=True)
    a = ap.parse_args()
    rnd = random.Random(a.seed * 29 + 11)
    os.makedirs(a.work, exist_ok=True)
    dump({'cases': [one(rnd, a.work, k) for k in range(a.n)]}, a.out)


if __name__ == '__main__':
    main()
