"""Importable user functions and datasets of the C12 / C19 harnesses (tarn pickles importable functions by reference, so
the digests do not depend on the call log these functions write into)."""
from connectome import Source, Transform, meta

CALLS = []


def plain(i):
    CALLS.append(('plain', i))
    return f'plain({i})'


def shaped(i):
    """a dict: several blobs under DictSerializer; 'common' has the same content for every key (a shared blob)"""
    CALLS.append(('shaped', i))
    return {'own': f'own({i})', 'pair': [f'p({i})', 7], 'common': 'the same for every key'}


def nested(i):
    CALLS.append(('nested', i))
    return {'a': {'x': f'ax({i})', 'y': 'shared'}, 'b': {'x': f'bx({i})', 'y': 'shared'}}


def second(x):
    CALLS.append(('second', x))
    return {'second': x, 'const': 'k'}


IDS = ('a', 'b', 'c', 'd', 'e')


class PlainDS(Source):
    @meta
    def ids():
        return IDS

    def x(i):
        return plain(i)

    def y(i):
        return shaped(i)


FUNCS = {'plain': plain, 'shaped': shaped, 'nested': nested}


def plain_pred(x):
    return x != 'plain(a)'


def by_fn(x):
    return x[-2]


def other_ids():
    return ('p', 'q')


def split_fn(id, x):
    return [(id + '-0', x), (id + '-1', x)]
