"""C06 oracle on the real code: families of sub-pipelines (a base and variants of it) -> static graph hash of a field
and the function it computes on every id; the ids kept by a Filter over it with the node hash of `ids`.

    graphhash.py --seed S --n N --out FILE
"""
import argparse
import copy
import os
import random
import sys

sys.path.insert(0, os.path.dirname(__file__))
import pipelines as P  # noqa
import sympool  # noqa
from common import dump, hash_json, to_json, fname  # noqa

IDS = ['1', '2', '3', '4', '5']


def base_spec(rnd):
    n = 0

    def fresh():
        nonlocal n
        n += 1
        return f's{n:03d}'
    ids = sorted(rnd.sample(IDS, rnd.randint(3, 5)))
    fields = ['image', 'mask'][:rnd.randint(1, 2)]
    nparts = rnd.choice([1, 2, 2, 3])
    cuts = sorted(rnd.sample(range(1, len(ids)), min(nparts - 1, len(ids) - 1)))
    groups = [ids[a:b] for a, b in zip([0] + cuts, cuts + [len(ids)])]
    parts = [[{'t': 'source', 'ids': g, 'fields': {f: fresh() for f in fields}}] for g in groups]
    spec = [{'t': 'merge', 'parts': parts}] if len(parts) > 1 else parts[0]
    for _ in range(rnd.randint(0, 2)):
        f = rnd.choice(fields)
        if rnd.random() < 0.3:
            spec.append({'t': 'transform_const', 'fields': {f: [fresh(), rnd.sample(['key_', '_c'], 2)]}, 'consts': {'_c': None},
                         'params': {}, 'inherit': True, 'uses_id': True})
            # `key_` stands for the entry id: a field `key_` is provided by a preceding inherit-all transform
        else:
            args = [f] if len(fields) == 1 or rnd.random() < 0.5 else rnd.sample(fields, 2)
            spec.append({'t': 'transform', 'fields': {f: [fresh(), args]}, 'params': {}, 'inherit': True})
    return spec, ids, fields, fresh


def fix_id_field(spec):
    """transform_const layers read the field `key_`; provide it as the entry id itself"""
    out = []
    for d in spec:
        if d['t'] == 'transform_const' and not any(x.get('provides_key') for x in out):
            out.append({'t': 'transform', 'fields': {'key_': ['s159', ['id']]}, 'params': {}, 'inherit': True, 'provides_key': True})
        out.append(d)
    return out


def variants(spec, ids, fields, fresh, rnd):
    vs = [('rebuilt', copy.deepcopy(spec))]
    head = spec[0]
    if head['t'] == 'merge':
        parts = head['parts']
        # move one id to another dataset
        v = copy.deepcopy(spec)
        src = [p for p in v[0]['parts'] if len(p[0]['ids']) >= 2]
        if src:
            a = rnd.choice(src)
            b = rnd.choice([p for p in v[0]['parts'] if p is not a])
            i = a[0]['ids'].pop(rnd.randrange(len(a[0]['ids'])))
            b[0]['ids'] = sorted(b[0]['ids'] + [i])
            vs.append(('move-id', v))
        # exchange the id groups of two datasets
        v = copy.deepcopy(spec)
        a, b = rnd.sample(v[0]['parts'], 2)
        a[0]['ids'], b[0]['ids'] = b[0]['ids'], a[0]['ids']
        vs.append(('exchange-groups', v))
        # exchange the functions of two datasets (same routing)
        v = copy.deepcopy(spec)
        a, b = rnd.sample(v[0]['parts'], 2)
        a[0]['fields'], b[0]['fields'] = b[0]['fields'], a[0]['fields']
        vs.append(('exchange-functions', v))
    # another function somewhere
    v = copy.deepcopy(spec)
    layers = [d for d in v if d['t'] in ('transform', 'transform_const')] + ([p[0] for p in v[0]['parts']] if v[0]['t'] == 'merge' else [v[0]])
    d = rnd.choice(layers)
    f = rnd.choice(sorted(d['fields']))
    if d['t'] == 'source':
        d['fields'][f] = fresh()
    else:
        d['fields'][f] = [fresh(), d['fields'][f][1]]
    vs.append(('function', v))
    # swapped arguments
    cands = [d for d in spec if d['t'] in ('transform', 'transform_const') and any(len(set(a[1])) >= 2 for a in d['fields'].values())]
    if cands:
        v = copy.deepcopy(spec)
        d = [x for x in v if x['t'] in ('transform', 'transform_const') and any(len(set(a[1])) >= 2 for a in x['fields'].values())][0]
        f = [k for k, a in d['fields'].items() if len(set(a[1])) >= 2][0]
        d['fields'][f][1] = list(reversed(d['fields'][f][1]))
        vs.append(('swap-args', v))
    return vs


def run_family(rnd):
    spec, ids, fields, fresh = base_spec(rnd)
    fam = [('base', spec)] + variants(spec, ids, fields, fresh, rnd)
    field = rnd.choice(fields)
    pred_sym = None
    out = []
    all_ids = IDS + ['zz']
    sympool.TABLE['t000'] = lambda x: isinstance(x, str) and (sum(map(ord, x)) % 3 != 0)
    for kind, sp in fam:
        sp2 = fix_id_field(sp)
        rec = {'kind': kind, 'spec': sp2, 'field': field}
        try:
            layer, _ = P.build(sp2, [])
            g = layer._compile(field)
            rec['graph_hash'] = hash_json(g.hash().value, fname)
            vals = []
            for i in all_ids:
                try:
                    vals.append(to_json(g(i)))
                except BaseException as e:  # noqa
                    vals.append({'s': 'ERR:' + type(e).__name__})
            rec['values'] = vals
            # under a Filter: node hash of ids and the ids themselves
            flt, _ = P.build(sp2 + [{'t': 'filter', 'pred': ['t000', [field]]}], [])
            gi = flt._compile('ids')
            rec['ids'] = list(gi())
            rec['ids_hash'] = hash_json(gi.get_hash()[0].value, fname)
        except BaseException as e:  # noqa
            rec['error'] = f'{type(e).__name__}: {e}'[:200]
        out.append(rec)
    return {'family': out, 'ids': ids}


def main():
    ap = argparse.ArgumentParser()
    ap.add_argument('--seed', type=int, default=0)
    ap.add_argument('--n', type=int, default=100)
    ap.add_argument('--out', required=True)
    a = ap.parse_args()
    rnd = random.Random(a.seed)
    dump({'families': [run_family(rnd) for _ in range(a.n)]}, a.out)


if __name__ == '__main__':
    main()
