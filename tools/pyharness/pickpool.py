"""Picklable user callables for the C19 harness: constant id tuples and predicates with named arguments, as instances of
importable classes (the generic harness makes these with closures / exec, which no pickler can ship)."""
import inspect

import sympool


class ConstIds:
    def __init__(self, ids):
        self.ids = tuple(ids)

    def __call__(self):
        return self.ids

    def __eq__(self, other):
        return type(other) is ConstIds and other.ids == self.ids

    def __hash__(self):
        return hash(('ConstIds', self.ids))

    @property
    def __name__(self):
        return 'ids_' + '_'.join(self.ids)

    def __repr__(self):
        return f'ConstIds{self.ids!r}'


class ConstIdsList:
    """ids kept in ONE list object that outlives the calls"""

    def __init__(self, ids):
        self.ids = list(ids)

    def __call__(self):
        return self.ids

    def __eq__(self, other):
        return type(other) is ConstIdsList and other.ids == self.ids

    def __hash__(self):
        return hash(('ConstIdsList', tuple(self.ids)))

    @property
    def __name__(self):
        return 'idslist_' + '_'.join(self.ids)

    def __repr__(self):
        return f'ConstIdsList({self.ids!r})'


class NamedPred:
    def __init__(self, sym, args):
        self.sym, self.args = sym, tuple(args)

    @property
    def __signature__(self):
        return inspect.Signature([inspect.Parameter(a, inspect.Parameter.POSITIONAL_OR_KEYWORD) for a in self.args])

    def __call__(self, *a):
        return getattr(sympool, self.sym)(*a)

    def __eq__(self, other):
        return type(other) is NamedPred and (other.sym, other.args) == (self.sym, self.args)

    def __hash__(self):
        return hash(('NamedPred', self.sym, self.args))

    @property
    def __name__(self):
        return 'pred_' + self.sym

    def __repr__(self):
        return f'NamedPred({self.sym!r}, {self.args!r})'


# a Transform that takes one of its fields from a Mixin (functions defined in class bodies are pickled by qualified name)
from connectome import Mixin, Transform  # noqa


class TagMixin(Mixin):
    def tag(image):
        return sympool.s150(image)


class Tagged(Transform, TagMixin):
    __inherit__ = True

    def other(image):
        return sympool.s151(image)


# fields with two stacked annotations (functions defined in class bodies are found again by their qualified name)
from connectome import meta, optional  # noqa


class Annotated(Transform):
    __inherit__ = True

    @optional
    @meta
    def n_parts():
        return sympool.s152()

    @meta
    @optional
    def n_items():
        return sympool.s153()

    @optional
    def both(image):
        return sympool.s154(image)


# a constructor argument that is not hashable (it defines __eq__) and whose repr hides the field that matters
class Cfg:
    def __init__(self, hidden):
        self.hidden = hidden

    def __eq__(self, other):
        return isinstance(other, Cfg) and other.hidden == self.hidden

    def __repr__(self):
        return 'Cfg()'


def _offset(image, cfg):
    return f'offset[{cfg.hidden}]:{image}'


from connectome.interface.edges import Function  # noqa


class Offset(Transform):
    __inherit__ = True
    _cfg: object

    image = Function(_offset, 'image', '_cfg')


def _kernel(image, kernel):
    return f'kernel{tuple(kernel.shape)}{kernel.ravel().tolist()}:{image}'


class Correlate(Transform):
    """a layer whose constructor argument is an array"""
    __inherit__ = True
    _kernel: object

    image = Function(_kernel, 'image', '_kernel')


def by_grp(grp):
    """a module-level grouping function (GroupBy(callable))"""
    return 'G' + str(grp)
