"""Shared pieces of the implementation-side harness.  Runs under /venv/bin/python with PYTHONPATH=/repo.

Values cross the process boundary as JSON:
  null -> None, {"s": str}, {"i": int}, {"f": int} (a float with an integer value), {"b": bool},
  {"n": int} (engine payload), {"t": [..]} tuple, {"d": [[k, v], ..]} dict, {"a": [f, [pos..], [[k, v]..]]}
  the result of the symbolic user function f.
"""
import json
import os
import sys

APP = '$app'


class UserError(Exception):
    """what a symbolic user function raises"""


class Box:
    """a value that is equal to nothing but itself (an object without __eq__, like most user-defined results)"""

    def __init__(self, payload):
        self.verif_payload = payload

    def __repr__(self):
        return f'Box({self.verif_payload!r})'


def to_json(v):
    if v is None:
        return None
    if isinstance(v, bool):
        return {'b': v}
    if isinstance(v, int):
        return {'i': v}
    if isinstance(v, float):
        if v != int(v):
            raise ValueError(f'non-integral float {v}')
        return {'f': int(v)}
    if isinstance(v, str):
        if v.startswith('$'):
            j, rest = parse_term(v)
            if rest:
                raise ValueError(f'trailing text in symbolic value {v!r}')
            return j
        return {'s': v}
    if isinstance(v, tuple) and len(v) == 4 and v[0] == APP:
        return {'a': [v[1], [to_json(x) for x in v[2]], [[k, to_json(x)] for k, x in v[3]]]}
    if isinstance(v, (tuple, list)):
        return {'t': [to_json(x) for x in v]}
    if isinstance(v, dict):
        return {'d': [[to_json(k), to_json(x)] for k, x in v.items()]}
    if hasattr(v, 'verif_payload'):
        return {'t': [{'s': 'box'}, to_json(v.verif_payload)]}
    raise ValueError(f'cannot encode {type(v).__name__}: {v!r}')


def _split_args(text):
    """split `a,b,c` at top level (outside brackets and quotes)"""
    out, depth, cur, q, i = [], 0, '', None, 0
    while i < len(text):
        ch = text[i]
        if q:
            cur += ch
            if ch == '\\':
                cur += text[i + 1]
                i += 1
            elif ch == q:
                q = None
        elif ch in '\'"':
            q = ch
            cur += ch
        elif ch in '([{':
            depth += 1
            cur += ch
        elif ch in ')]}':
            depth -= 1
            cur += ch
        elif ch == ',' and depth == 0:
            out.append(cur)
            cur = ''
        else:
            cur += ch
        i += 1
    if cur:
        out.append(cur)
    return out


def parse_term(text):
    """`$name(arg,..,k=arg)` -> {'a': [name, [args], [[k, arg]]]}; returns (json, rest)"""
    import ast
    import re
    m = re.match(r'\$(\w+)\(', text)
    if not m or not text.endswith(')'):
        raise ValueError(text)
    inner = text[m.end():-1]
    pos, kw = [], []
    for part in _split_args(inner):
        mk = re.match(r'([A-Za-z_]\w*)=(.*)$', part, re.S)
        if mk and not part.startswith('$'):
            kw.append([mk.group(1), parse_value(mk.group(2))])
        else:
            pos.append(parse_value(part))
    return {'a': [m.group(1), pos, kw]}, ''


def parse_value(text):
    import ast
    text = text.strip()
    if text.startswith('$'):
        return parse_term(text)[0]
    if text.startswith('(') and text.endswith(')') and '$' in text:
        return {'t': [parse_value(x) for x in _split_args(text[1:-1])]}
    return to_json(ast.literal_eval(text))


def from_json(j):
    if j is None:
        return None
    (k, v), = j.items()
    if k == 'b':
        return bool(v)
    if k == 'i':
        return int(v)
    if k == 'f':
        return float(v)
    if k == 's':
        return v
    if k == 'n':
        return int(v)
    if k == 't':
        return tuple(from_json(x) for x in v)
    if k == 'd':
        return {from_json(a): from_json(b) for a, b in v}
    if k == 'fn':
        raise ValueError('function leaf')
    if k == 'a':
        return (APP, v[0], tuple(from_json(x) for x in v[1]), tuple((a, from_json(b)) for a, b in v[2]))
    raise ValueError(j)


class UserStop(StopIteration):
    """user functions may raise anything, e.g. next() on an empty iterator"""


class UserKey(KeyError):
    pass


USER_EXC = [UserError, UserStop, UserKey, UserError]
RAISED = []


def exc_name(e):
    """canonical exception class of an outcome; a user exception counts only if it is the very object raised"""
    if RAISED and e is RAISED[-1]:
        return 'User:' + str(e.args[0])
    for cls, name in ((KeyError, 'KeyError'), (ValueError, 'ValueError')):
        if type(e) is cls:
            return name
    # anything else escaping from the engine is an internal error from the user's point of view
    return 'Internal'


class SymLog:
    """call log shared by the symbolic functions of one case"""

    def __init__(self):
        self.calls = []
        self.bad = set()

    def make(self, name):
        def f(*a, **k):
            self.calls.append((name, a, tuple(k.items())))
            if name in self.bad:
                exc = USER_EXC[sum(map(ord, name)) % len(USER_EXC)](name)
                RAISED.append(exc)
                raise exc
            import sympool
            return sympool.render(name, a, tuple(k.items()))

        f.__name__ = f.__qualname__ = name
        f._symbolic = True
        return f

    def take(self):
        out = [[n, [to_json(x) for x in a], [[kk, to_json(x)] for kk, x in k]] for n, a, k in self.calls]
        self.calls = []
        return out


def check_import():
    import connectome
    root = os.environ.get('VERIF_REPO', '/repo')
    assert os.path.realpath(connectome.__file__).startswith(os.path.realpath(root)), connectome.__file__


def dump(obj, path):
    with open(path, 'w') as f:
        json.dump(obj, f, separators=(',', ':'))


def hash_json(value, fname):
    """NodeHash.value (nested tuples tagged 0..3) -> JSON hash term; functions by name"""
    tag = value[0]
    if tag == 0:
        data = value[1]
        if type(data) is object:
            return {'P': 1}
        if callable(data) and not isinstance(data, (str, tuple)):
            return {'L': {'fn': fname(data)}}
        return {'L': to_json(data)}
    if tag == 1:
        return {'A': [fname(value[1]), [hash_json(x, fname) for x in value[2]], list(value[3])]}
    if tag == 2:
        return {'G': hash_json(value[1], fname)}
    if tag == 3:
        return {'C': [value[1], [hash_json(x, fname) for x in value[2:]]]}
    raise ValueError(value)


def fname(f):
    """the symbol a function is known by in the model"""
    mod = getattr(f, '__module__', None)
    if mod == 'builtins':
        return 'builtins.' + f.__name__
    if mod == 'sympool' or getattr(f, '_symbolic', False):
        return f.__name__
    return (mod or '?') + ':' + getattr(f, '__qualname__', repr(f))
