"""C12 harness: real connectome disk / column caches over real tarn stores with every file-system mutation intercepted.

A process is run with wrappers around the Python-level mutators (os.mkdir/chmod/chown/rename/replace/remove/unlink/
rmdir/utime/..., open for writing).  Before every mutation (and right after an open-for-write: the file exists, its
content does not) the whole directory tree is copied into memory: these trees are exactly what a process that dies at
that point leaves behind.  Each is then damaged by a fault set (lost blobs, lost / truncated index files, lost /
truncated temp files) and handed to fresh pipelines ("later processes").

Self check: two consecutive trees may differ only in the paths named by the mutation between them (or in files that
are open for writing), otherwise a mutator escaped the interception and the run is reported as unusable.
"""
import builtins
import hashlib
import io
import itertools
import json
import os
import random
import shutil
import sys
import tempfile
import traceback
from pathlib import Path

sys.path.insert(0, os.path.dirname(os.path.abspath(__file__)))
import crashfns  # noqa

from connectome import CacheColumns, CacheToDisk, Transform  # noqa
from connectome.cache.disk import DiskCache  # noqa
from tarn import DiskDict, HashKeyStorage, PickleKeyStorage  # noqa
from tarn.config import StorageConfig, init_storage  # noqa
from tarn.serializers import ChainSerializer, DictSerializer, JsonSerializer, PickleSerializer  # noqa

MUTATORS = 'mkdir makedirs chmod chown lchown rename replace remove unlink rmdir utime link symlink truncate'.split()
_open = builtins.open
_os = {n: getattr(os, n) for n in MUTATORS if hasattr(os, n)}


# ------------------------------------------------------------------------------------------------ trees
def snapshot(root):
    tree = {}
    root = str(root)
    for d, dirs, files in os.walk(root):
        rel = os.path.relpath(d, root)
        if rel != '.':
            tree[rel] = None
        for f in files:
            p = os.path.join(d, f)
            with _open(p, 'rb') as fd:
                tree[os.path.relpath(p, root)] = fd.read()
    return tree


def materialize(tree, root):
    root = str(root)
    if os.path.exists(root):
        for d, dirs, files in os.walk(root):
            for f in files:
                _os['chmod'](os.path.join(d, f), 0o666)
        shutil.rmtree(root)
    os.makedirs(root)
    for rel in sorted(tree):
        p = os.path.join(root, rel)
        if tree[rel] is None:
            os.makedirs(p, exist_ok=True)
    for rel, content in tree.items():
        if content is not None:
            p = os.path.join(root, rel)
            os.makedirs(os.path.dirname(p), exist_ok=True)
            with _open(p, 'wb') as fd:
                fd.write(content)


class Tracer:
    def __init__(self, root, die_at=None):
        self.root = os.path.realpath(str(root))
        self.die_at = die_at       # really kill the process (no cleanup, nothing flushed) when this many trees were noted
        self.snaps = []            # (label, tree)
        self.allowed = []          # per snapshot transition: the paths the mutation may touch
        self.opened = set()
        self.escaped = []

    def rel(self, p):
        try:
            p = os.path.realpath(os.fspath(p))
        except TypeError:
            return None
        if p == self.root or p.startswith(self.root + os.sep):
            return os.path.relpath(p, self.root)
        return None

    def note(self, label, paths):
        if self.die_at is not None and len(self.snaps) == self.die_at:
            os._exit(17)
        self.snaps.append((label, snapshot(self.root)))
        self.allowed.append(set(paths) | set(self.opened))

    def wrap(self, name, f):
        def w(*a, **k):
            paths = [self.rel(x) for x in a[:2] if isinstance(x, (str, bytes, os.PathLike))]
            paths = [p for p in paths if p is not None]
            if paths:
                self.note([name] + paths, paths)
            return f(*a, **k)
        return w

    def wopen(self, file, mode='r', *a, **k):
        writing = isinstance(mode, str) and any(c in mode for c in 'wax+')
        rel = self.rel(file) if writing and isinstance(file, (str, bytes, os.PathLike)) else None
        if rel is None:
            return _open(file, mode, *a, **k)
        self.note(['open', rel, mode], [rel])
        self.opened.add(rel)
        res = _open(file, mode, *a, **k)
        # the file exists (or is truncated) and nothing has been written yet
        self.note(['inside-open', rel, mode], [rel])
        return res

    def __enter__(self):
        wrappers = {id(f): self.wrap(n, f) for n, f in _os.items()}
        wrappers[id(_open)] = self.wopen
        originals = {id(f): f for f in list(_os.values()) + [_open]}
        # every module-level alias of a mutator (e.g. tarn.compat.remove_file = os.remove, bound at import time)
        self.patched = []
        for mname, mod in list(sys.modules.items()):
            if mod is None or mname in ('posix', 'nt', '_io') or not hasattr(mod, '__dict__') or vars(mod) is globals():
                continue
            for attr, val in list(vars(mod).items()):
                try:
                    w = wrappers.get(id(val)) if callable(val) else None
                except Exception:
                    w = None
                if w is not None and originals[id(val)] is val:
                    self.patched.append((mod, attr, val))
                    setattr(mod, attr, w)
        return self

    def __exit__(self, *exc):
        for mod, attr, val in self.patched:
            setattr(mod, attr, val)
        self.snaps.append((['end'], snapshot(self.root)))
        # completeness of the interception
        for i in range(len(self.snaps) - 1):
            a, b = self.snaps[i][1], self.snaps[i + 1][1]
            changed = {p for p in set(a) | set(b) if a.get(p, 0) != b.get(p, 0)}
            extra = {p for p in changed if not any(p == q or p.startswith(q + os.sep) or q.startswith(p + os.sep) for q in self.allowed[i])}
            if extra:
                self.escaped.append((self.snaps[i][0], sorted(extra)))
        return False


# ------------------------------------------------------------------------------------------------ pipelines
SERIALIZERS = {
    'json': lambda: JsonSerializer(),
    'pickle': lambda: PickleSerializer(),
    'dict': lambda: DictSerializer(JsonSerializer()),
    'dict2': lambda: DictSerializer(DictSerializer(ChainSerializer(JsonSerializer(), PickleSerializer()))),
    'chain': lambda: ChainSerializer(JsonSerializer(), PickleSerializer()),
    'default': lambda: None,
}


def init_root(cfg, root):
    """what a first, uninterrupted start does to an empty folder; not part of any write"""
    build(cfg, root)


def _columns(cfg, root, names):
    index, storage = Path(root) / 'index', Path(root) / 'storage'
    if not index.exists():
        init_storage(StorageConfig(hash='sha256', levels=[1, 31]), index)
        init_storage(StorageConfig(hash='sha256', levels=[1, 31]), storage)
    ser = SERIALIZERS[cfg['serializer']]() or ChainSerializer(JsonSerializer(), PickleSerializer())
    return CacheColumns(index, HashKeyStorage(DiskDict(storage)), ser, names, shard_size=cfg.get('shard'), labels=cfg.get('labels'))


def build(cfg, root):
    kind = cfg['kind']
    fn = crashfns.FUNCS[cfg['fn']]
    ser = SERIALIZERS[cfg['serializer']]()
    if kind == 'disk':
        return Transform(x=fn) >> CacheToDisk.simple('x', root=root, serializer=ser, labels=cfg.get('labels'))
    if kind == 'disk-direct':
        # the constructor itself rather than CacheToDisk.simple: the folders are initialised by the caller
        index, storage = Path(root) / 'index', Path(root) / 'storage'
        if not index.exists():
            init_storage(StorageConfig(hash='sha256', levels=[1, 31]), index)
            init_storage(StorageConfig(hash='sha256', levels=[1, 31]), storage)
        return Transform(x=fn) >> CacheToDisk(index, HashKeyStorage(DiskDict(storage)), ser, 'x', labels=cfg.get('labels'))
    if kind == 'stacked':
        # two disk caches over the same store, the upper value computed from the lower entry
        return (Transform(x=fn) >> CacheToDisk.simple('x', root=root, serializer=ser, labels=cfg.get('labels'))
                >> Transform(x=crashfns.second) >> CacheToDisk.simple('x', root=root, serializer=ser, labels=cfg.get('labels')))
    if kind == 'columns':
        return crashfns.PlainDS() >> _columns(cfg, root, [cfg['field']])
    if kind == 'disk+columns':
        return (crashfns.PlainDS() >> CacheToDisk.simple(cfg['field'], root=root, serializer=ser, labels=cfg.get('labels'))
                >> _columns(cfg, root, [cfg['field']]))
    raise ValueError(kind)


def reference(cfg, call):
    fn = crashfns.FUNCS[cfg['fn']]
    if cfg['kind'] in ('disk', 'disk-direct'):
        return fn(call)
    if cfg['kind'] == 'stacked':
        return crashfns.second(fn(call))
    return getattr(crashfns.PlainDS(), cfg['field'])(call)


def canon(v):
    return json.loads(json.dumps(v, sort_keys=True, default=repr))


# ------------------------------------------------------------------------------------------------ observation hooks
class Observer:
    """logs, from outside the repository code, what the disk caches are asked and what the store writes"""

    def __init__(self):
        self.events = []       # ('get', digest) / ('hit', digest) / ('miss', digest) / ('set', digest) / ('stored', digest)
        self.values = {}       # entry digest -> blob digests in write order
        self.current = []

    def __enter__(self):
        obs = self
        self.saved = (DiskCache.get, DiskCache.set, HashKeyStorage.write)
        g, s, w = self.saved

        def get(self_, key, context):
            d = context.digest.hex()
            obs.events.append(('get', d))
            value, exists = g(self_, key, context)
            obs.events.append(('hit' if exists else 'miss', d))
            return value, exists

        def set_(self_, key, value, context):
            d = context.digest.hex()
            obs.events.append(('set', d))
            obs.current.append([])
            try:
                res = s(self_, key, value, context)
            finally:
                blobs = obs.current.pop()
            obs.values.setdefault(d, []).append(blobs)
            obs.events.append(('stored', d))
            return res

        def write(self_, value, *a, **k):
            digest = w(self_, value, *a, **k)
            if obs.current and digest is not None:
                obs.current[-1].append(digest.hex())
            return digest

        DiskCache.get, DiskCache.set, HashKeyStorage.write = get, set_, write
        return self

    def __exit__(self, *exc):
        DiskCache.get, DiskCache.set, HashKeyStorage.write = self.saved
        return False


def run_process(cfg, root, calls, trace=True, die_at=None):
    """a fresh pipeline on `root` answering `calls`; returns the observations"""
    crashfns.CALLS.clear()
    results = []
    tr = Tracer(root, die_at)
    with Observer() as obs:
        if trace:
            tr.__enter__()
        try:
            try:
                ds = build(cfg, root)
                f = ds.x if cfg['kind'] in ('disk', 'disk-direct', 'stacked') else getattr(ds, cfg['field'])
            except BaseException as e:
                results.append({'exc': f'build: {type(e).__name__}: {e}'[:300], 'tb': traceback.format_exc()[-1500:]})
                f = None
            if f is not None:
                for c in calls:
                    try:
                        results.append({'val': canon(f(c))})
                    except BaseException as e:
                        results.append({'exc': f'{type(e).__name__}: {e}'[:300], 'tb': traceback.format_exc()[-600:]})
        finally:
            if trace:
                tr.__exit__(None, None, None)
    upstream = list(crashfns.CALLS)
    expected = [canon(reference(cfg, c)) for c in calls]
    return {'results': results, 'upstream': upstream, 'events': obs.events, 'values': obs.values,
            'snaps': tr.snaps, 'escaped': tr.escaped, 'calls': list(calls), 'expected': expected}


# ------------------------------------------------------------------------------------------------ abstraction
class Ids:
    def __init__(self):
        self.blob, self.entry = {}, {}

    def b(self, d):
        return self.blob.setdefault(d, len(self.blob))

    def e(self, d):
        return self.entry.setdefault(d, len(self.entry))


def is_hex(s):
    try:
        bytes.fromhex(s)
        return True
    except ValueError:
        return False


def abstract(tree, ids, base):
    blobs, index, tmps, unmodelled = [], [], 0, []
    for path in sorted(tree):
        content = tree[path]
        if content is None:
            continue
        parts = path.split(os.sep)
        top, rest = parts[0], parts[1:]
        if top not in ('index', 'storage') or not rest:
            unmodelled.append(path)
        elif rest == ['config.yml']:
            if base.get(path) != content:
                unmodelled.append(path + ' (changed)')
        elif rest[0] == '.tmp':
            tmps += 1
        elif rest[0] == 'tools':
            unmodelled.append(path)
        elif len(rest) == 2 and is_hex(rest[0] + rest[1]):
            digest = rest[0] + rest[1]
            if top == 'storage':
                if hashlib.sha256(content).hexdigest() != digest:
                    unmodelled.append(path + ' (content does not match its name)')
                else:
                    blobs.append(ids.b(digest))
            else:
                try:
                    mapping = json.loads(content)
                    assert isinstance(mapping, dict) and all(isinstance(v, str) and is_hex(v) for v in mapping.values())
                    index.append([ids.e(digest), [ids.b(v) for v in mapping.values()]])
                except (ValueError, AssertionError):
                    index.append([ids.e(digest), None])
        else:
            unmodelled.append(path)
    return {'blobs': blobs, 'index': index, 'tmps': tmps, 'unmodelled': unmodelled}


def fault_candidates(tree, cfg=None):
    c = []
    # config.yml, the description of a folder, is written once when the folder is initialised and by no cache write: its loss is not among the faults
    # (CacheToDisk.simple refuses a folder without it on the unchanged tree, the constructor lets tarn write a new one)
    for path, content in sorted(tree.items()):
        if content is None:
            continue
        parts = path.split(os.sep)
        if len(parts) < 3 or parts[1] == 'tools':
            continue
        if parts[1] == '.tmp':
            c.append(('lose', path))
            if content:
                c.append(('truncate', path, len(content) // 2))
        elif parts[0] == 'storage':
            c.append(('lose', path))
        elif parts[0] == 'index':
            c.append(('lose', path))
            for n in sorted({0, len(content) // 2, max(len(content) - 1, 0)}):
                c.append(('truncate', path, n))
    return c


def apply_faults(tree, faults):
    t = dict(tree)
    for f in faults:
        if f[1] not in t:
            continue
        if f[0] == 'lose':
            del t[f[1]]
        else:
            t[f[1]] = t[f[1]][:f[2]]
    return t


def compatible(faults):
    paths = [f[1] for f in faults]
    return len(set(paths)) == len(paths)


# ------------------------------------------------------------------------------------------------ cases
def deps_and_answers(events):
    """from the get/set log: top-level gets, entry -> nested gets during its computation, answers in completion order"""
    top, deps, answers, stack = [], {}, [], []
    for kind, d in events:
        if kind == 'get':
            (deps.setdefault(stack[-1], []) if stack else top).append(d)
            if stack:
                pass
        elif kind == 'hit':
            answers.append((d, True))
        elif kind == 'miss':
            stack.append(d)
            deps.setdefault(d, [])
        elif kind == 'stored':
            if stack and stack[-1] == d:
                stack.pop()
            answers.append((d, False))
    return top, deps, answers


class Recorder:
    def __init__(self, cfg, base, out):
        self.cfg, self.base, self.out, self.ids = cfg, base, out, Ids()
        self.values, self.deps = {}, {}
        self.n = 0

    def learn(self, obs):
        problems = []
        for d, lists in obs['values'].items():
            for blobs in lists:
                if d in self.values and sorted(self.values[d]) != sorted(blobs):
                    problems.append(f'entry {d[:8]} was written with different blobs in two runs')
                self.values.setdefault(d, blobs)
        top, deps, answers = deps_and_answers(obs['events'])
        for d, l in deps.items():
            # an interrupted computation (exception) leaves a partial list; keep the longest
            if len(l) >= len(self.deps.get(d, [])):
                self.deps[d] = l
        return top, answers, problems

    def emit(self, tag, start_tree, obs, extra):
        top, answers, problems = self.learn(obs)
        ids = self.ids
        trees = [t for _, t in obs['snaps']]
        states, last = [], abstract(start_tree, ids, self.base)
        start = last
        unmodelled = list(start['unmodelled'])
        for t in trees:
            a = abstract(t, ids, self.base)
            unmodelled += a['unmodelled']
            if (sorted(a['blobs']), sorted(map(repr, a['index'])), a['tmps']) != (sorted(last['blobs']), sorted(map(repr, last['index'])), last['tmps']):
                states.append(a)
                last = a
        rec = {'tag': tag, 'cfg': self.cfg, 'start': start, 'gets': [ids.e(d) for d in top], 'states': states,
               'answers': [[ids.e(d), h] for d, h in answers],
               'values': [[ids.e(d), [ids.b(b) for b in bl]] for d, bl in self.values.items()],
               'deps': [[ids.e(d), [ids.e(x) for x in l]] for d, l in self.deps.items()],
               'unmodelled': sorted(set(unmodelled))[:5], 'escaped': obs['escaped'][:3], 'problems': problems,
               'results': obs['results'], 'upstream': obs['upstream'], 'n_mutations': len(obs['snaps']),
               'calls': obs['calls'], 'expected': obs['expected']}
        rec.update(extra)
        self.out.write(json.dumps(rec) + '\n')
        self.n += 1
        return rec


def later_runs(rec, cfg, work, tree, calls, tag, extra, nested=None):
    """two fresh processes, one after the other, on a damaged tree"""
    materialize(tree, work)
    o1 = run_process(cfg, work, calls)
    r1 = rec.emit(tag + '/later1', tree, o1, dict(extra, role='later1'))
    t1 = o1['snaps'][-1][1]
    o2 = run_process(cfg, work, calls)
    rec.emit(tag + '/later2', t1, o2, dict(extra, role='later2'))
    if nested is not None:
        nested.append((tree, o1))
    return r1


def explore(cfg, seed, tier, out, workdir):
    rng = random.Random(f'{seed}/{json.dumps(cfg, sort_keys=True)}')
    random.seed(f'tmpnames/{seed}')
    work = os.path.join(workdir, 'root')
    if os.path.exists(work):
        shutil.rmtree(work)
    init_root(cfg, work)
    base = snapshot(work)
    rec = Recorder(cfg, base, out)
    calls = cfg['calls']
    # the writer
    w = run_process(cfg, work, calls)
    n_points = len(w['snaps'])
    kill_points = list(range(n_points - 1)) if tier == 'thorough' else rng.sample(range(n_points - 1), min(4, n_points - 1))
    kills = validate_kills(cfg, work, base, w['snaps'], seed, kill_points)
    rec.emit('writer', base, w, {'role': 'writer', 'faults': [], 'point': None, 'kill_check': {'points': len(kill_points), 'bad': kills}})
    per_point = {'quick': 3, 'thorough': 12}[tier]
    nested = [] if tier == 'thorough' else None
    done = 0
    for i, (label, tree) in enumerate(w['snaps']):
        cands = fault_candidates(tree, cfg)
        sets = [[]]
        singles = [[c] for c in cands]
        rng.shuffle(singles)
        sets += singles[:per_point] if tier == 'quick' else singles
        for _ in range(per_point):
            k = rng.randint(2, max(2, min(len(cands), 5)))
            fs = rng.sample(cands, min(k, len(cands)))
            if fs and compatible(fs) and fs not in sets:
                sets.append(fs)
        for fs in sets:
            later_runs(rec, cfg, work, apply_faults(tree, fs), calls if rng.random() < 0.7 else rng.sample(calls, len(calls)),
                       f'point{i}', {'faults': [list(f) for f in fs], 'point': [i, label]}, nested if (nested is not None and rng.random() < 0.15) else None)
            done += 1
    # thorough: the recovering process dies as well
    if nested:
        for tree0, o1 in nested[:40]:
            for j, (label, tree) in enumerate(o1['snaps']):
                later_runs(rec, cfg, work, tree, calls, f'nested{j}', {'faults': [], 'point': [j, label], 'nested': True})
    return rec.n, n_points


def validate_kills(cfg, work, base, snaps, seed, points):
    """the tree noted before mutation k is what a process really killed at that point leaves on disk"""
    bad = []
    for k in points:
        materialize(base, work)
        pid = os.fork()
        if pid == 0:
            try:
                random.seed(f'tmpnames/{seed}')
                run_process(cfg, work, cfg['calls'], die_at=k)
            finally:
                os._exit(3)
        _, status = os.waitpid(pid, 0)
        code = os.waitstatus_to_exitcode(status)
        left = snapshot(work)
        if code != 17 or left != snaps[k][1]:
            diff = sorted(p for p in set(left) | set(snaps[k][1]) if left.get(p, 0) != snaps[k][1].get(p, 0))
            bad.append({'point': k, 'exit': code, 'differs': diff[:5]})
    return bad


CONFIGS = [
    {'kind': 'disk', 'fn': 'plain', 'serializer': 'json', 'calls': [1, 2]},
    {'kind': 'disk', 'fn': 'shaped', 'serializer': 'dict', 'calls': [1, 2, 1]},
    {'kind': 'disk', 'fn': 'shaped', 'serializer': 'pickle', 'calls': [3]},
    {'kind': 'disk', 'fn': 'nested', 'serializer': 'dict2', 'calls': [1, 2]},
    {'kind': 'disk', 'fn': 'shaped', 'serializer': 'default', 'calls': [1], 'labels': ['tag']},
    {'kind': 'disk', 'fn': 'shaped', 'serializer': 'dict', 'calls': [1, 2], 'labels': ['tag', 'other']},
    {'kind': 'stacked', 'fn': 'plain', 'serializer': 'chain', 'calls': [1, 2]},
    {'kind': 'stacked', 'fn': 'shaped', 'serializer': 'dict', 'calls': [5]},
    {'kind': 'columns', 'field': 'x', 'fn': 'plain', 'serializer': 'json', 'shard': None, 'calls': ['b', 'd']},
    {'kind': 'columns', 'field': 'y', 'fn': 'shaped', 'serializer': 'pickle', 'shard': 2, 'calls': ['a', 'c', 'b', 'e']},
    {'kind': 'columns', 'field': 'y', 'fn': 'shaped', 'serializer': 'chain', 'shard': 3, 'calls': ['e', 'a'], 'labels': ['tag']},
    {'kind': 'disk+columns', 'field': 'x', 'fn': 'plain', 'serializer': 'json', 'shard': 2, 'calls': ['a', 'd']},
    {'kind': 'disk-direct', 'fn': 'shaped', 'serializer': 'pickle', 'calls': [1, 2]},
]


def main():
    seed, tier, outpath = sys.argv[1], sys.argv[2], sys.argv[3]
    which = [int(x) for x in sys.argv[4].split(',')] if len(sys.argv) > 4 else range(len(CONFIGS))
    workdir = tempfile.mkdtemp(prefix='c12_')
    try:
        with _open(outpath, 'w') as out:
            for k in which:
                cfg = CONFIGS[k]
                n, points = explore(cfg, seed, tier, out, workdir)
                print(f'config {k} {json.dumps(cfg)}: crash points {points}, processes {n}', flush=True)
    finally:
        shutil.rmtree(workdir, ignore_errors=True)


if __name__ == '__main__':
    main()
