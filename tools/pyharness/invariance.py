"""C07 on the real code: digests (and in-process hashes) of a field evaluation under neutral rewrites of the
pipeline, in this interpreter (the driver runs the script under several PYTHONHASHSEED values and compares).

    invariance.py --seed S --n N --out FILE
"""
import argparse
import copy
import hashlib
import os
import pickle
import random
import sys

sys.path.insert(0, os.path.dirname(__file__))
import pipelines as P  # noqa
import sympool  # noqa
from common import dump, hash_json, fname  # noqa
from connectome import Chain, LazyChain, Merge  # noqa
from tarn.pickler import dumps  # noqa

IDS = ['a', 'b', 'c', 'd']
FIELDS = ['image', 'mask']


def base(rnd):
    n = 0

    def fresh():
        nonlocal n
        n += 1
        return f's{n:03d}'
    ids = IDS[:rnd.randint(2, 4)]
    if rnd.random() < 0.35:
        # a Merge of two datasets with string ids: the routing table is part of every static hash below
        k = rnd.randint(1, len(ids) - 1)
        spec = [{'t': 'merge', 'parts': [[{'t': 'source', 'ids': ids[:k], 'fields': {f: fresh() for f in FIELDS}}],
                                         [{'t': 'source', 'ids': ids[k:], 'fields': {f: fresh() for f in FIELDS}}]]}]
    else:
        spec = [{'t': 'source', 'ids': ids, 'fields': {f: fresh() for f in FIELDS}}]
    for _ in range(rnd.randint(1, 3)):
        f = rnd.choice(FIELDS)
        args = [f] if rnd.random() < 0.5 else [f, [x for x in FIELDS if x != f][0]]
        t = {'t': 'transform', 'fields': {f: [fresh(), args]}, 'params': {}, 'inherit': True}
        if rnd.random() < 0.3:
            t['params']['_p'] = [fresh(), [rnd.choice(FIELDS)]]
            t['fields'][f][1] = t['fields'][f][1] + ['_p']
        spec.append(t)
    # a field with a Silent argument
    if rnd.random() < 0.5:
        sil = '~mask' if rnd.random() < 0.5 else 'verbose=~mask'
        spec.append({'t': 'transform', 'fields': {'image': [fresh(), ['image', sil]]}, 'params': {}, 'inherit': True})
    # a field bound with two keyword arguments, written in non-alphabetical order
    if rnd.random() < 0.45:
        f = rnd.choice(FIELDS)
        spec.append({'t': 'transform', 'fields': {f: [fresh(), [f, 'scale=' + rnd.choice(FIELDS), 'offset=' + rnd.choice(FIELDS)]]}, 'params': {}, 'inherit': True})
    # a Filter at the end: the hash of `ids` then holds the STATIC hash of everything above it
    if rnd.random() < 0.5:
        sympool.TABLE['t011'] = lambda *a: True
        spec.append({'t': 'filter', 'pred': ['t011', [rnd.choice(FIELDS)]]})
    return spec, fresh


def digest(h):
    return hashlib.sha256(dumps(h.value)).hexdigest()


def observe(layer, field, key):
    g = layer._compile(field)
    h = g.get_hash(key)[0]
    return g, h


def ids_digest(layer):
    try:
        return digest(layer._compile('ids').get_hash()[0])
    except BaseException as e:  # noqa
        return 'ERR:' + type(e).__name__


def rewrites(spec, fresh, rnd, tmp):
    """(name, builder) pairs; each builder returns a CallableLayer computing the same fields"""
    out = []
    out.append(('rebuild', lambda: P.build(spec, [])[0]))
    if len(spec) >= 3 and spec[0]['t'] == 'source':
        def right():
            ls = [P.build_layer(d, []) for d in spec]
            return Chain(ls[0], Chain(*ls[1:]) if False else ls[1], *ls[2:]) if len(ls) < 3 else Chain(Chain(ls[0], ls[1]), *ls[2:])
        out.append(('left-nested', right))

        def lazy():
            ls = [P.build_layer(d, []) for d in spec]
            return Chain(ls[0], LazyChain(*ls[1:]))
        out.append(('lazy-tail', lazy))

        def rshift():
            ls = [P.build_layer(d, []) for d in spec]
            r = ls[0]
            for x in ls[1:]:
                r = r >> x
            return r
        out.append(('rshift', rshift))
    pos = rnd.randint(1, len(spec))
    out.append(('insert-ram', lambda: P.build(spec[:pos] + [{'t': 'ram', 'names': None, 'size': rnd.choice([None, 2])}] + spec[pos:], [])[0]))
    out.append(('insert-disk', lambda: P.build(spec[:pos] + [{'t': 'disk', 'names': FIELDS, 'root': 0}] + spec[pos:], [tmp])[0]))
    out.append(('insert-columns', lambda: P.build(spec[:pos] + [{'t': 'columns', 'names': FIELDS, 'root': 0, 'shard': rnd.choice([None, 2])}] + spec[pos:], [tmp + '_c'])[0]))
    kws = [i for i, d in enumerate(spec) if d['t'] == 'transform' and any(sum('=' in a and not a.split('=', 1)[1].startswith('~') for a in v[1]) >= 2 for v in d['fields'].values())]
    if kws:
        def keyword_order():
            sp = copy.deepcopy(spec)
            for v in sp[kws[0]]['fields'].values():
                pos = [a for a in v[1] if '=' not in a]
                kw = [a for a in v[1] if '=' in a]
                v[1] = pos + list(reversed(kw))
            return P.build(sp, [])[0]
        out.append(('keyword-order', keyword_order))
    out.append(('insert-inherit-all', lambda: P.build(spec[:pos] + [{'t': 'transform', 'fields': {}, 'params': {}, 'inherit': True}] + spec[pos:], [])[0]))
    out.append(('append-checkids', lambda: P.build(spec + [{'t': 'checkids'}], [])[0]))
    out.append(('append-keep-all', lambda: P.build(spec + [{'t': 'keep', 'ids': IDS}], [])[0]))
    out.append(('append-drop-none', lambda: P.build(spec + [{'t': 'drop', 'ids': ['x', 'y', 'zz']}], [])[0]))
    out.append(('merge-singleton', lambda: Merge(P.build(spec, [])[0])))
    # change what feeds a Silent argument
    sil = [i for i, d in enumerate(spec) if d['t'] == 'transform' and any('~' in a for v in d['fields'].values() for a in v[1])]
    def reads_mask(d):
        # a non-silent use of `mask` (positional or by keyword), or a Filter on it
        if d['t'] == 'filter':
            return 'mask' in d['pred'][1]
        return d['t'] == 'transform' and any(a == 'mask' or a.endswith('=mask') for v in d['fields'].values() for a in v[1])
    if sil and not any(reads_mask(d) for d in spec[sil[0]:]):
        def silent_change():
            sp = copy.deepcopy(spec)
            # another function for `mask` right before the layer with the Silent argument
            sp.insert(sil[0], {'t': 'transform', 'fields': {'mask': [fresh(), ['mask']]}, 'params': {}, 'inherit': True})
            return P.build(sp, [])[0]
        out.append(('silent-upstream-change', silent_change))
    return out


def one(rnd, tmp):
    spec, fresh = base(rnd)
    field = 'image'
    key = rnd.choice(spec[0]['ids'] if spec[0]['t'] == 'source' else [i for p_ in spec[0]['parts'] for i in p_[0]['ids']])
    layer, _ = P.build(spec, [])
    g, h = observe(layer, field, key)
    rec = {'spec': spec, 'field': field, 'key': key, 'digest': digest(h), 'value': g(key), 'ids_digest': ids_digest(layer), 'rewrites': []}
    for name, build in rewrites(spec, fresh, rnd, tmp):
        try:
            l2 = build()
            g2, h2 = observe(l2, field, key)
            r = {'name': name, 'digest': digest(h2), 'inproc_equal': bool(h2 == h), 'ids_digest': ids_digest(l2)}
            if name != 'silent-upstream-change':
                r['value_equal'] = g2(key) == rec['value']
            rec['rewrites'].append(r)
        except BaseException as e:  # noqa
            rec['rewrites'].append({'name': name, 'error': f'{type(e).__name__}: {e}'[:200]})
    # pickling the compiled function
    try:
        g3 = pickle.loads(pickle.dumps(g))
        h3 = g3.get_hash(key)[0]
        rec['rewrites'].append({'name': 'pickle-roundtrip', 'digest': digest(h3), 'inproc_equal': bool(h3 == h), 'value_equal': g3(key) == rec['value']})
    except BaseException as e:  # noqa
        rec['rewrites'].append({'name': 'pickle-roundtrip', 'error': f'{type(e).__name__}: {e}'[:200]})
    return rec


def main():
    ap = argparse.ArgumentParser()
    ap.add_argument('--seed', type=int, default=0)
    ap.add_argument('--n', type=int, default=40)
    ap.add_argument('--out', required=True)
    ap.add_argument('--work', required=True)
    a = ap.parse_args()
    rnd = random.Random(a.seed)
    os.makedirs(a.work, exist_ok=True)
    import shutil
    out = []
    for i in range(a.n):
        tmp = os.path.join(a.work, f'r{i}')
        out.append(one(rnd, tmp))
        shutil.rmtree(tmp, ignore_errors=True)
    dump({'cases': out}, a.out)


if __name__ == '__main__':
    main()
