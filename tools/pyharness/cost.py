"""C20 on the real code: number of Python-level calls inside the connectome package (sys.setprofile) for building,
compiling and calling parametric families of pipelines at sizes k and 2k, plus the CPU time of a RAM-cached call
(finding F4b: not visible in call counts, the time goes into tuple hashing inside CPython).

    cost.py --k K --out FILE --work DIR
"""
import argparse
import os
import shutil
import signal
import sys
import time

sys.path.insert(0, os.path.dirname(__file__))
import pipelines as P  # noqa
import sympool  # noqa
from common import dump  # noqa
from connectome import Chain, Filter, GroupBy  # noqa

ROOT = os.path.dirname(os.path.dirname(__import__('connectome').__file__)) + os.sep + 'connectome' + os.sep


PHASE_LIMIT = 40


class GaveUp(BaseException):
    pass


class Counter:
    def __init__(self):
        self.n = 0

    def __call__(self, frame, event, arg):
        if event == 'call' and frame.f_code.co_filename.startswith(ROOT):
            self.n += 1

    def measure(self, fn):
        self.n = 0
        sys.setprofile(self)
        try:
            r = fn()
        finally:
            sys.setprofile(None)
        return r, self.n


def crop_layers(k, first=1):
    """the Crop pattern of the tutorials: image(image, _box) with _box(image)"""
    return [{'t': 'transform', 'fields': {'image': [f's{(2 * i) % 150:03d}', ['image', '_box']]}, 'params': {'_box': [f's{(2 * i + 1) % 150:03d}', ['image']]},
             'inherit': True} for i in range(first, first + k)]


def small_crop_layers(k):
    """the Crop pattern with functions whose values stay small (the symbolic values of crop_layers double in size per layer, which
    would dominate any CPU time measured on a deep stack)"""
    for i in range(1, 39):
        sympool.TABLE[f't{i:03d}'] = lambda *a: 'v'
    return [{'t': 'transform', 'fields': {'image': [f't{(2 * i) % 38 + 1:03d}', ['image', '_box']]}, 'params': {'_box': [f't{(2 * i + 1) % 38 + 1:03d}', ['image']]},
             'inherit': True} for i in range(1, k + 1)]


def chain_layers(k):
    return [{'t': 'transform', 'fields': {'image': [f's{i % 150:03d}', ['image']]}, 'params': {}, 'inherit': True} for i in range(1, k + 1)]


def fanin_layers(k):
    fields = {f'f{i}': [f's{i % 150:03d}', ['image']] for i in range(k)}
    top = {'out': ['s150' if False else 's149', [f'f{i}' for i in range(k)]]}
    return [{'t': 'transform', 'fields': fields, 'params': {}, 'inherit': True},
            {'t': 'transform', 'fields': top, 'params': {}, 'inherit': True}]


def meta_diamond_layers(k):
    """diamonds over a field that depends on no input (ids)"""
    return [{'t': 'transform', 'fields': {'ids': [f't{i % 38 + 1:03d}', ['ids', '_b']]}, 'params': {'_b': [f't{i % 38 + 1:03d}', ['ids']]}, 'inherit': True}
            for i in range(k)]


SRC = {'t': 'source', 'ids': ['a', 'b'], 'fields': {'image': 's000'}}


def family(name, k, work):
    root = os.path.join(work, f'{name}-{k}')
    shutil.rmtree(root, ignore_errors=True)
    field, key = 'image', 'a'
    if name.startswith('smallcrop'):
        spec = [SRC] + small_crop_layers(k)
    elif name.startswith('crop'):
        spec = [SRC] + crop_layers(k)
    elif name.startswith('chain'):
        spec = [SRC] + chain_layers(k)
    elif name.startswith('fanin'):
        spec = [SRC] + fanin_layers(k)
        field = 'out'
    elif name.startswith('metadiamond'):
        for i in range(1, 40):
            sympool.TABLE[f't{i:03d}'] = lambda *a: a[0]
        spec = [SRC] + meta_diamond_layers(k)
        field, key = 'ids', None
    if name.endswith('+ram'):
        spec = spec + [{'t': 'ram', 'names': None, 'size': None}]
    if name.endswith('+disk'):
        spec = spec + [{'t': 'disk', 'names': [field], 'root': 0}]
    if name.endswith('+filter'):
        sympool.TABLE['t000'] = lambda x: True
        spec = spec + [{'t': 'filter', 'pred': ['t000', ['image']]}]
    if name.endswith('+groupby'):
        spec = spec + [{'t': 'transform', 'fields': {'image': ['s148', ['image']], 'grp': ['t039', ['id']]}, 'params': {}, 'inherit': True},
                       {'t': 'groupby', 'by': 'grp'}]
        sympool.TABLE['t039'] = lambda i: 'g'
        field, key = 'ids', None
    c = Counter()
    row = {'family': name, 'k': k, 'build': None, 'compile': None, 'call': None, 'cpu_repeat_call_s': None, 'gave_up_in': None, 'wall_s': {}}
    phase = 'build'

    def give_up(*_):
        raise GaveUp()

    # a phase that needs more than PHASE_LIMIT seconds is abandoned and reported as such (the sizes are small: every phase takes well under a second
    # when its cost is polynomial), so that an exponential phase is reported with its family and size instead of stalling the whole run
    signal.signal(signal.SIGALRM, give_up)
    try:
        signal.alarm(PHASE_LIMIT)
        t = time.time()
        (layer, _), row['build'] = c.measure(lambda: P.build(spec, [root]))
        row['wall_s']['build'] = round(time.time() - t, 3)
        phase = 'compile'
        signal.alarm(PHASE_LIMIT)
        t = time.time()
        g, row['compile'] = c.measure(lambda: (dir(layer), layer._compile(field))[1])
        row['wall_s']['compile'] = round(time.time() - t, 3)
        args = () if key is None else (key,)
        phase = 'call'
        signal.alarm(PHASE_LIMIT)
        t = time.time()
        _, row['call'] = c.measure(lambda: g(*args))
        row['wall_s']['call'] = round(time.time() - t, 3)
        phase = 'repeated call'
        signal.alarm(PHASE_LIMIT)
        t0 = time.process_time()
        for _ in range(3):
            g(*args)
        row['cpu_repeat_call_s'] = (time.process_time() - t0) / 3
    except GaveUp:
        sys.setprofile(None)
        row['gave_up_in'] = phase
    finally:
        signal.alarm(0)
    shutil.rmtree(root, ignore_errors=True)
    return row


def main():
    ap = argparse.ArgumentParser()
    ap.add_argument('--k', type=int, default=7)
    ap.add_argument('--out', required=True)
    ap.add_argument('--work', required=True)
    a = ap.parse_args()
    os.makedirs(a.work, exist_ok=True)
    out = []
    for name in ('crop', 'crop+ram', 'crop+disk', 'crop+filter', 'crop+groupby', 'chain', 'chain+ram', 'fanin', 'fanin+ram', 'metadiamond'):
        for k in (a.k, 2 * a.k):
            out.append(family(name, k, a.work))
            if out[-1]['gave_up_in']:
                break
    # deeper stacks for the disk cache only: a cost of 2^k inside CPython (comparing nested hash values) shows in CPU time from k ~ 20 on
    deep = []
    if not any(r['gave_up_in'] for r in out):
        for k in (11, 22):
            deep.append(dict(family('smallcrop+disk', k, a.work), deep=True))
            if deep[-1]['gave_up_in']:
                break
    dump({'rows': out, 'deep': deep}, a.out)


if __name__ == '__main__':
    main()
