"""Request sequences through CacheColumns on the real code, for the comparison with Model/Columns.v (C04, C08, C03, C07).

A Source with ids (three orders of the same set, or a superset), fields a, b, c over a hash-by-value parameter x, a CacheColumns
layer over some of the fields with shard_size None / int / float.  Operations: a request of one field for one key (known or not), with
some user functions set to raise; rebuilding the pipeline over the same folders (a new process as far as RAM goes), possibly with
another order of the ids.  Recorded per request: the outcome, the calls of the user functions in order, the number of disk entries.

    colmodel.py --seed S --n N --out FILE --work DIR
"""
import argparse
import math
import os
import random
import shutil
import sys

sys.path.insert(0, os.path.dirname(__file__))
import colfns as F  # noqa
from common import dump  # noqa
from common import check_import  # noqa
check_import()
from connectome import meta  # noqa
from connectome.interface.edges import Function  # noqa
from connectome.interface.nodes import Parameter  # noqa
from connectome.interface.complex_edges import hash_by_value  # noqa
from connectome.interface.metaclasses import SourceBase  # noqa
from connectome.layers.columns import CacheColumns  # noqa
from connectome.serializers import PickleSerializer  # noqa

FIELDS = {'a': F.fa, 'b': F.fb, 'c': F.fc}
IDS_FUNCS = {'v0': F.ids_v0, 'v1': F.ids_v1, 'v2': F.ids_v2}


def build(variant, names, shard, root):
    from tarn import DiskDict, HashKeyStorage
    from tarn.config import StorageConfig, init_storage
    items = [('ids', meta(Function(IDS_FUNCS[variant]))), ('_x', hash_by_value(Function(F.fx, 'key')))]
    for name, f in FIELDS.items():
        items.append((name, Function(f, 'key', Parameter('_x'))))
    src = SourceBase(items)
    index, storage = os.path.join(root, 'index'), os.path.join(root, 'storage')
    if not os.path.exists(index):
        os.makedirs(root, exist_ok=True)
        init_storage(StorageConfig(hash='sha256', levels=[1, 31]), index)
        init_storage(StorageConfig(hash='sha256', levels=[1, 31]), storage)
    cols = CacheColumns(index, HashKeyStorage(DiskDict(storage)), PickleSerializer(), names, shard_size=shard)
    return src >> cols


def disk_entries(root):
    n = 0
    for d, _, files in os.walk(os.path.join(root, 'index')):
        n += sum(1 for f in files if f != 'config.yml' and not f.startswith('.'))
    return n


def one(rnd, work, k):
    pool = list('abcdefgh')
    base = rnd.sample(pool, rnd.randint(1, 6))
    orders = {'v0': tuple(base), 'v1': tuple(rnd.sample(base, len(base))), 'v2': tuple(sorted(base, reverse=True))}
    if rnd.random() < 0.25:
        extra = [x for x in pool if x not in base]
        orders['v2'] = tuple(base + rnd.sample(extra, min(len(extra), rnd.randint(1, 2))))
    names = sorted(rnd.sample(sorted(FIELDS), rnd.randint(1, 3)))
    shard = rnd.choice([None, None, 2, 3, 4, 0.5, 0.34, 0.75, 5])
    root = os.path.join(work, f'cm{k}')
    shutil.rmtree(root, ignore_errors=True)
    F.ORDERS.clear()
    F.ORDERS.update(orders)
    rec = {'orders': orders, 'names': names, 'shard': shard, 'ops': []}
    variant = 'v0'
    ds = build(variant, names, shard, root)
    for _ in range(rnd.randint(3, 14)):
        op = {'new': False}
        if rnd.random() < 0.25:
            if rnd.random() < 0.6:
                variant = rnd.choice(sorted(orders))
            ds = build(variant, names, shard, root)
            op['new'] = True
        ids = orders[variant]
        col = rnd.choice(names)
        key = rnd.choice(ids) if rnd.random() < 0.9 else rnd.choice([x for x in pool + ['zz'] if x not in ids])
        fails = set()
        if rnd.random() < 0.25:
            for _ in range(rnd.randint(1, 2)):
                fails.add((rnd.choice(['x'] + names), rnd.choice(ids)))
        F.FAIL.clear()
        F.INTERRUPT.clear()
        # the user's function may also be interrupted (Ctrl-C): whatever was computed so far is not a shard
        interrupted = bool(fails) and rnd.random() < 0.4
        (F.INTERRUPT if interrupted else F.FAIL).update(fails)
        del F.LOG[:]
        try:
            r = {'val': getattr(ds, col)(key)}
        except (F.UserError, KeyboardInterrupt) as e:
            r = {'exc': 'user', 'msg': str(e), 'interrupt': isinstance(e, KeyboardInterrupt)}
        except ValueError as e:
            r = {'exc': 'value', 'msg': str(e)[:80]}
        except BaseException as e:  # noqa
            r = {'exc': 'other', 'msg': f'{type(e).__name__}: {e}'[:200]}
        keys = sorted(ids)
        size = shard
        if isinstance(size, float):
            size = math.ceil(size * len(keys))
        op.update({'variant': variant, 'col': col, 'key': key, 'keys': keys, 'size': size, 'fails': sorted(map(list, fails)),
                   'res': r, 'log': list(F.LOG), 'disk': disk_entries(root)})
        rec['ops'].append(op)
    F.FAIL.clear()
    F.INTERRUPT.clear()
    shutil.rmtree(root, ignore_errors=True)
    return rec


def main():
    ap = argparse.ArgumentParser()
    ap.add_argument('--seed', type=int, default=0)
    ap.add_argument('--n', type=int, default=100)
    ap.add_argument('--out', required=True)
    ap.add_argument('--work', required=True)
    a = ap.parse_args()
    rnd = random.Random(f'colmodel/{a.seed}')
    os.makedirs(a.work, exist_ok=True)
    dump({'cases': [one(rnd, a.work, k) for k in range(a.n)]}, a.out)


if __name__ == '__main__':
    main()
