"""C05 at interface level: families of pipelines that differ in ONE ingredient of a dataset-wide layer (what GroupBy groups
by, the predicate of a Filter or a hash-by-value function below it, the routing of a Merge, the split function) over the
same source.  Per variant: for `ids` and every field on every key, the digest of the node hash and the value.
Within a family, equal digests must mean equal values.

    collide.py --seed S --n N --out FILE
"""
import argparse
import hashlib
import os
import random
import sys
import zlib

sys.path.insert(0, os.path.dirname(__file__))
import pipelines as P  # noqa
import sympool  # noqa
from common import dump, exc_name, to_json  # noqa
from connectome import Filter, GroupBy, Merge, Split, Transform  # noqa
from connectome.interface.complex_edges import hash_by_value  # noqa
from connectome.interface.edges import Function  # noqa
from tarn.pickler import dumps  # noqa

IDS = list('abcdefgh')


def digest(h):
    return hashlib.sha256(dumps(h.value)).hexdigest()


def crc(v):
    return zlib.crc32(str(v).encode())


def observe(name, layer, fields):
    rec = {'variant': name, 'rows': []}
    try:
        ids = list(layer.ids)
    except BaseException as e:  # noqa
        rec['error'] = exc_name(e)
        return rec
    targets = [('ids', ())] + [(f, (k,)) for f in fields for k in ids]
    for f, args in targets:
        row = {'field': f, 'args': list(args)}
        try:
            g = layer._compile(f)
            row['digest'] = digest(g.get_hash(*args)[0])
            row['value'] = to_json(g(*args))
        except BaseException as e:  # noqa
            row['exc'] = exc_name(e)
        rec['rows'].append(row)
    return rec


def family(rnd):
    ids = sorted(rnd.sample(IDS, rnd.randint(3, 6)))
    g1 = {i: rnd.choice(['x', 'y']) for i in IDS}
    g2 = {i: rnd.choice(['x', 'y', 'z']) for i in IDS}
    sympool.TABLE['t020'] = lambda i: g1[i]
    sympool.TABLE['t021'] = lambda i: g2[i]
    sympool.TABLE['t031'] = lambda v: crc(v) % 2 == 0
    sympool.TABLE['t032'] = lambda v: crc(v) % 3 != 0
    sympool.TABLE['t033'] = lambda v, *a: bool(v)
    sympool.TABLE['t034'] = lambda v, *a: not v
    spec = [{'t': 'source', 'ids': ids, 'fields': {'image': 's100', 'g1': 't020', 'g2': 't021'}}]
    if rnd.random() < 0.5:
        spec.append({'t': 'transform', 'fields': {'image': ['s101', ['image']]}, 'params': {}, 'inherit': True})
    kind = rnd.choice(['group', 'group', 'byvalue-filter', 'filter', 'merge', 'split', 'shared-layer', 'shared-layer', 'join', 'ids-under-group', 'ids-under-filter', 'constant', 'columns-merge',
                       'silent-keyword', 'wrapped-function', 'array-constant', 'shared-disk-layer'])
    out = {'kind': kind, 'ids': ids, 'variants': []}
    base = lambda: P.build(spec, [])[0]      # noqa: E731

    def by1(g1, g2):
        return g1

    def by2(g2, g1):
        return g2
    if kind == 'group':
        vs = [('by g1', lambda: base() >> GroupBy('g1')), ('by g2', lambda: base() >> GroupBy('g2')),
              ('by [g1, g2]', lambda: base() >> GroupBy(['g1', 'g2'])), ('by function -> g1', lambda: base() >> GroupBy(by1)),
              ('by function -> g2', lambda: base() >> GroupBy(by2)), ('by g1 again', lambda: base() >> GroupBy('g1'))]
        fields = ['image', 'g1']
    elif kind == 'byvalue-filter':
        def mk(fn_sym, pred_sym):
            t = Transform(flag=hash_by_value(Function(P.sym(fn_sym), 'image')), __inherit__=True)
            return base() >> t >> Filter(P._named_pred(P.sym(pred_sym), ['flag']))
        vs = [('flag = even(image), keep flag', lambda: mk('t031', 't033')), ('flag = third(image), keep flag', lambda: mk('t032', 't033')),
              ('flag = even(image), keep not flag', lambda: mk('t031', 't034')), ('flag = even(image), keep flag, again', lambda: mk('t031', 't033'))]
        fields = ['image']
    elif kind == 'filter':
        def mk(pred_sym, field):
            return base() >> Filter(P._named_pred(P.sym(pred_sym), [field]))
        vs = [('even(image)', lambda: mk('t031', 'image')), ('third(image)', lambda: mk('t032', 'image')), ('even(g1)', lambda: mk('t031', 'g1')),
              ('even(image) again', lambda: mk('t031', 'image'))]
        fields = ['image']
    elif kind == 'merge':
        k = rnd.randint(1, len(ids) - 1)
        k2 = rnd.choice([x for x in range(1, len(ids)) if x != k] or [k])

        def mk(cut, swap=False):
            a = {'t': 'source', 'ids': ids[:cut], 'fields': {'image': 's110', 'g1': 't020'}}
            b = {'t': 'source', 'ids': ids[cut:], 'fields': {'image': 's111', 'g1': 't020'}}
            if swap:
                a['fields'], b['fields'] = b['fields'], a['fields']
            return P.build([{'t': 'merge', 'parts': [[a], [b]]}], [])[0]
        vs = [(f'cut at {k}', lambda: mk(k)), (f'cut at {k2}', lambda: mk(k2)), (f'cut at {k}, functions exchanged', lambda: mk(k, True)),
              (f'cut at {k} again', lambda: mk(k))]
        fields = ['image']
    elif kind == 'shared-layer':
        # ONE layer object (its edges are shared) over sources that differ; and two instances of one class with different arguments
        from stacks import Scale
        shared = Transform(image=Function(P.sym('s130'), 'image'), __inherit__=True)
        flt = Filter(P._named_pred(P.sym('t031'), ['image']))

        def src(sym):
            return P.build([{'t': 'source', 'ids': ids, 'fields': {'image': sym, 'g1': 't020', 'a': sym}}], [])[0]
        vs = [('source s100 >> shared >> shared filter', lambda: src('s100') >> shared >> flt),
              ('source s105 >> shared >> shared filter', lambda: src('s105') >> shared >> flt),
              ('source s100 >> Scale(2) on a >> filter', lambda: src('s100') >> Scale(factor=2) >> Filter(P._named_pred(P.sym('t031'), ['a']))),
              ('source s100 >> Scale(5) on a >> filter', lambda: src('s100') >> Scale(factor=5) >> Filter(P._named_pred(P.sym('t031'), ['a']))),
              ('source s100 >> shared >> group by g1', lambda: src('s100') >> shared >> GroupBy('g1')),
              ('source s105 >> shared >> group by g1', lambda: src('s105') >> shared >> GroupBy('g1'))]
        fields = ['image']
    elif kind == 'silent-keyword':
        # keyword bindings written in non-alphabetical order, one of them Silent: the OTHER one decides the value and must decide the hash
        from connectome.interface.nodes import Silent

        def mk(spacing_sym):
            src = P.build([{'t': 'source', 'ids': ids, 'fields': {'image': 's100', 'spacing': spacing_sym, 'verbose': 't021'}}], [])[0]
            return src >> Transform(out=Function(P.sym('s150'), 'image', verbose=Silent('verbose'), spacing='spacing'), __inherit__=True)
        vs = [('spacing from t020', lambda: mk('t020')), ('spacing from t021', lambda: mk('t021')), ('spacing from t020 again', lambda: mk('t020'))]
        fields = ['out']
    elif kind == 'wrapped-function':
        # a predicate / grouping function and the same function under a decorator written with functools.wraps are different functions
        import functools

        def negate(f):
            @functools.wraps(f)
            def g(*a, **k):
                return not f(*a, **k)
            return g

        def exclaim(f):
            @functools.wraps(f)
            def g(*a, **k):
                return f(*a, **k) + '!'
            return g
        pred = P._named_pred(P.sym('t031'), ['image'])
        vs = [('Filter(even)', lambda: base() >> Filter(pred)), ('Filter(negate(even)), negate written with functools.wraps', lambda: base() >> Filter(negate(pred))),
              ('GroupBy(by1)', lambda: base() >> GroupBy(by1)), ('GroupBy(exclaim(by1)), exclaim written with functools.wraps', lambda: base() >> GroupBy(exclaim(by1))),
              ('Filter(even) again', lambda: base() >> Filter(pred))]
        fields = ['image']
    elif kind == 'array-constant':
        # array arguments with the same bytes and dtype and different shapes
        import numpy as np
        import pickpool
        flat = [rnd.randint(0, 3) for _ in range(6)]
        mk = lambda shape: (lambda: base() >> pickpool.Correlate(kernel=np.array(flat).reshape(shape)))      # noqa: E731
        vs = [('kernel 1x6', mk((1, 6))), ('kernel 6x1', mk((6, 1))), ('kernel 2x3', mk((2, 3))), ('kernel 3x2', mk((3, 2))), ('kernel 1x6 again', mk((1, 6)))]
        fields = ['image']
    elif kind == 'shared-disk-layer':
        # ONE CacheToDisk object behind pipelines whose constants are ==-equal and of different types (2, 2.0, True): each is served its own entries
        import tempfile
        from stacks import Scale
        from connectome import CacheToDisk
        from connectome.serializers import PickleSerializer
        root = tempfile.mkdtemp(prefix='collide_')
        out['cleanup'] = root
        disk = CacheToDisk.simple('a', root=root, serializer=PickleSerializer())

        def src():
            return P.build([{'t': 'source', 'ids': ids, 'fields': {'image': 's100', 'a': 's100'}}], [])[0]
        consts = rnd.sample([2, 2.0, True, 1, 1.0], 3)
        vs = [(f'Scale({c!r}) >> the shared CacheToDisk', (lambda c=c: src() >> Scale(factor=c) >> disk)) for c in consts]
        out['reference'] = {f'Scale({c!r}) >> the shared CacheToDisk': (lambda c=c: src() >> Scale(factor=c)) for c in consts}
        fields = ['a']
    elif kind == 'constant':
        # constructor arguments that are not hashable and print alike
        import pickpool
        mk = lambda h: (lambda: base() >> pickpool.Offset(cfg=pickpool.Cfg(h)))      # noqa: E731
        mk2 = lambda lst: (lambda: base() >> pickpool.Offset(cfg=pickpool.Cfg(lst)))      # noqa: E731
        vs = [('Cfg(1)', mk(1)), ('Cfg(2)', mk(2)), ('Cfg([1, 2])', mk2([1, 2])), ('Cfg([2, 1])', mk2([2, 1])), ('Cfg(1) again', mk(1))]
        fields = ['image']
    elif kind == 'columns-merge':
        # two datasets merged and cached per shard on ONE store; a variant changes a function of the dataset that does not own the first id
        import tempfile
        root = tempfile.mkdtemp(prefix='collide_')
        out['cleanup'] = root
        k = rnd.randint(1, len(ids) - 1)
        shard = rnd.choice([None, 2, 3])

        def mk(sym_b, cached=True):
            a = {'t': 'source', 'ids': ids[:k], 'fields': {'image': 's110'}}
            b = {'t': 'source', 'ids': ids[k:], 'fields': {'image': sym_b}}
            sp = [{'t': 'merge', 'parts': [[a], [b]]}] + ([{'t': 'columns', 'names': ['image'], 'root': 0, 'shard': shard}] if cached else [])
            return P.build(sp, [root])[0]
        vs = [('second dataset uses s111', lambda: mk('s111')), ('second dataset uses s112', lambda: mk('s112')), ('second dataset uses s111 again', lambda: mk('s111'))]
        out['reference'] = {'second dataset uses s111': lambda: mk('s111', False), 'second dataset uses s112': lambda: mk('s112', False),
                            'second dataset uses s111 again': lambda: mk('s111', False)}
        fields = ['image']
    elif kind == 'join':
        from connectome import Join
        kl = {i: rnd.choice(['k1', 'k2', 'k3']) + str(j) for j, i in enumerate(ids)}
        kr1 = {i: kl[i] for i in ids}
        kr2 = {i: (kl[i] if j % 2 == 0 else 'other' + str(j)) for j, i in enumerate(ids)}      # another key function: fewer matches
        sympool.TABLE['t022'] = lambda i: kl[i]
        sympool.TABLE['t023'] = lambda i: kr1[i]
        sympool.TABLE['t024'] = lambda i: kr2[i]

        def tab(ksym, vname, vsym):
            return P.build([{'t': 'source', 'ids': ids, 'fields': {'key': ksym, vname: vsym}}], [])[0]
        vs = [('right keyed by kr1', lambda: Join(tab('t022', 'lval', 's140'), tab('t023', 'rval', 's141'), 'key')),
              ('right keyed by kr2', lambda: Join(tab('t022', 'lval', 's140'), tab('t024', 'rval', 's141'), 'key')),
              ('left keyed by kr2', lambda: Join(tab('t024', 'lval', 's140'), tab('t023', 'rval', 's141'), 'key')),
              ('right keyed by kr1 again', lambda: Join(tab('t022', 'lval', 's140'), tab('t023', 'rval', 's141'), 'key'))]
        fields = ['lval', 'rval']
    elif kind in ('ids-under-group', 'ids-under-filter'):
        # the same grouping / predicate over different id sets of one source (folds of a cross-validation)
        sub = sorted(rnd.sample(ids, rnd.randint(1, len(ids) - 1)))
        sub2 = sorted(rnd.sample(ids, rnd.randint(1, len(ids) - 1)))
        if kind == 'ids-under-group':
            mk = lambda keep: (lambda: base() >> Filter.keep(keep) >> GroupBy('g1'))      # noqa: E731
        else:
            mk = lambda keep: (lambda: base() >> Filter.keep(keep) >> Filter(P._named_pred(P.sym('t031'), ['image'])))      # noqa: E731
        vs = [('all ids', mk(ids)), (f'ids {sub}', mk(sub)), (f'ids {sub2}', mk(sub2)), ('all ids again', mk(ids))]
        fields = ['image']
    else:
        def halves(id):
            return [(id + '1', 'L'), (id + '2', 'R')]

        def other(id):
            return [(id + '1', 'R'), (id + '2', 'L')]

        def mk(fn):
            class S(Split):
                __inherit__ = 'g1'

                def __split__(id):
                    return fn(id)

                def image(image, __part__):
                    return sympool.s120(image, __part__)
            return base() >> S()
        sympool.TABLE['t038'], sympool.TABLE['t039'] = halves, other
        vs = [('parts L, R', lambda: mk(sympool.t038)), ('parts R, L', lambda: mk(sympool.t039)), ('parts L, R again', lambda: mk(sympool.t038))]
        fields = ['image']
    out['spec'] = spec
    for name, mk_ in vs:
        try:
            layer = mk_()
        except BaseException as e:  # noqa
            out['variants'].append({'variant': name, 'error': 'build: ' + exc_name(e)})
            continue
        rec = observe(name, layer, fields)
        if 'reference' in out and 'rows' in rec:
            ref = out['reference'][name]()
            for r in rec['rows']:
                if r['field'] != 'ids' and 'value' in r:
                    r['reference'] = to_json(ref._compile(r['field'])(*r['args']))
        out['variants'].append(rec)
    out.pop('reference', None)
    if out.get('cleanup'):
        import shutil
        shutil.rmtree(out.pop('cleanup'), ignore_errors=True)
    return out


def shared_folders(rnd, k):
    """a CacheColumns over a field `a` and a CacheToDisk over a field b = f(a) write into the same folders; f is a user function or the builtin
    `tuple` (finding F11 of the pinned tree: a shard with one entry is keyed by ApplyHash(tuple, hash of the entry), the node hash of tuple(a));
    both orders of filling; every value must be the one of the cache-free pipeline"""
    import shutil
    import tempfile
    from connectome import CacheToDisk, CacheColumns
    from connectome.interface.metaclasses import SourceBase, TransformBase
    from connectome import meta
    from connectome.serializers import PickleSerializer
    from tarn import DiskDict, HashKeyStorage
    ids = tuple(sorted(rnd.sample(IDS, rnd.choice([1, 1, 2, 3]))))
    shard = rnd.choice([None, 2]) if len(ids) > 1 else None
    fname = rnd.choice(['builtins.tuple', 'builtins.tuple', 's002'])
    if k == 0:
        ids, shard, fname = ('a',), None, 'builtins.tuple'
    f = tuple if fname == 'builtins.tuple' else P.sym(fname)
    sympool.TABLE['t030'] = lambda i: [i, i + i]
    rec = {'ids': list(ids), 'shard': shard, 'function': fname, 'orders': []}
    for order in ('columns-first', 'disk-first'):
        root = tempfile.mkdtemp(prefix=f'shared{k}_', dir=os.environ.get('VERIF_WORK', None))
        try:
            src = SourceBase([('ids', meta(Function(P._const_ids(ids)))), ('a', Function(P.sym('t030'), 'key'))])
            tr = TransformBase([('b', Function(f, 'a'))], inherit=True)
            plain = src >> tr
            disk = CacheToDisk.simple('b', root=root, serializer=PickleSerializer())
            cols = CacheColumns(os.path.join(root, 'index'), HashKeyStorage(DiskDict(os.path.join(root, 'storage'))), PickleSerializer(), ['a'], shard_size=shard)
            with_disk = src >> tr >> disk
            with_cols = src >> cols
            calls = [(with_cols, 'a'), (with_disk, 'b')] if order == 'columns-first' else [(with_disk, 'b'), (with_cols, 'a')]
            rows = []
            for layer, field in calls:
                for key in ids:
                    row = {'field': field, 'key': key, 'reference': to_json(getattr(plain, field)(key))}
                    try:
                        row['value'] = to_json(getattr(layer, field)(key))
                    except BaseException as e:  # noqa
                        row['exc'] = exc_name(e)
                    rows.append(row)
            rec['orders'].append({'order': order, 'rows': rows})
        finally:
            shutil.rmtree(root, ignore_errors=True)
    return rec


class _Legacy:
    """a dataset written without connectome, wrapped by External"""

    def __init__(self, tag):
        self.tag = tag

    @property
    def ids(self):
        return ('a', 'b', 'c')

    def image(self, i):
        return f'image-{self.tag}-{i}'

    def mask(self, i):
        return f'mask-{self.tag}-{i}'

    def spacing(self, i):
        return f'spacing-{self.tag}-{i}'


def external_methods(rnd, k):
    """the methods of ONE object wrapped by External, behind a disk cache, a RAM cache or a column cache over all of them: every field of every
    id has its own node hash and its own value (each method is a different computation)"""
    import shutil
    import tempfile
    from connectome import CacheToDisk, CacheToRam, External
    from connectome.serializers import PickleSerializer
    kind = rnd.choice(['disk', 'disk', 'ram'])
    fields = rnd.sample(['image', 'mask', 'spacing'], rnd.randint(2, 3))
    root = tempfile.mkdtemp(prefix=f'ext{k}_')
    rec = {'kind': kind, 'fields': fields, 'rows': []}
    try:
        plain = External(_Legacy('x'), inputs=['i'])
        if kind == 'disk':
            cached = External(_Legacy('x'), inputs=['i']) >> CacheToDisk.simple(*fields, root=root, serializer=PickleSerializer())
        elif kind == 'ram':
            cached = External(_Legacy('x'), inputs=['i']) >> CacheToRam(fields)
        else:
            from connectome import CacheColumns
            from tarn import DiskDict, HashKeyStorage
            from tarn.config import StorageConfig, init_storage
            index, storage = os.path.join(root, 'index'), os.path.join(root, 'storage')
            init_storage(StorageConfig(hash='sha256', levels=[1, 31]), index)
            init_storage(StorageConfig(hash='sha256', levels=[1, 31]), storage)
            cached = External(_Legacy('x'), inputs=['i']) >> CacheColumns(index, HashKeyStorage(DiskDict(storage)), PickleSerializer(), fields)
        order = [(f, i) for i in ('a', 'b') for f in fields]
        rnd.shuffle(order)
        for f, i in order:
            row = {'field': f, 'key': i, 'reference': getattr(plain, f)(i)}
            try:
                row['digest'] = digest(plain._compile(f).get_hash(i)[0])
                row['value'] = getattr(cached, f)(i)
            except BaseException as e:  # noqa
                row['exc'] = exc_name(e)
            rec['rows'].append(row)
    except BaseException as e:  # noqa
        rec['error'] = exc_name(e)
    finally:
        shutil.rmtree(root, ignore_errors=True)
    return rec


def main():
    ap = argparse.ArgumentParser()
    ap.add_argument('--seed', type=int, default=0)
    ap.add_argument('--n', type=int, default=60)
    ap.add_argument('--out', required=True)
    a = ap.parse_args()
    rnd = random.Random(a.seed * 17 + 5)
    fams = [family(rnd) for _ in range(a.n)]
    dump({'families': fams, 'shared_folders': [shared_folders(rnd, k) for k in range(max(6, a.n // 6))],
          'external': [external_methods(rnd, k) for k in range(max(6, a.n // 6))]}, a.out)


if __name__ == '__main__':
    main()
