"""Fixed pool of importable, module-level symbolic user functions (tarn pickles them by reference, so digests are
stable across processes and runs).  Generated once; do not edit."""
CALLS = []
BAD = {}
RAISED = []
STAMP = [None]
APP = "$app"


class UserError(Exception):
    pass


class UserStop(StopIteration):
    pass


class UserKey(KeyError):
    pass


USER_EXC = [UserError, UserStop, UserKey, UserError]


def _call(name, a, k):
    CALLS.append((name, a, tuple(k.items())))
    if name in BAD:
        exc = USER_EXC[sum(map(ord, name)) % 4](name)
        RAISED.append(exc)
        raise exc
    return render(name, a, tuple(k.items()))


def show(v):
    """canonical text of an argument: symbolic results are strings starting with $, anything else is a Python literal"""
    if isinstance(v, str) and v.startswith('$'):
        return v
    if isinstance(v, tuple):
        return '(' + ''.join(show(x) + ',' for x in v) + ')'
    if isinstance(v, list):
        return '[' + ','.join(show(x) for x in v) + ']'
    if isinstance(v, dict):
        return '{' + ','.join(show(a) + ':' + show(b) for a, b in v.items()) + '}'
    return repr(v)


def render(name, a, k):
    """the value of a symbolic call is one flat string (pickling a nested structure would make digests depend on
    object aliasing inside the value)"""
    return '$' + name + '(' + ','.join([show(x) for x in a] + [kk + '=' + show(x) for kk, x in k]) + ')'


def s000(*a, **k):
    return _call("s000", a, k)


def s001(*a, **k):
    return _call("s001", a, k)


def s002(*a, **k):
    return _call("s002", a, k)


def s003(*a, **k):
    return _call("s003", a, k)


def s004(*a, **k):
    return _call("s004", a, k)


def s005(*a, **k):
    return _call("s005", a, k)


def s006(*a, **k):
    return _call("s006", a, k)


def s007(*a, **k):
    return _call("s007", a, k)


def s008(*a, **k):
    return _call("s008", a, k)


def s009(*a, **k):
    return _call("s009", a, k)


def s010(*a, **k):
    return _call("s010", a, k)


def s011(*a, **k):
    return _call("s011", a, k)


def s012(*a, **k):
    return _call("s012", a, k)


def s013(*a, **k):
    return _call("s013", a, k)


def s014(*a, **k):
    return _call("s014", a, k)


def s015(*a, **k):
    return _call("s015", a, k)


def s016(*a, **k):
    return _call("s016", a, k)


def s017(*a, **k):
    return _call("s017", a, k)


def s018(*a, **k):
    return _call("s018", a, k)


def s019(*a, **k):
    return _call("s019", a, k)


def s020(*a, **k):
    return _call("s020", a, k)


def s021(*a, **k):
    return _call("s021", a, k)


def s022(*a, **k):
    return _call("s022", a, k)


def s023(*a, **k):
    return _call("s023", a, k)


def s024(*a, **k):
    return _call("s024", a, k)


def s025(*a, **k):
    return _call("s025", a, k)


def s026(*a, **k):
    return _call("s026", a, k)


def s027(*a, **k):
    return _call("s027", a, k)


def s028(*a, **k):
    return _call("s028", a, k)


def s029(*a, **k):
    return _call("s029", a, k)


def s030(*a, **k):
    return _call("s030", a, k)


def s031(*a, **k):
    return _call("s031", a, k)


def s032(*a, **k):
    return _call("s032", a, k)


def s033(*a, **k):
    return _call("s033", a, k)


def s034(*a, **k):
    return _call("s034", a, k)


def s035(*a, **k):
    return _call("s035", a, k)


def s036(*a, **k):
    return _call("s036", a, k)


def s037(*a, **k):
    return _call("s037", a, k)


def s038(*a, **k):
    return _call("s038", a, k)


def s039(*a, **k):
    return _call("s039", a, k)


def s040(*a, **k):
    return _call("s040", a, k)


def s041(*a, **k):
    return _call("s041", a, k)


def s042(*a, **k):
    return _call("s042", a, k)


def s043(*a, **k):
    return _call("s043", a, k)


def s044(*a, **k):
    return _call("s044", a, k)


def s045(*a, **k):
    return _call("s045", a, k)


def s046(*a, **k):
    return _call("s046", a, k)


def s047(*a, **k):
    return _call("s047", a, k)


def s048(*a, **k):
    return _call("s048", a, k)


def s049(*a, **k):
    return _call("s049", a, k)


def s050(*a, **k):
    return _call("s050", a, k)


def s051(*a, **k):
    return _call("s051", a, k)


def s052(*a, **k):
    return _call("s052", a, k)


def s053(*a, **k):
    return _call("s053", a, k)


def s054(*a, **k):
    return _call("s054", a, k)


def s055(*a, **k):
    return _call("s055", a, k)


def s056(*a, **k):
    return _call("s056", a, k)


def s057(*a, **k):
    return _call("s057", a, k)


def s058(*a, **k):
    return _call("s058", a, k)


def s059(*a, **k):
    return _call("s059", a, k)


def s060(*a, **k):
    return _call("s060", a, k)


def s061(*a, **k):
    return _call("s061", a, k)


def s062(*a, **k):
    return _call("s062", a, k)


def s063(*a, **k):
    return _call("s063", a, k)


def s064(*a, **k):
    return _call("s064", a, k)


def s065(*a, **k):
    return _call("s065", a, k)


def s066(*a, **k):
    return _call("s066", a, k)


def s067(*a, **k):
    return _call("s067", a, k)


def s068(*a, **k):
    return _call("s068", a, k)


def s069(*a, **k):
    return _call("s069", a, k)


def s070(*a, **k):
    return _call("s070", a, k)


def s071(*a, **k):
    return _call("s071", a, k)


def s072(*a, **k):
    return _call("s072", a, k)


def s073(*a, **k):
    return _call("s073", a, k)


def s074(*a, **k):
    return _call("s074", a, k)


def s075(*a, **k):
    return _call("s075", a, k)


def s076(*a, **k):
    return _call("s076", a, k)


def s077(*a, **k):
    return _call("s077", a, k)


def s078(*a, **k):
    return _call("s078", a, k)


def s079(*a, **k):
    return _call("s079", a, k)


def s080(*a, **k):
    return _call("s080", a, k)


def s081(*a, **k):
    return _call("s081", a, k)


def s082(*a, **k):
    return _call("s082", a, k)


def s083(*a, **k):
    return _call("s083", a, k)


def s084(*a, **k):
    return _call("s084", a, k)


def s085(*a, **k):
    return _call("s085", a, k)


def s086(*a, **k):
    return _call("s086", a, k)


def s087(*a, **k):
    return _call("s087", a, k)


def s088(*a, **k):
    return _call("s088", a, k)


def s089(*a, **k):
    return _call("s089", a, k)


def s090(*a, **k):
    return _call("s090", a, k)


def s091(*a, **k):
    return _call("s091", a, k)


def s092(*a, **k):
    return _call("s092", a, k)


def s093(*a, **k):
    return _call("s093", a, k)


def s094(*a, **k):
    return _call("s094", a, k)


def s095(*a, **k):
    return _call("s095", a, k)


def s096(*a, **k):
    return _call("s096", a, k)


def s097(*a, **k):
    return _call("s097", a, k)


def s098(*a, **k):
    return _call("s098", a, k)


def s099(*a, **k):
    return _call("s099", a, k)


def s100(*a, **k):
    return _call("s100", a, k)


def s101(*a, **k):
    return _call("s101", a, k)


def s102(*a, **k):
    return _call("s102", a, k)


def s103(*a, **k):
    return _call("s103", a, k)


def s104(*a, **k):
    return _call("s104", a, k)


def s105(*a, **k):
    return _call("s105", a, k)


def s106(*a, **k):
    return _call("s106", a, k)


def s107(*a, **k):
    return _call("s107", a, k)


def s108(*a, **k):
    return _call("s108", a, k)


def s109(*a, **k):
    return _call("s109", a, k)


def s110(*a, **k):
    return _call("s110", a, k)


def s111(*a, **k):
    return _call("s111", a, k)


def s112(*a, **k):
    return _call("s112", a, k)


def s113(*a, **k):
    return _call("s113", a, k)


def s114(*a, **k):
    return _call("s114", a, k)


def s115(*a, **k):
    return _call("s115", a, k)


def s116(*a, **k):
    return _call("s116", a, k)


def s117(*a, **k):
    return _call("s117", a, k)


def s118(*a, **k):
    return _call("s118", a, k)


def s119(*a, **k):
    return _call("s119", a, k)


def s120(*a, **k):
    return _call("s120", a, k)


def s121(*a, **k):
    return _call("s121", a, k)


def s122(*a, **k):
    return _call("s122", a, k)


def s123(*a, **k):
    return _call("s123", a, k)


def s124(*a, **k):
    return _call("s124", a, k)


def s125(*a, **k):
    return _call("s125", a, k)


def s126(*a, **k):
    return _call("s126", a, k)


def s127(*a, **k):
    return _call("s127", a, k)


def s128(*a, **k):
    return _call("s128", a, k)


def s129(*a, **k):
    return _call("s129", a, k)


def s130(*a, **k):
    return _call("s130", a, k)


def s131(*a, **k):
    return _call("s131", a, k)


def s132(*a, **k):
    return _call("s132", a, k)


def s133(*a, **k):
    return _call("s133", a, k)


def s134(*a, **k):
    return _call("s134", a, k)


def s135(*a, **k):
    return _call("s135", a, k)


def s136(*a, **k):
    return _call("s136", a, k)


def s137(*a, **k):
    return _call("s137", a, k)


def s138(*a, **k):
    return _call("s138", a, k)


def s139(*a, **k):
    return _call("s139", a, k)


def s140(*a, **k):
    return _call("s140", a, k)


def s141(*a, **k):
    return _call("s141", a, k)


def s142(*a, **k):
    return _call("s142", a, k)


def s143(*a, **k):
    return _call("s143", a, k)


def s144(*a, **k):
    return _call("s144", a, k)


def s145(*a, **k):
    return _call("s145", a, k)


def s146(*a, **k):
    return _call("s146", a, k)


def s147(*a, **k):
    return _call("s147", a, k)


def s148(*a, **k):
    return _call("s148", a, k)


def s149(*a, **k):
    return _call("s149", a, k)


def s150(*a, **k):
    return _call("s150", a, k)


def s151(*a, **k):
    return _call("s151", a, k)


def s152(*a, **k):
    return _call("s152", a, k)


def s153(*a, **k):
    return _call("s153", a, k)


def s154(*a, **k):
    return _call("s154", a, k)


def s155(*a, **k):
    return _call("s155", a, k)


def s156(*a, **k):
    return _call("s156", a, k)


def s157(*a, **k):
    return _call("s157", a, k)


def s158(*a, **k):
    return _call("s158", a, k)


def s159(*a, **k):
    return _call("s159", a, k)


TABLE = {}


def t000(*a, **k):
    CALLS.append(("t000", a, tuple(k.items())))
    return TABLE["t000"](*a, **k)


def t001(*a, **k):
    CALLS.append(("t001", a, tuple(k.items())))
    return TABLE["t001"](*a, **k)


def t002(*a, **k):
    CALLS.append(("t002", a, tuple(k.items())))
    return TABLE["t002"](*a, **k)


def t003(*a, **k):
    CALLS.append(("t003", a, tuple(k.items())))
    return TABLE["t003"](*a, **k)


def t004(*a, **k):
    CALLS.append(("t004", a, tuple(k.items())))
    return TABLE["t004"](*a, **k)


def t005(*a, **k):
    CALLS.append(("t005", a, tuple(k.items())))
    return TABLE["t005"](*a, **k)


def t006(*a, **k):
    CALLS.append(("t006", a, tuple(k.items())))
    return TABLE["t006"](*a, **k)


def t007(*a, **k):
    CALLS.append(("t007", a, tuple(k.items())))
    return TABLE["t007"](*a, **k)


def t008(*a, **k):
    CALLS.append(("t008", a, tuple(k.items())))
    return TABLE["t008"](*a, **k)


def t009(*a, **k):
    CALLS.append(("t009", a, tuple(k.items())))
    return TABLE["t009"](*a, **k)


def t010(*a, **k):
    CALLS.append(("t010", a, tuple(k.items())))
    return TABLE["t010"](*a, **k)


def t011(*a, **k):
    CALLS.append(("t011", a, tuple(k.items())))
    return TABLE["t011"](*a, **k)


def t012(*a, **k):
    CALLS.append(("t012", a, tuple(k.items())))
    return TABLE["t012"](*a, **k)


def t013(*a, **k):
    CALLS.append(("t013", a, tuple(k.items())))
    return TABLE["t013"](*a, **k)


def t014(*a, **k):
    CALLS.append(("t014", a, tuple(k.items())))
    return TABLE["t014"](*a, **k)


def t015(*a, **k):
    CALLS.append(("t015", a, tuple(k.items())))
    return TABLE["t015"](*a, **k)


def t016(*a, **k):
    CALLS.append(("t016", a, tuple(k.items())))
    return TABLE["t016"](*a, **k)


def t017(*a, **k):
    CALLS.append(("t017", a, tuple(k.items())))
    return TABLE["t017"](*a, **k)


def t018(*a, **k):
    CALLS.append(("t018", a, tuple(k.items())))
    return TABLE["t018"](*a, **k)


def t019(*a, **k):
    CALLS.append(("t019", a, tuple(k.items())))
    return TABLE["t019"](*a, **k)


def t020(*a, **k):
    CALLS.append(("t020", a, tuple(k.items())))
    return TABLE["t020"](*a, **k)


def t021(*a, **k):
    CALLS.append(("t021", a, tuple(k.items())))
    return TABLE["t021"](*a, **k)


def t022(*a, **k):
    CALLS.append(("t022", a, tuple(k.items())))
    return TABLE["t022"](*a, **k)


def t023(*a, **k):
    CALLS.append(("t023", a, tuple(k.items())))
    return TABLE["t023"](*a, **k)


def t024(*a, **k):
    CALLS.append(("t024", a, tuple(k.items())))
    return TABLE["t024"](*a, **k)


def t025(*a, **k):
    CALLS.append(("t025", a, tuple(k.items())))
    return TABLE["t025"](*a, **k)


def t026(*a, **k):
    CALLS.append(("t026", a, tuple(k.items())))
    return TABLE["t026"](*a, **k)


def t027(*a, **k):
    CALLS.append(("t027", a, tuple(k.items())))
    return TABLE["t027"](*a, **k)


def t028(*a, **k):
    CALLS.append(("t028", a, tuple(k.items())))
    return TABLE["t028"](*a, **k)


def t029(*a, **k):
    CALLS.append(("t029", a, tuple(k.items())))
    return TABLE["t029"](*a, **k)


def t030(*a, **k):
    CALLS.append(("t030", a, tuple(k.items())))
    return TABLE["t030"](*a, **k)


def t031(*a, **k):
    CALLS.append(("t031", a, tuple(k.items())))
    return TABLE["t031"](*a, **k)


def t032(*a, **k):
    CALLS.append(("t032", a, tuple(k.items())))
    return TABLE["t032"](*a, **k)


def t033(*a, **k):
    CALLS.append(("t033", a, tuple(k.items())))
    return TABLE["t033"](*a, **k)


def t034(*a, **k):
    CALLS.append(("t034", a, tuple(k.items())))
    return TABLE["t034"](*a, **k)


def t035(*a, **k):
    CALLS.append(("t035", a, tuple(k.items())))
    return TABLE["t035"](*a, **k)


def t036(*a, **k):
    CALLS.append(("t036", a, tuple(k.items())))
    return TABLE["t036"](*a, **k)


def t037(*a, **k):
    CALLS.append(("t037", a, tuple(k.items())))
    return TABLE["t037"](*a, **k)


def t038(*a, **k):
    CALLS.append(("t038", a, tuple(k.items())))
    return TABLE["t038"](*a, **k)


def t039(*a, **k):
    CALLS.append(("t039", a, tuple(k.items())))
    return TABLE["t039"](*a, **k)


