"""Interface-level pipelines built from JSON specs, with symbolic user functions from the fixed pool, and the
extraction of the compiled engine graph (so that the Coq machine can run exactly what the real code compiled).

spec := [layer, ...]      layer :=
  {"t": "source", "ids": [str..], "fields": {name: sym}, "meta": {name: sym}}          fields take the key
  {"t": "transform", "fields": {name: [sym, [arg names]]}, "params": {_name: [sym, [arg names]]},
        "inherit": [names] | true | {"exclude": [names]}, "optional": [names], "impure": [names], "byvalue": [names]}
  {"t": "apply", "fields": {name: sym}}
  {"t": "ram", "names": [..] | null, "size": int | null, "impure": bool}
  {"t": "disk", "names": [..], "root": int, "impure": bool}
  {"t": "columns", "names": [..], "root": int, "shard": int | float | null}
  {"t": "merge", "parts": [spec, ...]}                     (only as the first layer)
  {"t": "filter", "pred": [tsym, [field names]]} | {"t": "keep"|"drop", "ids": [..]}
  {"t": "checkids"} | {"t": "groupby", "by": name | [names]} | {"t": "chain", "layers": [layer..]} (nested Chain)
"""
import os
import sys

sys.path.insert(0, os.path.dirname(__file__))
import sympool  # noqa
from common import check_import, from_json, to_json  # noqa

check_import()
from connectome import (Apply, CacheColumns, CacheToDisk, CacheToRam, Chain, CheckIds, Filter, GroupBy, Merge,  # noqa
                        Source, Transform, impure, meta, optional)
from connectome.cache import MemoryCache  # noqa
from connectome.cache.disk import DiskCache  # noqa
from connectome.engine import (CacheEdge, ComputableHashEdge, ConstantEdge, FunctionEdge, HashBarrier,  # noqa
                               IdentityEdge, ImpureEdge, ProductEdge)
from connectome.engine import graph as graph_module  # noqa
from connectome.engine.graph import Graph  # noqa
from connectome.engine.utils import EvictionCache  # noqa
from connectome.interface.edges import Function  # noqa
from connectome.interface.metaclasses import SourceBase, TransformBase  # noqa
from connectome.interface.nodes import Silent  # noqa
from connectome.interface.complex_edges import hash_by_value  # noqa
from connectome.layers.check_ids import CheckIdsEdge  # noqa
from connectome.layers.merge import SwitchEdge  # noqa
from connectome.serializers import PickleSerializer  # noqa

TRACE = []
INDEX = {}


class LogEC(EvictionCache):
    tag = '?'

    def __contains__(self, key):
        r = super().__contains__(key)
        if id(key) in INDEX:
            TRACE.append(['has', self.tag, INDEX[id(key)], bool(r)])
        return r

    def __setitem__(self, key, value):
        super().__setitem__(key, value)
        if id(key) in INDEX:
            TRACE.append(['store', self.tag, INDEX[id(key)]])

    def evict(self, key):
        super().evict(key)
        if id(key) in INDEX:
            TRACE.append(['evict', self.tag, INDEX[id(key)], self.counts.get(key, 0)])


_installed = []


def install_tracing():
    if _installed:
        return
    _installed.append(1)
    graph_module.EvictionCache = LogEC
    orig = Graph._prepare_cache

    def prepare(self, arguments):
        h, c = orig(self, arguments)
        h.tag, c.tag = 'H', 'C'
        return h, c

    Graph._prepare_cache = prepare
    orig_call = sympool._call

    def call(name, a, k):
        TRACE.append(['call', name])
        return orig_call(name, a, k)

    sympool._call = call


def sym(name):
    return getattr(sympool, name)


def make_field(desc, wrap_optional=False, wrap_impure=False, wrap_byvalue=False, wrap_meta=False):
    """desc = [sym, [arg names]]; an argument written "~x" is Silent"""
    name, args = desc
    pos = [a for a in args if '=' not in a]
    kws = dict(a.split('=', 1) for a in args if '=' in a)

    def arg(a):
        return Silent(a[1:]) if a.startswith('~') else a
    f = Function(sym(name), *[arg(a) for a in pos], **{k: arg(v) for k, v in kws.items()})
    if wrap_byvalue:
        f = hash_by_value(f)
    if wrap_impure:
        f = impure(f)
    if wrap_optional:
        f = optional(f)
    if wrap_meta:
        f = meta(f)
    return f


def build_layer(d, roots):
    t = d['t']
    if t == 'source':
        ids = tuple(d['ids'])
        if d.get('ids_as_str'):
            # a dataset may give its (one-character) ids as a string
            items = [(d.get('ids_name', 'ids'), meta(Function(_const_ids_str(ids))))]
        else:
            items = [(d.get('ids_name', 'ids'), meta(Function(_const_ids_list(ids) if d.get('ids_as_list') else _const_ids(ids))))]
        for name, s in d.get('meta', {}).items():
            items.append((name, meta(Function(sym(s)))))
        for name, s in d['fields'].items():
            items.append((name, Function(sym(s), 'key')))
        return SourceBase(items)
    if t == 'transform':
        items = []
        for name, desc in d.get('params', {}).items():
            items.append((name, make_field(desc, wrap_impure=name in d.get('impure', ()), wrap_byvalue=name in d.get('byvalue', ()))))
        for name, desc in d['fields'].items():
            items.append((name, make_field(desc, name in d.get('optional', ()), name in d.get('impure', ()), name in d.get('byvalue', ()),
                                           name in d.get('meta', ()))))
        inh = d.get('inherit', [])
        if isinstance(inh, dict):
            return TransformBase(items, exclude=tuple(inh['exclude']))
        return TransformBase(items, inherit=True if inh is True else tuple(inh))
    if t == 'transform_const':
        # a class-based Transform with constructor arguments (ConstantEdge): consts = {_name: json value}
        import types
        from connectome import Transform as T
        items = []
        for name, desc in d.get('params', {}).items():
            items.append((name, make_field(desc)))
        for name, desc in d['fields'].items():
            items.append((name, make_field(desc)))
        consts = {k: from_json(v) for k, v in d['consts'].items()}

        def fill(ns):
            ns['__annotations__'] = {k: object for k in consts}
            for k, v in consts.items():
                ns[k] = v
            for k, v in items:
                ns[k] = v
            if d.get('inherit') is True:
                ns['__inherit__'] = True
            elif d.get('inherit'):
                ns['__inherit__'] = tuple(d['inherit'])
        cls = types.new_class('TC', (T,), {}, fill)
        return cls()
    if t == 'apply':
        return Apply(**{k: sym(s) for k, s in d['fields'].items()})
    if t == 'ram':
        names = d['names']
        if d.get('names_as_str') and names is not None and len(names) == 1:
            names = names[0]          # a single name may be given as a bare string
        return CacheToRam(names, size=d.get('size'), impure=d.get('impure', False))
    if t == 'disk':
        if d.get('impure') or d.get('names_as_str'):
            # CacheToDisk.simple has no `impure` argument: build the layer from its parts
            from tarn import DiskDict, HashKeyStorage
            from tarn.config import StorageConfig, init_storage
            root = roots[d['root']]
            index, storage = os.path.join(root, 'index'), os.path.join(root, 'storage')
            if not os.path.exists(index):
                os.makedirs(root, exist_ok=True)
                init_storage(StorageConfig(hash='sha256', levels=[1, 31]), index)
                init_storage(StorageConfig(hash='sha256', levels=[1, 31]), storage)
            names = d['names'][0] if d.get('names_as_str') and len(d['names']) == 1 else d['names']
            return CacheToDisk(index, HashKeyStorage(DiskDict(storage)), PickleSerializer(), names, impure=bool(d.get('impure')))
        return CacheToDisk.simple(*d['names'], root=roots[d['root']], serializer=PickleSerializer())
    if t == 'columns':
        from tarn import DiskDict, HashKeyStorage
        from tarn.config import StorageConfig, init_storage
        root = roots[d['root']]
        index, storage = os.path.join(root, 'index'), os.path.join(root, 'storage')
        if not os.path.exists(index):
            os.makedirs(root, exist_ok=True)
            init_storage(StorageConfig(hash='sha256', levels=[1, 31]), index)
            init_storage(StorageConfig(hash='sha256', levels=[1, 31]), storage)
        return CacheColumns(index, HashKeyStorage(DiskDict(storage)), PickleSerializer(), d['names'], shard_size=d.get('shard'))
    if t == 'filter':
        name, args = d['pred']
        return Filter(_named_pred(sym(name), args))
    if t == 'keep':
        return Filter.keep(d['ids'])
    if t == 'drop':
        return Filter.drop(d['ids'])
    if t == 'checkids':
        return CheckIds()
    if t == 'groupby':
        if d.get('by_callable'):
            import pickpool
            return GroupBy(pickpool.by_grp)
        return GroupBy(d['by'])
    if t == 'chain':
        ls = [build_layer(x, roots) for x in d['layers']]
        return Chain(*ls)
    raise ValueError(t)


_IDS_FUNCS = {}
PICKLABLE = [False]     # C19: user callables must be importable (see pickpool.py)


def _const_ids(ids):
    """one function object per id tuple, reused across rebuilds (in-process hashes compare functions by identity)"""
    if PICKLABLE[0]:
        import pickpool
        return pickpool.ConstIds(ids)
    if ids not in _IDS_FUNCS:
        def f():
            return ids
        f.__name__ = f.__qualname__ = 'ids_' + '_'.join(ids)
        _IDS_FUNCS[ids] = f
    return _IDS_FUNCS[ids]


_IDS_STRS = {}


def _const_ids_str(ids):
    assert all(len(i) == 1 for i in ids)
    if ids not in _IDS_STRS:
        text = ''.join(ids)

        def f():
            return text
        f.__name__ = f.__qualname__ = 'idsstr_' + text
        _IDS_STRS[ids] = f
    return _IDS_STRS[ids]


_IDS_LISTS = {}


def _const_ids_list(ids):
    """ids as ONE list object that outlives the calls (a dataset may well keep its ids in a list)"""
    if PICKLABLE[0]:
        import pickpool
        if ids not in _IDS_LISTS:
            _IDS_LISTS[ids] = (pickpool.ConstIdsList(ids), None)
        return _IDS_LISTS[ids][0]
    if ids not in _IDS_LISTS:
        the_list = list(ids)

        def f():
            return the_list
        f.__name__ = f.__qualname__ = 'idslist_' + '_'.join(ids)
        _IDS_LISTS[ids] = (f, the_list)
    return _IDS_LISTS[ids][0]


_PREDS = {}


def _named_pred(fn, args):
    if PICKLABLE[0]:
        import pickpool
        return pickpool.NamedPred(fn.__name__, args)
    key = (fn, tuple(args))
    if key not in _PREDS:
        ns = {}
        exec(f'def pred({", ".join(args)}):\n    return fn({", ".join(args)})\n', {'fn': fn}, ns)
        _PREDS[key] = ns['pred']
    return _PREDS[key]


def build(spec, roots):
    head = spec[0]
    if head['t'] == 'merge':
        layer = Merge(*[build(p, roots)[0] for p in head['parts']])
    else:
        layer = build_layer(head, roots)
    layers = [layer]
    for d in spec[1:]:
        layers.append(build_layer(d, roots))
    if len(layers) == 1:
        return layers[0], layers
    return Chain(*layers), layers


# ------------------------------------------------------------------------------------------ graph extraction
class Unsupported(Exception):
    pass


from common import fname  # noqa


def edge_json(e, cache_ids):
    if type(e) is FunctionEdge:
        return {'k': 'func', 'f': fname(e.function), 'ar': e.arity, 'kw': list(e.kw_names), 'sil': list(e.silent)}
    if type(e) is ConstantEdge:
        return {'k': 'const', 'v': to_json(e.value)}
    if type(e) is IdentityEdge:
        return {'k': 'ident'}
    if type(e) is ProductEdge:
        return {'k': 'product', 'n': e.arity}
    if type(e) is CacheEdge:
        return {'k': 'cache', 'c': cache_ids(e.cache)}
    if type(e) is HashBarrier:
        return {'k': 'barrier'}
    if type(e) is ComputableHashEdge:
        return {'k': 'byvalue', 'inner': edge_json(e.edge, cache_ids)}
    if type(e) is ImpureEdge:
        return {'k': 'impure', 'inner': edge_json(e.edge, cache_ids)}
    if type(e) is SwitchEdge:
        return {'k': 'switch', 'table': [[to_json(k), i] for k, i in e.id_to_index.items()], 'n': e.arity - 1}
    if type(e) is CheckIdsEdge:
        return {'k': 'checkids'}
    raise Unsupported(type(e).__name__)


def extract(graph, cache_ids):
    """nodes of a compiled Graph in topological order; returns (nodes, out index, {id(TreeNode): index}, input indices by name)"""
    order, seen = [], {}

    def visit(n):
        if id(n) in seen:
            return
        if not n.is_leaf and n not in graph.inputs:
            for p in n.parents:
                visit(p)
        seen[id(n)] = len(order)
        order.append(n)

    for i in graph.inputs:
        visit(i)
    visit(graph.output)
    nodes = []
    for n in order:
        if n.is_leaf or n in graph.inputs:
            nodes.append({'k': 'leaf', 'name': n.name})
        else:
            d = edge_json(n.edge, cache_ids)
            d['ps'] = [seen[id(p)] for p in n.parents]
            d['name'] = n.name
            nodes.append(d)
    return nodes, seen[id(graph.output)], seen, {n.name: seen[id(n)] for n in graph.inputs}, order


def _disk_root(cache):
    idx = cache.cache.index
    for attr in ('root',):
        if hasattr(idx, attr):
            return str(getattr(idx, attr))
    locs = getattr(idx, 'locations', None) or getattr(idx, '_locations', None)
    if locs:
        return str(getattr(locs[0], 'root', id(cache)))
    return str(id(cache))


class CacheIds:
    """cache id per storage object: one per MemoryCache instance, one per disk root"""

    def __init__(self):
        self.ids, self.kinds, self.objs = {}, [], []

    def __call__(self, cache):
        if isinstance(cache, DiskCache):
            key = ('disk', _disk_root(cache))
        else:
            key = ('ram', id(cache))
        if key not in self.ids:
            self.ids[key] = len(self.kinds)
            self.kinds.append(['ram', cache.size] if isinstance(cache, MemoryCache) else ['disk'])
            self.objs.append(cache)
        return self.ids[key]
