"""Disk caches filled by one interpreter and read by others started with another PYTHONHASHSEED (C07, C08): nothing is recomputed, nothing is
stored again.  Layouts: a persistent cache below a Filter.keep / GroupBy (the filtered ids enter every key), a RAM cache stacked on a disk
cache (the RAM cache sees each hash before the disk cache does), a column cache.

    crossproc.py --phase fill|read --seed S --out FILE --work DIR
"""
import argparse
import os
import random
import sys

sys.path.insert(0, os.path.dirname(__file__))
import pipelines as P  # noqa
import sympool  # noqa
from common import dump, exc_name, to_json  # noqa

IDS = [f'id{i:02d}' for i in range(14)]


def layouts(rnd, work):
    keep = sorted(rnd.sample(IDS, 9))
    src = {'t': 'source', 'ids': IDS, 'fields': {'image': 's001', 'grp': 't020'}}
    return [
        ('Source >> Filter.keep(9 ids) >> GroupBy(grp) >> CacheToDisk(image)',
         [src, {'t': 'keep', 'ids': keep}, {'t': 'groupby', 'by': 'grp'}, {'t': 'disk', 'names': ['image'], 'root': 0}], 'groups'),
        ('Source >> Filter.drop(5 ids) >> Transform >> CacheToDisk(image)',
         [src, {'t': 'drop', 'ids': [i for i in IDS if i not in keep]}, {'t': 'transform', 'fields': {'image': ['s002', ['image']]}, 'params': {}, 'inherit': True},
          {'t': 'disk', 'names': ['image'], 'root': 1}], 'ids'),
        ('Source >> Transform >> CacheToDisk(image) >> CacheToRam()',
         [src, {'t': 'transform', 'fields': {'image': ['s003', ['image']]}, 'params': {}, 'inherit': True}, {'t': 'disk', 'names': ['image'], 'root': 2},
          {'t': 'ram', 'names': None, 'size': None}], 'ids'),
        ('Source >> Filter.keep(9 ids) >> CacheColumns(image, shard_size=4)',
         [src, {'t': 'keep', 'ids': keep}, {'t': 'columns', 'names': ['image'], 'root': 3, 'shard': 4}], 'ids'),
    ]


def entries(root):
    n = 0
    for d, _, files in os.walk(os.path.join(root, 'index')):
        n += sum(1 for f in files if f != 'config.yml' and not f.startswith('.'))
    return n


def main():
    ap = argparse.ArgumentParser()
    ap.add_argument('--phase', required=True)
    ap.add_argument('--seed', type=int, default=0)
    ap.add_argument('--out', required=True)
    ap.add_argument('--work', required=True)
    a = ap.parse_args()
    rnd = random.Random(f'crossproc/{a.seed}')
    grp = {i: rnd.choice(['x', 'y', 'z']) for i in IDS}
    sympool.TABLE['t020'] = lambda i: grp[i]
    roots = [os.path.join(a.work, f'xr{i}') for i in range(4)]
    out = []
    for name, spec, over in layouts(rnd, a.work):
        rec = {'layout': name, 'hashseed': os.environ.get('PYTHONHASHSEED'), 'phase': a.phase}
        try:
            layer, _ = P.build(spec, roots)
            keys = list(layer.ids)
            del sympool.CALLS[:]
            rec['values'] = [to_json(layer.image(k)) for k in keys]
            rec['ran'] = sorted({c[0] for c in sympool.CALLS})
            rec['calls'] = len(sympool.CALLS)
            rec['entries'] = entries(roots[[d['root'] for d in spec if 'root' in d][0]])
        except BaseException as e:  # noqa
            rec['exc'] = exc_name(e)
        out.append(rec)
    dump({'layouts': out}, a.out)


if __name__ == '__main__':
    main()
