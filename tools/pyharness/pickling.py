"""C19 on the real code: pickle round trips of compiled functions.

    pickling.py --seed S --n N --out FILE --work DIR

Per case: a random pipeline over sources / Merge / transforms / Apply / nested chains / Filter (predicate, keep, drop) /
GroupBy / CheckIds / RAM, disk and column caches whose user callables are all importable; for single fields and field
tuples: f = layer._compile(fields), some calls on f (so that its RAM caches are not empty), g = loads(dumps(f)), then
signature, graph structure, entry counts, cache objects, and values / digests / failures of f and g on every key.
"""
import argparse
import hashlib
import inspect
import os
import pickle
import random
import shutil
import sys

sys.path.insert(0, os.path.dirname(__file__))
import pipelines as P  # noqa
import sympool  # noqa
import histories as H  # noqa
from common import dump, exc_name, fname, to_json  # noqa
from connectome.cache import MemoryCache  # noqa
from connectome.cache.disk import DiskCache  # noqa
from connectome.engine import CacheEdge  # noqa
from connectome.layers.columns import CachedColumn  # noqa
from tarn.pickler import dumps  # noqa

P.PICKLABLE[0] = True
GROUPS = {'a': 'g0', 'b': 'g1', 'c': 'g0', 'd': 'g2', 'e': 'g1'}
sympool.TABLE['t010'] = lambda key: GROUPS.get(key, 'g9')
sympool.TABLE['t011'] = lambda *a: True
sympool.TABLE['t012'] = lambda v, *a: sum(map(ord, str(v))) % 3 != 0


def gen(rnd):
    spec, ids, fields, nroots, sy = H.gen_spec(rnd, allow_disk=True, allow_columns=True)
    kinds = []
    silent_field = []

    def sources(sp):
        for d in sp:
            if d['t'] == 'source':
                yield d
            if d['t'] == 'merge':
                for p in d['parts']:
                    yield from sources(p)
    for s in sources(spec):
        s['fields']['grp'] = 't010'
    # byvalue fields pickle the VALUE of symbolic functions: fine, they are strings
    extra = rnd.sample(['filter', 'keep', 'drop', 'checkids', 'groupby', 'apply', 'chain', 'ram'], rnd.randint(1, 3))
    for e in extra:
        pos = rnd.randint(1, len(spec))
        if e == 'filter':
            layer = {'t': 'filter', 'pred': [rnd.choice(['t011', 't012']), [rnd.choice(fields)]]}
        elif e == 'keep':
            # a few dozen ids: whatever container the layer keeps them in must survive pickling with the same digest
            layer = {'t': 'keep', 'ids': rnd.sample(ids, rnd.randint(1, len(ids))) + [f'other-{rnd.randrange(10 ** 6)}' for _ in range(rnd.choice([0, 30, 40]))]}
        elif e == 'drop':
            layer = {'t': 'drop', 'ids': rnd.sample(ids, rnd.randint(0, len(ids) - 1)) + [f'other-{rnd.randrange(10 ** 6)}' for _ in range(rnd.choice([0, 30, 40]))]}
        elif e == 'checkids':
            layer = {'t': 'checkids'}
        elif e == 'groupby':
            layer = {'t': 'groupby', 'by': 'grp'}
            if rnd.random() < 0.4:
                layer['by_callable'] = True
            pos = len(spec)          # ids change: keep it last, columns caches below stay valid
        elif e == 'apply':
            layer = {'t': 'apply', 'fields': {rnd.choice(fields): sy.fresh()}}
        elif e == 'ram':
            layer = {'t': 'ram', 'names': None, 'size': rnd.choice([None, 1, 2])}
        else:
            f = rnd.choice(fields)
            layer = {'t': 'chain', 'layers': [{'t': 'transform', 'fields': {f: [sy.fresh(), [f]]}, 'params': {}, 'inherit': True},
                                              {'t': 'transform', 'fields': {f: [sy.fresh(), [f]]}, 'params': {}, 'inherit': True}]}
        spec.insert(pos, layer)
        kinds.append(e)
    # a function with a Silent argument (its hash holds a constant in place of that argument)
    if rnd.random() < 0.35:
        a_, b_ = rnd.sample(fields, 2) if len(fields) >= 2 else (fields[0], fields[0])
        pos = rnd.randint(1, max(1, len([d for d in spec if d['t'] != 'groupby'])))
        spec.insert(pos, {'t': 'transform', 'fields': {a_: [sy.fresh(), [a_, '~' + b_]]}, 'params': {}, 'inherit': True})
        kinds.append('silent')
        if rnd.random() < 0.7:
            # ... below a Filter on that field: the static hash the Filter stores and the run-time hash of the field share the constant
            spec.insert(pos + 1, {'t': 'filter', 'pred': ['t011', [a_]]})
            kinds.append('filter')
            silent_field.append(a_)
    # a GroupBy anywhere but last would invalidate what follows; make sure it is last
    g = [d for d in spec if d['t'] == 'groupby']
    spec = [d for d in spec if d['t'] != 'groupby'] + g[:1]
    return spec, ids, fields, nroots, sorted(set(kinds) | {d['t'] for d in spec}), silent_field


def caches_of(graph):
    """the cache objects reachable from a compiled graph, in a deterministic order"""
    out, seen = [], set()

    def visit(n):
        if id(n) in seen:
            return
        seen.add(id(n))
        if not n.is_leaf:
            e = n.edge
            stack = [e]
            while stack:
                x = stack.pop()
                for attr in ('cache', 'ram', 'disk'):
                    c = getattr(x, attr, None)
                    if isinstance(c, (MemoryCache, DiskCache)) and id(c) not in [id(y) for y in out]:
                        out.append(c)
                inner = getattr(x, 'edge', None)
                if inner is not None:
                    stack.append(inner)
                sub = getattr(x, 'graph', None)
                if sub is not None and hasattr(sub, 'output'):
                    visit(sub.output)
            for p in n.parents:
                visit(p)
    visit(graph.output)
    return out


def cache_json(c):
    if isinstance(c, MemoryCache):
        return {'kind': 'ram', 'size': c.size, 'lru': type(c._cache).__name__ != 'dict', 'entries': len(c._cache)}
    pool = c.cache
    return {'kind': 'disk', 'index': str(getattr(pool.index, 'root', '?')), 'storage': str(getattr(pool.storage._local, 'root', '?')),
            'serializer': type(pool.serializer).__name__}


def callables_of(graph):
    """every function object stored in the edges of the graph (and of the graphs inside its edges), classified"""
    out, seen = [], set()

    def classify(f):
        qn = getattr(f, '__qualname__', None)
        mod = getattr(f, '__module__', None)
        if qn is None:      # an instance of a class
            cls = type(f)
            return ['instance', cls.__module__ + ':' + cls.__qualname__, '<locals>' not in cls.__qualname__]
        if '<locals>' in qn or '<lambda>' in qn:
            return ['local', f'{mod}:{qn}', False]
        return ['global', f'{mod}:{qn}', True]

    def visit(n):
        if id(n) in seen:
            return
        seen.add(id(n))
        if not n.is_leaf:
            stack = [n.edge]
            while stack:
                x = stack.pop()
                for attr in ('function',):
                    f = getattr(x, attr, None)
                    if f is not None:
                        out.append(classify(f))
                inner = getattr(x, 'edge', None)
                if inner is not None:
                    stack.append(inner)
                sub = getattr(x, 'graph', None)
                if sub is not None and hasattr(sub, 'output'):
                    visit(sub.output)
            for p in n.parents:
                visit(p)
    visit(graph.output)
    return out


def shape(graph):
    """structure of a compiled graph without object identities"""
    order, index = [], {}

    def visit(n):
        if id(n) in index:
            return
        if not n.is_leaf:
            for p in n.parents:
                visit(p)
        index[id(n)] = len(order)
        order.append(n)
    visit(graph.output)
    rows = []
    for n in order:
        if n.is_leaf:
            rows.append([n.name, 'leaf', [], graph.counts.get(n, 0)])
        else:
            e = n.edge
            desc = type(e).__name__
            f = getattr(e, 'function', None)
            if f is not None:
                desc += ':' + fname(f)
            rows.append([n.name, desc, [index[id(p)] for p in n.parents], graph.counts.get(n, 0)])
    return rows


def digest(h):
    return hashlib.sha256(dumps(h.value)).hexdigest()


def probe(g, key):
    r = {}
    sympool.CALLS.clear()
    try:
        r['val'] = to_json(g(key))
    except BaseException as e:  # noqa
        r['exc'] = exc_name(e)
    r['ran'] = len(sympool.CALLS)
    try:
        r['digest'] = digest(g.get_hash(key)[0])
    except BaseException as e:  # noqa
        r['digest_exc'] = exc_name(e)
    return r


def one(rnd, work, k):
    spec, ids, fields, nroots, kinds, silent_field = gen(rnd)
    roots = [os.path.join(work, f'case{k}_root{r}') for r in range(nroots)]
    rec = {'spec': spec, 'kinds': kinds, 'functions': []}
    try:
        layer, _ = P.build(spec, roots)
        all_ids = list(layer.ids)
    except BaseException as e:  # noqa
        rec['build_exc'] = f'{type(e).__name__}: {e}'[:300]
        return rec
    keys = all_ids + ['zz']
    targets = [f for f in fields] + ['ids', 'grp']
    if len(fields) >= 2:
        targets.append(tuple(rnd.sample(fields, 2)))
    # ids together with a field: the stored static hash of a Filter / GroupBy meets the run-time hash of the same functions
    targets.append(('ids', silent_field[0] if silent_field else rnd.choice(fields)))
    if 'image' in fields and not any(d['t'] == 'groupby' for d in spec) and rnd.random() < 0.3:
        import pickpool
        layer = layer >> pickpool.Tagged()
        rec['kinds'] = sorted(set(rec['kinds']) | {'mixin'})
        targets += ['tag', 'other']
    if 'image' in fields and not any(d['t'] == 'groupby' for d in spec) and rnd.random() < 0.3:
        import pickpool
        layer = layer >> pickpool.Annotated()
        rec['kinds'] = sorted(set(rec['kinds']) | {'stacked-annotations'})
        targets += ['n_parts', 'n_items', 'both', ('both', 'n_items')]
    for t in targets:
        fr = {'fields': t if isinstance(t, str) else list(t)}
        rec['functions'].append(fr)
        try:
            f = layer._compile(t)
        except BaseException as e:  # noqa
            fr['compile_exc'] = f'{type(e).__name__}: {e}'[:300]
            continue
        nullary = len(f.inputs) == 0
        fr['nullary'] = nullary
        ks = [()] if nullary else [(x,) for x in keys]
        # calls before pickling: RAM caches of the original are filled
        pre = rnd.sample(ks, rnd.randint(0, len(ks)))
        for a in pre:
            try:
                f(*a)
            except BaseException:  # noqa
                pass
        fr['pre_calls'] = len(pre)
        fr['callables'] = callables_of(f)
        fr['caches_before'] = [cache_json(c) for c in caches_of(f)]
        try:
            g = pickle.loads(pickle.dumps(f))
        except BaseException as e:  # noqa
            fr['pickle_exc'] = f'{type(e).__name__}: {e}'[:300]
            continue
        fr['caches_original_after'] = [cache_json(c) for c in caches_of(f)]
        fr['caches_copy'] = [cache_json(c) for c in caches_of(g)]
        fr['signature'] = [str(inspect.signature(f)), str(inspect.signature(g))]
        fr['shape_equal'] = shape(f) == shape(g)
        if not fr['shape_equal']:
            fr['shape'] = [shape(f), shape(g)]
        fr['static_hash_equal'] = None
        try:
            fr['static_hash_equal'] = digest(f.hash()) == digest(g.hash())
        except BaseException as e:  # noqa
            fr['static_hash_exc'] = exc_name(e)
        rows = []
        order = list(ks)
        rnd.shuffle(order)
        for a in order:
            # the copy first: whatever it needs it must find in its own (empty) RAM caches or on the shared disk
            rg = probe(g, *a) if a else _probe0(g)
            rf = probe(f, *a) if a else _probe0(f)
            rows.append({'key': list(a), 'copy': rg, 'orig': rf})
        fr['rows'] = rows
    return rec


def _probe0(g):
    r = {}
    sympool.CALLS.clear()
    try:
        r['val'] = to_json(g())
    except BaseException as e:  # noqa
        r['exc'] = exc_name(e)
    r['ran'] = len(sympool.CALLS)
    try:
        r['digest'] = digest(g.get_hash()[0])
    except BaseException as e:  # noqa
        r['digest_exc'] = exc_name(e)
    return r


def main():
    ap = argparse.ArgumentParser()
    ap.add_argument('--seed', type=int, default=0)
    ap.add_argument('--n', type=int, default=60)
    ap.add_argument('--out', required=True)
    ap.add_argument('--work', required=True)
    a = ap.parse_args()
    rnd = random.Random(a.seed * 7919 + 19)
    cases = []
    for k in range(a.n):
        cases.append(one(rnd, a.work, k))
        for d in os.listdir(a.work):
            shutil.rmtree(os.path.join(a.work, d), ignore_errors=True)
    dump({'cases': cases}, a.out)


if __name__ == '__main__':
    main()
