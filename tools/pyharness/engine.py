"""Engine-level cases: random well-formed DAGs over every edge kind, run through the real Graph / vm.execute.

    engine.py --seed S --n N --out FILE [--max-inner K] [--shapes]

For every case the file records the graph, the calls (inputs, raising functions) and what the implementation
did: result or exception class, the user-function call log, Graph.counts, and the mechanism trace taken from a
logging EvictionCache (membership tests, stores, evictions with the count that is left) and the calls.
"""
import argparse
import itertools
import random
import sys

sys.path.insert(0, __import__('os').path.dirname(__file__))
from common import SymLog, UserError, check_import, dump, exc_name, fname, from_json, hash_json, to_json  # noqa

check_import()
from connectome.cache import MemoryCache  # noqa
from connectome.engine import (CacheEdge, ComputableHashEdge, ConstantEdge, FunctionEdge, HashBarrier,  # noqa
                               IdentityEdge, ImpureEdge, ProductEdge)
from connectome.engine import graph as graph_module  # noqa
from connectome.engine.base import TreeNode  # noqa
from connectome.engine.graph import Graph  # noqa
from connectome.engine.utils import EvictionCache  # noqa
from connectome.layers.check_ids import CheckIdsEdge  # noqa
from connectome.layers.merge import SwitchEdge  # noqa

TRACE = []
INDEX = {}


class LogEC(EvictionCache):
    tag = '?'

    def __contains__(self, key):
        r = super().__contains__(key)
        TRACE.append(['has', self.tag, INDEX[id(key)], bool(r)])
        return r

    def __setitem__(self, key, value):
        super().__setitem__(key, value)
        TRACE.append(['store', self.tag, INDEX[id(key)]])

    def evict(self, key):
        super().evict(key)
        TRACE.append(['evict', self.tag, INDEX[id(key)], self.counts.get(key, 0)])


def install():
    graph_module.EvictionCache = LogEC
    orig = Graph._prepare_cache

    def prepare(self, arguments):
        h, c = orig(self, arguments)
        h.tag, c.tag = 'H', 'C'
        return h, c

    Graph._prepare_cache = prepare


INPUT_VALUES = [{'s': 'k0'}, {'s': 'k1'}, {'s': 'zz'}, {'i': 1}, {'f': 1}, {'b': True}, {'i': 0}, None]


def simple_edge(rnd, idx, n_nodes, allow_zero=True):
    """an edge description that may be wrapped by by-value / impure"""
    kind = rnd.choice(['func'] * 6 + ['const', 'ident', 'product'])
    if kind == 'func':
        ar = rnd.randint(0 if allow_zero else 1, 4)
        nkw = rnd.randint(0, min(ar, 3))
        kw = sorted(rnd.sample(['a', 'b', 'c', 'd'], nkw))
        sil = sorted(rnd.sample(range(ar), rnd.randint(0, min(ar, 2)))) if rnd.random() < 0.15 and ar else []
        return {'k': 'func', 'f': f'f{idx}', 'ar': ar, 'kw': kw, 'sil': sil}, ar
    if kind == 'const':
        return {'k': 'const', 'v': rnd.choice(INPUT_VALUES[:5] + [{'t': [{'s': 'k0'}, {'s': 'k1'}]}])}, 0
    if kind == 'ident':
        return {'k': 'ident'}, 1
    ar = rnd.randint(0, 3)
    return {'k': 'product', 'n': ar}, ar


def gen_case(rnd, max_inner, n_caches_max=3):
    n_in = rnd.randint(1, 3)
    nodes = [{'k': 'leaf'} for _ in range(n_in)]
    caches = []
    n_inner = rnd.randint(1, max_inner)
    # a constant tuple of ids early on, so that CheckIds edges have something to look into
    for j in range(n_inner):
        idx = len(nodes)
        # prefer recent nodes a little, to get depth as well as sharing
        def pick():
            if rnd.random() < 0.5:
                return rnd.randrange(max(0, len(nodes) - 4), len(nodes))
            return rnd.randrange(len(nodes))
        kind = rnd.choice(['simple'] * 10 + ['cache', 'cache', 'barrier', 'byvalue', 'impure', 'switch', 'switch', 'checkids'])
        if kind == 'simple':
            d, ar = simple_edge(rnd, idx, len(nodes))
            ps = [pick() for _ in range(ar)]
            # repeated parents f(x, x)
            if ar >= 2 and rnd.random() < 0.3:
                ps[1] = ps[0]
        elif kind == 'cache':
            if len(caches) < n_caches_max:
                caches.append(rnd.choice([None, None, 1, 2]))
                c = len(caches) - 1
            else:
                c = rnd.randrange(len(caches))
            d, ps = {'k': 'cache', 'c': c}, [pick()]
        elif kind == 'barrier':
            d, ps = {'k': 'barrier'}, [pick()]
        elif kind in ('byvalue', 'impure'):
            inner, ar = simple_edge(rnd, idx, len(nodes))
            d, ps = {'k': kind, 'inner': inner}, [pick() for _ in range(ar)]
        elif kind == 'switch':
            nb = rnd.randint(1, 3)
            keys = [{'s': 'k0'}, {'s': 'k1'}, {'s': 'zz'}] if rnd.random() < 0.85 else [{'i': 1}, {'i': 0}, {'i': 2}]
            rnd.shuffle(keys)
            table = [[key, rnd.randrange(nb)] for key in keys[:rnd.randint(1, 3)]]
            d, ps = {'k': 'switch', 'table': table, 'n': nb}, [rnd.randrange(n_in) if rnd.random() < 0.7 else pick()] + [pick() for _ in range(nb)]
        else:
            # ids: a constant tuple node
            nodes.append({'k': 'const', 'v': {'t': [{'s': 'k0'}, {'s': 'k1'}, {'i': 1}]}, 'ps': []})
            idx = len(nodes)
            d, ps = {'k': 'checkids'}, [pick() if rnd.random() < 0.5 else rnd.randrange(n_in), idx - 1]
        d['ps'] = ps
        nodes.append(d)
    # output: the last node, or a tuple of several nodes (GraphCompiler._compile builds exactly this ProductEdge)
    if rnd.random() < 0.25:
        k = rnd.randint(2, 3)
        outs = [rnd.randrange(len(nodes)) for _ in range(k)]
        nodes.append({'k': 'product', 'n': k, 'ps': outs})
    out = len(nodes) - 1
    funcs = [d['f'] for d in nodes if d.get('k') == 'func'] + [d['inner']['f'] for d in nodes if d.get('k') in ('byvalue', 'impure') and d['inner']['k'] == 'func']
    calls = []
    base = {str(i): rnd.choice(INPUT_VALUES) for i in range(n_in)}
    for c in range(rnd.randint(1, 3)):
        ins = dict(base)
        if c and rnd.random() < 0.6:
            ins[str(rnd.randrange(n_in))] = rnd.choice(INPUT_VALUES)
        bad = [rnd.choice(funcs)] if funcs and rnd.random() < 0.12 else []
        calls.append({'ins': ins, 'bad': bad})
    return {'nodes': nodes, 'out': out, 'caches': caches, 'calls': calls}


def reachable_nodes(case):
    seen, stack = set(), [case['out']]
    while stack:
        n = stack.pop()
        if n in seen:
            continue
        seen.add(n)
        stack.extend(case['nodes'][n].get('ps', ()))
    return seen


def mutate(case, rnd):
    """a single-step mutant: another function, constant, wiring, argument order or keyword binding (None if no site)"""
    import copy
    m = copy.deepcopy({k: case[k] for k in ('nodes', 'out', 'caches', 'calls')})
    m['calls'] = m['calls'][:1]
    for c in m['calls']:
        c['bad'] = []
    sites = [i for i in sorted(reachable_nodes(case)) if case['nodes'][i]['k'] in ('func', 'const', 'product', 'switch', 'byvalue', 'impure')]
    rnd.shuffle(sites)
    for i in sites:
        d = m['nodes'][i]
        target = d['inner'] if d['k'] in ('byvalue', 'impure') else d
        kinds = []
        if target['k'] == 'func':
            kinds.append('symbol')
            if target['kw']:
                kinds.append('kw')
            if len(set(d['ps'])) >= 2:
                kinds.append('swap')
        elif target['k'] == 'const':
            kinds.append('const')
        elif target['k'] == 'product' and len(set(d['ps'])) >= 2:
            kinds.append('swap')
        elif d['k'] == 'switch' and d['n'] >= 2:
            kinds.append('route')
        if len(m['nodes']) > 1 and d.get('ps'):
            kinds.append('rewire')
        if not kinds:
            continue
        kind = rnd.choice(kinds)
        if kind == 'symbol':
            target['f'] = target['f'] + 'x'
        elif kind == 'kw':
            free = [x for x in ['a', 'b', 'c', 'd', 'e'] if x not in target['kw']]
            j = rnd.randrange(len(target['kw']))
            target['kw'][j] = rnd.choice(free)
            target['kw'].sort()
        elif kind == 'swap':
            a, b = [j for j in range(len(d['ps']))][:2] if d['ps'][0] != d['ps'][1] else (0, next(j for j in range(len(d['ps'])) if d['ps'][j] != d['ps'][0]))
            d['ps'][a], d['ps'][b] = d['ps'][b], d['ps'][a]
        elif kind == 'const':
            target['v'] = {'s': 'other-constant'}
        elif kind == 'route':
            key, idx = d['table'][0]
            d['table'][0] = [key, (idx + 1) % d['n']]
        elif kind == 'rewire':
            j = rnd.randrange(len(d['ps']))
            if d['k'] == 'checkids' and j == 1:
                continue
            choices = [x for x in range(i) if x != d['ps'][j]]
            if not choices:
                continue
            d['ps'][j] = rnd.choice(choices)
        m['mutation'] = {'node': i, 'kind': kind}
        return m
    return None


def build_edge(d, sym, storages):
    k = d['k']
    if k == 'func':
        return FunctionEdge(sym.make(d['f']), d['ar'], tuple(d['kw']), tuple(d['sil']))
    if k == 'const':
        return ConstantEdge(from_json(d['v']))
    if k == 'ident':
        return IdentityEdge()
    if k == 'product':
        return ProductEdge(d['n'])
    if k == 'cache':
        return CacheEdge(storages[d['c']])
    if k == 'barrier':
        return HashBarrier()
    if k == 'byvalue':
        return ComputableHashEdge(build_edge(d['inner'], sym, storages))
    if k == 'impure':
        return ImpureEdge(build_edge(d['inner'], sym, storages))
    if k == 'switch':
        return SwitchEdge({from_json(key): i for key, i in d['table']}, d['n'])
    if k == 'checkids':
        return CheckIdsEdge()
    raise ValueError(k)


def run_case(case):
    sym = SymLog()
    storages = [MemoryCache(size) for size in case['caches']]
    tnodes = []
    INDEX.clear()
    for i, d in enumerate(case['nodes']):
        if d['k'] == 'leaf':
            t = TreeNode(f'in{i}', None)
        else:
            t = TreeNode(f'n{i}', (build_edge(d, sym, storages), [tnodes[p] for p in d['ps']]))
        tnodes.append(t)
        INDEX[id(t)] = i
    leaves = [t for t, d in zip(tnodes, case['nodes']) if d['k'] == 'leaf']
    g = Graph(leaves, tnodes[case['out']])
    case['counts'] = sorted([INDEX[id(n)], c] for n, c in g.counts.items())
    case['signature'] = [INDEX[id(n)] for n in g.inputs]
    # the static graph hash (Graph.hash()): HashError for impure edges
    try:
        case['graph_hash'] = hash_json(g.hash().value, fname)['G']
    except BaseException as e:  # noqa
        case['graph_hash'] = {'exc': type(e).__name__}
    obs = []
    for call in case['calls']:
        sym.bad = set(call['bad'])
        del TRACE[:]
        sym.calls = []
        kwargs = {n.name: from_json(call['ins'][n.name[2:]]) for n in g.inputs}
        try:
            res = {'val': to_json(g(**kwargs))}
        except BaseException as e:  # noqa
            res = {'exc': exc_name(e)}
        log = sym.take()
        trace = [list(x) for x in TRACE]
        # the node hash of the output, computed right after the call on the same caches
        sym.bad = set()
        try:
            h, _ = g.get_hash(*[kwargs[n.name] for n in g.inputs])
            hj = hash_json(h.value, fname)
        except BaseException:  # noqa
            hj = {'exc': True}
        sym.take()
        obs.append({'res': res, 'log': log, 'trace': trace, 'hash': hj})
    case['obs'] = obs
    return case


def install_call_trace():
    make = SymLog.make

    def make2(self, name):
        f = make(self, name)

        def g(*a, **k):
            TRACE.append(['call', name])
            return f(*a, **k)

        g.__name__ = g.__qualname__ = name
        g._symbolic = True
        return g

    SymLog.make = make2


def mro_table():
    """which class defines the engine entry points of every edge class (compared with Model/Edges.v)"""
    import connectome.engine.edges as E
    from connectome.layers import columns, filter as flt, group, join, split, debug
    classes = [E.FunctionEdge, E.ConstantEdge, E.IdentityEdge, E.ProductEdge, E.CacheEdge, E.HashBarrier,
               E.ComputableHashEdge, E.ImpureEdge, SwitchEdge, CheckIdsEdge, flt.FilterEdge, group.GroupEdge,
               group.GroupMapping, join.JoinMapping, join.SwitchBranch, join.SwitchMissing, split.SplitMapping,
               columns.CachedColumn, debug.HashDigestEdge]
    out = {}
    for c in classes:
        row = {}
        for m in ('compute_hash', 'evaluate', '_compute_hash', '_make_hash', '_evaluate', '_hash_graph'):
            owner = next((k.__name__ for k in c.__mro__ if m in k.__dict__), None)
            row[m] = owner
        out[c.__name__] = row
    return out


def main():
    ap = argparse.ArgumentParser()
    ap.add_argument('--seed', type=int, default=0)
    ap.add_argument('--n', type=int, default=100)
    ap.add_argument('--max-inner', type=int, default=14)
    ap.add_argument('--out', required=True)
    ap.add_argument('--corpus', default=None)
    ap.add_argument('--mutants', type=int, default=0)
    a = ap.parse_args()
    install()
    install_call_trace()
    rnd = random.Random(a.seed)
    cases = []
    if a.corpus:
        import json
        import os
        if os.path.exists(a.corpus):
            for c in json.load(open(a.corpus)):
                for k in ('counts', 'signature', 'obs'):
                    c.pop(k, None)
                cases.append(c)
    for i in range(a.n):
        mi = a.max_inner if i % 4 else max(3, a.max_inner * 3)
        cases.append(gen_case(rnd, mi))
    out = [run_case(c) for c in cases]
    mutants = []
    if a.mutants:
        mr = random.Random(a.seed + 7919)
        for i, c in enumerate(cases):
            for _ in range(a.mutants):
                m = mutate(c, mr)
                if m is not None:
                    m['mutant_of'] = i
                    mutants.append(run_case(m))
    dump({'cases': out, 'mutants': mutants, 'mro': mro_table()}, a.out)


if __name__ == '__main__':
    main()
