"""C11 on the real code: several threads call one pipeline object; a deterministic scheduler switches threads only
at user-function entry and at entry of cache get / set; all schedules up to a length are enumerated.

    threads.py --seed S --n N --len L --out FILE --work DIR
Observed per schedule: every thread's result against the value of the pipeline without cache layers, and whether
the MemoryCache table was ever touched while its lock was not held.
"""
import argparse
import itertools
import json
import os
import random
import shutil
import sys
import threading

sys.path.insert(0, os.path.dirname(__file__))
import pipelines as P  # noqa
import sympool  # noqa
from common import dump, to_json  # noqa
from histories import gen_spec, strip_caches  # noqa
from connectome.cache import MemoryCache  # noqa
from connectome.cache.disk import DiskCache  # noqa

UNLOCKED = []


class Guard:
    """stands in for MemoryCache._cache and checks that the lock is held on every access"""

    def __init__(self, owner, table):
        object.__setattr__(self, '_o', owner)
        object.__setattr__(self, '_t', table)

    def _chk(self, what):
        if not self._o._lock.locked():
            UNLOCKED.append(what)

    def __contains__(self, k):
        self._chk('contains')
        return k in self._t

    def __getitem__(self, k):
        self._chk('getitem')
        return self._t[k]

    def __setitem__(self, k, v):
        self._chk('setitem')
        self._t[k] = v

    def __len__(self):
        return len(self._t)

    def get(self, k, d=None):
        self._chk('get')
        return self._t.get(k, d) if hasattr(self._t, 'get') else (self._t[k] if k in self._t else d)


class Sched:
    def __init__(self):
        self.cond = threading.Condition()
        self.schedule, self.ptr, self.active, self.tid = [], 0, set(), threading.local()
        self.enabled = False
        self.points = 0

    def point(self):
        if not self.enabled:
            return
        me = getattr(self.tid, 'v', None)
        if me is None:
            return
        with self.cond:
            self.points += 1
            while True:
                while self.ptr < len(self.schedule) and self.schedule[self.ptr] not in self.active:
                    self.ptr += 1
                # after the schedule is exhausted the remaining threads run to completion one after another
                if (self.ptr >= len(self.schedule) and me == min(self.active)) or \
                        (self.ptr < len(self.schedule) and self.schedule[self.ptr] == me):
                    if self.ptr < len(self.schedule):
                        self.ptr += 1
                    self.cond.notify_all()
                    return
                if not self.cond.wait(timeout=5):
                    raise RuntimeError('scheduler stuck')

    def done(self, me):
        with self.cond:
            self.active.discard(me)
            self.cond.notify_all()


SCHED = Sched()


def install():
    P.install_tracing()
    for cls, names in ((MemoryCache, ('get', 'set')), (DiskCache, ('get', 'set'))):
        for nme in names:
            orig = getattr(cls, nme)

            def wrapped(self, *a, _orig=orig, **k):
                SCHED.point()
                return _orig(self, *a, **k)
            setattr(cls, nme, wrapped)
    orig_call = sympool._call

    def call(name, a, k):
        SCHED.point()
        return orig_call(name, a, k)
    sympool._call = call
    init, clear = MemoryCache.__init__, MemoryCache.clear
    fresh = set()

    def setattr2(self, name, value):
        # replacing the table (or the lock) of a cache that is already in use must happen under its lock
        if name in ('_cache', '_lock') and id(self) not in fresh and name in self.__dict__ and not isinstance(value, Guard):
            lock = self.__dict__.get('_lock')
            if lock is None or not lock.locked():
                UNLOCKED.append('replace ' + name)
        object.__setattr__(self, name, value)

    def init2(self, size):
        new = '_cache' not in self.__dict__
        if new:
            fresh.add(id(self))
        try:
            init(self, size)
        finally:
            fresh.discard(id(self))
        object.__setattr__(self, '_cache', Guard(self, self._cache))

    def clear2(self):
        clear(self)
        with self._lock:
            if not isinstance(self._cache, Guard):
                object.__setattr__(self, '_cache', Guard(self, self._cache))
    MemoryCache.__init__, MemoryCache.clear, MemoryCache.__setattr__ = init2, clear2, setattr2


def run_schedule(spec, roots, jobs, schedule, ref_vals, clear_layer=None):
    for r in roots:
        shutil.rmtree(r, ignore_errors=True)
    layer, layers = P.build(spec, roots)
    results = [None] * len(jobs)
    del UNLOCKED[:]
    SCHED.schedule, SCHED.ptr, SCHED.active, SCHED.enabled, SCHED.points = list(schedule), 0, set(range(len(jobs))), True, 0

    def work(i, field, key):
        SCHED.tid.v = i
        try:
            if field == '$clear':
                layers[key]._clear()
                results[i] = {'val': None}
            else:
                results[i] = {'val': to_json(getattr(layer, field)(key))}
        except BaseException as e:  # noqa
            results[i] = {'exc': f'{type(e).__name__}: {e}'[:200]}
        finally:
            SCHED.done(i)

    ts = [threading.Thread(target=work, args=(i, f, k)) for i, (f, k) in enumerate(jobs)]
    for t in ts:
        t.start()
    for t in ts:
        t.join(20)
    SCHED.enabled = False
    stuck = any(t.is_alive() for t in ts)
    return {'schedule': ''.join(map(str, schedule)), 'results': results, 'unlocked': list(UNLOCKED), 'stuck': stuck, 'points': SCHED.points}


# where the objects shared by all calls of a pipeline live: a race between two later calls is explored line by line inside these files
SHARED_STATE_FILES = (os.sep + 'cache' + os.sep, os.sep + 'layers' + os.sep, 'edges.py', os.sep + 'containers' + os.sep)


def compile_race(spec, roots, jobs, ref_vals, max_points=6000, warm=None, only=None):
    """first calls of two threads on a pipeline object nobody has used yet: thread 0 is paused after its N-th executed line of
    connectome code, thread 1 runs to the end meanwhile, then thread 0 goes on; N = 0, 1, 2, ... until thread 0 needs fewer lines"""
    import connectome
    prefix = os.path.dirname(connectome.__file__)
    out = []
    n = 0
    step = 1
    while n < max_points:
        for r in roots:
            shutil.rmtree(r, ignore_errors=True)
        SCHED.enabled = False
        layer, layers = P.build(spec, roots)
        if warm is not None:
            # the pipeline has been used before (compiled, caches partly filled): the race is between two later calls
            try:
                getattr(layer, warm[0])(warm[1])
            except BaseException:  # noqa
                pass
        results = [None, None]
        reached = threading.Event()
        resume = threading.Event()
        count = [0]

        def tracer(frame, event, arg):
            if not frame.f_code.co_filename.startswith(prefix):
                return None
            if only is not None and not any(x in frame.f_code.co_filename[len(prefix):] for x in only):
                return None

            def local(frame, event, arg):
                if event == 'line':
                    count[0] += 1
                    if count[0] == n + 1 and not reached.is_set():
                        reached.set()
                        resume.wait(10)
                return local
            return local

        def work(i, field, key):
            if i == 0:
                sys.settrace(tracer)
            try:
                results[i] = {'val': to_json(getattr(layer, field)(key))}
            except BaseException as e:  # noqa
                results[i] = {'exc': f'{type(e).__name__}: {e}'[:200]}
            finally:
                if i == 0:
                    sys.settrace(None)
                    reached.set()

        t0 = threading.Thread(target=work, args=(0,) + tuple(jobs[0]))
        t0.start()
        reached.wait(10)
        t1 = threading.Thread(target=work, args=(1,) + tuple(jobs[1]))
        t1.start()
        t1.join(1.5)    # thread 1 does not finish when thread 0 was paused while holding a lock it needs
        resume.set()
        t0.join(20)
        t1.join(20)
        bad = [i for i in (0, 1) if results[i] is None or results[i].get('val') != ref_vals[i]]
        # ... and what the race left behind: the same calls again, one after the other (the call of thread 1 first, then both)
        after = []
        for j in (1, 0, 1):
            (f_, k_), ref_ = jobs[j], ref_vals[j]
            try:
                after.append({'call': [f_, k_], 'val': to_json(getattr(layer, f_)(k_))})
            except BaseException as e:  # noqa
                after.append({'call': [f_, k_], 'exc': f'{type(e).__name__}: {e}'[:200]})
            if after[-1].get('val') != ref_:
                bad.append(j)
        if bad:
            out.append({'pause_after_line': n, 'results': results, 'sequential_calls_afterwards': after})
        if count[0] <= n:
            break
        n += step
        step = 1 if only is not None else 1 + n // 80
    return {'points': n, 'bad': out[:3]}


def main():
    ap = argparse.ArgumentParser()
    ap.add_argument('--seed', type=int, default=0)
    ap.add_argument('--n', type=int, default=10)
    ap.add_argument('--len', type=int, default=7)
    ap.add_argument('--threads3', type=int, default=0)
    ap.add_argument('--out', required=True)
    ap.add_argument('--work', required=True)
    a = ap.parse_args()
    install()
    rnd = random.Random(a.seed)
    os.makedirs(a.work, exist_ok=True)
    out = []
    for ci in range(a.n):
        cols = rnd.random() < 0.3
        spec, ids, fields, n_roots, _ = gen_spec(rnd, allow_disk=cols or rnd.random() < 0.5, allow_columns=cols)
        if cols and not any(d['t'] == 'columns' for d in spec):
            spec.append({'t': 'columns', 'names': sorted(rnd.sample(fields, rnd.randint(1, len(fields)))), 'root': 0, 'shard': rnd.choice([None, 2, 3])})
        # make at least one RAM cache small, so that one thread can evict what another one stored
        for d in spec:
            if d['t'] == 'ram' and rnd.random() < 0.6:
                d['size'] = 1
        roots = [os.path.join(a.work, f'c{ci}r{i}') for i in range(n_roots)]
        nthreads = 3 if ci < a.threads3 else 2
        jobs = [(rnd.choice(fields), rnd.choice(ids)) for _ in range(nthreads)]
        merged_case = ci == a.threads3 + 1 or (ci > a.threads3 and rnd.random() < 0.15)
        if merged_case:
            # two datasets merged, a cached field computed from two merged fields, the threads ask for entries of DIFFERENT datasets:
            # the routing of a call is its own, whatever another call routes meanwhile
            ia, ib = ['a1', 'a2'], ['b1', 'b2']
            spec = [{'t': 'merge', 'parts': [[{'t': 'source', 'ids': ia, 'fields': {'image': 's001', 'mask': 's002'}}],
                                             [{'t': 'source', 'ids': ib, 'fields': {'image': 's003', 'mask': 's004'}}]]},
                    {'t': 'transform', 'fields': {'both': ['s005', ['image', 'mask']]}, 'params': {}, 'inherit': True},
                    {'t': 'ram', 'names': rnd.choice([['both'], None]), 'size': rnd.choice([None, 1])}]
            ids, fields, cols = ia + ib, ['both', 'image', 'mask'], False
            jobs = [('both', rnd.choice(ia)), ('both', rnd.choice(ib))][:nthreads] + [('image', 'a1')] * (nthreads - 2)
            roots = []
        if cols:
            # the threads ask for the same column on different keys: keys of one shard are loaded by whoever comes first
            f = rnd.choice([n for d in spec if d['t'] == 'columns' for n in d['names']])
            ks = rnd.sample(ids, min(nthreads, len(ids)))
            jobs = [(f, ks[i % len(ks)]) for i in range(nthreads)]
        boxed_case = ci == a.threads3 + 2
        if boxed_case:
            # values that are equal to nothing but themselves (objects without __eq__): two threads that both miss an entry both compute it
            # and both store it - the second store replaces an "unequal" value and is as harmless as any other
            from common import Box
            sympool.TABLE['t015'] = lambda key: Box('item-' + key)
            spec = [{'t': 'source', 'ids': ['a1', 'a2'], 'fields': {'image': 't015'}}, {'t': 'ram', 'names': None, 'size': None}]
            ids, fields, cols, roots = ['a1', 'a2'], ['image'], False, []
            jobs = [('image', 'a1')] * nthreads
        ram_layers = [i for i, d in enumerate(spec) if d['t'] == 'ram']
        if ram_layers and rnd.random() < 0.3:
            jobs[-1] = ('$clear', rnd.choice(ram_layers))
        ref = P.build(strip_caches(spec), [])[0]
        SCHED.enabled = False
        ref_vals = [None if f == '$clear' else to_json(getattr(ref, f)(k)) for f, k in jobs]
        if nthreads == 2:
            schedules = list(itertools.product(range(2), repeat=a.len))
        else:
            schedules = [tuple(rnd.randrange(3) for _ in range(a.len + 3)) for _ in range(150)]
        runs = [run_schedule(spec, roots, jobs, s, ref_vals) for s in schedules]
        rec = {'spec': spec, 'jobs': jobs, 'ref': ref_vals, 'runs': runs}
        if nthreads == 2 and ci % 3 == 0:
            # the two threads ask for different fields, so that the second one needs an entry the first may not have published yet
            jobs_cr = [(fields[0], ids[0]), (fields[-1], ids[-1])] if ci % 2 == 0 else [(fields[-1], ids[0]), (fields[0], ids[-1])]
            SCHED.enabled = False
            ref_cr = [to_json(getattr(ref, f)(k)) for f, k in jobs_cr]
            rec['compile_race'] = dict(compile_race(spec, roots, jobs_cr, ref_cr), jobs=jobs_cr)
        if nthreads == 2 and (ci % 3 == 0 or '"disk"' in json.dumps(spec)):
            SCHED.enabled = False
            if len(ids) >= 3:
                # two later calls of one field on different keys, on a pipeline that has been used before
                f_ = rnd.choice(fields)
                jobs_w = [(f_, ids[0]), (f_, ids[1])]
                ref_w = [to_json(getattr(ref, f)(k)) for f, k in jobs_w]
                rec['call_race'] = dict(compile_race(spec, roots, jobs_w, ref_w, max_points=3000, warm=(f_, ids[2]), only=SHARED_STATE_FILES), jobs=jobs_w)
        out.append(rec)
        for r in roots:
            shutil.rmtree(r, ignore_errors=True)
    dump({'cases': out}, a.out)


if __name__ == '__main__':
    main()
