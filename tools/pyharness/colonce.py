"""C03 for CacheColumns: over a cache-free pipeline with hash-by-value functions, ONE cached column; generating a shard must run
every user function at most once per id (the hash pass and the value pass share their state).

    colonce.py --seed S --n N --out FILE --work DIR
"""
import argparse
import json
import os
import random
import shutil
import sys

sys.path.insert(0, os.path.dirname(__file__))
import pipelines as P  # noqa
import sympool  # noqa
import histories as H  # noqa
from common import dump, exc_name, to_json  # noqa


def one(rnd, work, k):
    spec, ids, fields, nroots, sy = H.gen_spec(rnd, allow_disk=False, allow_columns=False)
    spec = H.strip_caches(spec)
    for d in spec:
        if d['t'] == 'transform' and rnd.random() < 0.6:
            d['byvalue'] = [rnd.choice(sorted(d['fields']))]
    f = rnd.choice(fields)
    spec.append({'t': 'columns', 'names': [f], 'root': 0, 'shard': rnd.choice([None, 2, 3])})
    root = os.path.join(work, f'c{k}')
    rec = {'spec': spec, 'field': f, 'ids': ids, 'calls': []}
    try:
        layer, _ = P.build(spec, [root])
        g = layer._compile(f)
    except BaseException as e:  # noqa
        rec['build_exc'] = exc_name(e)
        return rec
    for key in rnd.sample(ids, min(3, len(ids))):
        del sympool.CALLS[:]
        try:
            v = to_json(g(key))
            r = {'key': key, 'val': v}
        except BaseException as e:  # noqa
            r = {'key': key, 'exc': exc_name(e)}
        log = [json.dumps([n, [to_json(x) for x in a], [[kk, to_json(x)] for kk, x in kw]], sort_keys=True) for n, a, kw in sympool.CALLS]
        r['calls'] = len(log)
        r['repeated'] = sorted([x, log.count(x)] for x in set(log) if log.count(x) > 1)[:6]
        rec['calls'].append(r)
    shutil.rmtree(root, ignore_errors=True)
    return rec


def two_columns(rnd, work, k):
    """two cached columns that share an upstream function, asked for together (finding F10 of the pinned tree: each column generates
    its shard through its own graph, so the shared function runs once per column)"""
    ids = sorted(rnd.sample(list('abcdef'), rnd.randint(2, 4)))
    spec = [{'t': 'source', 'ids': ids, 'fields': {'x': 's000'}},
            {'t': 'transform', 'fields': {'p': ['s001', ['x']], 'q': ['s002', ['x']]}, 'params': {}, 'inherit': True},
            {'t': 'columns', 'names': ['p', 'q'], 'root': 0, 'shard': rnd.choice([None, 2])}]
    root = os.path.join(work, f't{k}')
    rec = {'spec': spec, 'field': ['p', 'q'], 'ids': ids, 'calls': [], 'two_columns': True}
    layer, _ = P.build(spec, [root])
    g = layer._compile(('p', 'q'))
    key = rnd.choice(ids)
    del sympool.CALLS[:]
    try:
        r = {'key': key, 'val': to_json(g(key))}
    except BaseException as e:  # noqa
        r = {'key': key, 'exc': exc_name(e)}
    log = [json.dumps([n, [to_json(x) for x in a], [[kk, to_json(x)] for kk, x in kw]], sort_keys=True) for n, a, kw in sympool.CALLS]
    r['calls'] = len(log)
    r['repeated'] = sorted([x, log.count(x)] for x in set(log) if log.count(x) > 1)[:8]
    rec['calls'].append(r)
    shutil.rmtree(root, ignore_errors=True)
    return rec


def main():
    ap = argparse.ArgumentParser()
    ap.add_argument('--seed', type=int, default=0)
    ap.add_argument('--n', type=int, default=60)
    ap.add_argument('--out', required=True)
    ap.add_argument('--work', required=True)
    a = ap.parse_args()
    rnd = random.Random(a.seed * 11 + 1)
    os.makedirs(a.work, exist_ok=True)
    dump({'cases': [one(rnd, a.work, k) if k % 6 else two_columns(rnd, a.work, k) for k in range(a.n)]}, a.out)


if __name__ == '__main__':
    main()
