#!/usr/bin/env python3
"""bin/check <ID> [--tier quick|thorough] [--replay FILE]

translate /repo -> coq/Gen  ->  make Props/<ID>.vo  ->  Print Assumptions  ->  correspondence + oracles
-> evidence/<ID>.json, VIOLATION / KNOWN-FINDING lines, exit code.
"""
import argparse
import glob
import importlib
import json
import os
import sys
import time
import traceback

sys.path.insert(0, os.path.dirname(os.path.abspath(__file__)))
import lib  # noqa


def main():
    ap = argparse.ArgumentParser()
    ap.add_argument('pid')
    ap.add_argument('--tier', default=os.environ.get('VERIF_TIER', 'quick'), choices=['quick', 'thorough'])
    ap.add_argument('--replay', default=None)
    a = ap.parse_args()
    pid = a.pid.upper()
    seed = int(os.environ.get('VERIF_SEED', '0'))
    t0 = time.time()
    mod = importlib.import_module('props.' + pid.lower())

    replaying = None
    if a.replay:
        # a replay is the same deterministic exploration (same seed and tier), reporting only the recorded violation
        replaying = json.load(open(a.replay))
        seed, a.tier = int(replaying.get('seed', seed)), replaying.get('tier', a.tier)
        if hasattr(mod, 'replay'):
            sys.exit(mod.replay(replaying))
    else:
        for f in glob.glob(os.path.join(lib.VERIF, 'replays', f'{pid}-*.json')):
            os.remove(f)

    violations = []     # dicts: {signature, what, replay-object}
    proof = {'translated': False, 'built': False, 'assumptions_ok': False}
    broken = []         # names of theorems / ties that no longer check
    with lib.BuildLock():
        ok_tr, tr_out, tr_rep = lib.translate()
        # a kernel that lost its shape breaks the properties whose theorems require the generated file it belongs to (coqdep closure of
        # Props/<pid>.v); for the other generated files that failed, the reference translation is installed so that the shared comparison
        # library still builds - nothing this property claims rests on them
        others = set()
        if not ok_tr:
            failures = tr_rep.get('failures', []) or [{'file': '?', 'error': tr_out[-400:]}]
            deps = lib.gen_deps(pid)
            mine = [f for f in failures if f['file'] == '?' or f['file'] in deps]
            others = {f['file'] for f in failures} - {f['file'] for f in mine}
            for f in mine:
                broken.append({'kind': 'translation', 'name': f['file'], 'detail': f['error']})
            if others:
                lib.install_reference_gen(only=others)
        proof['translated'] = not broken
        ok_mk, mk_out = lib.make([f'Props/{pid}.vo'] + [f'Model/{m}.vo' for m in getattr(mod, 'MODEL_DEPS', ['CheckLib'])])
        proof['built'] = ok_mk
        if not ok_mk:
            e = lib.first_error(mk_out)
            broken.append({'kind': 'proof', 'name': f'{e["file"]}:{e["line"]}', 'detail': e['error']})
        thms = lib.theorems_of(pid)
        blocks = []
        if ok_mk:
            ok_as, as_out, blocks = lib.assumptions_of(pid)
            proof['assumptions_ok'] = ok_as and len(blocks) >= 1
            if not ok_as:
                e = lib.first_error(as_out)
                broken.append({'kind': 'proof', 'name': f'Props/{pid}.v:{e["line"]}', 'detail': e['error']})
        # The correspondence uses the compiled model; keep the lock so that no other check rewrites Gen/ meanwhile.
        # When the translation or a proof is broken, the regenerated model is no longer known to satisfy the
        # property, so the search for a failing input runs the implementation against the *reference* kernels
        # (coq/GenRef: the translation of the tree on which every theorem was last checked).
        ctx = {'pid': pid, 'tier': a.tier, 'seed': seed, 'work': _workdir(pid), 'reference_model': False}
        try:
            if broken:
                ctx['reference_model'] = True
                lib.install_reference_gen()
                ok_ref, ref_out = lib.make([f'Model/{m}.vo' for m in getattr(mod, 'MODEL_DEPS', ['CheckLib'])])
                if not ok_ref:
                    raise RuntimeError('reference model does not build: ' + lib.first_error(ref_out)['error'])
            res = mod.run(ctx)
        except Exception:
            res = {'evaluations': 0, 'distinct_nontrivial': 0, 'rule': 'harness crashed', 'samples': [],
                   'violations': [{'signature': 'harness-error', 'what': traceback.format_exc()[-1500:], 'case': None}]}
        finally:
            _cleanup(ctx['work'])
            if ctx['reference_model'] or others:
                lib.translate()
    violations += res.get('violations', [])
    if replaying is not None and not replaying.get('no_failing_input_found'):
        same = [v for v in violations if v['signature'] == replaying['signature'] and v.get('case') == replaying.get('case')]
        violations = same or [v for v in violations if v['signature'] == replaying['signature']]
        print(f'replay of {a.replay}: ' + ('REPRODUCED' if violations else 'not reproduced'))

    known = lib.load_known()
    lines, n_viol, n_known = [], 0, 0
    k = 0
    # 1. concrete failing inputs
    for v in violations:
        match = next((f for f in known['findings'] if f['property'] == pid and f['signature'] == v['signature']), None)
        if match is not None:
            n_known += 1
            continue
        k += 1
        path = lib.write_replay(pid, k, {'property': pid, 'signature': v['signature'], 'what': v['what'], 'case': v.get('case'),
                                         'expected': v.get('expected'), 'observed': v.get('observed'),
                                         'broken_obligations': broken, 'seed': seed, 'tier': a.tier,
                                         'rerun': f'./bin/check {pid} --replay <this file>'})
        lines.append(f'VIOLATION property={pid} replay={path}')
        n_viol += 1
        if k >= 5:
            break
    seen_known = set()
    for v in violations:
        match = next((f for f in known['findings'] if f['property'] == pid and f['signature'] == v['signature']), None)
        if match is not None and match['id'] not in seen_known:
            seen_known.add(match['id'])
            lines.append(f'KNOWN-FINDING: property={pid} {match["id"]} {match["what"]}')
    # 2. a proof obligation or a tie that no longer checks, and no failing input was found
    if broken and n_viol == 0:
        path = lib.write_replay(pid, 'proof', {'property': pid, 'no_failing_input_found': True, 'broken_obligations': broken, 'seed': seed, 'tier': a.tier,
                                               'searched': res.get('rule', '')})
        lines.append(f'VIOLATION property={pid} replay={path} no-failing-input-found')
        n_viol += 1

    ev = {
        'property_id': pid, 'tier': a.tier, 'seed': seed, 'level': 'proof',
        'coverage': {
            'obligations': len(thms) + len(tr_rep.get('kernels', [])) * 0 + 0,
            'discharged': len(blocks) if proof['built'] else 0,
            'checker_cmd': f'cd /verif/coq && make Props/{pid}.vo && coqc <flags> Props/{pid}.v  (Coq 8.16.1 kernel; Print Assumptions under every theorem)',
            'trusted_base': getattr(mod, 'TRUSTED', []) + [f'{n}: {b}' for (n, _), b in zip(thms, blocks)],
            'theorems': [{'name': n, 'statement': s[:400], 'assumptions': b} for (n, s), b in zip(thms, blocks)],
            'translated_kernels': [kk for kk in tr_rep.get('kernels', []) if kk.get('gen') in lib.gen_deps(pid)],
            'translation_ok': proof['translated'], 'build_ok': proof['built'],
            'broken_obligations': broken,
            'generated_files_required': sorted(lib.gen_deps(pid)),
            'generated_files_that_failed_but_are_not_required': sorted(others),
            'evaluations': res.get('evaluations', 0),
            'distinct_nontrivial': res.get('distinct_nontrivial', 0),
            'rule': res.get('rule', ''),
            'samples': res.get('samples', [])[:5],
            'model_vs_impl_mismatches': res.get('mismatches', 0),
            'oracle_checks': res.get('oracle_checks', 0),
            'distribution': res.get('distribution', {}),
            'exhaustive': bool(res.get('exhaustive', False)),
            'known_findings_seen': sorted(seen_known),
        },
        'assumptions': getattr(mod, 'ASSUMPTIONS', []),
        'wall_s': round(time.time() - t0, 2),
        'violations': n_viol,
    }
    ev['coverage']['obligations'] = len(thms)
    if replaying is None:
        lib.write_evidence(pid, ev)
    for l in lines:
        print(l)
    print(f'[{pid}] tier={a.tier} seed={seed} theorems={len(blocks)}/{len(thms)} cases={res.get("evaluations", 0)} '
          f'mismatches={res.get("mismatches", 0)} violations={n_viol} known={len(seen_known)} wall={ev["wall_s"]}s')
    sys.exit(1 if n_viol else 0)


def _workdir(pid):
    import tempfile
    return tempfile.mkdtemp(prefix=f'verif-{pid}-')


def _cleanup(d):
    import shutil
    shutil.rmtree(d, ignore_errors=True)


if __name__ == '__main__':
    main()
