#!/bin/sh
# usage: tools/cross_check.sh <seeded dir>...   -- apply each change to private worktrees and run ALL 20 checks on it (4 copies of /verif in parallel);
# prints, per change, which checks report a violation (c = concrete replay, n = no-failing-input-found) - a measure of how local the alarms are
K=4
base=/tmp/vcross
cd /verif || exit 2
rm -rf $base; mkdir -p $base
for k in $(seq 1 $K); do
  rsync -a --exclude .git --exclude 'coq/Run' --exclude work --exclude replays /verif/ $base/v$k/
  git -C /repo worktree add -q --detach $base/r$k HEAD || exit 2
done
for d in "$@"; do
  name=$(basename $d)
  for k in $(seq 1 $K); do
    git -C $base/r$k apply /verif/seeded/$name/patch.diff
    (
      cd $base/v$k
      for i in $(seq $k $K 20); do
        id=$(printf "C%02d" $i)
        VERIF_REPO=$base/r$k VERIF_JOBS=4 ./bin/check $id --tier quick > $base/out.$name.$id.txt 2>&1
        echo "$id rc=$? c=$(grep -c '^VIOLATION.*json$' $base/out.$name.$id.txt) n=$(grep -c 'no-failing-input-found' $base/out.$name.$id.txt)" >> $base/res.$name.txt
      done
    ) &
  done
  wait
  for k in $(seq 1 $K); do git -C $base/r$k checkout -- .; done
  echo "$name: $(sort $base/res.$name.txt | awk '$2!="rc=0"{printf "%s(%s,%s) ", $1, $3, $4}')"
done
for k in $(seq 1 $K); do git -C /repo worktree remove --force $base/r$k; done
git -C /repo worktree prune
rm -rf $base
