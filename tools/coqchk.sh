#!/bin/sh
# independent re-check of the compiled property files (and everything they depend on) with coqchk; prints the axioms found
cd /verif/coq || exit 2
timeout 3600 coqchk -silent -o -Q Model Connectome -Q Gen Connectome -Q Proofs Connectome -Q Props Connectome \
  $(ls Props/*.v | sed 's#Props/\(.*\)\.v#Connectome.\1#') 2>&1 | tail -40
