"""Oracle (C07, C08): a column cache written by one pipeline is found by a rebuilt one whose dataset lists the same ids in another order."""
import json
import os

import lib


def add(ctx, res, tag):
    n = 60 if ctx['tier'] == 'quick' else 600
    out = os.path.join(ctx['work'], 'colreuse.json')
    rc, log = lib.run_impl('colreuse.py', ['--seed', str(ctx['seed']), '--n', str(n), '--out', out, '--work', os.path.join(ctx['work'], 'crw')], 1500)
    extra, k = [], 0
    if rc != 0:
        extra.append({'signature': 'harness-error', 'what': log[-800:], 'case': None})
    else:
        for i, c in enumerate(json.load(open(out))['cases']):
            k += 1
            case = {'spec': c['spec'], 'second': c['second'], 'how': c['how'], 'field': c['field']}
            if c.get('ran_on_hit') or 'hit_exc' in c:
                extra.append({'signature': 'oracle:column-cache-hit-runs-upstream', 'case': case, 'observed': c.get('ran_on_hit', c.get('hit_exc')),
                              'what': f'{tag}: column reuse case {i}: with a Filter above the column cache, repeating a call on the same pipeline object ran '
                                      f'{c.get("ran_on_hit", c.get("hit_exc"))} (a hit must run nothing)'})
            if 'exc' in c:
                extra.append({'signature': 'oracle:column-cache-reuse-fails', 'case': case, 'what': f'{tag}: column reuse case {i} ({c["how"]}): {c["exc"]}'})
            elif c['ran_again'] or not c['values_equal']:
                extra.append({'signature': 'oracle:column-cache-not-found-by-next-run', 'case': case, 'observed': c['ran_again'],
                              'what': f'{tag}: column reuse case {i}: the first pipeline cached {c["field"]} for the ids {c["ids"]}; a rebuilt pipeline over the same store '
                                      f'({c["how"]}) ran {c["ran_again"]} again' + ('' if c['values_equal'] else ' and returned other values')})
    per, outv = {}, []
    for x in extra:
        per[x['signature']] = per.get(x['signature'], 0) + 1
        if per[x['signature']] <= 2:
            outv.append(x)
    res['violations'] = list(res.get('violations', [])) + outv
    res['oracle_checks'] = res.get('oracle_checks', 0) + k
    res['evaluations'] = res.get('evaluations', 0) + k
    res['rule'] = res.get('rule', '') + '; plus column caches read back by a rebuilt pipeline whose dataset lists the ids in another order, behind a single-dataset Merge or CheckIds'
    return res
