"""C11: concurrent calls on one pipeline behave like sequential calls."""
import json
import os

import lib

MODEL_DEPS = ['CheckLib']
KERNELS = ('MemoryCache', 'CacheEdge', 'Graph', 'CachedColumn', 'CacheColumns')
TRUSTED = ['Coq 8.16.1 kernel; vm_compute in the Example',
           'tools/translate.py: lock scopes of MemoryCache.get/set/clear (every self._cache use lexically under `with self._lock`), '
           'fresh EvictionCaches per call, CacheEdge.evaluate',
           'the rely/guarantee reading: a thread sees the others only through the shared caches; pre-emption inside pylru or dict while the lock '
           'is held by somebody else, and tarn file lockers across processes, are not modelled']
ASSUMPTIONS = ['thread switches at the granularity of user-function calls and cache get/set (the granularity named by the property)',
               'CPython: a dict / lrucache operation under the lock is atomic with respect to other lock holders']


def run(ctx):
    quick = ctx['tier'] == 'quick'
    out = os.path.join(ctx['work'], 'th.json')
    rc, log = lib.run_impl('threads.py', ['--seed', str(ctx['seed']), '--n', '12' if quick else '60', '--len', '8' if quick else '10',
                                          '--threads3', '3' if quick else '15', '--out', out, '--work', os.path.join(ctx['work'], 'tw')], 3000)
    if rc != 0:
        return {'evaluations': 0, 'distinct_nontrivial': 0, 'rule': '', 'samples': [],
                'violations': [{'signature': 'harness-error', 'what': log[-800:], 'case': None}]}
    cases = json.load(open(out))['cases']
    viol, n, sigs = [], 0, {}
    distinct = set()
    for ci, c in enumerate(cases):
        for r in c['runs']:
            n += 1
            distinct.add((ci, r['schedule']))
            v = None
            if r['stuck']:
                v = ('harness-error', 'a thread did not finish')
            elif r['unlocked']:
                v = ('oracle:table-access-without-lock', f'MemoryCache._cache was accessed ({r["unlocked"][:3]}) while its lock was not held')
            else:
                for (f, k), res, ref in zip(c['jobs'], r['results'], c['ref']):
                    if f == '$clear':
                        if res is None or 'exc' in res:
                            v = ('oracle:concurrent-clear-failed', f'_clear() raised {res}')
                        continue
                    if res is None or 'exc' in res:
                        v = ('oracle:concurrent-call-raised', f'{f}({k!r}) raised {res and res["exc"]}')
                    elif res['val'] != ref:
                        v = ('oracle:concurrent-call-wrong-value', f'{f}({k!r}) returned {json.dumps(res["val"])[:150]} instead of {json.dumps(ref)[:150]}')
            if v:
                sigs[v[0]] = sigs.get(v[0], 0) + 1
                if sigs[v[0]] <= 2:
                    viol.append({'signature': v[0], 'case': {'spec': c['spec'], 'jobs': c['jobs'], 'schedule': r['schedule']},
                                 'what': f'C11: pipeline {ci}, schedule {r["schedule"]}: {v[1]}', 'observed': r['results'], 'expected': c['ref']})
    races = 0
    for ci, c in enumerate(cases):
      for which in ('compile_race', 'call_race'):
        cr = c.get(which)
        if not cr:
            continue
        races += cr['points']
        for b in cr['bad'][:1]:
            sigs['oracle:first-calls-race'] = sigs.get('oracle:first-calls-race', 0) + 1
            if sigs['oracle:first-calls-race'] <= 2:
                viol.append({'signature': 'oracle:first-calls-race', 'case': {'spec': c['spec'], 'jobs': cr['jobs'], 'pause_after_line': b['pause_after_line']},
                             'observed': b['results'],
                             'what': f'C11: pipeline {ci}: two threads call {cr["jobs"]} on a pipeline object ' + ('nobody has used yet' if which == 'compile_race' else 'that has been used before')
                                     + f'; with thread 0 paused after its {b["pause_after_line"]}th executed line of connectome code while thread 1 runs, the results are '
                                     f'{json.dumps(b["results"])[:200]}, and the same calls made one after the other afterwards give {json.dumps(b.get("sequential_calls_afterwards"))[:200]}'})
    return {'evaluations': n + races, 'distinct_nontrivial': len(distinct),
            'rule': 'random cached pipelines (RAM caches, often of size 1, and disk caches) called from 2 threads under every schedule of the given '
                    'length (thread switches only at user-function entry and at cache get/set entry; then the threads finish one after another), '
                    'a few with 3 threads under 150 sampled schedules, 30% with a concurrent _clear(), 30% with column caches; every third pipeline also with the first '
                    'calls of two threads raced at line granularity (thread 0 paused after its N-th line of connectome code); distinct by (pipeline, schedule)',
            'samples': [{'spec': cases[0]['spec'], 'jobs': cases[0]['jobs'], 'schedules': [r['schedule'] for r in cases[0]['runs'][:5]]}],
            'distribution': {'pipelines': len(cases), 'schedules': n, 'exhaustive_two_thread_schedules_of_length': 8 if quick else 10},
            'violations': viol, 'oracle_checks': n, 'mismatches': 0, 'exhaustive': False}
