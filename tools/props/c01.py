"""C01: a compiled field returns what composing the user functions returns."""
from props import enginecorr, multifield

MODEL_DEPS = ['CheckLib', 'NameLevel']
KERNELS = ('StaticHash', 'StaticGraph', 'StaticEdge', 'FunctionEdge', 'ComputableHashBase', 'IdentityEdge', 'ConstantEdge',
           'CacheEdge', 'ProductEdge', 'HashBarrier', 'SwitchEdge', 'CheckIdsEdge', 'EvictionCache', 'Graph', 'count_entries',
           'validate_graph', 'execute')
TRUSTED = ['Coq 8.16.1 kernel (coqc); vm_compute in case shards and Example witnesses; no native_compute',
           'tools/translate.py (Python ast -> Gallina) for the generator bodies, EvictionCache, Graph.__init__ multiplier',
           'hand-written: the 13 arms of VM.step, count_entries as path counting, the MRO table of Edges.v; tied by the correspondence',
           'case shards: Gallina literals written by tools/props/enginecorr.py, compared by Model/CheckLib.v']
ASSUMPTIONS = ['CPython generator semantics (send / StopIteration) are as modelled by resumption trees',
               'user functions are deterministic within one call (symbolic functions in the harness)']


def run(ctx):
    r = enginecorr.run(ctx)
    res = enginecorr.summarise(r, ('result',), 'C01')
    res = multifield.add(ctx, res, 'C01')
    # asking for a field that was quietly left out (or for any unknown name) raises FieldError / AttributeError, never an error from inside the compiler:
    # the stacks of C18 (optional chains with missing roots, fan-out below a missing root), here only for the class of the errors
    from props import stackcorr
    rs = stackcorr.run(dict(ctx, pid=ctx['pid'] + 'st'), optional=True, brackets=False, pid='C01')
    res['violations'] = list(res['violations']) + [x for x in rs.get('violations', []) if x['signature'] in ('oracle:stack-unexpected-error', 'harness-error')][:2]
    res['oracle_checks'] = res.get('oracle_checks', 0) + rs.get('evaluations', 0)
    return res
