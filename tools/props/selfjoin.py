"""Oracle (C03, C14): a Join whose two sides are built from ONE Merge object; every entry is computed by the dataset that owns its id, each function once."""
import json
import os

import lib


def add(ctx, res, tag):
    n = 30 if ctx['tier'] == 'quick' else 300
    out = os.path.join(ctx['work'], 'selfjoin.json')
    rc, log = lib.run_impl('selfjoin.py', ['--seed', str(ctx['seed']), '--n', str(n), '--out', out], 900)
    extra, k = [], 0
    if rc != 0:
        extra.append({'signature': 'harness-error', 'what': log[-800:], 'case': None})
    else:
        for i, c in enumerate(json.load(open(out))['cases']):
            if 'build_exc' in c:
                extra.append({'signature': 'oracle:self-join-fails-to-build', 'case': c, 'what': f'{tag}: a Join of two pipelines over one Merge object fails to build: {c["build_exc"]}'})
                continue
            for r in c['rows']:
                k += 1
                if r['got'] != r['want'] or r['ran'] != r['want_ran']:
                    extra.append({'signature': 'oracle:merge-used-twice-in-one-graph', 'case': {'A': c['A'], 'B': c['B'], 'cache': c['cache'], 'key': r['key']},
                                  'observed': {'value': r['got'], 'ran': r['ran']}, 'expected': {'value': r['want'], 'ran': r['want_ran']},
                                  'what': f'{tag}: Join(M >> left fields, M >> right fields) over ONE Merge M of the datasets {c["A"]} and {c["B"]}, then z(lval, rval)'
                                          + (' behind CacheToRam' if c['cache'] == 'ram' else '') + f': z({r["key"]!r}) pairs {r["left_id"]!r} with {r["right_id"]!r}; it returned '
                                          f'{r["got"]!r} and ran {r["ran"]}, expected {r["want"]!r} and {r["want_ran"]}'})
                    break
    res['violations'] = list(res.get('violations', [])) + extra[:2]
    res['oracle_checks'] = res.get('oracle_checks', 0) + k
    res['evaluations'] = res.get('evaluations', 0) + k
    res['rule'] = res.get('rule', '') + '; plus a Join whose two sides are built from one Merge object, with a cached field over both sides'
    return res
