"""C03: one call evaluates each needed function exactly once and nothing else."""
import collections

from props import enginecorr

MODEL_DEPS = ['CheckLib']
KERNELS = ('StaticHash', 'StaticEdge', 'FunctionEdge', 'ComputableHashBase', 'CacheEdge', 'HashBarrier', 'SwitchEdge',
           'EvictionCache', 'Graph', 'CachedColumn', 'CacheColumns', 'execute')
TRUSTED = ['Coq 8.16.1 kernel; vm_compute in case shards and the Example',
           'tools/translate.py for the generator bodies; hand-written VM.step tied by the trace correspondence',
           'the exact call log is compared between Model/VM.v and the real engine on every generated case (correspondence, a sample)']
ASSUMPTIONS = ['symbolic user functions; one function name per node, so a name occurring twice in a log is a double evaluation']


def reachable(case):
    """function names of the nodes upstream of the output (statically), and whether a lazy edge is among them"""
    nodes, seen, stack, lazy = case['nodes'], set(), [case['out']], False
    while stack:
        n = stack.pop()
        if n in seen:
            continue
        seen.add(n)
        d = nodes[n]
        if d['k'] in ('switch', 'cache', 'checkids'):
            lazy = True
        stack.extend(d.get('ps', ()))
    fn = set()
    for n in seen:
        d = nodes[n]
        if d['k'] == 'func':
            fn.add(d['f'])
        if d['k'] in ('byvalue', 'impure') and d['inner']['k'] == 'func':
            fn.add(d['inner']['f'])
    return fn, lazy


def oracles(cases):
    """direct checks on what the implementation did, independent of the Coq model"""
    viol, checks = [], 0
    for i, c in enumerate(cases):
        fn, lazy = reachable(c)
        for k, (call, ob) in enumerate(zip(c['calls'], c['obs'])):
            names = [x[0] for x in ob['log']]
            checks += 1
            dup = [n for n, cnt in collections.Counter(names).items() if cnt > 1]
            if dup:
                viol.append({'signature': 'oracle:double-evaluation', 'case': c,
                             'what': f'engine case {i}, call {k + 1}: user functions {dup} ran more than once in one call',
                             'observed': names})
            extra = [n for n in names if n not in fn]
            if extra:
                viol.append({'signature': 'oracle:unneeded-evaluation', 'case': c,
                             'what': f'engine case {i}, call {k + 1}: {extra} ran although the output does not depend on them',
                             'observed': names})
            if not lazy and 'val' in ob['res'] and set(names) != fn:
                viol.append({'signature': 'oracle:missing-evaluation', 'case': c,
                             'what': f'engine case {i}, call {k + 1}: needed functions {sorted(fn - set(names))} did not run',
                             'observed': names})
    return viol, checks


def run(ctx):
    r = enginecorr.run(ctx)
    res = enginecorr.summarise(r, ('log',), 'C03')
    v, n = oracles(r['cases'])
    res['violations'] = v[:3] + res['violations']
    res['oracle_checks'] = n
    # one column cache over a cache-free pipeline: generating a shard runs every function once per id (hash pass and value pass together)
    from props import colonce
    res = colonce.add(ctx, res, 'C03')
    # a decorated function runs once per call, whatever the number of its outputs (containers/base.py function_to_bag)
    from props import c10
    r10 = c10.run(dict(ctx, pid=ctx['pid'] + 'lb'))
    res['violations'] += [x for x in r10.get('violations', []) if x['signature'] in ('oracle:loopback-double-evaluation', 'harness-error')][:2]
    res['oracle_checks'] += r10.get('oracle_checks', 0)
    from props import relcorr, hashdigest
    res = relcorr.memo_oracle(ctx, res, 'C03')
    res = hashdigest.add(ctx, res, 'C03')
    from props import multifield, selfjoin
    res = multifield.add(ctx, res, 'C03')
    res = selfjoin.add(ctx, res, 'C03')
    from props import colmodel
    return colmodel.add(ctx, res, 'C03', n_quick=80, n_thorough=800)
