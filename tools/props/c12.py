"""C12: a crash during a disk-cache write never corrupts what later runs read."""
import json
import os
import subprocess

import lib

MODEL_DEPS = ['CheckLib', 'Crash']
KERNELS = ('DiskCache', 'CacheToDisk')
TRUSTED = ['Coq 8.16.1 kernel; vm_compute in case shards and Examples',
           'hand-written Model/Crash.v (tarn DiskDict.write / read, PickleKeyStorage.write / _read_for_digest, DiskCache, the cache edge) at '
           'the granularity of file-system mutations, tied by the correspondence: every tree of the real store between two intercepted '
           'mutations, abstracted to (blobs, index per entry, temp files), against the model run from the same start',
           'tools/pyharness/crash.py: Python-level interception of os.* mutators and open-for-write, with the check that consecutive trees '
           'differ only where the intercepted mutation says; a process death is represented by the tree at that point (page cache survives '
           'a process, not a machine); tarn itself is exercised, not modified',
           'tools/translate.py: DiskCache.get / set (error=False) and the store CacheToDisk.simple builds (whole-statement patterns)']
ASSUMPTIONS = ['the value of an entry is a function of the entry (pure upstream, C04), blobs are content addressed (sha256 checked by the abstraction)',
               'one process at a time uses the store (no concurrent writers: that is tarn\'s locker, outside C12)',
               'faults: blobs lost; index files lost or truncated; temp files lost or truncated; config.yml and the tools folders survive']


def ofs(o):
    idx = lib.clist([f'({e}, ' + ('ITorn' if m is None else 'IGood ' + lib.clist([str(b) for b in m])) + ')' for e, m in o['index']])
    return '{| o_blobs := ' + lib.clist([str(b) for b in o['blobs']]) + f'; o_index := {idx}; o_tmps := {o["tmps"]} |}}'


def literal(r):
    return ('{| cc_values := ' + lib.clist([f'({e}, {lib.clist([str(b) for b in bl])})' for e, bl in r['values']])
            + '; cc_deps := ' + lib.clist([f'({e}, {lib.clist([str(x) for x in l])})' for e, l in r['deps']])
            + f'; cc_start := {ofs(r["start"])}; cc_gets := ' + lib.clist([str(e) for e in r['gets']])
            + '; cc_states := ' + lib.clist([ofs(o) for o in r['states']])
            + '; cc_answers := ' + lib.clist([f'({e}, {str(h).lower()})' for e, h in r['answers']]) + ' |}')


def where(r):
    p = r.get('point')
    at = 'an undamaged store' if p is None else f'the tree left by a process that died before file-system mutation #{p[0]} {p[1]}'
    if r.get('faults'):
        at += ' with ' + ', '.join(f'{f[0]} {f[1]}' + (f' to {f[2]} bytes' if len(f) > 2 else '') for f in r['faults'])
    return f'{json.dumps(r["cfg"])}: {r["role"]} on {at}'


def oracle(r, viol):
    case = {'cfg': r['cfg'], 'point': r.get('point'), 'faults': r.get('faults'), 'role': r['role'], 'calls': r['calls']}
    def v(sig, what, obs=None):
        viol.append({'signature': sig, 'case': case, 'observed': obs, 'what': f'C12: {where(r)}: {what}'})
    kc = r.get('kill_check')
    if kc and kc['bad']:
        v('harness:snapshot-is-not-what-a-kill-leaves', f'a process really killed at a point left another tree than the one noted there: {kc["bad"][:2]}')
    if r['escaped']:
        v('harness:uninstrumented-mutation', f'the tree changed outside the intercepted mutation: {r["escaped"]}')
    for res, exp, call in zip(r['results'], r['expected'], r['calls']):
        if 'exc' in res:
            v('oracle:later-process-fails', f'call {call!r} raised {res["exc"]}', res)
        elif res['val'] != exp:
            v('oracle:wrong-value', f'call {call!r} returned {res["val"]!r}, expected {exp!r}', res)
    if len(r['results']) != len(r['calls']):
        v('oracle:later-process-fails', f'the pipeline could not be used: {r["results"][:1]}', r['results'][:1])
    ups = [json.dumps(u, sort_keys=True) for u in r['upstream']]
    if len(set(ups)) != len(ups):
        v('oracle:recomputed-twice', f'an upstream function ran twice for the same key in one process: {r["upstream"]}')
    if r['role'] == 'later2' and (r['upstream'] or any(not h for _, h in r['answers'])):
        v('oracle:not-stored-again', f'the process after the recovering one still recomputes: upstream {r["upstream"]}, misses {[e for e, h in r["answers"] if not h]}')
    if not any(not h for _, h in r['answers']) and r['upstream'] and not any('exc' in x for x in r['results']):
        v('oracle:recomputed-on-hit', f'every read was a hit but upstream ran: {r["upstream"]}')


def run(ctx):
    seed, tier = ctx['seed'], ctx['tier']
    from concurrent.futures import ThreadPoolExecutor
    nconf = 13
    outs = [os.path.join(ctx['work'], f'c12_{k}.jsonl') for k in range(nconf)]

    def one(k):
        return lib.run_impl('crash.py', [str(seed), tier, outs[k], str(k)], 3000 if tier == 'quick' else 14000)
    with ThreadPoolExecutor(max_workers=12) as ex:
        logs = list(ex.map(one, range(nconf)))
    viol, recs, points = [], [], 0
    for k, (rc, log) in enumerate(logs):
        if rc != 0:
            viol.append({'signature': 'harness-error', 'what': f'config {k}: ' + log[-800:], 'case': None})
            continue
        for l in log.splitlines():
            if 'crash points' in l:
                points += int(l.split('crash points ')[1].split(',')[0])
        with open(outs[k]) as f:
            recs += [json.loads(l) for l in f]
    lits, owners = [], []
    for r in recs:
        oracle(r, viol)
        if r['unmodelled']:
            viol.append({'signature': 'corr:crash:unmodelled-files', 'case': {'cfg': r['cfg'], 'point': r.get('point'), 'faults': r.get('faults'), 'role': r['role']},
                         'observed': r['unmodelled'], 'what': f'C12: {where(r)}: files the model has no place for: {r["unmodelled"]}'})
            continue
        for p in r['problems']:
            viol.append({'signature': 'corr:crash:value-not-a-function-of-the-entry', 'case': {'cfg': r['cfg']}, 'what': f'C12: {where(r)}: {p}'})
        if any('exc' in x for x in r['results']):
            continue      # already a violation; the log of an aborted call is not comparable
        lits.append(literal(r))
        owners.append(r)
    shards = lib.write_shards(ctx['pid'], 'crash', ['Values', 'Crash', 'CheckLib'], 'crash_case', 'check_crash', lits, per=150)
    total, bad, errors = lib.run_shards(shards)
    for e in errors:
        viol.append({'signature': 'harness-error', 'what': e, 'case': None})
    for j, code in bad[:6]:
        r = owners[j]
        viol.append({'signature': f'corr:crash:{code}', 'case': {'cfg': r['cfg'], 'point': r.get('point'), 'faults': r.get('faults'), 'role': r['role'], 'calls': r['calls']},
                     'observed': {'answers': r['answers'], 'states': r['states'][:6]},
                     'what': f'C12: {where(r)}: the store did not behave as Model/Crash.v (code 1: the model does not finish, 2: another hit/miss sequence '
                             f'{r["answers"]}, 3: another sequence of trees)'})
    per, outv = {}, []
    for x in viol:
        per[x['signature']] = per.get(x['signature'], 0) + 1
        if per[x['signature']] <= 2:
            outv.append(x)
    dist = {}
    for r in recs:
        key = r['role'] + ('/faulted' if r.get('faults') else '')
        dist[key] = dist.get(key, 0) + 1
    dist['crash_points'] = points
    dist['real_kills_compared'] = sum(r.get('kill_check', {}).get('points', 0) for r in recs)
    dist['misses'] = sum(1 for r in recs for _, h in r['answers'] if not h)
    dist['hits'] = sum(1 for r in recs for _, h in r['answers'] if h)
    dist['fault_kinds'] = {}
    for r in recs:
        for f in r.get('faults') or []:
            kk = f[0] + ':' + f[1].split(os.sep)[0] + ('/.tmp' if '.tmp' in f[1] else '')
            dist['fault_kinds'][kk] = dist['fault_kinds'].get(kk, 0) + 1
    sample = {k: recs[0][k] for k in ('tag', 'cfg', 'gets', 'answers', 'values', 'n_mutations')} if recs else None
    res = {'evaluations': len(recs), 'distinct_nontrivial': len({(json.dumps(r['cfg'], sort_keys=True), json.dumps(r.get('point')), json.dumps(r.get('faults'))) for r in recs}),
            'rule': '13 configurations (disk through CacheToDisk.simple and through the constructor / stacked disk caches on one store / column cache with 1, 2, 3-key shards / disk under columns; json, pickle, '
                    'dict, nested dict, chain and default serializers; with and without labels); every tree between two mutations of the writer, undamaged and '
                    'under fault sets (each single fault, random sets of 2-5), then two fresh processes; thorough: the recovering process dies too; '
                    'distinct by (configuration, crash point, fault set)',
            'samples': [sample], 'distribution': dist, 'violations': outv, 'mismatches': len(bad), 'shards': len(shards), 'checked': total}
    # a writer that dies of an exception or an interrupt in the middle of generating a shard (rather than of a kill inside a file operation):
    # later requests and later processes read complete shards only
    from props import colmodel
    return colmodel.add(ctx, res, 'C12', n_quick=80, n_thorough=800)
