"""Correspondence for layer stacks (C02, C09, C18): tools/pyharness/stacks.py vs Model/NameLevel.v."""
import json
import os

import lib


def sl(xs):
    return lib.clist([lib.cstr(x) for x in xs])


def item(d):
    if d['t'] == 'src':
        defs = [f'({lib.cstr(f)}, ({lib.cstr(s)}, ["id"]))' for f, s in d['fields'].items()] + [f'("ids", ({lib.cstr(d["ids_sym"])}, []))']
        return ('SLayer {| l_defs := ' + lib.clist(defs) + '; l_params := []; l_inherit := Fin []; l_optional := []; '
                'l_persistent := ["id"; "ids"]; l_cache := false |}')
    if d['t'] == 'apply':
        names = list(d['fields'])
        defs = [f'({lib.cstr(f)}, ({lib.cstr(sy)}, [{lib.cstr(f)}]))' for f, sy in d['fields'].items()]
        return ('SLayer {| l_defs := ' + lib.clist(defs) + f'; l_params := []; l_inherit := Co {sl(names)}; l_optional := []; l_persistent := []; l_cache := false |}}')
    if d['t'] == 'ram':
        return 'SCache ' + ('None' if d['names'] is None else f'(Some {sl(d["names"])})')
    inh = d['inherit']
    if inh is True:
        ns = 'Co []'
    elif isinstance(inh, dict):
        ns = f'Co {sl(inh["exclude"])}'
    else:
        ns = f'Fin {sl(inh)}'
    defs = [f'({lib.cstr(f)}, ({lib.cstr(v[0])}, {sl(v[1])}))' for f, v in d['fields'].items()]
    params = [f'({lib.cstr(f)}, ({lib.cstr(v[0])}, {sl(v[1])}))' for f, v in d['params'].items()]
    return ('SLayer {| l_defs := ' + lib.clist(defs) + '; l_params := ' + lib.clist(params) + f'; l_inherit := {ns}; l_optional := {sl(d.get("optional", []))}; '
            'l_persistent := []; l_cache := false |}')


def obs_lit(o):
    if 'deperr' in o:
        return f'ODep {lib.cstr(o["deperr"]["field"])} {sl(o["deperr"]["missing"])}'
    rows = []
    for name, r in o['rows'].items():
        if r.get('absent'):
            p = 'PAbsent'
        elif r.get('virtual'):
            p = 'PVirtual'
        else:
            p = f'PField {sl(r["sig"])} ({lib.cval(r["val"])})'
        rows.append(f'({lib.cstr(name)}, {p})')
    return f'OFields {sl(o["listed"])} ' + lib.clist(rows)


def literal(c):
    return '{| nc_items := ' + lib.clist([item(d) for d in c['items']]) + '; nc_obs := ' + obs_lit(c['obs']) + ' |}'


CODES = {1: 'outcome (fields vs DependencyError)', 2: 'the field and missing inputs named by the DependencyError', 3: 'the listed fields', 4: 'a signature, value, virtual name or rejected name'}


def cls(o):
    return 'deperr' if 'deperr' in o else ('error' if 'error' in o else 'fields')


def run(ctx, optional, brackets, pid, n_quick=400, n_thorough=5000):
    n = n_quick if ctx['tier'] == 'quick' else n_thorough
    out = os.path.join(ctx['work'], 'st.json')
    args = ['--seed', str(ctx['seed']), '--n', str(n), '--out', out] + (['--optional'] if optional else []) + (['--brackets'] if brackets else [])
    rc, log = lib.run_impl('stacks.py', args, 2400)
    if rc != 0:
        return {'evaluations': 0, 'distinct_nontrivial': 0, 'rule': '', 'samples': [],
                'violations': [{'signature': 'harness-error', 'what': log[-800:], 'case': None}]}
    cases = json.load(open(out))['cases']
    viol = []
    ok_cases = [c for c in cases if 'error' not in c['obs'] and not c.get('unmodelled')]
    for i, c in enumerate(cases):
        if 'error' in c['obs']:
            viol.append({'signature': 'oracle:stack-unexpected-error', 'case': {'items': c['items']}, 'what': f'{pid}: stack {i}: {c["obs"]["error"]}'})
    for i, c in enumerate(cases):
        sl2 = c['obs'].get('second_look')
        if sl2 is not None and sl2 != ['DependencyError'] * 3:
            viol.append({'signature': 'oracle:error-not-repeatable', 'case': {'items': c['items']}, 'observed': sl2,
                         'what': f'{pid}: stack {i}: after the DependencyError, asking again (dir, a field, an undefined name) gives {sl2} instead of the same error'})
    shards = lib.write_shards(ctx['pid'], 'stack', ['Values', 'NameSet', 'NameLevel', 'CheckLib'], 'ncase', 'check_stack', [literal(c) for c in ok_cases], per=150)
    total, bad, errors = lib.run_shards(shards)
    for e in errors:
        viol.append({'signature': 'harness-error', 'what': e, 'case': None})
    for j, code in bad[:3]:
        c = ok_cases[j]
        viol.append({'signature': f'corr:stack:{code}', 'case': {'items': c['items']}, 'observed': c['obs'],
                     'what': f'{pid}: stack {j}: the real pipeline and Model/NameLevel.v disagree on {CODES.get(code, code)}'})
    checks = len(cases)
    for i, c in enumerate(cases):
        for w in c.get('const_wrong', []):
            viol.append({'signature': 'oracle:instances-of-a-class-share-arguments', 'case': {'items': c['items']}, 'observed': w,
                         'what': f'{pid}: stack {i}: the layer {w["item"]} computes {w["got"]} instead of {w["want"]}: it took the constructor argument of an earlier instance'})
        if c.get('checkids_differs'):
            viol.append({'signature': 'oracle:checkids-changes-what-the-pipeline-lists', 'case': {'items': c['items']}, 'observed': c['checkids_differs'],
                         'what': f'{pid}: stack {i}: the pipeline and the same pipeline >> CheckIds() differ in the fields they list or in being usable at all: {c["checkids_differs"]}'})
        for b in c.get('shared_cache_layer', [])[:1]:
            viol.append({'signature': 'oracle:shared-cache-layer-couples-its-uses', 'case': {'scenario': 'ONE CacheToRam(size=1) object connected to two sources with fields a, b', 'step': b},
                         'observed': b,
                         'what': f'{pid}: one CacheToRam(size=1) object over two fields and in two pipelines: at step {b.get("step")} {b} (every field of every connection '
                                 f'has a table of its own: an entry is evicted only by another key of the same field of the same pipeline)'})
        if not c.get('operands_unchanged', True):
            viol.append({'signature': 'oracle:operand-changed', 'case': {'items': c['items']},
                         'what': f'{pid}: stack {i}: composing (>> and Chain) changed what an operand layer lists, serves, returns or treats as a property'})
    if brackets:
        for i, c in enumerate(cases):
            for v in c.get('variants', []):
                checks += 1
                a, b = c['obs'], v['obs']
                strip = lambda o: {k: v for k, v in o.items() if k != 'properties'}      # noqa: E731  (meta-property-ness is compared for operands only)
                same = (cls(a) == cls(b)) and (cls(a) != 'fields' or strip(a) == strip(b))
                if not same:
                    viol.append({'signature': 'oracle:bracketing-differs', 'case': {'items': c['items'], 'variant': v['name'], 'reuse': c.get('reuse')},
                                 'observed': b, 'expected': a,
                                 'what': f'{pid}: stack {i}: the {v["name"]} bracketing differs from a >> b >> ... in fields, signatures, values or error class'})
    per, outv = {}, []
    for x in viol:
        per[x['signature']] = per.get(x['signature'], 0) + 1
        if per[x['signature']] <= 2:
            outv.append(x)
    dist = {'fields': sum(1 for c in cases if cls(c['obs']) == 'fields'), 'dependency_error': sum(1 for c in cases if cls(c['obs']) == 'deperr'),
            'with_source': sum(1 for c in cases if c['items'][0]['t'] == 'src'), 'with_cache_layer': sum(1 for c in cases if any(d['t'] == 'ram' for d in c['items'])),
            'layer_reused': sum(1 for c in cases if c.get('reuse') is not None),
            'dropped_quietly': sum(1 for c in cases if cls(c['obs']) == 'fields' and any(r.get('absent') for r in c['obs']['rows'].values()))}
    return {'evaluations': checks, 'distinct_nontrivial': len({lib.case_hash(c['items']) for c in cases if len(c['items']) >= 2}),
            'rule': 'random stacks of 1-5 layers over 5 public and 2 private names: Source head (persistent id/ids) or not, Transforms with '
                    'parameters, __inherit__ list / True / __exclude__, @optional marks, CacheToRam layers; observed: dir(), DependencyError '
                    '(field, missing inputs), and for 8 probed names the signature, the symbolic value, identity for virtual names, '
                    'AttributeError otherwise' + ('; 6 bracketings and chain flavours, a layer object used twice, operands observed before and after' if brackets else ''),
            'samples': [{'items': cases[0]['items'], 'obs': cases[0]['obs']}], 'distribution': dist, 'violations': outv, 'oracle_checks': checks, 'mismatches': len(bad)}
