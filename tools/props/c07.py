"""C07: hashes depend only on pipeline structure and input (no spurious invalidation)."""
import json
import os

import lib

MODEL_DEPS = ['CheckLib']
KERNELS = ('IdentityEdge', 'CacheEdge', 'CheckIdsEdge', 'CachedColumn', 'CacheColumns', 'HashBarrier', 'FunctionEdge', 'SwitchEdge', 'NodeHash')
TRUSTED = ['Coq 8.16.1 kernel', 'tools/translate.py: the hash makers named in translated_kernels',
           'tarn.pickler.dumps is deterministic across interpreters: observed on this run only (3 string-hash seeds), trusted beyond']
ASSUMPTIONS = ['symbolic user functions are importable module-level functions (pickled by reference)']
SEEDS = (0, 1, 77)


def run(ctx):
    n = 60 if ctx['tier'] == 'quick' else 600
    runs = []
    viol = []
    for hs in SEEDS:
        out = os.path.join(ctx['work'], f'inv{hs}.json')
        rc, log = lib.run_impl('invariance.py', ['--seed', str(ctx['seed']), '--n', str(n), '--out', out, '--work', os.path.join(ctx['work'], f'w{hs}')],
                               1500, hashseed=hs)
        if rc != 0:
            return {'evaluations': 0, 'distinct_nontrivial': 0, 'rule': '', 'samples': [],
                    'violations': [{'signature': 'harness-error', 'what': log[-800:], 'case': None}]}
        runs.append(json.load(open(out))['cases'])
    base = runs[0]
    checks, kinds = 0, {}
    for i, c in enumerate(base):
        for r in c['rewrites']:
            kinds[r['name']] = kinds.get(r['name'], 0) + 1
            checks += 1
            if 'error' in r:
                viol.append({'signature': 'oracle:rewrite-failed', 'case': {'spec': c['spec'], 'rewrite': r['name']},
                             'what': f'C07: case {i}: the neutral rewrite {r["name"]} does not build or evaluate: {r["error"]}'})
                continue
            if r['digest'] != c['digest']:
                viol.append({'signature': 'oracle:digest-changed', 'case': {'spec': c['spec'], 'rewrite': r['name'], 'field': c['field'], 'key': c['key']},
                             'observed': r['digest'], 'expected': c['digest'],
                             'what': f'C07: case {i}: the neutral rewrite {r["name"]} changes the digest of {c["field"]}({c["key"]!r})'})
            elif (r['name'] in ('rebuild', 'left-nested', 'lazy-tail', 'rshift', 'insert-ram', 'insert-disk', 'insert-columns', 'insert-inherit-all', 'keyword-order')
                  and r.get('ids_digest') != c['ids_digest']):
                viol.append({'signature': 'oracle:ids-digest-changed', 'case': {'spec': c['spec'], 'rewrite': r['name']},
                             'observed': r.get('ids_digest'), 'expected': c['ids_digest'],
                             'what': f'C07: case {i}: the neutral rewrite {r["name"]} changes the digest of ids (which holds the static hash of the pipeline when it ends with a Filter)'})
            elif not r['inproc_equal']:
                viol.append({'signature': 'oracle:inprocess-hash-changed', 'case': {'spec': c['spec'], 'rewrite': r['name']},
                             'what': f'C07: case {i}: the neutral rewrite {r["name"]} changes the in-process node hash'})
            elif r.get('value_equal') is False:
                viol.append({'signature': 'oracle:rewrite-changed-value', 'case': {'spec': c['spec'], 'rewrite': r['name']},
                             'what': f'C07: case {i}: the rewrite {r["name"]} changes the value (harness assumption broken)'})
        # another interpreter, another string-hash seed: the same digests
        for hs, other in zip(SEEDS[1:], runs[1:]):
            checks += 1
            if (other[i]['digest'] != c['digest'] or [r.get('digest') for r in other[i]['rewrites']] != [r.get('digest') for r in c['rewrites']]
                    or other[i]['ids_digest'] != c['ids_digest']
                    or [r.get('ids_digest') for r in other[i]['rewrites']] != [r.get('ids_digest') for r in c['rewrites']]):
                viol.append({'signature': 'oracle:digest-depends-on-interpreter', 'case': {'spec': c['spec'], 'hashseeds': [SEEDS[0], hs]},
                             'observed': other[i]['digest'], 'expected': c['digest'],
                             'what': f'C07: case {i}: digests differ between PYTHONHASHSEED={SEEDS[0]} and {hs}'})
    per = {}
    out_v = []
    for v in viol:
        per[v['signature']] = per.get(v['signature'], 0) + 1
        if per[v['signature']] <= 2:
            out_v.append(v)
    res = {'evaluations': checks, 'distinct_nontrivial': len({lib.case_hash(c['spec']) for c in base}),
            'rule': 'random pipelines (Source, 1-3 Transforms with parameters, optionally a Silent argument) x neutral rewrites '
                    '(rebuild, three bracketings incl. LazyChain, inserted CacheToRam / CacheToDisk / inherit-all Transform, appended '
                    'CheckIds and Filter.keep(all), singleton Merge, change upstream of a Silent argument, pickle round trip of the '
                    'compiled function) in 3 interpreters with PYTHONHASHSEED 0, 1, 77; distinct by pipeline spec',
            'samples': [{'spec': base[0]['spec'], 'rewrites': [r['name'] for r in base[0]['rewrites']]}],
            'distribution': {'rewrite_kinds': kinds, 'interpreters': len(SEEDS)}, 'violations': out_v, 'oracle_checks': checks, 'mismatches': 0}
    from props import colreuse
    res = colreuse.add(ctx, res, 'C07')
    from props import colmodel
    res = colmodel.add(ctx, res, 'C07', n_quick=80, n_thorough=800)
    from props import crossproc
    return crossproc.add(ctx, res, 'C07')
