"""Oracle (C03): one column cache over a cache-free pipeline runs every function at most once per id while generating a shard."""
import json
import os

import lib


def add(ctx, res, tag):
    n = 60 if ctx['tier'] == 'quick' else 600
    out = os.path.join(ctx['work'], 'colonce.json')
    rc, log = lib.run_impl('colonce.py', ['--seed', str(ctx['seed']), '--n', str(n), '--out', out, '--work', os.path.join(ctx['work'], 'cow')], 1500)
    extra, k = [], 0
    if rc != 0:
        extra.append({'signature': 'harness-error', 'what': log[-800:], 'case': None})
    else:
        for i, c in enumerate(json.load(open(out))['cases']):
            for r in c.get('calls', []):
                k += 1
                if r.get('repeated'):
                    # finding F9 of the pinned tree: the hash-by-value functions of the REQUESTED entry run twice (once for the entry's hash in the
                    # outer graph, once inside the column's own graph); anything beyond that - other ids of the shard, three runs - is new
                    if c.get('two_columns'):
                        # finding F10: the function both columns share runs once per column (twice), for the ids of the shard; nothing else repeats
                        f10 = all(cnt == 2 and e.startswith('["s000"') for e, cnt in r['repeated'])
                        extra.append({'signature': 'F10:cached-columns-recompute-what-they-share' if f10 else 'oracle:double-evaluation',
                                      'case': {'spec': c['spec'], 'field': c['field'], 'key': r['key']}, 'observed': r['repeated'],
                                      'what': f'{tag}: two cached columns asked for together, case {i}: {r["repeated"][:2]}'})
                        continue
                    others = [i for i in c['ids'] if i != r['key']]
                    f9 = all(cnt == 2 and json.dumps({'s': r['key']}) in e and not any(json.dumps({'s': o}) in e for o in others) for e, cnt in r['repeated'])
                    extra.append({'signature': 'F9:column-cache-runs-by-value-functions-of-the-requested-entry-twice' if f9 else 'oracle:double-evaluation', 'case': {'spec': c['spec'], 'field': c['field'], 'key': r['key']}, 'observed': r['repeated'],
                                  'what': f'{tag}: column cache case {i}: one call {c["field"]}({r["key"]!r}) ran user functions twice on the same arguments: {r["repeated"][:2]}'})
    per, outv = {}, []
    for x in extra:
        per[x['signature']] = per.get(x['signature'], 0) + 1
        if per[x['signature']] <= 2:
            outv.append(x)
    res['violations'] = list(res.get('violations', [])) + outv
    res['oracle_checks'] = res.get('oracle_checks', 0) + k
    res['evaluations'] = res.get('evaluations', 0) + k
    res['rule'] = res.get('rule', '') + '; plus one cached column over cache-free pipelines with hash-by-value functions: no function twice on the same arguments in one call'
    return res
