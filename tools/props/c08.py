"""C08: caches actually memoise: hits run nothing upstream, LRU stays bounded, shards partition."""
import json
import math
import os

import lib
from props import histcorr

MODEL_DEPS = ['CheckLib']
KERNELS = ('MemoryCache', 'CachedColumn', 'CacheColumns', 'CacheEdge')
TRUSTED = ['Coq 8.16.1 kernel; vm_compute in case shards and the Example',
           'tools/translate.py: MemoryCache.get/set/clear (clear kind, lock scopes), CachedColumn._get_shard (whole-body pattern), CacheEdge.evaluate',
           'pylru is third-party: modelled by hand (Model/Store.v, Proofs/Lru.v) and compared with the real MemoryCache on operation lists']
ASSUMPTIONS = ['for a float shard size f > 0 and at least one key, ceil(f * len(keys)) is a positive integer (Python float arithmetic, not modelled)',
               'sorted() on ASCII strings is the order the harness uses to present keys to the model']


def last_cache(spec):
    d = spec[-1]
    return d if d['t'] in ('ram', 'disk', 'columns') else None


def covers(d, field):
    return d.get('names') is None or field in d['names']


def has_byvalue(spec):
    return any(d.get('byvalue') or d.get('impure') for d in spec if d['t'] == 'transform')


def oracle_hits(cases):
    """(a) repeating a call through an unbounded RAM / disk / column cache at the end of the pipeline runs no user
    function; (b) a bounded RAM cache at the end hits on its `size` most recently used keys"""
    viol, n = [], 0
    for i, c in enumerate(cases):
        recency = {}       # (variant, build number, field) -> keys, most recent first
        builds = [0] * len(c['variants'])
        prev = None
        for op, ob in zip(c['ops'], c['obs']):
            if op['op'] == 'rebuild':
                builds[op['variant']] += 1
            if op['op'] == 'clear':
                recency = {k: v for k, v in recency.items() if k[0] != op['variant']}
            if op['op'] != 'call':
                prev = None if op['op'] != 'fail' else prev
                continue
            spec = c['variants'][op['variant']]
            lc = last_cache(spec)
            fields = [op['fields']] if isinstance(op['fields'], str) else list(op['fields'])
            ok_res = 'val' in ob['res']
            if lc is not None and not has_byvalue(spec):
                unbounded = lc['t'] in ('disk', 'columns') or lc.get('size') is None
                if unbounded and all(covers(lc, f) for f in fields) and not ob['bad'] and prev is not None and prev[0] == (op['variant'], op['fields'], repr(op['key'])) and prev[1] and ok_res:
                    n += 1
                    if ob['log']:
                        viol.append({'signature': 'oracle:hit-ran-user-functions', 'case': histcorr._slim(c), 'observed': [x[0] for x in ob['log']],
                                     'what': f'history {i}: repeating {op} through a {lc["t"]} cache ran {[x[0] for x in ob["log"]]}'})
                        break
                if lc['t'] == 'ram' and lc.get('size') is not None:
                    kk = repr(op['key'])
                    for f in fields:
                        if not covers(lc, f):
                            continue          # this field does not go through the cache; the others of the same request do
                        key = (op['variant'], builds[op['variant']], f)
                        rec = recency.get(key, [])
                        if len(fields) == 1 and kk in rec[:lc['size']] and ok_res and not ob['bad']:
                            n += 1
                            if ob['log']:
                                viol.append({'signature': 'oracle:lru-recency', 'case': histcorr._slim(c), 'observed': [x[0] for x in ob['log']],
                                             'what': f'history {i}: {op}: the key is among the {lc["size"]} most recently used ones but the call ran user functions'})
                        if ok_res:
                            # a call made while a function was set to raise still touches the table when it succeeds (the function was not needed, or its entry was cached)
                            recency[key] = [kk] + [x for x in rec if x != kk]
                        else:
                            # a failed call may have stored entries of this field before it failed: nothing is claimed about the table until it is rebuilt
                            recency[key] = []
            prev = ((op['variant'], op['fields'], repr(op['key'])), ok_res)
    return viol, n


def lit_mem(c):
    ops = []
    for op, (hit, ln) in zip(c['ops'], c['obs']):
        o = {'set': lambda: f'OSet {op[1]} {op[2]}', 'get': lambda: f'OGet {op[1]}', 'clear': lambda: 'OClear', 'pickle': lambda: 'OPickle'}[op[0]]()
        ops.append(f'({o}, ({"None" if hit is None else "Some " + str(hit)}, {ln}))')
    return f'({"None" if c["size"] is None else "Some " + str(c["size"])}, ' + lib.clist(ops) + ')'


def lit_shard(c):
    keys = sorted(c['keys'])
    size = c['size']
    if size is None:
        size_n = max(len(keys), 1)
    elif isinstance(size, float):
        size_n = math.ceil(size * len(keys))
    else:
        size_n = size
    pos = keys.index(c['key'])
    r = c['res']
    count = r['count']
    return ('{| sh_keys := ' + lib.clist([lib.cstr(k) for k in keys]) + f'; sh_size := {size_n}; sh_pos := {pos}; sh_exp_keys := '
            + lib.clist([lib.cstr(k) for k in r['keys']]) + f'; sh_exp_count := {count}; sh_exp_idx := {r["idx"]} |}}')


def run(ctx):
    r = histcorr.run(ctx, extra=())
    res = histcorr.summarise(r, ('log',), 'C08', [histcorr.oracle_lru_bound, oracle_hits])
    # column caches: not modelled in the VM; oracles only (transparency + hits)
    rc = histcorr.run(dict(ctx, pid=ctx['pid'] + 'col'), n_quick=80, n_thorough=600, extra=('--columns',))
    v, n = histcorr.oracle_transparent(rc['cases'])
    v2, n2 = oracle_hits(rc['cases'])
    res['violations'] += (v + v2)[:3]
    res['violations'] += [{'signature': 'harness-error', 'what': e, 'case': None} for e in rc['errors']]
    res['oracle_checks'] += n + n2
    res['evaluations'] += sum(len(c['ops']) for c in rc['cases'])
    res['distribution']['column_histories'] = len(rc['cases'])
    # MemoryCache operation lists and shard computations against the model
    out = os.path.join(ctx['work'], 'mem.json')
    code, log = lib.run_impl('memcache.py', ['--seed', str(ctx['seed']), '--n', '400' if ctx['tier'] == 'quick' else '4000', '--out', out], 600)
    if code != 0:
        res['violations'].append({'signature': 'harness-error', 'what': log[-800:], 'case': None})
        return res
    d = json.load(open(out))
    shards = lib.write_shards(ctx['pid'], 'mem', ['Values', 'Store', 'CheckLib'], 'option nat * list (mcop * (option nat * nat))',
                              'check_memcache', [lit_mem(c) for c in d['mem']], per=200)
    total, bad, errors = lib.run_shards(shards)
    for i, code in bad[:2]:
        res['violations'].append({'signature': 'corr:memcache', 'case': d['mem'][i],
                                  'what': f'C08: MemoryCache(size={d["mem"][i]["size"]}) and Model/Store.v disagree at operation {code} of list {i}'})
    ok_sh = [c for c in d['shards'] if 'keys' in c['res']]
    sh = lib.write_shards(ctx['pid'], 'shard', ['Values', 'CheckLib', 'ShardGen'], 'shcase', 'check_shard', [lit_shard(c) for c in ok_sh], per=200)
    total2, bad2, errors2 = lib.run_shards(sh)
    for i, code in bad2[:2]:
        res['violations'].append({'signature': 'corr:shard', 'case': ok_sh[i],
                                  'what': f'C08: CachedColumn._get_shard and the regenerated shard arithmetic disagree on {ok_sh[i]}'})
    # direct oracle: the shards of the implementation partition the sorted keys
    for c in d['shards']:
        keys = sorted(c['keys'])
        if c['key'] not in keys:
            if 'exc' not in c['res']:
                res['violations'].append({'signature': 'oracle:shard-unknown-key', 'case': c, 'what': 'unknown key accepted by _get_shard'})
            continue
        if c['key'] not in c['res']['keys'] or any(k not in keys for k in c['res']['keys']):
            res['violations'].append({'signature': 'oracle:shard-content', 'case': c, 'what': f'C08: shard of {c["key"]} is {c["res"]}'})
    for e in errors + errors2:
        res['violations'].append({'signature': 'harness-error', 'what': e, 'case': None})
    res['evaluations'] += total + total2
    res['mismatches'] += len(bad) + len(bad2)
    res['distribution'].update({'memcache_op_lists': total, 'shard_cases': total2})
    from props import relcorr, colreuse
    res = relcorr.memo_oracle(ctx, res, 'C08')
    res = colreuse.add(ctx, res, 'C08')
    from props import colmodel
    res = colmodel.add(ctx, res, 'C08')
    from props import crossproc
    return crossproc.add(ctx, res, 'C08')
