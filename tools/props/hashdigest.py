"""Oracle for HashDigest (C03): what a hash-only field executes."""
import json
import os

import lib


def add(ctx, res, tag):
    n = 60 if ctx['tier'] == 'quick' else 600
    out = os.path.join(ctx['work'], 'hd.json')
    rc, log = lib.run_impl('hashdigest.py', ['--seed', str(ctx['seed']), '--n', str(n), '--out', out], 1500)
    extra, k = [], 0
    if rc != 0:
        extra.append({'signature': 'harness-error', 'what': log[-800:], 'case': None})
    else:
        for i, c in enumerate(json.load(open(out))['cases']):
            for r in c.get('rows', []):
                k += 1
                case = {'spec': c['spec'], 'return_value': c['return_value'], 'field': r['field'], 'key': r['key']}
                if 'exc' in r:
                    extra.append({'signature': 'oracle:hashdigest-fails', 'case': case, 'what': f'{tag}: HashDigest case {i}: {r["field"]}({r["key"]!r}) raised {r["exc"]}'})
                    continue
                want = r['ran_value'] if c['return_value'] else r['ran_get_hash']
                if r['ran'] != want:
                    extra.append({'signature': 'oracle:hashdigest-executes-other-functions', 'case': case, 'observed': r['ran'], 'expected': want,
                                  'what': f'{tag}: HashDigest(return_value={c["return_value"]}) case {i}: {r["field"]}({r["key"]!r}) executed {r["ran"]}, '
                                          f'{"the field itself" if c["return_value"] else "Graph.get_hash"} executes {want}'})
                if not r.get('pickled_ok') or not r.get('hash_equal') or r.get('digest_ok') is False:
                    extra.append({'signature': 'oracle:hashdigest-wrong-digest', 'case': case, 'what': f'{tag}: HashDigest case {i}: hash / pickled hash / digest of {r["field"]}({r["key"]!r}) differ from the field\'s own'})
                if c['return_value'] and r.get('value') != r.get('ref_value'):
                    extra.append({'signature': 'oracle:hashdigest-wrong-value', 'case': case, 'what': f'{tag}: HashDigest case {i}: value of {r["field"]}({r["key"]!r}) differs'})
    per, outv = {}, []
    for x in extra:
        per[x['signature']] = per.get(x['signature'], 0) + 1
        if per[x['signature']] <= 2:
            outv.append(x)
    res['violations'] = list(res.get('violations', [])) + outv
    res['oracle_checks'] = res.get('oracle_checks', 0) + k
    res['evaluations'] = res.get('evaluations', 0) + k
    res['rule'] = res.get('rule', '') + '; plus HashDigest over random cache-free pipelines: executed functions, hash, pickled hash, digest, value'
    return res
