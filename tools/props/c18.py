"""C18: optional fields vanish quietly; required ones fail loudly and by name."""
from props import stackcorr

MODEL_DEPS = ['CheckLib', 'NameLevel']
KERNELS = ('AntiSet', 'Graph', 'connect_bags', 'normalize_bag', 'EdgesBag', 'detect_optionals', 'GraphCompiler', 'ReversibleContainer')
TRUSTED = ['Coq 8.16.1 kernel; vm_compute in case shards and Examples',
           'tools/translate.py: the AntiSet operators (finite / co-finite name sets), Graph.__init__ signature rule',
           'hand-written Model/NameLevel.v (normalize_inherit, normalize_bag rule 3, connect_bags, detect_optionals, _validate_optionals at name level), '
           'tied by the correspondence on generated stacks; GraphFactory._collect_nodes is exercised, not modelled']
ASSUMPTIONS = ['iteration order of Python sets does not matter: the model is stated through membership only']


def run(ctx):
    res = stackcorr.run(ctx, optional=True, brackets=False, pid="C18")
    # an optional field that is quietly left out stays left out when its pipeline becomes one side of an (inner) Join
    from props import relcorr
    rj = relcorr.run(dict(ctx, pid=ctx['pid'] + 'join'), ['join'], n_quick=120, n_thorough=1200)
    res['violations'] = list(res['violations']) + [x for x in rj.get('violations', [])
                                                   if x['signature'] == 'harness-error' or (x.get('case') or {}).get('optional_left')][:2]
    res['oracle_checks'] = res.get('oracle_checks', 0) + rj.get('evaluations', 0)
    return res
