"""Correspondence of Model/Columns.v (over the regenerated CachedColumn.evaluate) with CacheColumns on request sequences, plus the
model-independent oracles on the same sequences: the value of the uncached field or the user's exception, nothing stored by a failed
request, a repeated request runs only the hash pass.  Used by C03, C04, C07, C08."""
import json
import os

import lib


MODES = {'C03': 0, 'C04': 1, 'C07': 1, 'C08': 2, 'C12': 1}
# which model-independent oracles belong to which property
ORACLES_OF = {'C03': ('oracle:column-hit-runs-functions',), 'C08': ('oracle:column-hit-runs-functions',), 'C07': (),
              'C12': ('oracle:column-wrong-value', 'oracle:column-request-fails', 'oracle:failed-column-request-stores'),
              'C04': ('oracle:column-wrong-value', 'oracle:column-request-fails', 'oracle:column-unknown-key', 'oracle:failed-column-request-stores')}


def lit(c, mode):
    names = c['names']
    reqs = []
    for o in c['ops']:
        col = names.index(o['col'])
        r = o['res']
        if 'val' in r:
            exp = 0 if r['val'] == f'${o["col"]}({o["key"]})' else 3
        else:
            exp = {'user': 1, 'value': 2}.get(r['exc'], 3)
        fh = [k for n, k in o['fails'] if n == 'x']
        fv = [(names.index(n), k) for n, k in o['fails'] if n in names]
        reqs.append('{| cq_new := %s; cq_col := %d; cq_key := %s; cq_keys := %s; cq_size := %s; cq_fail_h := %s; cq_fail_v := %s; '
                    'cq_exp := %d; cq_log := %s; cq_disk := %d |}' % (
                        'true' if o['new'] else 'false', col, lib.cstr(o['key']), lib.clist([lib.cstr(k) for k in o['keys']]),
                        'None' if o['size'] is None else f'Some {o["size"]}', lib.clist([lib.cstr(k) for k in fh]),
                        lib.clist([f'({c_}, {lib.cstr(k)})' for c_, k in fv]), exp, lib.clist([lib.cstr(x) for x in o['log']]), o['disk']))
    return f'({mode}, ' + lib.clist([lib.cstr(n) for n in names]) + ', ' + lib.clist(reqs) + ')'


def oracles(cases, tag):
    """model-independent: (a) a request of a known key returns the uncached value unless a function it needs raises; (b) a failed request
    stores nothing on disk; (c) the same request repeated right away on the same pipeline object runs the hash pass of its entry only"""
    viol, n = [], 0
    for i, c in enumerate(cases):
        prev = None
        disk = 0
        for j, o in enumerate(c['ops']):
            r = o['res']
            known = o['key'] in o['keys']
            n += 1
            slim = {'orders': c['orders'], 'names': c['names'], 'shard': c['shard'], 'ops': c['ops'][:j + 1]}
            if 'val' in r and r['val'] != f'${o["col"]}({o["key"]})':
                viol.append({'signature': 'oracle:column-wrong-value', 'case': slim, 'observed': r,
                             'what': f'{tag}: column sequence {i}, request {j}: {o["col"]}({o["key"]}) through CacheColumns returned {r["val"]}'})
            if known and 'exc' in r and not (r['exc'] == 'user' and o['fails']):
                viol.append({'signature': 'oracle:column-request-fails', 'case': slim, 'observed': r,
                             'what': f'{tag}: column sequence {i}, request {j}: {o["col"]}({o["key"]}) with the functions {o["fails"]} raising gives {r}'})
            if not known and r.get('exc') != 'value' and not (r.get('exc') == 'user' and o['fails']):
                viol.append({'signature': 'oracle:column-unknown-key', 'case': slim, 'observed': r,
                             'what': f'{tag}: column sequence {i}, request {j}: the key {o["key"]} is not among the ids {o["keys"]} but the request gives {r}'})
            if 'exc' in r and o['disk'] != disk:
                viol.append({'signature': 'oracle:failed-column-request-stores', 'case': slim, 'observed': {'before': disk, 'after': o['disk']},
                             'what': f'{tag}: column sequence {i}, request {j} failed ({r}) but the number of disk entries went from {disk} to {o["disk"]}'})
            if prev is not None and not o['new'] and prev == (o['col'], o['key'], o['variant']) and 'val' in r and not o['fails']:
                if o['log'] != [f'x:{o["key"]}']:
                    viol.append({'signature': 'oracle:column-hit-runs-functions', 'case': slim, 'observed': o['log'],
                                 'what': f'{tag}: column sequence {i}, request {j} repeats request {j - 1} on the same pipeline object and ran {o["log"]}'})
            prev = (o['col'], o['key'], o['variant']) if 'val' in r else None
            disk = o['disk']
    return viol, n


def add(ctx, res, tag, n_quick=150, n_thorough=1500):
    n = n_quick if ctx['tier'] == 'quick' else n_thorough
    out = os.path.join(ctx['work'], 'colmodel.json')
    rc, log = lib.run_impl('colmodel.py', ['--seed', str(ctx['seed']), '--n', str(n), '--out', out, '--work', os.path.join(ctx['work'], 'cmw')], 1500)
    extra = []
    k = 0
    if rc != 0:
        extra.append({'signature': 'harness-error', 'what': log[-800:], 'case': None})
    else:
        cases = json.load(open(out))['cases']
        v, k = oracles(cases, tag)
        extra += [x for x in v if x['signature'] in ORACLES_OF.get(tag, ())]
        shards = lib.write_shards(ctx['pid'], 'colmodel', ['Values', 'ColStore', 'CheckLib'], 'nat * list string * list colreq', 'check_columns',
                                  [lit(c, MODES.get(tag, 0)) for c in cases], per=100)
        total, bad, errors = lib.run_shards(shards)
        for i, code in bad[:2]:
            c = cases[i]
            o = c['ops'][code - 1]
            extra.append({'signature': 'corr:columns', 'case': {'orders': c['orders'], 'names': c['names'], 'shard': c['shard'], 'ops': c['ops'][:code]},
                          'observed': {'res': o['res'], 'log': o['log'], 'disk': o['disk']},
                          'what': f'{tag}: CacheColumns and Model/Columns.v disagree (' + {0: 'outcome, calls in order, disk entries', 1: 'outcome, disk entries', 2: 'outcome, hit or miss'}[MODES.get(tag, 0)] + f') at request {code - 1} of sequence {i}: {o["col"]}({o["key"]}) over the ids '
                                  f'{o["keys"]} (shard size {o["size"]}, raising: {o["fails"]}) gave {o["res"]}, ran {o["log"]} and left {o["disk"]} disk entries'})
        for e in errors:
            extra.append({'signature': 'harness-error', 'what': e, 'case': None})
        res['mismatches'] = res.get('mismatches', 0) + len(bad)
        res['evaluations'] = res.get('evaluations', 0) + sum(len(c['ops']) for c in cases)
        dist = res.setdefault('distribution', {})
        ops = [o for c in cases for o in c['ops']]
        dist['column_requests'] = {'sequences': len(cases), 'requests': len(ops), 'hits': sum(1 for o in ops if o['log'] == [f'x:{o["key"]}']),
                                   'user_exceptions': sum(1 for o in ops if o['res'].get('exc') == 'user'),
                                   'unknown_keys': sum(1 for o in ops if o['res'].get('exc') == 'value'),
                                   'rebuilds': sum(1 for o in ops if o['new']),
                                   'shard_sizes': sorted({str(c['shard']) for c in cases})}
    per, outv = {}, []
    for x in extra:
        per[x['signature']] = per.get(x['signature'], 0) + 1
        if per[x['signature']] <= 2:
            outv.append(x)
    res['violations'] = list(res.get('violations', [])) + outv
    res['oracle_checks'] = res.get('oracle_checks', 0) + k
    res['rule'] = res.get('rule', '') + ('; plus request sequences through CacheColumns (1-3 columns over a hash-by-value parameter, shard size None / int / float, '
                                         'three orders or a superset of the ids, rebuilt pipelines over the same folders, user functions raising for single keys, unknown keys) '
                                         'against Model/Columns.v: ' + {0: 'outcome, calls of the user functions in order, number of disk entries', 1: 'outcome and number of disk entries', 2: 'outcome and hit / miss'}[MODES.get(tag, 0)])
    return res
