"""C06: static graph hashes of dataset-wide layers identify the function they key."""
import json
import os

import lib
from props import enginecorr

MODEL_DEPS = ['CheckLib']
KERNELS = ('SwitchEdge', 'SwitchBranch', 'SwitchMissing', 'FilterEdge', 'GroupEdge', 'GroupMapping', 'JoinMapping', 'SplitMapping',
           'StaticGraph', 'ComputableHashEdge', 'ImpureEdge', 'HashBarrier', 'ConstantEdge', 'CachedColumn', 'hash_graph', '_PLACEHOLDER')
TRUSTED = ['Coq 8.16.1 kernel; vm_compute in case shards and the Example',
           'tools/translate.py: every _hash_graph / _make_hash body, hash_graph (memoised, placeholder for the inputs), _PLACEHOLDER',
           'Graph.hash() of every generated engine case is compared with Model/GraphHashModel.v (hash terms)',
           'pickler/digest injectivity on hash values is trusted']
ASSUMPTIONS = ['single-input sub-pipelines (the only ones Graph.hash() is used for in the layers)']


def fam_oracle(families):
    viol, n = [], 0
    for fi, f in enumerate(families):
        recs = [r for r in f['family'] if 'error' not in r]
        for i, a in enumerate(recs):
            for b in recs[i + 1:]:
                n += 1
                same = json.dumps(a['graph_hash'], sort_keys=True) == json.dumps(b['graph_hash'], sort_keys=True)
                if same and a['values'] != b['values']:
                    viol.append({'signature': 'oracle:graph-hash-collision', 'case': {'a': a['spec'], 'b': b['spec'], 'field': a['field'], 'kinds': [a['kind'], b['kind']]},
                                 'observed': {'values_a': a['values'], 'values_b': b['values']},
                                 'what': f'C06: family {fi}: the {a["kind"]} and {b["kind"]} sub-pipelines have equal static hashes for "{a["field"]}" but compute different functions of the id'})
                same_ids = json.dumps(a['ids_hash'], sort_keys=True) == json.dumps(b['ids_hash'], sort_keys=True)
                if same_ids and a['ids'] != b['ids']:
                    viol.append({'signature': 'oracle:filter-ids-collision', 'case': {'a': a['spec'], 'b': b['spec'], 'field': a['field'], 'kinds': [a['kind'], b['kind']]},
                                 'observed': {'ids_a': a['ids'], 'ids_b': b['ids']},
                                 'what': f'C06: family {fi}: Filter over the {a["kind"]} and {b["kind"]} sub-pipelines gives equal node hashes of ids but different ids {a["ids"]} / {b["ids"]}'})
                if a['kind'] == 'base' and b['kind'] == 'rebuilt' and not same:
                    viol.append({'signature': 'oracle:rebuilt-hash-differs', 'case': {'a': a['spec'], 'field': a['field']},
                                 'what': f'C06: family {fi}: rebuilding the same sub-pipeline changes its static hash'})
    return viol, n


def run(ctx):
    r = enginecorr.run(ctx, n_quick=900)
    res = enginecorr.summarise(r, ('graph_hash',), 'C06')
    out = os.path.join(ctx['work'], 'gh.json')
    rc, log = lib.run_impl('graphhash.py', ['--seed', str(ctx['seed']), '--n', '150' if ctx['tier'] == 'quick' else '1500', '--out', out], 900)
    if rc != 0:
        res['violations'].append({'signature': 'harness-error', 'what': log[-800:], 'case': None})
        return res
    fams = json.load(open(out))['families']
    errs = [r_['error'] for f in fams for r_ in f['family'] if 'error' in r_]
    if errs:
        res['violations'].append({'signature': 'harness-error', 'what': 'sub-pipelines failed to build: ' + errs[0], 'case': None})
    v, n = fam_oracle(fams)
    res['violations'] = v[:3] + res['violations']
    res['oracle_checks'] = n
    res['evaluations'] += sum(len(f['family']) for f in fams)
    res['distribution']['families'] = len(fams)
    kinds = {}
    for f in fams:
        for r_ in f['family']:
            kinds[r_['kind']] = kinds.get(r_['kind'], 0) + 1
    res['distribution']['variant_kinds'] = kinds
    res['samples'] = res['samples'][:1] + [{'family_kinds': [r_['kind'] for r_ in fams[0]['family']], 'base_spec': fams[0]['family'][0]['spec']}]
    from props import collide
    return collide.add(ctx, res, 'C06')

