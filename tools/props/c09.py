"""C09: chaining is associative and never mutates or couples its operands."""
from props import stackcorr

MODEL_DEPS = ['CheckLib', 'NameLevel']
KERNELS = ('AntiSet', 'Graph', 'connect_bags', 'normalize_bag', 'EdgesBag')
TRUSTED = ['Coq 8.16.1 kernel; vm_compute in case shards and Examples',
           'tools/translate.py: the AntiSet operators (finite / co-finite name sets), Graph.__init__ signature rule',
           'hand-written Model/NameLevel.v (normalize_inherit, normalize_bag rule 3, connect_bags, detect_optionals, _validate_optionals at name level), '
           'tied by the correspondence on generated stacks; GraphFactory._collect_nodes is exercised, not modelled']
ASSUMPTIONS = ['iteration order of Python sets does not matter: the model is stated through membership only']


def run(ctx):
    res = stackcorr.run(ctx, optional=True, brackets=True, pid="C09", n_quick=250)
    # what a layer object accepts must not depend on the pipelines it was part of before (the construction-form oracle of C13)
    from props import c13
    r13 = c13.run(dict(ctx, pid=ctx['pid'] + 'imp'))
    res['violations'] = list(res['violations']) + [x for x in r13.get('violations', []) if x['signature'] in ('oracle:impure-outcome-depends-on-construction', 'harness-error')][:2]
    res['oracle_checks'] = res.get('oracle_checks', 0) + r13.get('evaluations', 0)
    return res
