"""C20: building, compiling and calling a pipeline cost time polynomial in its size."""
import json
import os

import lib
from props import enginecorr

MODEL_DEPS = ['CheckLib']
KERNELS = ('validate_graph', 'count_entries', 'hash_graph', 'find_dependencies', 'detect_cycles', 'CacheLayer', 'TreeNode', 'Graph', 'execute')
TRUSTED = ['Coq 8.16.1 kernel; vm_compute in the Example',
           'tools/translate.py: the traversal shapes (is there a membership guard on a visited/memo container that the node is added to)',
           'Python-level call counts inside the connectome package (sys.setprofile) at sizes k and 2k: a measurement, not a proof',
           'time spent inside CPython tuple hashing / comparison is not countable from Python (finding F4b is observed as CPU time)']
ASSUMPTIONS = ['the cost of a traversal is the number of visitor calls; normalize_bag re-running on every connection is the legitimate quadratic term']
LIMIT = 8.0


def run(ctx):
    quick = ctx['tier'] == 'quick'
    # the machine itself: every generated call finishes within 60*(V+E)+60 steps of the model (checked by the engine correspondence)
    r = enginecorr.run(ctx, n_quick=400, n_thorough=4000)
    res = enginecorr.summarise(r, ('counts',), 'C20')
    out = os.path.join(ctx['work'], 'cost.json')
    k = 8 if quick else 11
    rc, log = lib.run_impl('cost.py', ['--k', str(k), '--out', out, '--work', os.path.join(ctx['work'], 'cw')], 1500)
    if rc != 0:
        res['violations'].append({'signature': 'harness-error', 'what': log[-800:], 'case': None})
        return res
    data = json.load(open(out))
    rows, deep = data['rows'], data.get('deep', [])
    by = {}
    gave_up = [r for r in rows + deep if r.get('gave_up_in')]
    for r in gave_up[:2]:
        smaller = [x for x in rows + deep if x['family'] == r['family'] and x['k'] < r['k'] and not x.get('gave_up_in')]
        res['violations'].append({'signature': f'oracle:superpolynomial-{r["gave_up_in"].replace(" ", "-")}', 'case': {'family': r['family'], 'k': r['k']},
                                  'observed': {'row': r, 'smaller': smaller},
                                  'what': f'C20: the {r["gave_up_in"]} of the {r["family"]} family at k={r["k"]} was abandoned after 40 s'
                                          + (f' (at k={smaller[-1]["k"]} the phases take {smaller[-1]["wall_s"]} s)' if smaller else '')})
    if gave_up:
        res['oracle_checks'] = len(rows)
        res['evaluations'] += len(rows)
        return res
    for row in rows:
        by.setdefault(row['family'], {})[row['k']] = row
    n = 0
    for fam, d in by.items():
        a, b = d[k], d[2 * k]
        for phase in ('build', 'compile', 'call'):
            n += 1
            ratio = b[phase] / max(a[phase], 1)
            if ratio > LIMIT:
                res['violations'].append({'signature': f'oracle:superpolynomial-{phase}', 'case': {'family': fam, 'k': [k, 2 * k]},
                                          'observed': {'calls_k': a[phase], 'calls_2k': b[phase]},
                                          'what': f'C20: {phase} of the {fam} family takes {a[phase]} library calls at k={k} and {b[phase]} at k={2 * k} '
                                                  f'(x{ratio:.1f}; at most x4 for a quadratic cost, limit x{LIMIT:.0f})'})
    # F4b: CPU time of a repeated call through CacheToRam on the Crop pattern
    ram, plain = by['crop+ram'], by['crop']
    n += 1
    if ram[2 * k]['cpu_repeat_call_s'] > 8 * ram[k]['cpu_repeat_call_s'] and ram[2 * k]['cpu_repeat_call_s'] > 3 * plain[2 * k]['cpu_repeat_call_s']:
        res['violations'].append({'signature': 'F4b:ram-key-hashing-exponential', 'case': {'family': 'crop+ram', 'k': [k, 2 * k]},
                                  'observed': {'cpu_k': ram[k]['cpu_repeat_call_s'], 'cpu_2k': ram[2 * k]['cpu_repeat_call_s'], 'cpu_2k_no_cache': plain[2 * k]['cpu_repeat_call_s']},
                                  'what': 'C20: a repeated call through CacheToRam on k stacked Crop layers'})
    # the same for the other families with a cache or a keyed layer: CPU time of a repeated call (time spent inside CPython comparing or hashing
    # nested hash values is not visible in call counts)
    for fam in ('crop+disk', 'crop+filter', 'crop+groupby', 'chain+ram', 'fanin+ram'):
        d = by[fam]
        n += 1
        t1, t2 = d[k]['cpu_repeat_call_s'], d[2 * k]['cpu_repeat_call_s']
        if t2 > 0.05 and t2 > 16 * max(t1, 1e-4) and t2 > 5 * plain[2 * k]['cpu_repeat_call_s']:
            res['violations'].append({'signature': 'oracle:superpolynomial-cpu-of-repeated-call', 'case': {'family': fam, 'k': [k, 2 * k]},
                                      'observed': {'cpu_k': t1, 'cpu_2k': t2, 'cpu_2k_no_cache': plain[2 * k]['cpu_repeat_call_s']},
                                      'what': f'C20: a repeated call of the {fam} family takes {t1:.4f} s CPU at k={k} and {t2:.4f} s at k={2 * k} (x{t2 / max(t1, 1e-4):.0f}; '
                                              f'at most x4 for a quadratic cost)'})
    if len(deep) == 2:
        n += 1
        t1, t2 = deep[0]['cpu_repeat_call_s'], deep[1]['cpu_repeat_call_s']
        if t2 > 0.05 and t2 > 16 * max(t1, 1e-4):
            res['violations'].append({'signature': 'oracle:superpolynomial-cpu-of-repeated-call', 'case': {'family': 'crop+disk', 'k': [deep[0]['k'], deep[1]['k']]},
                                      'observed': {'cpu_k': t1, 'cpu_2k': t2},
                                      'what': f'C20: a repeated call through CacheToDisk on {deep[1]["k"]} stacked Crop layers takes {t2:.3f} s CPU, on {deep[0]["k"]} layers {t1:.4f} s '
                                              f'(x{t2 / max(t1, 1e-4):.0f}; at most x4 for a quadratic cost)'})
    res['oracle_checks'] = n
    res['evaluations'] += len(rows)
    res['distribution']['families'] = sorted(by)
    res['distribution']['sizes'] = [k, 2 * k]
    res['distribution']['library_calls'] = {f: {str(kk): {p: d[kk][p] for p in ('build', 'compile', 'call')} for kk in d} for f, d in by.items()}
    res['samples'] = res['samples'][:1] + [rows[0]]
    return res
