"""C20: building, compiling and calling a pipeline cost time polynomial in its size."""
import json
import os

import lib
from props import enginecorr

MODEL_DEPS = ['CheckLib']
KERNELS = ('validate_graph', 'count_entries', 'hash_graph', 'find_dependencies', 'detect_cycles', 'CacheLayer', 'TreeNode', 'Graph')
TRUSTED = ['Coq 8.16.1 kernel; vm_compute in the Example',
           'tools/translate.py: the traversal shapes (is there a membership guard on a visited/memo container that the node is added to)',
           'Python-level call counts inside the connectome package (sys.setprofile) at sizes k and 2k: a measurement, not a proof',
           'time spent inside CPython tuple hashing / comparison is not countable from Python (finding F4b is observed as CPU time)']
ASSUMPTIONS = ['the cost of a traversal is the number of visitor calls; normalize_bag re-running on every connection is the legitimate quadratic term']
LIMIT = 8.0


def run(ctx):
    quick = ctx['tier'] == 'quick'
    # the machine itself: every generated call finishes within 60*(V+E)+60 steps of the model (checked by the engine correspondence)
    r = enginecorr.run(ctx, n_quick=400, n_thorough=4000)
    res = enginecorr.summarise(r, ('counts',), 'C20')
    out = os.path.join(ctx['work'], 'cost.json')
    k = 8 if quick else 11
    rc, log = lib.run_impl('cost.py', ['--k', str(k), '--out', out, '--work', os.path.join(ctx['work'], 'cw')], 1500)
    if rc != 0:
        res['violations'].append({'signature': 'harness-error', 'what': log[-800:], 'case': None})
        return res
    rows = json.load(open(out))['rows']
    by = {}
    for row in rows:
        by.setdefault(row['family'], {})[row['k']] = row
    n = 0
    for fam, d in by.items():
        a, b = d[k], d[2 * k]
        for phase in ('build', 'compile', 'call'):
            n += 1
            ratio = b[phase] / max(a[phase], 1)
            if ratio > LIMIT:
                res['violations'].append({'signature': f'oracle:superpolynomial-{phase}', 'case': {'family': fam, 'k': [k, 2 * k]},
                                          'observed': {'calls_k': a[phase], 'calls_2k': b[phase]},
                                          'what': f'C20: {phase} of the {fam} family takes {a[phase]} library calls at k={k} and {b[phase]} at k={2 * k} '
                                                  f'(x{ratio:.1f}; at most x4 for a quadratic cost, limit x{LIMIT:.0f})'})
    # F4b: CPU time of a repeated call through CacheToRam on the Crop pattern
    ram, plain = by['crop+ram'], by['crop']
    n += 1
    if ram[2 * k]['cpu_repeat_call_s'] > 8 * ram[k]['cpu_repeat_call_s'] and ram[2 * k]['cpu_repeat_call_s'] > 3 * plain[2 * k]['cpu_repeat_call_s']:
        res['violations'].append({'signature': 'F4b:ram-key-hashing-exponential', 'case': {'family': 'crop+ram', 'k': [k, 2 * k]},
                                  'observed': {'cpu_k': ram[k]['cpu_repeat_call_s'], 'cpu_2k': ram[2 * k]['cpu_repeat_call_s'], 'cpu_2k_no_cache': plain[2 * k]['cpu_repeat_call_s']},
                                  'what': 'C20: a repeated call through CacheToRam on k stacked Crop layers'})
    res['oracle_checks'] = n
    res['evaluations'] += len(rows)
    res['distribution']['families'] = sorted(by)
    res['distribution']['sizes'] = [k, 2 * k]
    res['distribution']['library_calls'] = {f: {str(kk): {p: d[kk][p] for p in ('build', 'compile', 'call')} for kk in d} for f, d in by.items()}
    res['samples'] = res['samples'][:1] + [rows[0]]
    return res
