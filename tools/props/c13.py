"""C13: impure functions are never cached or keyed unless explicitly allowed."""
import json
import os

import lib

MODEL_DEPS = ['CheckLib', 'Impure']
KERNELS = ('CacheLayer', 'ImpureEdge', 'hash_graph', 'StaticGraph', 'ComputableHashEdge')
TRUSTED = ['Coq 8.16.1 kernel; vm_compute in case shards and the Example',
           'tools/translate.py: the rule of CacheLayer._detect_impure (raise on ImpureEdge, visit every parent, memoised), ImpureEdge._hash_graph (raises)',
           'the compiled graphs of the real pipelines are extracted and given to the model; the wiring of the Impure wrapper is what was extracted']
ASSUMPTIONS = ['@hash_by_value on top of @impure is outside the quantifier (its hash generator does not terminate)']


def run(ctx):
    n = 300 if ctx['tier'] == 'quick' else 2500
    out = os.path.join(ctx['work'], 'imp.json')
    rc, log = lib.run_impl('impure.py', ['--seed', str(ctx['seed']), '--n', str(n), '--out', out, '--work', os.path.join(ctx['work'], 'iw')], 1800)
    if rc != 0:
        return {'evaluations': 0, 'distinct_nontrivial': 0, 'rule': '', 'samples': [],
                'violations': [{'signature': 'harness-error', 'what': log[-800:], 'case': None}]}
    cases = json.load(open(out))['cases']
    lits, idx, viol = [], [], []
    for i, c in enumerate(cases):
        gs = [g for g in c['graphs'].values() if 'nodes' in g]
        if len(gs) != len(c['graphs']):
            viol.append({'signature': 'harness-error', 'what': f'case {i}: graph extraction unsupported: {c["graphs"]}', 'case': None})
            continue
        keyed = c['kind'] in ('filter', 'groupby', 'join')
        lits.append('{| im_graphs := ' + lib.clist([f'({lib.cgraph(g["nodes"])}, {g["out"]})' for g in gs])
                    + f'; im_flag := {str(bool(c["flag"])).lower()}; im_keyed := {str(keyed).lower()}; im_raised := {str(c["raised"] is not None).lower()} |}}')
        idx.append(i)
        # the kind of error: a ValueError from a cache layer, a HashError from a keyed layer
        if c['raised'] is not None and c['raised'] not in ('ValueError', 'HashError'):
            viol.append({'signature': 'oracle:impure-unexpected-error', 'case': {k: c[k] for k in ('spec', 'final', 'where')},
                         'what': f'C13: case {i}: connecting {c["final"]} raised {c["raised"]}'})
    # the outcome must not depend on how the same layers were put together (nested blocks attached later, layer objects reused)
    n_forms = 0
    for i, c in enumerate(cases):
        for name, r in (c.get('forms') or {}).items():
            n_forms += 1
            if (r is None) != (c['raised'] is None):
                viol.append({'signature': 'oracle:impure-outcome-depends-on-construction', 'case': {k: c[k] for k in ('spec', 'final', 'where', 'flag')},
                             'observed': {'flat': c['raised'], name: r},
                             'what': f'C13: case {i}: the flat chain spec + [{c["final"]["t"]}] ' + ('is rejected' if c['raised'] else 'builds')
                                     + f' but the same layers combined as "{name}" ' + ('are rejected' if r else 'build')})
    shards = lib.write_shards(ctx['pid'], 'imp', ['Values', 'Edges', 'Impure', 'CheckLib'], 'imp_case', 'check_impure', lits, per=100)
    total, bad, errors = lib.run_shards(shards)
    for e in errors:
        viol.append({'signature': 'harness-error', 'what': e, 'case': None})
    for j, code in bad[:3]:
        c = cases[idx[j]]
        viol.append({'signature': 'corr:impure-build-outcome', 'case': {k: c[k] for k in ('spec', 'final', 'where', 'flag', 'kind')},
                     'observed': c['raised'],
                     'what': f'C13: case {idx[j]}: an @impure function at "{c["where"]}", final layer {c["final"]}: the build '
                             + ('was rejected' if c['raised'] else 'succeeded') + ' but the model (reachability of an impure edge from the touched fields) says the opposite'})
    kinds = {}
    for c in cases:
        k = f'{c["kind"]}:{"rejected" if c["raised"] else "accepted"}'
        kinds[k] = kinds.get(k, 0) + 1
    return {'evaluations': len(cases), 'distinct_nontrivial': len({lib.case_hash([c['spec'], c['final']]) for c in cases}),
            'rule': 'random stacks (Source or Merge, 1-3 Transforms, sometimes nested in a Chain) with one @impure function as source-level field, '
                    'transform field, private parameter or inside a Merge branch (or none), followed by CacheToRam (names / all), CacheToDisk, '
                    'CacheColumns, Filter or GroupBy, with and without impure=True; the graphs of the touched fields are extracted from the real '
                    'prefix pipeline and the model predicts whether connecting the final layer is rejected',
            'samples': [{k: cases[0][k] for k in ('spec', 'final', 'where', 'flag', 'raised')}],
            'distribution': kinds, 'violations': viol, 'oracle_checks': len(cases), 'mismatches': len(bad)}
