"""C16: dataset-wide layer(s) join."""
from props import relcorr

MODEL_DEPS = ['CheckLib', 'Relational']
KERNELS = ('SwitchEdge', 'CheckIdsEdge', 'ids_maker', 'id_maker', 'FilterEdge', 'GroupEdge', 'GroupMapping', 'JoinMapping', 'SplitMapping', 'Merge', 'Filter', '_among', '_not_among', '_sorted_keys', 'reverse_func', 'slice_dict')
TRUSTED = ['Coq 8.16.1 kernel; vm_compute in case shards and Examples',
           'hand-written Model/Relational.v (from the evaluate() bodies), tied by the correspondence on generated id sets',
           'tools/translate.py: SwitchEdge generators, CheckIdsEdge._evaluate, ids_maker / id_maker (whole-body patterns)']
ASSUMPTIONS = ['user functions (predicates, key and split functions) are arbitrary total functions given as tables',
               'sorted() on ASCII strings is String.compare order']


def run(ctx):
    return relcorr.run(ctx, 'join'.split(','))
