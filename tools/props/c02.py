"""C02: field resolution across layers: define, inherit, drop - never a stale field."""
from props import stackcorr, multifield

MODEL_DEPS = ['CheckLib', 'NameLevel']
KERNELS = ('AntiSet', 'Graph', 'connect_bags', 'normalize_bag', 'EdgesBag')
TRUSTED = ['Coq 8.16.1 kernel; vm_compute in case shards and Examples',
           'tools/translate.py: the AntiSet operators (finite / co-finite name sets), Graph.__init__ signature rule',
           'hand-written Model/NameLevel.v (normalize_inherit, normalize_bag rule 3, connect_bags, detect_optionals, _validate_optionals at name level), '
           'tied by the correspondence on generated stacks; GraphFactory._collect_nodes is exercised, not modelled']
ASSUMPTIONS = ['iteration order of Python sets does not matter: the model is stated through membership only']


def run(ctx):
    res = stackcorr.run(ctx, optional=False, brackets=False, pid='C02')
    return multifield.add(ctx, res, 'C02')
