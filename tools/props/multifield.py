"""Oracle shared by C01 and C02: multi-field requests on one pipeline object return single-field values in request order."""
import json
import os

import lib


def run(ctx, viol, tag):
    n = 80 if ctx['tier'] == 'quick' else 800
    out = os.path.join(ctx['work'], 'mf.json')
    rc, log = lib.run_impl('multifield.py', ['--seed', str(ctx['seed']), '--n', str(n), '--out', out], 1500)
    if rc != 0:
        viol.append({'signature': 'harness-error', 'what': log[-800:], 'case': None})
        return 0
    cases = json.load(open(out))['cases']
    k = 0
    for i, c in enumerate(cases):
        if c.get('single_failures'):
            viol.append({'signature': 'oracle:field-call-fails', 'case': {'spec': c['spec']}, 'observed': {f: c['singles'][f] for f in c['single_failures']},
                         'what': f'{tag}: layer {c["spec"]}: calling the fields {c["single_failures"]} with their inputs passed by keyword raised '
                                 f'{[c["singles"][f]["exc"] for f in c["single_failures"]]}'})
        for r in c['requests']:
            k += 1
            if r.get('repeated') and tag == 'C03':
                viol.append({'signature': 'oracle:multi-field-request-runs-a-function-twice', 'case': {'spec': c['spec'], 'key': c['key'], 'fields': r['fields'], 'how': r['how']},
                             'observed': r['repeated'],
                             'what': f'{tag}: pipeline {i}: ONE request of the fields {r["fields"]} (' + ('layer._compile(fields)(key)' if r['how'] == 'compile' else 'layer(key)[fields]')
                                     + f') ran user functions more than once on the same arguments: {r["repeated"]}'})
            if tag == 'C03':
                continue
            exp = {'t': [c['singles'][f]['val'] for f in r['fields']]}
            if r.get('val') != exp:
                viol.append({'signature': 'oracle:multi-field-request-order', 'case': {'spec': c['spec'], 'key': c['key'], 'fields': r['fields'], 'how': r['how'],
                                                                                     'earlier_requests': [x['fields'] for x in c['requests'][:c['requests'].index(r)]]},
                             'observed': r.get('val', r.get('exc')), 'expected': exp,
                             'what': f'{tag}: pipeline {i}: the request {r["fields"]} on a layer that was asked '
                                     f'{[x["fields"] for x in c["requests"][:c["requests"].index(r)]]} before returned '
                                     f'{json.dumps(r.get("val", r.get("exc")))[:200]} instead of the single-field values in the order of the request'})
    return k


def add(ctx, res, tag):
    """run the oracle and merge its findings into the result of a check"""
    extra = []
    k = run(ctx, extra, tag)
    res['violations'] = list(res.get('violations', [])) + extra[:2]
    res['evaluations'] = res.get('evaluations', 0) + k
    res['oracle_checks'] = res.get('oracle_checks', 0) + k
    res['rule'] = res.get('rule', '') + '; plus multi-field requests in several orders on one pipeline object against the single-field values'
    return res
