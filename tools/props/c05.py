"""C05: equal node hash implies equal computation (no false cache hit)."""
import json

from props import enginecorr

MODEL_DEPS = ['CheckLib']
KERNELS = ('LeafHash', 'ApplyHash', 'GraphHash', 'CustomHash', 'NodeHash', 'FunctionEdge', 'StaticGraph', 'ConstantEdge', 'IdentityEdge',
           'ProductEdge', 'CacheEdge', 'HashBarrier', 'ComputableHashBase', 'SwitchEdge', 'CheckIdsEdge')
TRUSTED = ['Coq 8.16.1 kernel; vm_compute in case shards and Examples',
           'tools/translate.py: every _make_hash / _compute_hash / _hash_graph body and the value tuples of node_hash.py',
           'injectivity of tarn.pickler.dumps + sha256 on hash values is trusted (digest = identity on hash terms in the model)',
           'the model hashes of every generated case are compared with Graph.get_hash of the real engine (hash terms, functions by name)']
ASSUMPTIONS = ['symbolic functions: two different expression trees are different computations',
               'External markers and Silent arguments are exempt by the property text; Silent is characterised by C05_silent_only']


def oracle_pairs(cases, mutants):
    """direct oracle on the implementation: among a case and its single-step mutants, equal output hash => equal value"""
    viol, n = [], 0
    for m in mutants:
        base = cases[m['mutant_of']]
        ob, om = base['obs'][0], m['obs'][0]
        if 'exc' in (ob['hash'] or {'exc': 1}) or 'exc' in (om['hash'] or {'exc': 1}):
            continue
        if base['calls'][0]['bad']:
            continue
        # Silent arguments are exempt by design: skip pairs whose graphs mark any argument Silent
        def has_silent(c):
            return any((d.get('sil') or (d.get('inner') or {}).get('sil')) for d in c['nodes'])
        if has_silent(base) or has_silent(m):
            continue
        n += 1
        same_hash = json.dumps(ob['hash'], sort_keys=True) == json.dumps(om['hash'], sort_keys=True)
        if same_hash and 'val' in ob['res'] and 'val' in om['res'] and ob['res'] != om['res']:
            viol.append({'signature': 'oracle:hash-collision', 'case': {'base': base['nodes'], 'mutant': m['nodes'], 'mutation': m['mutation'],
                                                                           'out': base['out'], 'inputs': base['calls'][0]['ins']},
                         'observed': {'hash': ob['hash'], 'value_base': ob['res'], 'value_mutant': om['res']},
                         'what': f'C05: mutating node {m["mutation"]["node"]} ({m["mutation"]["kind"]}) changes the value of the output but not its node hash'})
    return viol, n


def run(ctx):
    r = enginecorr.run(ctx, mutants=2 if ctx['tier'] == 'quick' else 4)
    res = enginecorr.summarise(r, ('hash',), 'C05')
    v, n = oracle_pairs(r['cases'], r['mutants'])
    res['violations'] = v[:3] + res['violations']
    res['oracle_checks'] = n
    res['distribution']['mutant_pairs'] = n
    res['distribution']['mutation_kinds'] = {}
    for m in r['mutants']:
        k = m['mutation']['kind']
        res['distribution']['mutation_kinds'][k] = res['distribution']['mutation_kinds'].get(k, 0) + 1
    from props import collide
    return collide.add(ctx, res, 'C05')

